(** C19, proof audit: the provider as an OPEN system (Model/TmplOpen.v) - goroutines arrive at any
    time, callers execute what they got while others are still building - and what follows for
    it: specified answers, no panic, no race, no deadlock, termination of every bounded-fair
    continuation; and the answers depend on the directories a request names only. *)
From GC Require Import Common.Base Model.Tmpl Model.TmplOpen Proofs.Tmpl.
From Coq Require Import Lia.
Local Open Scope nat_scope.

(* ------------------------------------------------------------------------------------------ *)
(** * 0. Generic facts about the open system *)

Lemma xrun_app fl c fs a b s : xrun fl c fs (a ++ b) s = xrun fl c fs b (xrun fl c fs a s).
Proof. unfold xrun. apply fold_left_app. Qed.

Lemma exec_of_thr s t : cthr (exec_of s t) = cthr s.
Proof.
  unfold exec_of. destruct (nth_error (cthr s) t) as [[q st|q r|q [i| |]]|]; reflexivity.
Qed.

(** An invariant of the threads alone that every step preserves and every newcomer satisfies is
    an invariant of the open system. *)
Lemma xrun_inv (P : cstate -> Prop) fl c fs :
  (forall s t s', P s -> cstep fl c fs s t = Some s' -> P s') ->
  (forall s t, P s -> P (exec_of s t)) ->
  (forall s q, P s -> P (spawn fl s q)) ->
  forall acts s, P s -> P (xrun fl c fs acts s).
Proof.
  intros Hstep Hexec Hspawn. induction acts as [|a acts IH]; intros s H; simpl; auto.
  apply IH. destruct a as [q|t|t]; simpl; auto.
  unfold crun_step. destruct (cstep fl c fs s t) eqn:E; auto. eapply Hstep; eauto.
Qed.

Lemma nth_error_snoc_cases {A} (l : list A) x k y :
  nth_error (l ++ [x]) k = Some y -> nth_error l k = Some y \/ (k = length l /\ y = x).
Proof. apply nth_error_snoc. Qed.

(** The closed scenario of Tmpl.v is a run of the open system: everybody calls first. *)
Lemma xrun_spawns fl c fs qs : forall s,
  xrun fl c fs (map XSpawn qs) s = {| cp := cp s; cthr := cthr s ++ map (thread_init fl) qs |}.
Proof.
  unfold xrun. induction qs as [|q qs IH]; intros s; simpl.
  - rewrite app_nil_r. destruct s; reflexivity.
  - rewrite IH. simpl. rewrite <- app_assoc. reflexivity.
Qed.

Lemma xrun_steps fl c fs sched : forall s, xrun fl c fs (map XStep sched) s = crun fl c fs sched s.
Proof. unfold xrun, crun. induction sched as [|t sched IH]; intros s; simpl; auto. Qed.

Theorem crun_is_xrun fl c fs qs sched :
  crun fl c fs sched (cinit fl qs) = xrun fl c fs (map XSpawn qs ++ map XStep sched) xinit.
Proof. rewrite xrun_app, xrun_spawns, xrun_steps. reflexivity. Qed.

(* ------------------------------------------------------------------------------------------ *)
(** * 1. Mutual exclusion, shape, requests: the invariants of Tmpl.v hold in the open system *)

Lemma thread_init_holds fl q lk :
  holdsW lk (thread_init fl q) = false /\ holdsR lk (thread_init fl q) = false.
Proof.
  destruct q as [|l|l [|x v]]; unfold thread_init, start; destruct (locked_fast fl);
    unfold holdsW, holdsR; simpl; rewrite ?andb_false_r; auto.
Qed.

Lemma spawn_ME fl s q : ME (cthr s) -> ME (cthr (spawn fl s q)).
Proof.
  intros M t1 t2 th1 th2 lk Hne H1 H2 HW. simpl in H1, H2.
  apply nth_error_snoc in H1 as [H1|[_ ->]]; [|destruct (thread_init_holds fl q lk); congruence].
  apply nth_error_snoc in H2 as [H2|[_ ->]]; [|apply thread_init_holds].
  apply (M t1 t2 th1 th2 lk); auto.
Qed.

Lemma spawn_NoU fl s q : locked_fast fl = true -> NoU (cthr s) -> NoU (cthr (spawn fl s q)).
Proof.
  intros Hl N t th H. simpl in H. apply nth_error_snoc in H as [H|[_ ->]]; [eapply N; eauto|].
  destruct q as [|l|l [|x v]]; unfold thread_init, start, noU; rewrite ?Hl; reflexivity.
Qed.

Lemma spawn_WF fl s q : WF s -> WF (spawn fl s q).
Proof.
  intros W t th H. simpl in H. apply nth_error_snoc in H as [H|[_ ->]]; [eapply W; eauto|].
  destruct q as [|l|l [|x v]]; simpl; auto; split; auto; apply start_not_call.
Qed.

Lemma WF_xinit : WF xinit.
Proof. intros [|t] th H; discriminate. Qed.

Lemma WF_xreach fl c fs acts : WF (xrun fl c fs acts xinit).
Proof.
  apply (xrun_inv WF).
  - intros; eapply cstep_WF; eauto.
  - intros s t W j th H. rewrite exec_of_thr in H. eapply W; eauto.
  - intros; apply spawn_WF; auto.
  - apply WF_xinit.
Qed.

Theorem open_race_free fl c fs acts :
  locked_fast fl = true -> raceb (xrun fl c fs acts xinit) = false.
Proof.
  intros Hl.
  assert (X : ME (cthr (xrun fl c fs acts xinit)) /\ NoU (cthr (xrun fl c fs acts xinit))).
  { apply (xrun_inv (fun s => ME (cthr s) /\ NoU (cthr s))).
    - intros s t s' [M N] H. split. eapply cstep_ME; eauto. eapply cstep_NoU; eauto.
    - intros s t H. rewrite exec_of_thr. exact H.
    - intros s q [M N]. split. apply spawn_ME; auto. apply spawn_NoU; auto.
    - split; intros [|t]; intros; discriminate. }
  destruct X. apply no_race; assumption.
Qed.

Theorem open_no_deadlock pend fl c fs acts :
  (forall t, cstep_wp pend fl c fs (xrun fl c fs acts xinit) t = None) ->
  all_done (xrun fl c fs acts xinit) = true.
Proof. apply no_deadlock_wf. apply WF_xreach. Qed.

Theorem open_no_upgrade fl c fs acts t th lk :
  nth_error (cthr (xrun fl c fs acts xinit)) t = Some th ->
  next_act th = ARLock lk \/ next_act th = ALock lk ->
  holdsW lk th = false /\ holdsR lk th = false.
Proof. intros Ht. apply no_self_lock. eapply WF_xreach; eauto. Qed.

(** thread number t serves the t-th call *)
Lemma thread_init_req fl q : req_of (thread_init fl q) = q.
Proof. destruct q as [|l|l [|x v]]; reflexivity. Qed.

Lemma spawned_app a b : spawned (a ++ b) = spawned a ++ spawned b.
Proof. unfold spawned. apply flat_map_app. Qed.

Lemma open_reqs fl c fs acts : forall s,
  map req_of (cthr (xrun fl c fs acts s)) = map req_of (cthr s) ++ spawned acts.
Proof.
  unfold xrun. induction acts as [|a acts IH]; intros s; simpl.
  - rewrite app_nil_r. reflexivity.
  - rewrite IH. destruct a as [q|t|t]; simpl.
    + rewrite map_app. simpl. rewrite thread_init_req, <- app_assoc. reflexivity.
    + unfold crun_step. destruct (cstep fl c fs s t) as [s'|] eqn:E; auto.
      pose proof (cstep_Reqs fl c fs _ s t s' eq_refl E) as R. unfold Reqs in R. rewrite R. reflexivity.
    + rewrite exec_of_thr. reflexivity.
Qed.

Lemma open_reqs_init fl c fs acts : map req_of (cthr (xrun fl c fs acts xinit)) = spawned acts.
Proof. rewrite open_reqs. reflexivity. Qed.

(* ------------------------------------------------------------------------------------------ *)
(** * 2. The answers in the open system

    New against Tmpl.v section C: callers execute.  An html template that was executed can not be
    cloned any more, so it has to be shown that no object a caller may hold ([TDone]) is ever an
    object the provider still clones from (a cached base/layout, or a base/layout a thread carries
    from one level to the next).  Every thread carries at most one object reference; it is of
    kind [KL] (a base or layout the provider will clone) or [KV] (a view, or what was handed
    out). *)

Inductive rkind := KL | KV.
Definition lkind (lv : level) : rkind := match lv with LvV _ _ => KV | _ => KL end.

Definition frame_ref (f : frame) : option (rkind * nat) :=
  match f with
  | (lv, PRUnlock (Some i)) => Some (lkind lv, i)
  | (lv, PUnlock (Ok i)) => Some (lkind lv, i)
  | (lv, PBuild i) => match sub lv with None => None | Some _ => Some (KL, i) end
  | _ => None
  end.

Definition thread_ref (th : thread) : option (rkind * nat) :=
  match th with
  | TRun _ (f :: _) => frame_ref f
  | THand _ (Ok i) => Some (KL, i)
  | TDone _ (Ok i) => Some (KV, i)
  | _ => None
  end.

Lemma ret_ref fs q r lv rest : chain_ok fs lv rest q ->
  thread_ref (ret q r rest) = match r with Ok i => Some (lkind lv, i) | _ => None end.
Proof.
  intros C. unfold ret. destruct rest as [|[lv' ph'] rest']; simpl in C.
  - destruct C as [-> _]. destruct q as [|l|l v]; destruct r; reflexivity.
  - destruct C as (-> & Hs & _). destruct lv' as [|nm|nm v]; simpl in Hs; inversion Hs; subst;
      destruct r; reflexivity.
Qed.

Lemma ref_valid fl fs p th k i :
  thread_ok fl fs p th -> thread_ref th = Some (k, i) -> i < length (heap p).
Proof.
  intros T H. destruct th as [q [|[lv ph] rest]|q [j| |]|q [j| |]]; simpl in H; try discriminate.
  - destruct T as (_ & F & _). destruct ph as [| | |[j|]| | | |j|[j| |]]; simpl in H; try discriminate.
    + inversion H; subst. simpl in F. destruct lv; simpl in F; destruct F as (d & _ & G);
        try apply good_has in G; eapply has_defs_valid; eauto.
    + simpl in F. destruct (sub lv); try discriminate. inversion H; subst.
      destruct F as (d & _ & G). apply good_has in G. eapply has_defs_valid; eauto.
    + inversion H; subst. simpl in F. destruct lv; simpl in F; destruct F as (d & _ & G);
        try apply good_has in G; eapply has_defs_valid; eauto.
  - inversion H; subst. destruct T as [(d & _ & G) _]. apply good_has in G. eapply has_defs_valid; eauto.
  - inversion H; subst. destruct T as (d & _ & G). eapply has_defs_valid; eauto.
Qed.

(** Executing object [i] leaves a thread in order as long as [i] is not the base/layout it carries. *)
Lemma rok_set_exec_has p i spec r : rok has_defs p spec r -> rok has_defs (set_exec i p) spec r.
Proof. apply rok_ext. intros j d. apply has_defs_set_exec. Qed.

Lemma thread_ok_set_exec fl fs p th i :
  thread_ok fl fs p th ->
  (html fl = true -> forall j, thread_ref th = Some (KL, j) -> j <> i) ->
  thread_ok fl fs (set_exec i p) th.
Proof.
  intros T Hne.
  assert (G : forall j d, (html fl = true -> thread_ref th = Some (KL, j)) -> good_obj fl p j d ->
                          good_obj fl (set_exec i p) j d).
  { intros j d Hr. apply good_obj_set_exec. intros Hh. apply (Hne Hh). apply Hr. exact Hh. }
  destruct th as [q [|[lv ph] rest]|q r|q r]; simpl in T |- *; auto.
  - destruct T as (A & F & C). repeat split; auto.
    destruct ph as [| | |[j|]| | | |j|r]; simpl in F |- *; auto.
    + destruct lv as [|nm|nm v]; simpl in F |- *.
      * destruct F as (d & Hd & Gd). exists d. split; [exact Hd|]. apply G; auto.
      * destruct F as (d & Hd & Gd). exists d. split; [exact Hd|]. apply G; auto.
      * destruct F as (d & Hd & Gd). exists d. split; [exact Hd|]. apply has_defs_set_exec. exact Gd.
    + destruct (sub lv) eqn:Hs; auto. destruct F as (d & Hd & Gd). exists d. split; auto.
      apply G; auto. intros _. simpl. rewrite Hs. reflexivity.
    + destruct r as [j| |]; destruct lv as [|nm|nm v]; simpl in F |- *; auto.
      * destruct F as (d & Hd & Gd). exists d. split; [exact Hd|]. apply G; auto.
      * destruct F as (d & Hd & Gd). exists d. split; [exact Hd|]. apply G; auto.
      * destruct F as (d & Hd & Gd). exists d. split; [exact Hd|]. apply has_defs_set_exec. exact Gd.
  - destruct T as [R Hq]. split; auto. destruct r as [j| |]; simpl in R |- *; auto.
    destruct R as (d & Hd & Gd). exists d. split; [exact Hd|]. apply G; auto.
  - apply rok_set_exec_has. exact T.
Qed.

(** Shapes of the state changes (html: every build allocates a new object). *)
Lemma derive_shape fl src files p p' r : derive fl src files p = (p', r) ->
  (p' = p /\ forall i, r <> Ok i) \/ (exists d, p' = newobj d p /\ r = Ok (length (heap p))).
Proof.
  unfold derive. destruct (nth_error (heap p) src) as [o|].
  - destruct (html fl && o_exec o).
    + intros H; inversion H; subst. left. split; auto. discriminate.
    + destruct (parse_files files (o_defs o)) as [d|].
      * intros H; inversion H; subst. right. exists d. split; reflexivity.
      * intros H; inversion H; subst. left. split; auto. discriminate.
  - intros H; inversion H; subst. left. split; auto. discriminate.
Qed.

Definition lset (fl : flavour) (lv : level) (i : nat) : pstate -> pstate :=
  match lv with
  | LvB => set_base i
  | LvL nm => set_lay nm i
  | LvV nm v => set_view (view_key fl nm v) i
  end.

Lemma build_shape fl c fs lv sb p p' r : html fl = true -> build fl c fs lv sb p = (p', r) ->
  (p' = p /\ forall i, r <> Ok i) \/
  (exists d b, r = Ok (length (heap p)) /\ p' = cache_if b (lset fl lv (length (heap p))) (newobj d p)).
Proof.
  intros Hh H. destruct lv as [|nm|nm v]; simpl in H.
  - unfold build_base in H. destruct (f_helpers fs) as [ch|].
    + destruct (parse_files (walk (f_ext fs) ch) []) as [d|].
      * unfold alloc in H. inversion H; subst. right. exists d, c. split; reflexivity.
      * inversion H; subst. left. split; auto. discriminate.
    + unfold alloc in H. inversion H; subst. right. exists [], (c && negb (html fl)). split; reflexivity.
  - unfold build_layout in H. rewrite Hh in H. destruct (assoc nm (f_layouts fs)) as [ch|].
    + destruct (derive fl sb (walk (f_ext fs) ch) p) as [p1 r1] eqn:Hd.
      destruct (derive_shape _ _ _ _ _ _ Hd) as [[-> Hr]|(d & -> & ->)].
      * left. destruct r1 as [j| |]; inversion H; subst; try (split; [reflexivity|discriminate]).
        exfalso. apply (Hr j). reflexivity.
      * inversion H; subst. right. exists d, c. split; reflexivity.
    + destruct (derive_shape _ _ _ _ _ _ H) as [[-> Hr]|(d & -> & ->)]; auto.
      right. exists d, false. split; reflexivity.
  - unfold build_view in H. rewrite Hh in H. destruct (assoc v (f_views fs)) as [ch|].
    + destruct (derive fl sb (walk (f_ext fs) ch) p) as [p1 r1] eqn:Hd.
      destruct (derive_shape _ _ _ _ _ _ Hd) as [[-> Hr]|(d & -> & ->)].
      * left. destruct r1 as [j| |]; inversion H; subst; try (split; [reflexivity|discriminate]).
        exfalso. apply (Hr j). reflexivity.
      * inversion H; subst. right. exists d, c. split; reflexivity.
    + destruct (derive fl sb [] p) as [p1 r1] eqn:Hd.
      destruct (derive_shape _ _ _ _ _ _ Hd) as [[-> Hr]|(d & -> & ->)].
      * left. destruct r1 as [j| |]; inversion H; subst; try (split; [reflexivity|discriminate]).
        exfalso. apply (Hr j). reflexivity.
      * inversion H; subst. right. exists d, c. split; reflexivity.
Qed.

Lemma protected_newobj d p j : protected (newobj d p) j <-> protected p j.
Proof. unfold protected, newobj. simpl. tauto. Qed.

Lemma shape_protected fl lv b d p j :
  protected (cache_if b (lset fl lv (length (heap p))) (newobj d p)) j ->
  protected p j \/ j = length (heap p).
Proof.
  destruct b; simpl; [|intros H; left; apply (protected_newobj d p j); exact H].
  destruct lv as [|nm|nm v]; unfold protected; simpl.
  - intros [H|[k H]]; [inversion H; auto|left; right; eauto].
  - intros [H|[k [H|H]]]; [left; left; exact H|inversion H; auto|left; right; eauto].
  - intros H. left. exact H.
Qed.

Lemma shape_cview fl lv b d p key j :
  In (key, j) (c_view (cache_if b (lset fl lv (length (heap p))) (newobj d p))) ->
  In (key, j) (c_view p) \/ j = length (heap p).
Proof.
  destruct b; simpl; auto. destruct lv as [|nm|nm v]; simpl; auto.
  intros [H|H]; auto. inversion H; auto.
Qed.

Lemma shape_fresh fl c fs lv b d p : PInv fl c fs p ->
  let n := length (heap p) in
  let p' := cache_if b (lset fl lv n) (newobj d p) in
  (lkind lv = KV -> ~ protected p' n) /\ (lkind lv = KL -> forall key, ~ In (key, n) (c_view p')).
Proof.
  intros I n p'. split.
  - intros Hk P. destruct lv as [|nm|nm v]; try discriminate.
    apply (fresh_not_protected _ _ _ _ I). unfold p' in P. destruct b; simpl in P; exact P.
  - intros Hk key Hin. destruct lv as [|nm|nm v]; try discriminate;
      apply (fresh_not_view _ _ _ _ I key); unfold p' in Hin; destruct b; simpl in Hin; exact Hin.
Qed.

(** What a step does to the reference its thread carries and to the caches. *)
Definition step_facts (c : bool) (p p' : pstate) (old new : option (rkind * nat)) : Prop :=
  let n := length (heap p) in
  (forall j, protected p' j -> protected p j \/ j = n) /\
  (forall key j, In (key, j) (c_view p') -> In (key, j) (c_view p) \/ j = n) /\
  (new = None \/ new = old \/
   (exists i, new = Some (KL, i) /\ protected p i) \/
   (exists i key, new = Some (KV, i) /\ In (key, i) (c_view p)) \/
   (exists k, new = Some (k, n) /\ (k = KV -> ~ protected p' n) /\
              (k = KL -> forall key, ~ In (key, n) (c_view p'))) \/
   (exists i, c = false /\ old = Some (KL, i) /\ new = Some (KV, i))).

Lemma facts_same c p old new :
  (new = None \/ new = old \/
   (exists i, new = Some (KL, i) /\ protected p i) \/
   (exists i key, new = Some (KV, i) /\ In (key, i) (c_view p)) \/
   (exists i, c = false /\ old = Some (KL, i) /\ new = Some (KV, i))) ->
  step_facts c p p old new.
Proof.
  intros H. split; [auto|split; [auto|]].
  destruct H as [H|[H|[H|[H|H]]]]; auto 10.
Qed.

Lemma cache_read_ref fl lv p i : cache_read fl lv p = Some i ->
  (exists j, Some (lkind lv, i) = Some (KL, j) /\ protected p j) \/
  (exists j key, Some (lkind lv, i) = Some (KV, j) /\ In (key, j) (c_view p)).
Proof.
  destruct lv as [|nm|nm v]; simpl; intros H.
  - left. exists i. split; auto. left. exact H.
  - left. exists i. split; auto. right. exists nm. apply assoc_In. exact H.
  - right. exists i, (view_key fl nm v). split; auto. apply vassoc_In. exact H.
Qed.

Lemma tstep_facts fl c fs p th p' th' a :
  html fl = true -> good_clone fl -> PInv fl c fs p -> thread_ok fl fs p th ->
  tstep fl c fs p th = Some (p', th', a) ->
  step_facts c p p' (thread_ref th) (thread_ref th').
Proof.
  intros Hh Gf I T H. destruct th as [q st|q r|q r]; simpl in H; try discriminate.
  - destruct st as [|[lv ph] rest]; try discriminate. destruct T as (Hq & F & C).
    destruct ph as [| | |hit| | | |sb|r].
    + inversion H; subst. apply facts_same. left. reflexivity.
    + inversion H; subst. apply facts_same. cbn [thread_ref frame_ref].
      destruct (cache_read fl lv p') as [i|] eqn:E; [|left; reflexivity].
      destruct (cache_read_ref _ _ _ _ E) as [X|X]; auto.
    + destruct (cache_read fl lv p) as [i|] eqn:E.
      * inversion H; subst. apply facts_same. rewrite (ret_ref fs _ _ _ _ C).
        destruct (cache_read_ref _ _ _ _ E) as [X|X]; auto.
      * inversion H; subst. apply facts_same. left. reflexivity.
    + destruct hit as [i|].
      * inversion H; subst. apply facts_same. rewrite (ret_ref fs _ _ _ _ C). right. left. reflexivity.
      * inversion H; subst. apply facts_same. left. reflexivity.
    + inversion H; subst. apply facts_same. left. reflexivity.
    + destruct (cache_read fl lv p) as [i|] eqn:E.
      * inversion H; subst. apply facts_same. cbn [thread_ref frame_ref].
        destruct (cache_read_ref _ _ _ _ E) as [X|X]; auto.
      * destruct lv; inversion H; subst; apply facts_same; left; cbn [thread_ref frame_ref];
          try reflexivity; unfold start; destruct (locked_fast fl); reflexivity.
    + simpl in F. contradiction.
    + destruct (build fl c fs lv sb p) as [p2 r2] eqn:Hb. inversion H; subst; clear H.
      destruct (build_shape _ _ _ _ _ _ _ _ Hh Hb) as [[-> Hr]|(d & b & -> & ->)].
      * apply facts_same. left. cbn [thread_ref frame_ref]. destruct r2 as [j| |]; auto.
        exfalso. apply (Hr j). reflexivity.
      * split; [intros j; apply shape_protected|split; [intros key j; apply shape_cview|]].
        right. right. right. right. left. exists (lkind lv). split; [reflexivity|].
        apply (shape_fresh fl c fs lv b d p I).
    + inversion H; subst. apply facts_same. rewrite (ret_ref fs _ _ _ _ C).
      cbn [thread_ref frame_ref]. destruct r as [j| |]; auto.
  - destruct T as [R Hq]. unfold handout in H. destruct (c && clone_out fl) eqn:Hc.
    + destruct r as [i| |].
      * destruct (derive fl i [] p) as [p2 r2] eqn:Hd. inversion H; subst; clear H.
        destruct (derive_shape _ _ _ _ _ _ Hd) as [[-> Hr]|(d & -> & ->)].
        -- apply facts_same. left. cbn [thread_ref]. destruct r2 as [j| |]; auto.
           exfalso. apply (Hr j). reflexivity.
        -- split; [intros j P; left; apply (protected_newobj d p j); exact P|split; [intros key j P; left; exact P|]].
           right. right. right. right. left. exists KV. split; [reflexivity|]. split.
           ++ intros _ P. apply (fresh_not_protected _ _ _ _ I). apply (protected_newobj d p _). exact P.
           ++ discriminate.
      * inversion H; subst. apply facts_same. left. reflexivity.
      * inversion H; subst. apply facts_same. left. reflexivity.
    + inversion H; subst; clear H. apply facts_same. cbn [thread_ref].
      destruct r as [i| |]; auto. right. right. right. right. exists i. repeat split; auto.
      destruct c; auto. simpl in Hc. rewrite (Gf Hh) in Hc. discriminate.
Qed.

(** The separation invariant (needed for html only). *)
Record Sep (c : bool) (s : cstate) : Prop := {
  sep_unprot : forall t th i, nth_error (cthr s) t = Some th -> thread_ref th = Some (KV, i) ->
               ~ protected (cp s) i;
  sep_share : forall t t' th th' k k' i, t <> t' ->
              nth_error (cthr s) t = Some th -> nth_error (cthr s) t' = Some th' ->
              thread_ref th = Some (k, i) -> thread_ref th' = Some (k', i) ->
              k = k' /\ (k = KL -> c = true);
  sep_noview : forall t th i, nth_error (cthr s) t = Some th -> thread_ref th = Some (KL, i) ->
               forall key, ~ In (key, i) (c_view (cp s))
}.

Definition XInv (fl : flavour) (c : bool) (fs : tfs) (s : cstate) : Prop :=
  DInv fl c fs s /\ (html fl = true -> Sep c s).

Lemma unc_unprotected fl fs p j : PInv fl false fs p -> ~ protected p j.
Proof.
  intros I [P|[k P]]; destruct (pi_unc _ _ _ _ I eq_refl) as (A & B & _).
  - congruence.
  - rewrite B in P. contradiction.
Qed.

Lemma sep_step fl c fs s t th p' th' :
  html fl = true -> DInv fl c fs s -> Sep c s -> PInv fl c fs p' ->
  nth_error (cthr s) t = Some th ->
  step_facts c (cp s) p' (thread_ref th) (thread_ref th') ->
  Sep c {| cp := p'; cthr := set_nth t th' (cthr s) |}.
Proof.
  intros Hh [I T] S I' Ht (F1 & F2 & F3).
  set (n := length (heap (cp s))) in *.
  assert (V : forall j thj k i, nth_error (cthr s) j = Some thj -> thread_ref thj = Some (k, i) -> i < n).
  { intros j thj k i Hj Hr. eapply ref_valid; eauto. }
  (* an old reference of kind KV stays unprotected, one of kind KL stays out of the views cache *)
  assert (KeepV : forall j thj i, nth_error (cthr s) j = Some thj -> thread_ref thj = Some (KV, i) ->
                                  ~ protected p' i).
  { intros j thj i Hj Hr P. destruct (F1 _ P) as [P0|E].
    - apply (sep_unprot _ _ S _ _ _ Hj Hr P0).
    - pose proof (V _ _ _ _ Hj Hr). lia. }
  assert (KeepL : forall j thj i, nth_error (cthr s) j = Some thj -> thread_ref thj = Some (KL, i) ->
                                  forall key, ~ In (key, i) (c_view p')).
  { intros j thj i Hj Hr key P. destruct (F2 _ _ P) as [P0|E].
    - apply (sep_noview _ _ S _ _ _ Hj Hr key P0).
    - pose proof (V _ _ _ _ Hj Hr). lia. }
  (* the new reference of the stepping thread against the old reference of another thread *)
  assert (New : forall k i, thread_ref th' = Some (k, i) ->
            (~ (k = KV /\ protected p' i)) /\ (k = KL -> forall key, ~ In (key, i) (c_view p')) /\
            forall j thj k', j <> t -> nth_error (cthr s) j = Some thj -> thread_ref thj = Some (k', i) ->
                             k = k' /\ (k = KL -> c = true)).
  { intros k i Hn. destruct F3 as [E|[E|[(i0 & E & P)|[(i0 & key0 & E & P)|[(k0 & E & A & B)|(i0 & Hc & Eo & E)]]]]];
      rewrite Hn in E; try discriminate.
    - (* unchanged *)
      split; [|split].
      + intros [-> P]. apply (KeepV _ _ _ Ht (eq_sym E) P).
      + intros -> key. apply (KeepL _ _ _ Ht (eq_sym E)).
      + intros j thj k' Hne Hj Hr. apply (sep_share _ _ S t j th thj k k' i); auto.
    - (* read from the base / layouts cache *)
      inversion E; subst k i0; clear E. split; [|split].
      + intros [X _]; discriminate.
      + intros _ key Hin. destruct (F2 _ _ Hin) as [P0|E0].
        * apply (pi_sep _ _ _ _ I Hh _ _ P0 P).
        * pose proof (protected_valid _ _ _ _ _ I P). lia.
      + intros j thj k' Hne Hj Hr. destruct k'.
        * split; auto. intros _. destruct c; auto. exfalso. apply (unc_unprotected _ _ _ i I P).
        * exfalso. apply (sep_unprot _ _ S _ _ _ Hj Hr P).
    - (* read from the views cache *)
      inversion E; subst k i0; clear E. split; [|split].
      + intros [_ P']. destruct (F1 _ P') as [P0|E0].
        * apply (pi_sep _ _ _ _ I Hh _ _ P P0).
        * pose proof (viewid_valid _ _ _ _ _ _ I P). lia.
      + discriminate.
      + intros j thj k' Hne Hj Hr. destruct k'.
        * exfalso. apply (sep_noview _ _ S _ _ _ Hj Hr key0 P).
        * split; auto. discriminate.
    - (* a new object *)
      inversion E; subst k0 i; clear E. split; [|split].
      + intros [-> P]. apply A; auto.
      + exact B.
      + intros j thj k' Hne Hj Hr. pose proof (V _ _ _ _ Hj Hr). lia.
    - (* the uncached provider hands out what it has built *)
      inversion E; subst k i0; clear E. subst c. split; [|split].
      + intros [_ P]. apply (unc_unprotected _ _ _ i I' P).
      + discriminate.
      + intros j thj k' Hne Hj Hr.
        destruct (sep_share _ _ S t j th thj KL k' i (not_eq_sym Hne) Ht Hj Eo Hr) as [_ X].
        discriminate (X eq_refl). }
  split; cbn [cp cthr].
  - intros j thj i Hj Hr P. destruct (Nat.eq_dec j t) as [E|E].
    + subst j. apply nth_set_nth_eq in Hj. subst thj. destruct (New _ _ Hr) as (A & _ & _). apply A. auto.
    + rewrite nth_set_nth_neq in Hj by assumption. apply (KeepV _ _ _ Hj Hr P).
  - intros j j' thj thj' k k' i Hne Hj Hj' Hr Hr'.
    destruct (Nat.eq_dec j t) as [E|E]; destruct (Nat.eq_dec j' t) as [E'|E']; try congruence.
    + subst j. apply nth_set_nth_eq in Hj. subst thj. rewrite nth_set_nth_neq in Hj' by assumption.
      destruct (New _ _ Hr) as (_ & _ & X). apply (X j' thj' k'); auto.
    + subst j'. apply nth_set_nth_eq in Hj'. subst thj'. rewrite nth_set_nth_neq in Hj by assumption.
      destruct (New _ _ Hr') as (_ & _ & X). destruct (X j thj k E Hj Hr) as [-> Y]. auto.
    + rewrite nth_set_nth_neq in Hj by assumption. rewrite nth_set_nth_neq in Hj' by assumption.
      apply (sep_share _ _ S j j' thj thj' k k' i); auto.
  - intros j thj i Hj Hr key. destruct (Nat.eq_dec j t) as [E|E].
    + subst j. apply nth_set_nth_eq in Hj. subst thj. destruct (New _ _ Hr) as (_ & B & _). apply B. reflexivity.
    + rewrite nth_set_nth_neq in Hj by assumption. apply (KeepL _ _ _ Hj Hr key).
Qed.

Lemma cstep_XInv fl c fs s t s' :
  good_clone fl -> XInv fl c fs s -> cstep fl c fs s t = Some s' -> XInv fl c fs s'.
Proof.
  intros Gf [D S] H. split; [eapply cstep_DInv; eauto|]. intros Hh. specialize (S Hh).
  pose proof (cstep_DInv _ _ _ _ _ _ D H) as [I' _].
  unfold cstep in H. destruct D as [I T].
  destruct (nth_error (cthr s) t) as [th|] eqn:Ht; try discriminate.
  destruct (tstep fl c fs (cp s) th) as [[[p' th'] a]|] eqn:Hs; try discriminate.
  match type of H with (if ?e then _ else _) = _ => destruct e eqn:En end; try discriminate.
  inversion H; subst; clear H. cbn [cp] in I'.
  apply (sep_step fl c fs s t th p' th' Hh (conj I T) S I' Ht).
  apply (tstep_facts fl c fs (cp s) th p' th' a Hh Gf I (T _ _ Ht) Hs).
Qed.

Lemma protected_set_exec i p j : protected (set_exec i p) j <-> protected p j.
Proof. unfold protected, set_exec. simpl. tauto. Qed.

Lemma exec_XInv fl c fs s t : XInv fl c fs s -> XInv fl c fs (exec_of s t).
Proof.
  intros [[I T] S]. unfold exec_of.
  destruct (nth_error (cthr s) t) as [[q st|q r|q [i| |]]|] eqn:Ht; try (split; [split|]; assumption).
  split; [split|]; cbn [cp cthr].
  - apply PInv_set_exec; auto. intros Hh. apply (sep_unprot _ _ (S Hh) t _ i Ht). reflexivity.
  - intros j thj Hj. apply thread_ok_set_exec; [eapply T; eauto|].
    intros Hh j0 Hr E. subst j0. destruct (Nat.eq_dec j t) as [Ej|Ej].
    + subst j. rewrite Ht in Hj. inversion Hj; subst thj. discriminate.
    + destruct (sep_share _ _ (S Hh) j t thj _ KL KV i Ej Hj Ht Hr eq_refl) as [X _]. discriminate.
  - intros Hh. specialize (S Hh). split; cbn [cp cthr].
    + intros j thj i0 Hj Hr P. apply protected_set_exec in P. apply (sep_unprot _ _ S _ _ _ Hj Hr P).
    + apply (sep_share _ _ S).
    + intros j thj i0 Hj Hr key. apply (sep_noview _ _ S _ _ _ Hj Hr key).
Qed.

Lemma thread_init_ref fl q : thread_ref (thread_init fl q) = None.
Proof. destruct q as [|l|l [|x v]]; simpl; auto; unfold start; destruct (locked_fast fl); reflexivity. Qed.

Lemma thread_init_ok fl fs p q : inj_key fl = true -> thread_ok fl fs p (thread_init fl q).
Proof.
  intros Hk. destruct q as [|l|l [|x v]]; simpl; auto; repeat split; auto;
    unfold start; destruct (locked_fast fl); exact Logic.I.
Qed.

Lemma spawn_XInv fl c fs s q : inj_key fl = true -> XInv fl c fs s -> XInv fl c fs (spawn fl s q).
Proof.
  intros Hk [[I T] S]. split; [split|]; cbn [spawn cp cthr].
  - exact I.
  - intros j thj Hj. apply nth_error_snoc in Hj as [Hj|[_ ->]]; [eapply T; eauto|apply thread_init_ok; exact Hk].
  - intros Hh. specialize (S Hh). split; cbn [cp cthr].
    + intros j thj i Hj Hr. apply nth_error_snoc in Hj as [Hj|[_ ->]].
      * apply (sep_unprot _ _ S _ _ _ Hj Hr).
      * rewrite thread_init_ref in Hr. discriminate.
    + intros j j' thj thj' k k' i Hne Hj Hj' Hr Hr'.
      apply nth_error_snoc in Hj as [Hj|[_ ->]]; [|rewrite thread_init_ref in Hr; discriminate].
      apply nth_error_snoc in Hj' as [Hj'|[_ ->]]; [|rewrite thread_init_ref in Hr'; discriminate].
      apply (sep_share _ _ S j j' thj thj' k k' i); auto.
    + intros j thj i Hj Hr. apply nth_error_snoc in Hj as [Hj|[_ ->]].
      * apply (sep_noview _ _ S _ _ _ Hj Hr).
      * rewrite thread_init_ref in Hr. discriminate.
Qed.

Lemma XInv_xinit fl c fs : XInv fl c fs xinit.
Proof.
  split; [split|].
  - apply PInv_init.
  - intros [|t] th H; discriminate.
  - intros _. split; intros; match goal with H : nth_error (cthr xinit) ?t = Some _ |- _ => destruct t; discriminate H end.
Qed.

Lemma XInv_reach fl c fs acts : good fl -> XInv fl c fs (xrun fl c fs acts xinit).
Proof.
  intros [Gf Gk]. apply (xrun_inv (XInv fl c fs)).
  - intros s t s'. apply cstep_XInv. exact Gf.
  - intros s t. apply exec_XInv.
  - intros s q. apply spawn_XInv. exact Gk.
  - apply XInv_xinit.
Qed.

(** Every thread that has returned - whoever called before, whoever is still building, whatever
    the callers have executed meanwhile - serves its own call and holds the specified answer. *)
Theorem open_answers fl c fs acts t q r :
  good fl ->
  nth_error (cthr (xrun fl c fs acts xinit)) t = Some (TDone q r) ->
  nth_error (spawned acts) t = Some q /\ obs_of (cp (xrun fl c fs acts xinit)) r = creq_spec fs q.
Proof.
  intros G H. split.
  - rewrite <- (open_reqs_init fl c fs acts), nth_error_map, H. reflexivity.
  - destruct (XInv_reach fl c fs acts G) as [[_ T] _]. specialize (T _ _ H). simpl in T.
    rewrite creq_spec_specd. destruct r as [i| |]; simpl in *.
    + destruct T as (d & -> & o & H1 & H2). rewrite H1, H2. reflexivity.
    + rewrite T. reflexivity.
    + contradiction.
Qed.

Theorem open_equal fl c fs acts t1 t2 q r1 r2 :
  good fl ->
  let s := xrun fl c fs acts xinit in
  nth_error (cthr s) t1 = Some (TDone q r1) -> nth_error (cthr s) t2 = Some (TDone q r2) ->
  obs_of (cp s) r1 = obs_of (cp s) r2.
Proof.
  intros G s H1 H2. unfold s in *.
  destruct (open_answers fl c fs acts t1 q r1 G H1) as [_ ->].
  destruct (open_answers fl c fs acts t2 q r2 G H2) as [_ ->]. reflexivity.
Qed.

(** No panic anywhere, at any time. *)
Lemma chain_ok_nopanic fs : forall rest lv q, chain_ok fs lv rest q -> existsb frame_panics rest = false.
Proof.
  induction rest as [|[lv' ph'] rest IH]; intros lv q C; simpl in *; auto.
  destruct C as (-> & _ & C). unfold frame_panics at 1. simpl. eapply IH; eauto.
Qed.

Lemma thread_ok_nopanic fl fs p th : thread_ok fl fs p th -> thread_panics th = false.
Proof.
  destruct th as [q [|[lv ph] rest]|q r|q r]; simpl; auto.
  - intros (_ & F & C). rewrite (chain_ok_nopanic fs _ _ _ C), orb_false_r.
    unfold frame_panics. simpl. destruct ph as [| | |hit| | | |sb|[j| |]]; auto.
    simpl in F. destruct lv; simpl in F; contradiction.
  - intros [R _]. destruct r; auto. contradiction.
  - intros R. destruct r; auto. contradiction.
Qed.

Theorem open_no_panic fl c fs acts t th :
  good fl -> nth_error (cthr (xrun fl c fs acts xinit)) t = Some th -> thread_panics th = false.
Proof.
  intros G H. destruct (XInv_reach fl c fs acts G) as [[_ T] _].
  eapply thread_ok_nopanic. eapply T; eauto.
Qed.

(* ------------------------------------------------------------------------------------------ *)
(** * 3. Termination of every bounded-fair continuation

    Tmpl.v section D shows that a continuation to the end EXISTS from every reachable state and
    that no schedule takes more than 22 steps per request.  Here: EVERY continuation in which
    nobody new calls and every thread gets a turn in each of sufficiently many blocks ends with
    all threads returned - whatever else happens in the blocks (turns of blocked threads, callers
    executing).  No fairness assumption beyond the shape of the schedule itself. *)

(** Whether a thread can step depends on the threads only, not on the provider state. *)
Definition stuckb (th : thread) : bool :=
  match th with
  | TDone _ _ => true
  | TRun _ [] => true
  | TRun _ ((_, PCall) :: _) => true
  | _ => false
  end.

Definition enabledb (thr : list thread) (t : nat) : bool :=
  match nth_error thr t with
  | None => false
  | Some th =>
    negb (stuckb th) &&
    match next_act th with
    | ANone => true
    | ARLock lk => others_ok (fun o => negb (holdsW lk o)) t thr
    | ALock lk => others_ok (fun o => negb (holdsW lk o) && negb (holdsR lk o)) t thr
    end
  end.

Lemma tstep_stuck fl c fs p th : tstep fl c fs p th = None <-> stuckb th = true.
Proof.
  destruct th as [q [|[lv ph] rest]|q r|q r]; simpl; try tauto.
  - destruct ph as [| | |[i|]| | | |sb|r]; simpl; try tauto; try (split; discriminate).
    + destruct (cache_read fl lv p); split; discriminate.
    + destruct (cache_read fl lv p); [|destruct lv]; split; discriminate.
    + destruct (build fl c fs lv sb p). split; discriminate.
  - destruct (handout fl c (p, r)). split; discriminate.
Qed.

Lemma cstep_enabled fl c fs s t :
  (exists s', cstep fl c fs s t = Some s') <-> enabledb (cthr s) t = true.
Proof.
  unfold cstep, enabledb. destruct (nth_error (cthr s) t) as [th|]; [|split; [intros [s' H]|intros H]; discriminate].
  destruct (tstep fl c fs (cp s) th) as [[[p' th'] a]|] eqn:Hs.
  - rewrite <- (tstep_act _ _ _ _ _ _ _ _ Hs).
    assert (Hn : stuckb th = false).
    { destruct (stuckb th) eqn:E; auto. apply (tstep_stuck fl c fs (cp s)) in E. congruence. }
    rewrite Hn. cbn [negb andb].
    destruct a as [|lk|lk]; [split; eauto| |];
      match goal with |- context [others_ok ?f t (cthr s)] => destruct (others_ok f t (cthr s)) end;
      split; eauto; try discriminate; intros [s' H]; discriminate.
  - apply tstep_stuck in Hs. rewrite Hs. split; [intros [s' H]|intros H]; discriminate.
Qed.

Lemma set_nth_length {A} (l : list A) : forall t a, length (set_nth t a l) = length l.
Proof. induction l as [|x l IH]; intros [|t] a; simpl; auto. Qed.

Lemma cstep_length fl c fs s t s' : cstep fl c fs s t = Some s' -> length (cthr s') = length (cthr s).
Proof.
  unfold cstep. destruct (nth_error (cthr s) t) as [th|]; try discriminate.
  destruct (tstep fl c fs (cp s) th) as [[[p' th'] a]|]; try discriminate.
  match goal with |- (if ?e then _ else _) = _ -> _ => destruct e end; try discriminate.
  intros H; inversion H; subst. simpl. apply set_nth_length.
Qed.

Definition nospawn (b : list xact) : bool := forallb (fun a => negb (is_spawn a)) b.

Lemma xstep_nospawn fl c fs s a : is_spawn a = false ->
  length (cthr (xstep fl c fs s a)) = length (cthr s) /\
  total_msr (cthr (xstep fl c fs s a)) <= total_msr (cthr s).
Proof.
  destruct a as [q|t|t]; simpl; try discriminate; intros _.
  - unfold crun_step. destruct (cstep fl c fs s t) as [s'|] eqn:E; [|split; auto].
    split; [eapply cstep_length; eauto|]. apply cstep_msr in E. lia.
  - rewrite exec_of_thr. split; auto.
Qed.

Lemma xrun_nospawn fl c fs : forall b s, nospawn b = true ->
  length (cthr (xrun fl c fs b s)) = length (cthr s) /\
  total_msr (cthr (xrun fl c fs b s)) <= total_msr (cthr s).
Proof.
  unfold xrun. induction b as [|a b IH]; intros s H; simpl in *; [split; auto|].
  apply andb_true_iff in H as [Ha Hb]. apply negb_true_iff in Ha.
  destruct (xstep_nospawn fl c fs s a Ha) as [L M]. destruct (IH (xstep fl c fs s a) Hb) as [L' M']. split; lia.
Qed.

Lemma nospawn_spawned b : nospawn b = true -> spawned b = [].
Proof.
  induction b as [|a b IH]; simpl; auto. intros H. apply andb_true_iff in H as [Ha Hb].
  destruct a; try discriminate; simpl; auto.
Qed.

(** A block in which an enabled thread gets a turn makes progress. *)
Lemma block_progress fl c fs : forall b s t0,
  nospawn b = true -> enabledb (cthr s) t0 = true -> existsb (is_step_of t0) b = true ->
  total_msr (cthr (xrun fl c fs b s)) < total_msr (cthr s).
Proof.
  induction b as [|a b IH]; intros s t0 Hn He Hin; simpl in Hin; try discriminate.
  simpl in Hn. apply andb_true_iff in Hn as [Ha Hb].
  change (xrun fl c fs (a :: b) s) with (xrun fl c fs b (xstep fl c fs s a)).
  destruct a as [q|t|t]; simpl in Ha; try discriminate; cbn [xstep].
  - unfold crun_step. destruct (cstep fl c fs s t) as [s'|] eqn:E.
    + pose proof (cstep_msr _ _ _ _ _ _ E). destruct (xrun_nospawn fl c fs b s' Hb). lia.
    + apply (IH s t0 Hb He). cbn [is_step_of] in Hin. destruct (Nat.eqb t t0) eqn:Et; auto.
      apply Nat.eqb_eq in Et. subst t. apply (cstep_enabled fl c fs) in He as [s' Hs]. congruence.
  - replace (total_msr (cthr s)) with (total_msr (cthr (exec_of s t))) by (rewrite exec_of_thr; reflexivity).
    apply (IH (exec_of s t) t0 Hb).
    + rewrite exec_of_thr. exact He.
    + exact Hin.
Qed.

Lemma msr0_done : forall thr, total_msr thr = 0 ->
  forallb (fun t => match t with TDone _ _ => true | _ => false end) thr = true.
Proof.
  induction thr as [|th thr IH]; simpl; auto. intros H.
  destruct th as [q st|q r|q r]; simpl in H; try lia. apply IH. lia.
Qed.

Lemma done_msr0 : forall thr,
  forallb (fun t => match t with TDone _ _ => true | _ => false end) thr = true -> total_msr thr = 0.
Proof.
  induction thr as [|th thr IH]; simpl; auto. intros H. apply andb_true_iff in H as [A B].
  destruct th; try discriminate. simpl. auto.
Qed.

Lemma WF_xrun fl c fs acts s : WF s -> WF (xrun fl c fs acts s).
Proof.
  apply (xrun_inv WF).
  - intros; eapply cstep_WF; eauto.
  - intros s0 t W j th H. rewrite exec_of_thr in H. eapply W; eauto.
  - intros; apply spawn_WF; auto.
Qed.

Lemma fair_block_spec n b : fair_block n b = true ->
  nospawn b = true /\ forall t, t < n -> existsb (is_step_of t) b = true.
Proof.
  unfold fair_block. intros H. apply andb_true_iff in H as [A B]. split; auto.
  intros t Ht. rewrite forallb_forall in B. apply B. apply in_seq. lia.
Qed.

Lemma fair_from fl c fs : forall blocks s, WF s ->
  forallb (fair_block (length (cthr s))) blocks = true ->
  total_msr (cthr s) <= length blocks ->
  all_done (xrun fl c fs (concat blocks) s) = true.
Proof.
  induction blocks as [|b bs IH]; intros s W Hf Hm.
  - simpl in *. unfold all_done. apply msr0_done. lia.
  - simpl in Hf, Hm. apply andb_true_iff in Hf as [Hb Hbs].
    destruct (fair_block_spec _ _ Hb) as [Hn Hall].
    cbn [concat]. rewrite xrun_app.
    destruct (xrun_nospawn fl c fs b s Hn) as [L M].
    apply IH.
    + apply WF_xrun. exact W.
    + rewrite L. exact Hbs.
    + destruct (all_done s) eqn:E.
      * unfold all_done in E. apply done_msr0 in E. lia.
      * destruct (progress (fun _ => false) fl c fs s W E) as (t0 & s' & Hs).
        rewrite cstep_wp_none in Hs.
        assert (Ht0 : t0 < length (cthr s)).
        { apply nth_error_Some. unfold cstep in Hs. destruct (nth_error (cthr s) t0); congruence. }
        assert (He : enabledb (cthr s) t0 = true) by (apply (cstep_enabled fl c fs); eauto).
        pose proof (block_progress fl c fs b s t0 Hn He (Hall _ Ht0)). lia.
Qed.

(** Every thread of a reachable state has at most 22 steps left. *)
Definition Bnd (s : cstate) : Prop := forall t th, nth_error (cthr s) t = Some th -> thread_msr th <= 22.

Lemma Bnd_total : forall thr, (forall t th, nth_error thr t = Some th -> thread_msr th <= 22) ->
  total_msr thr <= 22 * length thr.
Proof.
  induction thr as [|th thr IH]; intros H; simpl; [lia|].
  pose proof (H 0 th eq_refl). assert (total_msr thr <= 22 * length thr).
  { apply IH. intros t th' Ht. apply (H (S t) th' Ht). }
  lia.
Qed.

Lemma Bnd_xreach fl c fs acts : Bnd (xrun fl c fs acts xinit).
Proof.
  apply (xrun_inv Bnd).
  - intros s t s' B H. unfold cstep in H.
    destruct (nth_error (cthr s) t) as [th|] eqn:Ht; try discriminate.
    destruct (tstep fl c fs (cp s) th) as [[[p' th'] a]|] eqn:Hs; try discriminate.
    match type of H with (if ?e then _ else _) = _ => destruct e end; try discriminate.
    inversion H; subst; clear H. intros j thj Hj. simpl in Hj. destruct (Nat.eq_dec j t) as [E|E].
    + subst j. apply nth_set_nth_eq in Hj. subst thj. apply tstep_msr in Hs. pose proof (B _ _ Ht). lia.
    + rewrite nth_set_nth_neq in Hj by assumption. eapply B; eauto.
  - intros s t B j th H. rewrite exec_of_thr in H. eapply B; eauto.
  - intros s q B j th H. simpl in H. apply nth_error_snoc in H as [H|[_ ->]]; [eapply B; eauto|].
    apply thread_init_msr.
  - intros [|t] th H; discriminate.
Qed.

Theorem open_fair_terminates fl c fs acts blocks :
  let s := xrun fl c fs acts xinit in
  forallb (fair_block (length (cthr s))) blocks = true ->
  22 * length (cthr s) <= length blocks ->
  all_done (xrun fl c fs (concat blocks) s) = true.
Proof.
  intros s Hf Hl. apply fair_from; auto.
  - apply WF_xreach.
  - pose proof (Bnd_total _ (Bnd_xreach fl c fs acts)). fold s in H. lia.
Qed.

(** ... and then every call has got the specified answer. *)
Theorem open_fair_answers fl c fs acts blocks :
  good fl ->
  let s := xrun fl c fs acts xinit in
  forallb (fair_block (length (cthr s))) blocks = true ->
  22 * length (cthr s) <= length blocks ->
  let s' := xrun fl c fs (concat blocks) s in
  all_done s' = true /\
  forall t q, nth_error (spawned acts) t = Some q ->
    exists r, nth_error (cthr s') t = Some (TDone q r) /\ obs_of (cp s') r = creq_spec fs q.
Proof.
  intros G s Hf Hl s'.
  pose proof (open_fair_terminates fl c fs acts blocks Hf Hl) as A. fold s in A. fold s' in A.
  split; [exact A|]. intros t q Hq.
  assert (Es : s' = xrun fl c fs (acts ++ concat blocks) xinit) by (unfold s', s; rewrite xrun_app; reflexivity).
  assert (Hn : nospawn (concat blocks) = true).
  { clear -Hf. induction blocks as [|b bs IH]; simpl in *; auto.
    apply andb_true_iff in Hf as [Hb Hbs]. apply fair_block_spec in Hb as [Hb _].
    unfold nospawn in *. rewrite forallb_app, Hb. simpl. apply IH. exact Hbs. }
  assert (R : map req_of (cthr s') = spawned acts).
  { rewrite Es, open_reqs_init, spawned_app, (nospawn_spawned _ Hn), app_nil_r. reflexivity. }
  assert (Ht : exists th, nth_error (cthr s') t = Some th).
  { destruct (nth_error (cthr s') t) as [th|] eqn:E; eauto.
    rewrite <- R, nth_error_map, E in Hq. discriminate. }
  destruct Ht as [th Ht]. destruct (all_done_nth _ _ _ A Ht) as (q' & r & ->).
  rewrite Es in Ht. destruct (open_answers fl c fs _ t q' r G Ht) as [Hq' Ho].
  rewrite spawned_app, (nospawn_spawned _ Hn), app_nil_r in Hq'.
  assert (q' = q) by congruence. subst q'. exists r. rewrite Es. split; assumption.
Qed.

(* ------------------------------------------------------------------------------------------ *)
(** * 4. An answer depends on the directories its request names, and on nothing else *)

Lemma same_dirs_spec fs fs' q : same_dirs fs fs' q -> creq_spec fs q = creq_spec fs' q.
Proof.
  unfold same_dirs. intros [Hh Hq].
  assert (Eb : base_spec fs = base_spec fs') by (unfold base_spec; rewrite Hh; reflexivity).
  destruct q as [|l|l v]; simpl.
  - rewrite Eb. reflexivity.
  - unfold layout_spec. rewrite Eb, Hq. reflexivity.
  - destruct Hq as [Hl Hv]. destruct v as [|x v]; auto.
    unfold view_spec, layout_spec. rewrite Eb, Hl, Hv. reflexivity.
Qed.

Theorem open_named_dirs fl fl' c c' fs fs' acts acts' t t' q r r' :
  good fl -> good fl' -> same_dirs fs fs' q ->
  let s := xrun fl c fs acts xinit in
  let s' := xrun fl' c' fs' acts' xinit in
  nth_error (cthr s) t = Some (TDone q r) -> nth_error (cthr s') t' = Some (TDone q r') ->
  obs_of (cp s) r = obs_of (cp s') r'.
Proof.
  intros G G' D s s' H H'. unfold s, s' in *.
  destruct (open_answers fl c fs acts t q r G H) as [_ ->].
  destruct (open_answers fl' c' fs' acts' t' q r' G' H') as [_ ->].
  apply same_dirs_spec. exact D.
Qed.

Lemma same_dirs_req_spec fs fs' prev q : same_dirs_req fs fs' q -> spec_req fs prev q = spec_req fs' prev q.
Proof.
  unfold same_dirs_req. destruct q as [|l|l v|k]; simpl; auto; intros D.
  - apply (same_dirs_spec fs fs' CBase D).
  - apply (same_dirs_spec fs fs' (CLayout l) D).
  - apply (same_dirs_spec fs fs' (CView l v) D).
Qed.

Lemma spec_run_ext fs fs' : forall qs acc,
  (forall q, In q qs -> same_dirs_req fs fs' q) ->
  fold_left (spec_step fs) qs acc = fold_left (spec_step fs') qs acc.
Proof.
  induction qs as [|q qs IH]; intros acc H; simpl; auto.
  unfold spec_step at 2 4. rewrite (same_dirs_req_spec fs fs' acc q) by (apply H; left; reflexivity).
  apply IH. intros q' Hq'. apply H. right. exact Hq'.
Qed.

Theorem seq_named_dirs fl fl' c c' fs fs' qs :
  good fl -> good fl' -> (forall q, In q qs -> same_dirs_req fs fs' q) ->
  run_obs fl c fs qs = run_obs fl' c' fs' qs.
Proof.
  intros G G' H. rewrite (run_spec_good fl c fs qs G), (run_spec_good fl' c' fs' qs G').
  apply (spec_run_ext fs fs' qs [] H).
Qed.

(** No answer of a request history is a panic. *)
Lemma spec_req_nopanic fs prev q : spec_req fs prev q <> OPanic.
Proof.
  destruct q as [|l|l v|k]; simpl.
  - destruct (base_spec fs); discriminate.
  - destruct (layout_spec fs (defname l)); discriminate.
  - destruct v; [discriminate|]. destruct (view_spec fs (defname l) (b :: v)); discriminate.
  - destruct (nth_error prev k) as [[d| | |]|]; discriminate.
Qed.

Lemma spec_fold_nopanic fs : forall qs acc, ~ In OPanic acc -> ~ In OPanic (fold_left (spec_step fs) qs acc).
Proof.
  induction qs as [|q qs IH]; intros acc H; simpl; auto.
  apply IH. unfold spec_step. intros X. apply in_app_or in X as [X|[X|[]]]; auto.
  apply (spec_req_nopanic fs acc q). auto.
Qed.

Theorem seq_no_panic fl c fs qs : good fl -> ~ In OPanic (run_obs fl c fs qs).
Proof.
  intros G. rewrite (run_spec_good fl c fs qs G). apply (spec_fold_nopanic fs qs []). intros [].
Qed.
