(** Proofs about Model/CacheList.v: what a listing entry of the cache SAYS about its node (kind and,
    for a file, size) is what the view holds there - the entry of a name present in the buffer and
    on the remote describes the buffered (pending) node, never the remote's. *)
From GC Require Import Common.Base Model.Paths Model.Fs Model.Cache Model.CacheList
  Proofs.Paths Proofs.Fs Proofs.Cache.

(** * The described listing refines the listing of Model/Cache.v *)
Lemma children_info_forget t p : map forget_info (children_info t p) = children t p.
Proof.
  induction t as [|[q e] t IH]; simpl; [reflexivity|].
  destruct (is_prefix p q && Nat.eqb (length q) (S (length p))); [|exact IH].
  simpl. rewrite IH. destruct e; reflexivity.
Qed.

Lemma existsb_forget n l :
  existsb (fun be : name * bool => bytes_eqb (fst be) n) (map forget_info l) =
  existsb (fun be : name * info => bytes_eqb (fst be) n) l.
Proof. induction l as [|a l IH]; simpl; [reflexivity|]. rewrite IH. reflexivity. Qed.

Lemma filter_map_comm {A B} (f : A -> B) (g : B -> bool) l :
  filter g (map f l) = map f (filter (fun x => g (f x)) l).
Proof. induction l as [|a l IH]; simpl; [reflexivity|]. destruct (g (f a)); simpl; rewrite IH; reflexivity. Qed.

Lemma merge_forget T (p : path) rl bl :
  map forget_info
    (filter (fun e : name * info => negb (existsb (fun be => bytes_eqb (fst be) (fst e)) bl)
                                    && negb (masked T (p ++ [fst e]))) rl ++ bl) =
  filter (fun e : name * bool => negb (existsb (fun be => bytes_eqb (fst be) (fst e)) (map forget_info bl))
                                 && negb (masked T (p ++ [fst e]))) (map forget_info rl)
  ++ map forget_info bl.
Proof.
  rewrite map_app, filter_map_comm. f_equal. f_equal. apply filter_ext. intros a.
  simpl. rewrite existsb_forget. reflexivity.
Qed.

Theorem v_read_dir_info_forget c p :
  option_map (map forget_info) (v_read_dir_info c p) = v_read_dir c p.
Proof.
  unfold v_read_dir_info, v_read_dir.
  destruct (masked (cT c) p); destruct (is_dir_at (cR c) p); destruct (is_dir_at (cB c) p);
    cbn [option_map]; try reflexivity;
    rewrite merge_forget; cbn [map]; rewrite ?children_info_forget; reflexivity.
Qed.

(** * Every entry describes the node the view holds under that name *)
Lemma children_info_In t p n i : In (n, i) (children_info t p) ->
  exists q e, In (q, e) t /\ q = p ++ [n] /\ i = info_of e.
Proof.
  induction t as [|[q e] t IH]; simpl; [tauto|].
  destruct (is_prefix p q && Nat.eqb (length q) (S (length p))) eqn:E.
  - intros [H|H].
    + inversion H; subst. apply andb_true_iff in E as [E1 E2].
      apply is_prefix_spec in E1 as [s ->]. apply Nat.eqb_eq in E2. rewrite app_length in E2.
      destruct s as [|x [|y s]]; simpl in E2; try lia.
      exists (p ++ [x]), e. split; [left; reflexivity|]. split; [|reflexivity].
      rewrite last_last. reflexivity.
    + destruct (IH H) as (q' & e' & A & B & C). exists q', e'. auto.
  - intros H. destruct (IH H) as (q' & e' & A & B & C). exists q', e'. auto.
Qed.

Theorem listing_info_agrees t p n i : WF t ->
  (In (n, i) (children_info t p) <-> exists e, lookup t (p ++ [n]) = Some e /\ i = info_of e).
Proof.
  intros HWF. split.
  - intros Hin. apply children_info_In in Hin as (q & e & Hq & -> & ->).
    exists e. split; [apply In_lookup; assumption|reflexivity].
  - intros (e & Hl & ->). apply lookup_In in Hl; [|apply snoc_not_nil].
    clear HWF. induction t as [|[q e0] t IH]; simpl in *; [contradiction|].
    destruct Hl as [Hl|Hl].
    + inversion Hl; subst. rewrite is_prefix_app, app_length. simpl.
      replace (Nat.eqb (length p + 1) (S (length p))) with true by (symmetry; apply Nat.eqb_eq; lia).
      simpl. left. rewrite last_last. reflexivity.
    + destruct (is_prefix p q && Nat.eqb (length q) (S (length p))); [right|]; apply IH; exact Hl.
Qed.

Lemma map_fst_forget l : map fst (map forget_info l) = map fst l.
Proof. induction l as [|a l IH]; simpl; [reflexivity|]. rewrite IH. reflexivity. Qed.

Theorem v_read_dir_info_agrees c p l : Inv c -> v_read_dir_info c p = Some l ->
  NoDup (map fst l) /\
  forall n i, In (n, i) l <-> exists e, vlookup c (p ++ [n]) = Some e /\ i = info_of e.
Proof.
  intros I H. split.
  { (* names: through the listing of Model/Cache.v *)
    pose proof (v_read_dir_info_forget c p) as Hf. rewrite H in Hf. simpl in Hf. symmetry in Hf.
    destruct (v_read_dir_agrees c p _ I Hf) as [Hnd _]. rewrite map_fst_forget in Hnd. exact Hnd. }
  unfold v_read_dir_info in H.
  set (r := if masked (cT c) p then None else if is_dir_at (cR c) p then Some (children_info (cR c) p) else None) in *.
  set (b := if is_dir_at (cB c) p then Some (children_info (cB c) p) else None) in *.
  set (rl := match r with Some l => l | None => [] end) in *.
  set (bl := match b with Some l => l | None => [] end) in *.
  assert (Hl : l = filter (fun e => negb (existsb (fun be => bytes_eqb (fst be) (fst e)) bl)
                                    && negb (masked (cT c) (p ++ [fst e]))) rl ++ bl).
  { destruct r, b; inversion H; reflexivity. }
  clear H.
  assert (Hrl : forall n i, In (n, i) rl <->
            masked (cT c) p = false /\ exists e, lookup (cR c) (p ++ [n]) = Some e /\ i = info_of e).
  { intros n i. unfold rl, r. destruct (masked (cT c) p) eqn:Em.
    - split; [intros []|intros [? _]; discriminate].
    - destruct (is_dir_at (cR c) p) eqn:Ed.
      + rewrite (listing_info_agrees _ p n i (inv_R c I)). split; [intros H; split; [reflexivity|exact H]|tauto].
      + split; [intros []|]. intros [_ (e & He & _)]. exfalso.
        pose proof (WF_prefix_dir (cR c) (inv_R c I) [n] p ltac:(discriminate)) as Hd.
        unfold exists_at in Hd. rewrite He in Hd. rewrite (Hd eq_refl) in Ed. discriminate. }
  assert (Hbl : forall n i, In (n, i) bl <-> exists e, lookup (cB c) (p ++ [n]) = Some e /\ i = info_of e).
  { intros n i. unfold bl, b. destruct (is_dir_at (cB c) p) eqn:Ed.
    - rewrite (listing_info_agrees _ p n i (inv_B c I)). tauto.
    - split; [intros []|]. intros (e & He & _). exfalso.
      pose proof (WF_prefix_dir (cB c) (inv_B c I) [n] p ltac:(discriminate)) as Hd.
      unfold exists_at in Hd. rewrite He in Hd. rewrite (Hd eq_refl) in Ed. discriminate. }
  assert (Hinbl : forall n : name, existsb (fun be : name * info => bytes_eqb (fst be) n) bl = true <-> lookup (cB c) (p ++ [n]) <> None).
  { intros n. rewrite existsb_exists. split.
    - intros ([n' d] & Hin & Heq). simpl in Heq. apply bytes_eqb_spec in Heq. subst n'.
      apply Hbl in Hin as (e & He & _). congruence.
    - intros Hne. destruct (lookup (cB c) (p ++ [n])) as [e|] eqn:E; [|congruence].
      exists (n, info_of e). split; [apply Hbl; eauto|apply bytes_eqb_refl]. }
  subst l. intros n i. rewrite in_app_iff, filter_In. simpl. unfold vlookup, vis. split.
  - intros [[Hin Hf]|Hin].
    + apply andb_true_iff in Hf as [Hf1 Hf2]. apply negb_true_iff in Hf1, Hf2.
      apply Hrl in Hin as [_ (e & He & Hd)]. exists e. split; [|exact Hd].
      destruct (lookup (cB c) (p ++ [n])) eqn:Eb.
      * exfalso. apply not_true_iff_false in Hf1. apply Hf1. apply Hinbl. congruence.
      * simpl in Hf2. unfold name in *. rewrite Hf2. exact He.
    + apply Hbl in Hin as (e & He & Hd). exists e. rewrite He. auto.
  - intros (e & He & Hd). destruct (lookup (cB c) (p ++ [n])) as [e'|] eqn:Eb.
    + inversion He; subst e'. right. apply Hbl. eauto.
    + left. destruct (masked (cT c) (p ++ [n])) eqn:Em; [discriminate|]. split.
      * apply Hrl. split; [|eauto]. destruct (masked (cT c) p) eqn:Emp; [|reflexivity].
        rewrite (masked_app _ p [n] Emp) in Em. discriminate.
      * apply andb_true_iff. split; apply negb_true_iff; [|simpl; exact Em].
        apply not_true_iff_false. intros Ex. apply Hinbl in Ex. congruence.
Qed.

(** The described listing exists exactly when the listing does. *)
Lemma v_read_dir_info_some c p l : v_read_dir c p = Some l ->
  exists li, v_read_dir_info c p = Some li /\ map forget_info li = l.
Proof.
  intros H. pose proof (v_read_dir_info_forget c p) as Hf. rewrite H in Hf.
  destruct (v_read_dir_info c p) as [li|]; [|discriminate]. simpl in Hf. inversion Hf. eauto.
Qed.

(** * An entry agrees with stat and with read on the same node

    For every raw spelling [s] of the listed node's path (anything that cleans and reduces to
    [p ++ [n]]): Lstat through the cache answers the entry's kind and size, and for a file
    ReadFile returns exactly that many bytes. *)
Theorem listed_entry_is_stat_and_read c p l n i s : Inv c ->
  v_read_dir_info c p = Some l -> In (n, i) l -> cnorm s = Some (p ++ [n]) ->
  snd (cache_step c (COp (OLstat s))) = stat_of_info i /\
  match i with
  | None => snd (cache_step c (COp (OIsDir s))) = RBool true
  | Some sz => exists d, snd (cache_step c (COp (OReadFile s))) = RData d /\ N.of_nat (length d) = sz
  end.
Proof.
  intros I H Hin Hs.
  destruct (v_read_dir_info_agrees c p l I H) as [_ Hag].
  apply Hag in Hin as (e & He & ->).
  unfold cache_step, on1. rewrite Hs. simpl. unfold v_dir. rewrite He.
  destruct e as [d|]; simpl; [|split; reflexivity].
  split; [reflexivity|]. exists d. split; reflexivity.
Qed.
