(** Proofs about Model/Locks.v (C15). *)
From Coq Require Import Lia ZifyBool ZifyNat ZifyN Permutation.
From GC Require Import Common.Base Model.Locks.
Local Open Scope nat_scope.

(** * Generic list facts *)

Lemma set_nth_length {A} i (v : A) l : length (set_nth i v l) = length l.
Proof. revert i; induction l as [|a l IH]; intros [|i]; cbn; auto. Qed.

Lemma nth_set_nth_eq {A} i (v : A) l : i < length l -> nth_error (set_nth i v l) i = Some v.
Proof.
  revert i; induction l as [|a l IH]; intros [|i] H; cbn in *; try lia; auto.
  apply IH; lia.
Qed.

Lemma nth_set_nth_neq {A} i j (v : A) l : i <> j -> nth_error (set_nth i v l) j = nth_error l j.
Proof.
  revert i j; induction l as [|a l IH]; intros [|i] [|j] H; cbn; auto; try congruence.
Qed.

Lemma nth_error_lt {A} (l : list A) i a : nth_error l i = Some a -> i < length l.
Proof. intro H. apply nth_error_Some. congruence. Qed.

Fixpoint sumf {A} (f : A -> nat) (l : list A) : nat :=
  match l with [] => 0 | t :: r => f t + sumf f r end.

Lemma sumf_set_nth {A} (f : A -> nat) l i t t' :
  nth_error l i = Some t -> sumf f (set_nth i t' l) + f t = sumf f l + f t'.
Proof.
  revert i; induction l as [|a l IH]; intros [|i] H; cbn in *; try discriminate.
  - inversion H; subst. lia.
  - specialize (IH _ H). lia.
Qed.

Lemma sumf_one {A} (f : A -> nat) l i a : nth_error l i = Some a -> f a <= sumf f l.
Proof.
  revert i; induction l as [|b l IH]; intros [|i] H; cbn in *; try discriminate.
  - inversion H; subst; lia.
  - specialize (IH _ H); lia.
Qed.

Lemma sumf_two {A} (f : A -> nat) l i j a b :
  i <> j -> nth_error l i = Some a -> nth_error l j = Some b -> f a + f b <= sumf f l.
Proof.
  revert i j; induction l as [|c l IH]; intros [|i] [|j] N Hi Hj; cbn in *; try discriminate;
    try congruence.
  - inversion Hi; subst. pose proof (sumf_one f _ _ _ Hj). lia.
  - inversion Hj; subst. pose proof (sumf_one f _ _ _ Hi). lia.
  - assert (i <> j) by congruence. specialize (IH _ _ H Hi Hj). lia.
Qed.

Lemma sumf_pos {A} (f : A -> nat) l :
  sumf f l > 0 -> exists i t, nth_error l i = Some t /\ f t > 0.
Proof.
  induction l as [|a l IH]; cbn; intro H; [lia|].
  destruct (f a) eqn:E.
  - destruct IH as (i & t & Hi & Ht); [lia|]. exists (S i), t. auto.
  - exists 0, a. cbn. split; auto. lia.
Qed.

Lemma sumf_zero {A} (f : A -> nat) l : (forall t, In t l -> f t = 0) -> sumf f l = 0.
Proof.
  induction l as [|a l IH]; cbn; intro H; auto.
  rewrite (H a), IH; auto.
Qed.

(** * Counting what threads hold *)

Fixpoint cnt (x : nat) (m : mode) (l : list req) : nat :=
  match l with
  | [] => 0
  | (y, m') :: r => (if Nat.eqb x y && mode_eqb m' m then 1 else 0) + cnt x m r
  end.

Lemma cnt_app x m a b : cnt x m (a ++ b) = cnt x m a + cnt x m b.
Proof. induction a as [|[y m'] a IH]; cbn; auto. rewrite IH. lia. Qed.

Lemma cnt_rev x m a : cnt x m (rev a) = cnt x m a.
Proof.
  induction a as [|[y m'] a IH]; cbn; auto. rewrite cnt_app, IH. cbn. lia.
Qed.

Lemma mode_eqb_eq a b : mode_eqb a b = true <-> a = b.
Proof. destruct a, b; cbn; split; congruence. Qed.

Lemma cnt_pos x m l : cnt x m l > 0 <-> In (x, m) l.
Proof.
  induction l as [|[y m'] l IH]; cbn; [split; [lia|tauto]|].
  destruct (Nat.eqb x y && mode_eqb m' m) eqn:E.
  - apply andb_true_iff in E as [E1 E2]. apply Nat.eqb_eq in E1. apply mode_eqb_eq in E2.
    subst. split; auto. intros _. lia.
  - split.
    + intro H. right. apply IH. lia.
    + intros [H|H].
      * inversion H; subst. rewrite Nat.eqb_refl in E. destruct m; discriminate.
      * apply IH in H. lia.
Qed.

Definition regd (x : nat) (t : thread) : nat :=
  match t with TPend _ y _ => if Nat.eqb x y then 1 else 0 | _ => 0 end.
Definition cR (x : nat) (t : thread) : nat := cnt x MR (holds t).
Definition cW (x : nat) (t : thread) : nat := cnt x MW (holds t).

(** * Inv1: the lock table is the exact account of who holds / is pending on what *)

Definition b2n (b : bool) : nat := if b then 1 else 0.

Definition Inv1 (s : state) : Prop :=
  forall x,
    rd (lk s x) = sumf (cR x) (ths s) /\
    b2n (wr (lk s x)) = sumf (cW x) (ths s) /\
    pend (lk s x) = sumf (regd x) (ths s) /\
    (wr (lk s x) = true -> rd (lk s x) = 0).

Lemma Inv1_init progs : Inv1 (init progs).
Proof.
  intro x. cbn. unfold init; cbn.
  rewrite !sumf_zero; auto; intros t H; apply in_map_iff in H as (p & <- & _); reflexivity.
Qed.

Lemma can_r_true l : can_r l = true -> wr l = false /\ pend l = 0.
Proof.
  unfold can_r. intro H. apply andb_true_iff in H as [H1 H2].
  apply negb_true_iff in H1. apply Nat.eqb_eq in H2. auto.
Qed.
Lemma can_w_true l : can_w l = true -> wr l = false /\ rd l = 0.
Proof.
  unfold can_w. intro H. apply andb_true_iff in H as [H1 H2].
  apply negb_true_iff in H1. apply Nat.eqb_eq in H2. auto.
Qed.
Lemma can_r_false l : can_r l = false -> wr l = true \/ pend l <> 0.
Proof.
  unfold can_r. intro H. apply andb_false_iff in H as [H|H].
  - apply negb_false_iff in H. auto.
  - apply Nat.eqb_neq in H. auto.
Qed.
Lemma can_w_false l : can_w l = false -> wr l = true \/ rd l <> 0.
Proof.
  unfold can_w. intro H. apply andb_false_iff in H as [H|H].
  - apply negb_false_iff in H. auto.
  - apply Nat.eqb_neq in H. auto.
Qed.

Lemma step_inv : forall i s s' t,
  step i s = Some s' -> nth_error (ths s) i = Some t ->
  exists L' t', tstep (lk s) t = Some (L', t') /\ s' = mkState L' (set_nth i t' (ths s)).
Proof.
  intros i s s' t H Ht. unfold step in H. rewrite Ht in H.
  destruct (tstep (lk s) t) as [[L' t']|]; [|discriminate].
  inversion H; subst. eauto.
Qed.

Lemma step_some_thread i s s' : step i s = Some s' -> exists t, nth_error (ths s) i = Some t.
Proof. unfold step. destruct (nth_error (ths s) i); [eauto|discriminate]. Qed.

Lemma step_Inv1 i s s' : Inv1 s -> step i s = Some s' -> Inv1 s'.
Proof.
  intros H Hs.
  destruct (step_some_thread _ _ _ Hs) as [t Ht].
  destruct (step_inv _ _ _ _ Hs Ht) as (L' & t' & Hts & ->).
  intro x. cbn [lk ths].
  pose proof (sumf_set_nth (cR x) _ _ _ t' Ht) as E1.
  pose proof (sumf_set_nth (cW x) _ _ _ t' Ht) as E2.
  pose proof (sumf_set_nth (regd x) _ _ _ t' Ht) as E3.
  destruct (H x) as (A & B & C & D).
  unfold cR, cW in *.
  destruct t as [d [|[y [|]] r] | d y r | h | [|[y [|]] r]]; cbn [tstep] in Hts.
  - inversion Hts; subst. cbn [holds regd] in *. rewrite !cnt_rev in *.
    repeat split; try lia; try exact D.
  - destruct (can_r (lk s y)) eqn:Ec; [|discriminate]. apply can_r_true in Ec as [Ec1 Ec2].
    inversion Hts; subst. cbn [holds regd cnt mode_eqb] in *. unfold upd.
    destruct (Nat.eqb x y) eqn:Exy; cbn [andb rd wr pend] in *.
    + apply Nat.eqb_eq in Exy; subst y. rewrite Ec1 in *. cbn [b2n] in *.
      repeat split; try lia; try discriminate.
    + repeat split; try lia; try exact D.
  - inversion Hts; subst. cbn [holds regd cnt mode_eqb] in *. unfold upd.
    destruct (Nat.eqb x y) eqn:Exy; cbn [andb rd wr pend] in *.
    + apply Nat.eqb_eq in Exy; subst y. repeat split; try lia; try exact D.
    + repeat split; try lia; try exact D.
  - destruct (can_w (lk s y)) eqn:Ec; [|discriminate]. apply can_w_true in Ec as [Ec1 Ec2].
    inversion Hts; subst. cbn [holds regd cnt mode_eqb] in *. unfold upd.
    destruct (Nat.eqb x y) eqn:Exy; cbn [andb rd wr pend b2n] in *.
    + apply Nat.eqb_eq in Exy; subst y. rewrite Ec1 in *. cbn [b2n] in *.
      repeat split; try lia.
    + repeat split; try lia; try exact D.
  - inversion Hts; subst. cbn [holds regd] in *. repeat split; try lia; try exact D.
  - discriminate.
  - inversion Hts; subst. cbn [holds regd cnt mode_eqb] in *. unfold upd.
    destruct (Nat.eqb x y) eqn:Exy; cbn [andb rd wr pend] in *.
    + apply Nat.eqb_eq in Exy; subst y. repeat split; try lia.
    + repeat split; try lia; try exact D.
  - inversion Hts; subst. cbn [holds regd cnt mode_eqb] in *. unfold upd.
    destruct (Nat.eqb x y) eqn:Exy; cbn [andb rd wr pend b2n] in *.
    + apply Nat.eqb_eq in Exy; subst y. destruct (wr (lk s x)); cbn [b2n] in *.
      * repeat split; try lia; try discriminate.
      * lia.
    + repeat split; try lia; try exact D.
Qed.

Lemma run_inv (P : state -> Prop) :
  (forall i s s', P s -> step i s = Some s' -> P s') ->
  forall sched s, P s -> P (run sched s).
Proof.
  intros Hstep sched; induction sched as [|i r IH]; intros s Hs; cbn; auto.
  destruct (step i s) eqn:E; apply IH; eauto.
Qed.

(** * Exclusion *)

Lemma exclusion_holds s i j ti tj x m1 m2 :
  Inv1 s -> i <> j ->
  nth_error (ths s) i = Some ti -> nth_error (ths s) j = Some tj ->
  In (x, m1) (holds ti) -> In (x, m2) (holds tj) -> m1 = MR /\ m2 = MR.
Proof.
  intros H N Hi Hj I1 I2.
  destruct (H x) as (A & B & _ & D).
  pose proof (sumf_two (cR x) _ _ _ _ _ N Hi Hj) as R2.
  pose proof (sumf_two (cW x) _ _ _ _ _ N Hi Hj) as W2.
  unfold cR, cW in *.
  apply cnt_pos in I1. apply cnt_pos in I2.
  destruct (wr (lk s x)); cbn [b2n] in *.
  - specialize (D eq_refl). destruct m1, m2; auto; lia.
  - destruct m1, m2; auto; lia.
Qed.

(** * Inv3: every thread is a position in its own program *)

Definition tinv (p : list req) (t : thread) : Prop :=
  match t with
  | TAcq d todo => rev d ++ todo = p
  | TPend d x todo => rev d ++ (x, MW) :: todo = p
  | TIn h => h = p
  | TRel h => exists pre, pre ++ h = p
  end.

Definition Inv3 (progs : list (list req)) (s : state) : Prop :=
  length (ths s) = length progs /\
  forall i t, nth_error (ths s) i = Some t -> exists p, nth_error progs i = Some p /\ tinv p t.

Lemma Inv3_init progs : Inv3 progs (init progs).
Proof.
  split; cbn; [apply map_length|].
  intros i t H. rewrite nth_error_map in H.
  destruct (nth_error progs i) as [p|]; cbn in H; [|discriminate].
  inversion H; subst. exists p. split; reflexivity.
Qed.

Lemma tstep_tinv L t L' t' p : tinv p t -> tstep L t = Some (L', t') -> tinv p t'.
Proof.
  intros Hp Hs.
  destruct t as [d [|[y [|]] r] | d y r | h | [|[y [|]] r]]; cbn [tstep] in Hs.
  - inversion Hs; subst. cbn in *. rewrite app_nil_r in Hp. exact Hp.
  - destruct (can_r (L y)); [|discriminate]. inversion Hs; subst. cbn in *.
    rewrite <- app_assoc. exact Hp.
  - inversion Hs; subst. exact Hp.
  - destruct (can_w (L y)); [|discriminate]. inversion Hs; subst. cbn in *.
    rewrite <- app_assoc. exact Hp.
  - inversion Hs; subst. cbn in *. exists []. exact Hp.
  - discriminate.
  - inversion Hs; subst. cbn in *. destruct Hp as [pre Hp]. exists (pre ++ [(y, MR)]).
    rewrite <- app_assoc. exact Hp.
  - inversion Hs; subst. cbn in *. destruct Hp as [pre Hp]. exists (pre ++ [(y, MW)]).
    rewrite <- app_assoc. exact Hp.
Qed.

Lemma step_Inv3 progs i s s' : Inv3 progs s -> step i s = Some s' -> Inv3 progs s'.
Proof.
  intros [Hl H] Hs.
  destruct (step_some_thread _ _ _ Hs) as [t Ht].
  destruct (step_inv _ _ _ _ Hs Ht) as (L' & t' & Hts & ->).
  split; cbn [ths]; [rewrite set_nth_length; exact Hl|].
  intros j tj Hj. destruct (Nat.eq_dec i j) as [->|N].
  - rewrite nth_set_nth_eq in Hj by (eapply nth_error_lt; eauto). inversion Hj; subst.
    destruct (H _ _ Ht) as (p & Hp & Hi). exists p. split; auto. eapply tstep_tinv; eauto.
  - rewrite nth_set_nth_neq in Hj by exact N. auto.
Qed.

Lemma holds_in_prog p t q : tinv p t -> In q (holds t) -> In q p.
Proof.
  destruct t; cbn; intros H I; subst; auto.
  - apply in_or_app. left. apply in_rev in I. exact I.
  - apply in_or_app. left. apply in_rev in I. exact I.
  - destruct H as [pre <-]. apply in_or_app. auto.
Qed.

(** * Ascending lists *)

Lemma ascb_cons x l : ascb (x :: l) = true <-> Forall (lt x) l /\ ascb l = true.
Proof.
  revert x; induction l as [|y l IH]; intro x.
  - cbn. split; auto.
  - change (ascb (x :: y :: l)) with (Nat.ltb x y && ascb (y :: l)).
    rewrite andb_true_iff, Nat.ltb_lt. split.
    + intros [H1 H2]. split; auto. constructor; auto.
      apply IH in H2 as [H2 _]. eapply Forall_impl; [|exact H2]. cbn; intros; lia.
    + intros [H1 H2]. inversion H1; subst. auto.
Qed.

Lemma ascb_app_lt l1 y l2 x : ascb (l1 ++ y :: l2) = true -> In x l1 -> x < y.
Proof.
  induction l1 as [|a l1 IH]; cbn [app]; intros H I; [destruct I|].
  apply ascb_cons in H as [H1 H2]. destruct I as [->|I]; auto.
  rewrite Forall_forall in H1. apply H1. apply in_or_app. right. left. reflexivity.
Qed.

Lemma in_insert_req q a l : In q (insert_req a l) <-> q = a \/ In q l.
Proof.
  induction l as [|p l IH]; cbn; [intuition|].
  destruct (Nat.leb (fst a) (fst p)); cbn; rewrite ?IH; intuition.
Qed.

Lemma in_lock_prog q m : In q (lock_prog m) <-> In q m.
Proof.
  induction m as [|a m IH]; cbn; [tauto|]. rewrite in_insert_req, IH. intuition.
Qed.

Lemma insert_req_asc a l :
  ascb (map fst l) = true -> ~ In (fst a) (map fst l) -> ascb (map fst (insert_req a l)) = true.
Proof.
  induction l as [|p l IH]; intros H N; [reflexivity|].
  cbn [insert_req]. cbn [map] in H, N. destruct (Nat.leb (fst a) (fst p)) eqn:E.
  - cbn [map]. apply ascb_cons. split; [|exact H].
    apply ascb_cons in H as [H1 H2].
    assert (fst a < fst p) by (apply Nat.leb_le in E; cbn in N; lia).
    constructor; auto. eapply Forall_impl; [|exact H1]. cbn; intros; lia.
  - cbn [map]. apply ascb_cons in H as [H1 H2]. apply ascb_cons. split.
    + rewrite Forall_forall in *. intros z Hz. apply in_map_iff in Hz as (q & <- & Hq).
      apply in_insert_req in Hq as [->|Hq].
      * apply Nat.leb_gt in E. lia.
      * apply H1. apply in_map. exact Hq.
    + apply IH; auto. cbn in N. tauto.
Qed.

Lemma lock_prog_asc m : NoDup (map fst m) -> ascb (map fst (lock_prog m)) = true.
Proof.
  induction m as [|a m IH]; intro H; [reflexivity|].
  cbn in H. inversion H; subst. cbn [lock_prog]. apply insert_req_asc; auto.
  intro I. apply H2. apply in_map_iff in I as (q & E & Hq). apply (proj1 (in_lock_prog _ _)) in Hq.
  rewrite <- E. apply in_map. exact Hq.
Qed.

(** * Termination measure *)

Lemma tstep_measure L t L' t' : tstep L t = Some (L', t') -> tmeasure t' + 1 = tmeasure t.
Proof.
  intro Hs.
  destruct t as [d [|[y [|]] r] | d y r | h | [|[y [|]] r]]; cbn [tstep] in Hs.
  - inversion Hs; subst. cbn. rewrite rev_length. lia.
  - destruct (can_r (L y)); [|discriminate]. inversion Hs; subst. cbn. lia.
  - inversion Hs; subst. cbn. lia.
  - destruct (can_w (L y)); [|discriminate]. inversion Hs; subst. cbn. lia.
  - inversion Hs; subst. cbn. lia.
  - discriminate.
  - inversion Hs; subst. cbn. lia.
  - inversion Hs; subst. cbn. lia.
Qed.

Lemma measure_sumf s : measure s = sumf tmeasure (ths s).
Proof. unfold measure. induction (ths s); cbn; auto. Qed.

Lemma step_measure i s s' : step i s = Some s' -> measure s' + 1 = measure s.
Proof.
  intro Hs.
  destruct (step_some_thread _ _ _ Hs) as [t Ht].
  destruct (step_inv _ _ _ _ Hs Ht) as (L' & t' & Hts & ->).
  rewrite !measure_sumf. cbn [ths].
  pose proof (sumf_set_nth tmeasure _ _ _ t' Ht). apply tstep_measure in Hts. lia.
Qed.

(** Strict runs: every scheduled step must be enabled. *)
Fixpoint run_strict (sched : list nat) (s : state) : option state :=
  match sched with
  | [] => Some s
  | i :: r => match step i s with Some s' => run_strict r s' | None => None end
  end.

Lemma run_strict_measure sched : forall s s',
  run_strict sched s = Some s' -> length sched + measure s' = measure s.
Proof.
  induction sched as [|i r IH]; intros s s' H; cbn in *.
  - inversion H; subst; lia.
  - destruct (step i s) as [s1|] eqn:E; [|discriminate].
    apply step_measure in E. apply IH in H. lia.
Qed.

Lemma run_strict_run sched : forall s s', run_strict sched s = Some s' -> run sched s = s'.
Proof.
  induction sched as [|i r IH]; intros s s' H; cbn in *.
  - inversion H; auto.
  - destruct (step i s) as [s1|] eqn:E; [|discriminate]. auto.
Qed.

(** * Stuck states *)

Lemma stuck_spec s : stuck s = true <-> forall i, step i s = None.
Proof.
  unfold stuck. rewrite negb_true_iff. split.
  - intros H i. destruct (step i s) as [s'|] eqn:E; auto. exfalso.
    assert (existsb (fun i => enabled i s) (seq 0 (length (ths s))) = true); [|congruence].
    apply existsb_exists. exists i. split.
    + apply in_seq. destruct (step_some_thread _ _ _ E) as [t Ht].
      apply nth_error_lt in Ht. lia.
    + unfold enabled. rewrite E. reflexivity.
  - intro H. destruct (existsb _ _) eqn:E; auto.
    apply existsb_exists in E as (i & _ & Hi). unfold enabled in Hi. rewrite H in Hi. discriminate.
Qed.

Lemma all_final_spec s :
  all_final s = true <-> forall i t, nth_error (ths s) i = Some t -> t = TRel [].
Proof.
  unfold all_final. rewrite forallb_forall. split.
  - intros H i t Ht. apply nth_error_In in Ht. apply H in Ht.
    destruct t as [| | |[|]]; try discriminate. reflexivity.
  - intros H t Ht. apply In_nth_error in Ht as [i Hi]. rewrite (H _ _ Hi). reflexivity.
Qed.

(** The name a thread is about to acquire. *)
Definition waits (t : thread) (x : nat) : Prop :=
  (exists d m r, t = TAcq d ((x, m) :: r)) \/ (exists d r, t = TPend d x r).

Definition wname (t : thread) : nat :=
  match t with TAcq _ ((y, _) :: _) => y | TPend _ y _ => y | _ => 0 end.

Lemma waits_wname t x : waits t x -> wname t = x.
Proof. intros [(d & m & r & ->)|(d & r & ->)]; reflexivity. Qed.

Definition sorted_progs (progs : list (list req)) : Prop :=
  forall p, In p progs -> ascb (map fst p) = true.

Section Deadlock.
  Variable progs : list (list req).
  Variable s : state.
  Hypothesis Hsorted : sorted_progs progs.
  Hypothesis H1 : Inv1 s.
  Hypothesis H3 : Inv3 progs s.
  Hypothesis Hstuck : forall i, step i s = None.

  Lemma stuck_tstep i t : nth_error (ths s) i = Some t -> tstep (lk s) t = None.
  Proof.
    intro Ht. specialize (Hstuck i). unfold step in Hstuck. rewrite Ht in Hstuck.
    destruct (tstep (lk s) t) as [[? ?]|]; [discriminate|reflexivity].
  Qed.

  Lemma holder_waits_higher j tj x m :
    nth_error (ths s) j = Some tj -> In (x, m) (holds tj) -> exists y, waits tj y /\ x < y.
  Proof.
    intros Hj I. pose proof (stuck_tstep _ _ Hj) as Hn.
    destruct H3 as [_ H3']. destruct (H3' _ _ Hj) as (p & Hp & Hi).
    assert (Hs : ascb (map fst p) = true) by (apply Hsorted; eapply nth_error_In; eauto).
    destruct tj as [d [|[y [|]] r] | d y r | h | [|[y [|]] r]]; cbn [tstep] in Hn; try discriminate.
    - exists y. split; [left; eauto|]. cbn in Hi, I. rewrite <- Hi, map_app in Hs. cbn [map fst] in Hs.
      eapply ascb_app_lt; [exact Hs|].
      apply in_map_iff. exists (x, m). split; auto. apply in_rev in I. exact I.
    - exists y. split; [right; eauto|]. cbn in Hi, I. rewrite <- Hi, map_app in Hs. cbn [map fst] in Hs.
      eapply ascb_app_lt; [exact Hs|].
      apply in_map_iff. exists (x, m). split; auto. apply in_rev in I. exact I.
    - destruct I.
  Qed.

  Lemma blocked_by_holder x :
    wr (lk s x) = true \/ rd (lk s x) <> 0 ->
    exists j tj m, nth_error (ths s) j = Some tj /\ In (x, m) (holds tj).
  Proof.
    intro H. destruct (H1 x) as (A & B & _ & _).
    destruct H as [H|H].
    - rewrite H in B. cbn in B.
      destruct (sumf_pos (cW x) (ths s)) as (j & tj & Hj & Hc); [lia|].
      exists j, tj, MW. split; auto. apply cnt_pos. exact Hc.
    - destruct (sumf_pos (cR x) (ths s)) as (j & tj & Hj & Hc); [lia|].
      exists j, tj, MR. split; auto. apply cnt_pos. exact Hc.
  Qed.

  Lemma waits_higher i t x :
    nth_error (ths s) i = Some t -> waits t x ->
    exists j tj y, nth_error (ths s) j = Some tj /\ waits tj y /\ x < y.
  Proof.
    intros Ht Hw. pose proof (stuck_tstep _ _ Ht) as Hn.
    assert (Hb : wr (lk s x) = true \/ rd (lk s x) <> 0 ->
                 exists j tj y, nth_error (ths s) j = Some tj /\ waits tj y /\ x < y).
    { intro Hb. destruct (blocked_by_holder _ Hb) as (j & tj & m & Hj & I).
      destruct (holder_waits_higher _ _ _ _ Hj I) as (y & Hy & Hlt). eauto 6. }
    destruct Hw as [(d & m & r & ->)|(d & r & ->)].
    - destruct m; cbn [tstep] in Hn; [|discriminate].
      destruct (can_r (lk s x)) eqn:Ec; [discriminate|].
      apply can_r_false in Ec as [Ec|Ec]; [apply Hb; auto|].
      destruct (H1 x) as (_ & _ & C & _).
      destruct (sumf_pos (regd x) (ths s)) as (j & tj & Hj & Hc); [lia|].
      destruct tj as [| d' y r' | |]; cbn in Hc; try lia.
      destruct (Nat.eqb x y) eqn:Exy; [|lia]. apply Nat.eqb_eq in Exy; subst y.
      pose proof (stuck_tstep _ _ Hj) as Hn'. cbn [tstep] in Hn'.
      destruct (can_w (lk s x)) eqn:Ec'; [discriminate|].
      apply can_w_false in Ec'. apply Hb. exact Ec'.
    - cbn [tstep] in Hn. destruct (can_w (lk s x)) eqn:Ec; [discriminate|].
      apply can_w_false in Ec. apply Hb. exact Ec.
  Qed.

  Lemma nobody_waits : forall k i t x,
    sumf wname (ths s) - x <= k -> nth_error (ths s) i = Some t -> waits t x -> False.
  Proof.
    induction k as [|k IH]; intros i t x Hk Ht Hw;
      destruct (waits_higher _ _ _ Ht Hw) as (j & tj & y & Hj & Hwj & Hlt);
      pose proof (sumf_one wname _ _ _ Hj) as Hb; rewrite (waits_wname _ _ Hwj) in Hb.
    - lia.
    - eapply (IH j tj y); eauto. lia.
  Qed.

  Lemma stuck_all_final : all_final s = true.
  Proof.
    apply all_final_spec. intros i t Ht. pose proof (stuck_tstep _ _ Ht) as Hn.
    destruct t as [d [|[y m] r] | d y r | h | [|[y [|]] r]]; cbn [tstep] in Hn; try discriminate.
    - exfalso. eapply (nobody_waits _ i _ y (le_n _) Ht). left; eauto.
    - exfalso. eapply (nobody_waits _ i _ y (le_n _) Ht). right; eauto.
    - reflexivity.
  Qed.
End Deadlock.

Lemma final_locks_free s : Inv1 s -> all_final s = true -> forall x, lk s x = lock0.
Proof.
  intros H Hf x. destruct (H x) as (A & B & C & _).
  rewrite all_final_spec in Hf.
  assert (Z : forall f, (forall t, t = TRel [] -> f t = 0) -> sumf f (ths s) = 0).
  { intros f Hz. apply sumf_zero. intros t Ht. apply In_nth_error in Ht as [i Hi]. eauto. }
  rewrite Z in A by (intros; subst; reflexivity).
  rewrite Z in B by (intros; subst; reflexivity).
  rewrite Z in C by (intros; subst; reflexivity).
  destruct (lk s x) as [r w p]; cbn in *. subst. destruct w; [discriminate|reflexivity].
Qed.

(** Invariant bundle for reachable states. *)
Definition Inv (progs : list (list req)) (s : state) : Prop := Inv1 s /\ Inv3 progs s.

Lemma reach_Inv progs sched : Inv progs (run sched (init progs)).
Proof.
  apply run_inv.
  - intros i s s' [A B] Hs. split; [eapply step_Inv1|eapply step_Inv3]; eauto.
  - split; [apply Inv1_init|apply Inv3_init].
Qed.

Lemma sys_sorted maps :
  Forall (fun m => NoDup (map fst m)) maps -> sorted_progs (map lock_prog maps).
Proof.
  intros H p Hp. apply in_map_iff in Hp as (m & <- & Hm).
  rewrite Forall_forall in H. apply lock_prog_asc. auto.
Qed.

(** * Compatible holders never wait *)

Lemma asc_not_in_prefix l1 y l2 : ascb (l1 ++ y :: l2) = true -> ~ In y l1.
Proof. intros H I. pose proof (ascb_app_lt _ _ _ _ H I). lia. Qed.

Section Compat.
  Variable maps : list (list req).
  Hypothesis Hnodup : Forall (fun m => NoDup (map fst m)) maps.
  Hypothesis Hcompat : pairwise_compat maps.
  Let progs := map lock_prog maps.

  Lemma progs_compat i j a b :
    i <> j -> nth_error progs i = Some a -> nth_error progs j = Some b -> compat a b.
  Proof.
    unfold progs. rewrite !nth_error_map. intros N Hi Hj.
    destruct (nth_error maps i) as [ma|] eqn:Ei; [|discriminate].
    destruct (nth_error maps j) as [mb|] eqn:Ej; [|discriminate].
    cbn in Hi, Hj. inversion Hi; inversion Hj; subst.
    intros x m1 m2 I1 I2. apply (proj1 (in_lock_prog _ _)) in I1.
    apply (proj1 (in_lock_prog _ _)) in I2.
    exact (Hcompat i j ma mb N Ei Ej x m1 m2 I1 I2).
  Qed.

  Lemma never_disabled s i t :
    Inv progs s -> nth_error (ths s) i = Some t -> final_thread t = false -> step i s <> None.
  Proof.
    intros [I1 I3] Ht Hf. unfold step. rewrite Ht.
    destruct I3 as [_ I3]. destruct (I3 _ _ Ht) as (p & Hp & Hi).
    assert (Hs : ascb (map fst p) = true) by (apply (sys_sorted _ Hnodup); eapply nth_error_In; eauto).
    (* any other holder / pending writer of a name [x] that [p] contains clashes with compat *)
    assert (Hother : forall x m m', In (x, m) p -> (m = MW \/ m' = MW) ->
              forall j tj, nth_error (ths s) j = Some tj -> j <> i ->
              (In (x, m') (holds tj) \/ (m' = MW /\ exists d r, tj = TPend d x r)) -> False).
    { intros x m m' Ip Hm j tj Hj N Hh.
      destruct (I3 _ _ Hj) as (pj & Hpj & Hij).
      assert (In (x, m') pj).
      { destruct Hh as [Hh|(-> & d & r & ->)]; [eapply holds_in_prog; eauto|].
        cbn in Hij. rewrite <- Hij. apply in_or_app. right. left. reflexivity. }
      destruct (progs_compat _ _ _ _ N Hpj Hp _ _ _ H Ip) as [-> ->]. destruct Hm; discriminate. }
    destruct t as [d [|[y [|]] r] | d y r | h | [|[y [|]] r]]; cbn [tstep]; try discriminate.
    - destruct (can_r (lk s y)) eqn:Ec; [discriminate|]. exfalso.
      cbn in Hi. assert (Ip : In (y, MR) p) by (rewrite <- Hi; apply in_or_app; right; left; auto).
      destruct (I1 y) as (A & B & C & _).
      apply can_r_false in Ec as [Ec|Ec].
      + rewrite Ec in B. cbn in B.
        destruct (sumf_pos (cW y) (ths s)) as (j & tj & Hj & Hc); [lia|]. apply cnt_pos in Hc.
        destruct (Nat.eq_dec j i) as [->|N].
        * rewrite Ht in Hj. injection Hj as Hj. subst tj. cbn in Hc.
          rewrite <- Hi, map_app in Hs. cbn [map fst] in Hs.
          apply asc_not_in_prefix in Hs. apply Hs. apply in_map_iff. exists (y, MW).
          split; auto. apply in_rev in Hc. exact Hc.
        * (* other holder has it in write mode *)
          destruct (I3 _ _ Hj) as (pj & Hpj & Hij).
          pose proof (holds_in_prog _ _ _ Hij Hc) as Ipj.
          destruct (progs_compat _ _ _ _ N Hpj Hp _ _ _ Ipj Ip) as [E _]. discriminate.
      + destruct (sumf_pos (regd y) (ths s)) as (j & tj & Hj & Hc); [lia|].
        destruct tj as [| d' z r' | |]; cbn in Hc; try lia.
        destruct (Nat.eqb y z) eqn:Eyz; [|lia]. apply Nat.eqb_eq in Eyz; subst z.
        destruct (Nat.eq_dec j i) as [->|N]; [rewrite Ht in Hj; discriminate|].
        eapply (Hother y MR MW Ip (or_intror eq_refl) j _ Hj N). right. eauto.
    - destruct (can_w (lk s y)) eqn:Ec; [discriminate|]. exfalso.
      cbn in Hi. assert (Ip : In (y, MW) p) by (rewrite <- Hi; apply in_or_app; right; left; auto).
      destruct (I1 y) as (A & B & C & _).
      assert (Hh : exists j tj m', nth_error (ths s) j = Some tj /\ In (y, m') (holds tj)).
      { apply can_w_false in Ec as [Ec|Ec].
        - rewrite Ec in B. cbn in B.
          destruct (sumf_pos (cW y) (ths s)) as (j & tj & Hj & Hc); [lia|]. apply cnt_pos in Hc. eauto.
        - destruct (sumf_pos (cR y) (ths s)) as (j & tj & Hj & Hc); [lia|]. apply cnt_pos in Hc. eauto. }
      destruct Hh as (j & tj & m' & Hj & Hc).
      destruct (Nat.eq_dec j i) as [->|N].
      + rewrite Ht in Hj. injection Hj as Hj. subst tj. cbn in Hc.
        rewrite <- Hi, map_app in Hs. cbn [map fst] in Hs.
        apply asc_not_in_prefix in Hs. apply Hs. apply in_map_iff. exists (y, m').
        split; auto. apply in_rev in Hc. exact Hc.
      + eapply (Hother y MW m' Ip (or_introl eq_refl) j _ Hj N). left. exact Hc.
  Qed.

  (** ... and the state with all of them inside is reachable. *)
  Definition pre_rel (t : thread) : bool := match t with TRel _ => false | _ => true end.

  Lemma tstep_pre_rel L t L' t' :
    inside t = false -> pre_rel t = true -> tstep L t = Some (L', t') -> pre_rel t' = true.
  Proof.
    destruct t as [d [|[y [|]] r] | d y r | h | h]; cbn; intros A B H; try discriminate.
    - inversion H; reflexivity.
    - destruct (can_r (L y)); inversion H; reflexivity.
    - inversion H; reflexivity.
    - destruct (can_w (L y)); inversion H; reflexivity.
  Qed.

  Lemma forallb_false_nth {A} (f : A -> bool) l :
    forallb f l = false -> exists i t, nth_error l i = Some t /\ f t = false.
  Proof.
    induction l as [|a l IH]; cbn; [discriminate|]. destruct (f a) eqn:E; cbn.
    - intro H. destruct (IH H) as (i & t & Hi & Hf). exists (S i), t. auto.
    - intros _. exists 0, a. auto.
  Qed.

  Lemma all_inside_from : forall n s,
    measure s <= n -> Inv progs s -> forallb pre_rel (ths s) = true ->
    exists sched, run_strict sched s <> None /\ forallb inside (ths (run sched s)) = true.
  Proof.
    induction n as [|n IH]; intros s Hm HI Hp;
      destruct (forallb inside (ths s)) eqn:Ein;
      try (exists []; cbn; split; [discriminate|exact Ein]);
      destruct (forallb_false_nth _ _ Ein) as (i & t & Ht & Hni);
      assert (Hpt : pre_rel t = true) by
        (rewrite forallb_forall in Hp; apply Hp; eapply nth_error_In; eauto);
      assert (Hnf : final_thread t = false) by (destruct t; try reflexivity; discriminate);
      pose proof (never_disabled _ _ _ HI Ht Hnf) as Hen;
      destruct (step i s) as [s'|] eqn:Es; try congruence;
      pose proof (step_measure _ _ _ Es) as Hms.
    - lia.
    - destruct (step_inv _ _ _ _ Es Ht) as (L' & t' & Hts & Hs').
      assert (HI' : Inv progs s').
      { destruct HI as [A B]. split; [eapply step_Inv1|eapply step_Inv3]; eauto. }
      assert (Hp' : forallb pre_rel (ths s') = true).
      { subst s'. cbn [ths]. apply forallb_forall. intros u Hu.
        apply In_nth_error in Hu as [j Hj]. destruct (Nat.eq_dec i j) as [->|N].
        - rewrite nth_set_nth_eq in Hj by (eapply nth_error_lt; eauto). inversion Hj; subst.
          eapply tstep_pre_rel; eauto.
        - rewrite nth_set_nth_neq in Hj by exact N.
          rewrite forallb_forall in Hp. apply Hp. eapply nth_error_In; eauto. }
      destruct (IH s') as (sched & Hr & Hin); auto; [lia|].
      exists (i :: sched). cbn. rewrite Es. auto.
  Qed.

  Lemma all_inside_reachable :
    exists sched,
      run_strict sched (sys maps) <> None /\
      forall i m, nth_error maps i = Some m ->
                  nth_error (ths (run sched (sys maps))) i = Some (TIn (lock_prog m)).
  Proof.
    destruct (all_inside_from (measure (sys maps)) (sys maps)) as (sched & Hr & Hin).
    - lia.
    - unfold sys. fold progs. pose proof (reach_Inv progs []) as H. exact H.
    - unfold sys, init. cbn. apply forallb_forall. intros t Ht.
      apply in_map_iff in Ht as (p & <- & _). reflexivity.
    - exists sched. split; auto. intros i m Hm.
      pose proof (reach_Inv progs sched) as [_ [Hl H3]]. fold progs in Hl. unfold sys. fold progs.
      assert (Hlt : i < length (ths (run sched (init progs)))).
      { rewrite Hl. unfold progs. rewrite map_length. eapply nth_error_lt; eauto. }
      destruct (nth_error (ths (run sched (init progs))) i) as [t|] eqn:Et;
        [|apply nth_error_None in Et; lia].
      destruct (H3 _ _ Et) as (p & Hp & Hi).
      unfold progs in Hp. rewrite nth_error_map, Hm in Hp. cbn in Hp. inversion Hp; subst p.
      unfold sys in Hin. fold progs in Hin. rewrite forallb_forall in Hin.
      specialize (Hin t (nth_error_In _ _ Et)). destruct t; try discriminate.
      cbn in Hi. subst. reflexivity.
  Qed.
End Compat.

(** * Final statements (used by Props/C15.v) *)

Definition nodup_maps (maps : list (list req)) : Prop := Forall (fun m => NoDup (map fst m)) maps.

Theorem exclusion_inside : forall maps sched i j mi mj hi hj x m1 m2,
  let s := run sched (sys maps) in
  i <> j ->
  nth_error maps i = Some mi -> nth_error maps j = Some mj ->
  nth_error (ths s) i = Some (TIn hi) -> nth_error (ths s) j = Some (TIn hj) ->
  In (x, m1) mi -> In (x, m2) mj -> m1 = MR /\ m2 = MR.
Proof.
  intros maps sched i j mi mj hi hj x m1 m2 s N Hmi Hmj Hi Hj I1 I2.
  pose proof (reach_Inv (map lock_prog maps) sched) as [A [_ B]]. fold (sys maps) in A, B. fold s in A, B.
  destruct (B _ _ Hi) as (pi & Hpi & Ti). destruct (B _ _ Hj) as (pj & Hpj & Tj).
  rewrite nth_error_map, Hmi in Hpi. rewrite nth_error_map, Hmj in Hpj.
  cbn in Hpi, Hpj, Ti, Tj. inversion Hpi; inversion Hpj; subst.
  eapply (exclusion_holds s i j _ _ x m1 m2 A N Hi Hj); cbn; apply in_lock_prog; assumption.
Qed.

Theorem exclusion_holding : forall progs sched i j ti tj x m1 m2,
  let s := run sched (init progs) in
  i <> j -> nth_error (ths s) i = Some ti -> nth_error (ths s) j = Some tj ->
  In (x, m1) (holds ti) -> In (x, m2) (holds tj) -> m1 = MR /\ m2 = MR.
Proof.
  intros progs sched i j ti tj x m1 m2 s N Hi Hj I1 I2.
  pose proof (reach_Inv progs sched) as [A _].
  eapply exclusion_holds; eauto.
Qed.

Theorem no_deadlock : forall maps sched,
  nodup_maps maps ->
  let s := run sched (sys maps) in
  all_final s = false -> exists i, i < length maps /\ step i s <> None.
Proof.
  intros maps sched Hn s Hf.
  destruct (stuck s) eqn:Est.
  - exfalso. pose proof (reach_Inv (map lock_prog maps) sched) as [A B].
    rewrite stuck_spec in Est.
    rewrite (stuck_all_final (map lock_prog maps) s (sys_sorted _ Hn) A B Est) in Hf. discriminate.
  - unfold stuck in Est. apply negb_false_iff in Est. apply existsb_exists in Est as (i & Hi & He).
    exists i. split.
    + apply in_seq in Hi. pose proof (reach_Inv (map lock_prog maps) sched) as [_ [Hl _]].
      fold (sys maps) in Hl. fold s in Hl. rewrite map_length in Hl. lia.
    + unfold enabled in He. destruct (step i s); [discriminate|discriminate].
Qed.

Theorem stuck_is_finished : forall maps sched,
  nodup_maps maps ->
  let s := run sched (sys maps) in
  (forall i, step i s = None) -> all_final s = true /\ forall x, lk s x = lock0.
Proof.
  intros maps sched Hn s Hst.
  pose proof (reach_Inv (map lock_prog maps) sched) as [A B].
  assert (F : all_final s = true) by (eapply stuck_all_final; eauto using sys_sorted).
  split; auto. apply final_locks_free; auto.
Qed.

Theorem runs_bounded : forall progs sched s',
  run_strict sched (init progs) = Some s' -> length sched <= measure (init progs).
Proof. intros progs sched s' H. apply run_strict_measure in H. lia. Qed.

(** From every reachable state some schedule finishes everybody. *)
Theorem can_finish : forall maps sched,
  nodup_maps maps ->
  exists sched', all_final (run (sched ++ sched') (sys maps)) = true.
Proof.
  intros maps sched Hn.
  assert (G : forall n sc, measure (run sc (sys maps)) <= n ->
              exists sc', all_final (run (sc ++ sc') (sys maps)) = true).
  { induction n as [|n IH]; intros sc Hm;
      destruct (all_final (run sc (sys maps))) eqn:Ef;
      try (exists []; rewrite app_nil_r; exact Ef);
      destruct (no_deadlock maps sc Hn Ef) as (i & _ & Hi);
      destruct (step i (run sc (sys maps))) as [s'|] eqn:Es; try congruence;
      pose proof (step_measure _ _ _ Es) as Hms.
    - lia.
    - assert (Er : run (sc ++ [i]) (sys maps) = s').
      { clear - Es. revert Es. generalize (sys maps). induction sc as [|a sc IHsc]; intros s0 Es; cbn in *.
        - rewrite Es. reflexivity.
        - apply IHsc. exact Es. }
      destruct (IH (sc ++ [i])) as (sc' & Hsc'); [rewrite Er; lia|].
      exists (i :: sc'). rewrite <- app_assoc in Hsc'. exact Hsc'. }
  eapply G. apply le_n.
Qed.

(** Unsorted acquisition deadlocks. *)
Definition dl_maps : list (list req) := [[(0, MW); (1, MW)]; [(1, MW); (0, MW)]].
Definition dl_sched : list nat := [0; 0; 1; 1; 0; 1].

Theorem unsorted_refuted :
  exists maps sched,
    nodup_maps maps /\
    let s := run sched (sys_unsorted maps) in
    all_final s = false /\ (forall i, step i s = None).
Proof.
  exists dl_maps, dl_sched. split.
  - repeat constructor; cbn; intuition; try discriminate; try lia.
  - split; [vm_compute; reflexivity|]. apply stuck_spec. vm_compute. reflexivity.
Qed.

(** Readers alone can be part of a cycle only through pending writers: four holders,
    two unsorted readers and two single-name writers. *)
Definition dl2_maps : list (list req) := [[(0, MR); (1, MR)]; [(1, MR); (0, MR)]; [(0, MW)]; [(1, MW)]].
Definition dl2_sched : list nat := [0; 1; 2; 3; 0; 1; 2; 3].
Lemma unsorted_readers_deadlock :
  let s := run dl2_sched (sys_unsorted dl2_maps) in all_final s = false /\ stuck s = true.
Proof. vm_compute. split; reflexivity. Qed.

(** * The concrete order: byte-wise lexicographic [<] *)
Local Open Scope N_scope.

Lemma lex_irrefl a : lex_ltb a a = false.
Proof. induction a as [|x a IH]; cbn; auto. rewrite N.ltb_irrefl, N.eqb_refl. exact IH. Qed.

Lemma lex_trans a : forall b c, lex_ltb a b = true -> lex_ltb b c = true -> lex_ltb a c = true.
Proof.
  induction a as [|x a IH]; intros [|y b] [|z c]; cbn; auto; try discriminate.
  destruct (N.ltb x y) eqn:E1; destruct (N.ltb y z) eqn:E2;
    destruct (N.eqb x y) eqn:E3; destruct (N.eqb y z) eqn:E4; try discriminate; intros H1 H2;
    destruct (N.ltb x z) eqn:E5; auto; destruct (N.eqb x z) eqn:E6; try lia.
  eapply IH; eauto.
Qed.

Lemma lex_total a : forall b, lex_ltb a b = false -> lex_ltb b a = false -> a = b.
Proof.
  induction a as [|x a IH]; intros [|y b]; cbn; auto; try discriminate.
  destruct (N.ltb x y) eqn:E1; destruct (N.ltb y x) eqn:E2;
    destruct (N.eqb x y) eqn:E3; destruct (N.eqb y x) eqn:E4; try discriminate; try lia.
  intros H1 H2. apply N.eqb_eq in E3. subst. f_equal. auto.
Qed.

Lemma lex_ascb_cons x l : lex_ascb (x :: l) = true <-> Forall (fun y => lex_ltb x y = true) l /\ lex_ascb l = true.
Proof.
  revert x; induction l as [|y l IH]; intro x.
  - cbn. split; auto.
  - change (lex_ascb (x :: y :: l)) with (lex_ltb x y && lex_ascb (y :: l)).
    rewrite andb_true_iff. split.
    + intros [H1 H2]. split; auto. constructor; auto.
      apply IH in H2 as [H2 _]. eapply Forall_impl; [|exact H2]. cbn; intros. eapply lex_trans; eauto.
    + intros [H1 H2]. inversion H1; subst. auto.
Qed.

Lemma in_insert_row q a l : In q (insert_row a l) <-> q = a \/ In q l.
Proof.
  induction l as [|p l IH]; cbn; [intuition|].
  destruct (lex_ltb (fst p) (fst a)); cbn; rewrite ?IH; intuition.
Qed.

Lemma insert_row_perm a l : Permutation (insert_row a l) (a :: l).
Proof.
  induction l as [|p l IH]; cbn; auto.
  destruct (lex_ltb (fst p) (fst a)); auto.
  rewrite IH. apply perm_swap.
Qed.

Lemma sort_rows_perm m : Permutation (sort_rows m) m.
Proof. induction m as [|a m IH]; cbn; auto. rewrite insert_row_perm. auto. Qed.

Lemma insert_row_asc a l :
  lex_ascb (map fst l) = true -> ~ In (fst a) (map fst l) -> lex_ascb (map fst (insert_row a l)) = true.
Proof.
  induction l as [|p l IH]; intros H N; [reflexivity|].
  cbn [insert_row]. cbn [map] in H, N. destruct (lex_ltb (fst p) (fst a)) eqn:E.
  - cbn [map]. apply lex_ascb_cons in H as [H1 H2]. apply lex_ascb_cons. split.
    + rewrite Forall_forall in *. intros z Hz. apply in_map_iff in Hz as (q & <- & Hq).
      apply in_insert_row in Hq as [->|Hq]; auto. apply H1. apply in_map. exact Hq.
    + apply IH; auto. cbn in N. tauto.
  - cbn [map]. apply lex_ascb_cons. split; [|exact H].
    apply lex_ascb_cons in H as [H1 H2].
    assert (L : lex_ltb (fst a) (fst p) = true).
    { destruct (lex_ltb (fst a) (fst p)) eqn:E'; auto. exfalso. apply N. left.
      symmetry. apply lex_total; auto. }
    constructor; auto. eapply Forall_impl; [|exact H1]. cbn; intros. eapply lex_trans; eauto.
Qed.

Theorem sort_rows_sorted m :
  NoDup (map fst m) -> lex_ascb (map fst (sort_rows m)) = true /\ Permutation (sort_rows m) m.
Proof.
  intro H. split; [|apply sort_rows_perm].
  induction m as [|a m IH]; [reflexivity|].
  cbn in H. inversion H; subst. cbn [sort_rows]. apply insert_row_asc; auto.
  intro I. apply H2. apply in_map_iff in I as (q & E & Hq).
  rewrite <- E. apply in_map. eapply Permutation_in; [apply sort_rows_perm|exact Hq].
Qed.

(** Ranking names in a strictly ascending pool preserves the order. *)
Lemma index_of_in x pool n : index_of x pool = Some n -> nth_error pool n = Some x.
Proof.
  revert n; induction pool as [|y pool IH]; intro n; cbn; [discriminate|].
  destruct (bytes_eqb x y) eqn:E.
  - intro H; inversion H; subst. apply bytes_eqb_spec in E. subst. reflexivity.
  - destruct (index_of x pool); [|discriminate]. intro H; inversion H; subst. cbn. auto.
Qed.

Theorem rank_monotone pool a b i j :
  lex_ascb pool = true -> index_of a pool = Some i -> index_of b pool = Some j ->
  (lex_ltb a b = true <-> (i < j)%nat).
Proof.
  revert i j; induction pool as [|y pool IH]; intros i j Hs Hi Hj; [discriminate|].
  apply lex_ascb_cons in Hs as [H1 H2]. cbn in Hi, Hj.
  destruct (bytes_eqb a y) eqn:Ea; destruct (bytes_eqb b y) eqn:Eb.
  - apply bytes_eqb_spec in Ea, Eb. subst. inversion Hi; inversion Hj; subst.
    rewrite lex_irrefl. split; [discriminate|lia].
  - apply bytes_eqb_spec in Ea. subst. inversion Hi; subst.
    destruct (index_of b pool) as [k|] eqn:Ek; [|discriminate]. inversion Hj; subst.
    apply index_of_in in Ek. apply nth_error_In in Ek. rewrite Forall_forall in H1.
    rewrite (H1 _ Ek). split; auto; lia.
  - apply bytes_eqb_spec in Eb. subst. inversion Hj; subst.
    destruct (index_of a pool) as [k|] eqn:Ek; [|discriminate]. inversion Hi; subst.
    apply index_of_in in Ek. apply nth_error_In in Ek. rewrite Forall_forall in H1.
    specialize (H1 _ Ek). split; [|lia]. intro H. pose proof (lex_trans _ _ _ H H1) as C.
    rewrite lex_irrefl in C. discriminate.
  - destruct (index_of a pool) as [k|] eqn:Ek; [|discriminate].
    destruct (index_of b pool) as [l|] eqn:El; [|discriminate].
    inversion Hi; inversion Hj; subst. rewrite (IH k l H2 eq_refl eq_refl). lia.
Qed.

Local Open Scope nat_scope.
Theorem no_serialisation : forall maps sched i t,
  nodup_maps maps -> pairwise_compat maps ->
  let s := run sched (sys maps) in
  nth_error (ths s) i = Some t -> final_thread t = false -> step i s <> None.
Proof.
  intros maps sched i t Hn Hc s Ht Hf.
  eapply never_disabled; eauto. apply reach_Inv.
Qed.

Theorem step_decreases : forall i s s', step i s = Some s' -> measure s' < measure s.
Proof. intros i s s' H. apply step_measure in H. lia. Qed.

Lemma compatb_spec a b : compatb a b = true -> compat a b.
Proof.
  unfold compatb. intros H x m1 m2 I1 I2.
  rewrite forallb_forall in H. specialize (H _ I1). rewrite forallb_forall in H.
  specialize (H _ I2). cbn in H. rewrite Nat.eqb_refl in H. cbn in H.
  apply andb_true_iff in H as [A B]. apply mode_eqb_eq in A. apply mode_eqb_eq in B. auto.
Qed.
