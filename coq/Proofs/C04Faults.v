(** C04, fault coverage of the copy helpers at full strength.

    Proofs/Stream.v proves "a single reached fault gives Err" for ONE StreamCopy started with
    fresh counters.  Here the same is proved for every helper (StreamCopy from any counter state,
    one callback, the whole tree copy in any callback order, Copier.copyDirectory) and for EVERY
    plan, in both directions:

      - an Ok run under any plan leaves the same destination and makes the same calls as the
        fault-free run, and no call it made was planned to fail;
      - a plan that spares every call of the fault-free run changes nothing;
      - hence a plan that fails at least one call the fault-free run makes gives Err (never Ok,
        never fuel exhaustion).

    The calls of a run are the half-open counter ranges [in_range c c'] plus the ReadDir calls of
    the walk. *)
From GC Require Import Common.Base Model.Paths Model.Fs Model.Stream Model.Copy
     Proofs.Paths Proofs.Fs Proofs.Stream Proofs.Copy.
From Coq Require Import Lia.

(** The primitive calls made between two counter states (ReadDir is counted by the walk, not by
    the counters). *)
Definition in_range (c c' : ctr) (f : fault) : Prop :=
  match f with
  | FReader j => (n_reader c <= j < n_reader c')%nat
  | FWriter j => (n_writer c <= j < n_writer c')%nat
  | FRead j => (n_read c <= j < n_read c')%nat
  | FWrite j => (n_write c <= j < n_write c')%nat
  | FCloseW j => (n_closew c <= j < n_closew c')%nat
  | FCloseR j => (n_closer c <= j < n_closer c')%nat
  | FMkdir j => (n_mkdir c <= j < n_mkdir c')%nat
  | FReadDir _ => False
  end.

Definition ctr_le (c c' : ctr) : Prop :=
  (n_reader c <= n_reader c')%nat /\ (n_writer c <= n_writer c')%nat /\
  (n_read c <= n_read c')%nat /\ (n_write c <= n_write c')%nat /\
  (n_closew c <= n_closew c')%nat /\ (n_closer c <= n_closer c')%nat /\
  (n_mkdir c <= n_mkdir c')%nat.

Lemma ctr_le_refl c : ctr_le c c.
Proof. unfold ctr_le. repeat split; lia. Qed.

Lemma ctr_le_trans a b c : ctr_le a b -> ctr_le b c -> ctr_le a c.
Proof. unfold ctr_le. intros H1 H2. repeat split; lia. Qed.

Lemma in_range_split c c1 c' f : ctr_le c c1 -> ctr_le c1 c' ->
  (in_range c c' f <-> in_range c c1 f \/ in_range c1 c' f).
Proof.
  unfold ctr_le. intros H1 H2. destruct f as [j|j|j|j|j|j|j|j]; cbn [in_range]; first [lia | tauto].
Qed.

Lemma in_range_empty c f : ~ in_range c c f.
Proof. destruct f; cbn [in_range]; first [lia | tauto]. Qed.

(** * io.Copy *)

(** An Ok run under one plan is reproduced under every plan that spares the calls it made. *)
Lemma io_copy_loop_agree fuel p1 p2 st B : (1 <= B)%nat -> forall rest acc kr kw acc' kr' kw',
  io_copy_loop fuel p1 st B rest acc kr kw = (COk, acc', kr', kw') ->
  (forall j, (kr <= j < kr')%nat -> p2 (FRead j) = false) ->
  (forall j, (kw <= j < kw')%nat -> p2 (FWrite j) = false) ->
  io_copy_loop fuel p2 st B rest acc kr kw = (COk, acc', kr', kw').
Proof.
  intros HB. induction fuel as [|fuel IH]; intros rest acc kr kw acc' kr' kw' H Hr Hw; [discriminate H|].
  pose proof (io_copy_loop_ok _ _ _ _ HB _ _ _ _ _ _ _ H) as (_ & Hk1 & Hk2 & _ & _).
  cbn [io_copy_loop] in H |- *.
  destruct (p1 (FRead kr)); [discriminate|]. rewrite (Hr kr) by lia.
  destruct (read_one st rest B) as [chunk eof]. destruct chunk as [|b chunk].
  - destruct eof; [exact H|]. apply (IH _ _ _ _ _ _ _ H); intros j Hj; [apply Hr|apply Hw]; lia.
  - destruct (p1 (FWrite kw)); [discriminate|].
    assert (Hlt : (kw < kw')%nat).
    { destruct eof; [inversion H; lia|].
      pose proof (io_copy_loop_ok _ _ _ _ HB _ _ _ _ _ _ _ H) as (_ & _ & Hk & _ & _). lia. }
    rewrite (Hw kw) by lia.
    destruct eof; [exact H|]. apply (IH _ _ _ _ _ _ _ H); intros j Hj; [apply Hr|apply Hw]; lia.
Qed.

(** * StreamCopy / Copier.copyFile from any counter state *)

Lemma stream_copy_at_range pl st mkpar B src dst ps pd c t c' : (1 <= B)%nat ->
  stream_copy_at pl st mkpar B src dst ps pd c = (COk, t, c') ->
  ctr_le c c' /\ forall f, in_range c c' f -> pl f = false.
Proof.
  intros HB H. unfold stream_copy_at in H.
  destruct (pl (FReader (n_reader c))) eqn:E1; [discriminate|].
  destruct (lookup src ps) as [[data|]|]; try discriminate.
  destruct (pl (FWriter (n_writer c))) eqn:E2; [discriminate|].
  destruct (writer_open mkpar dst pd) as [d1|]; [|discriminate].
  destruct (io_copy pl st B data (n_read c) (n_write c)) as [[[r acc] kr] kw] eqn:Ei.
  destruct r; try discriminate.
  destruct (pl (FCloseW (n_closew c))) eqn:E3; [discriminate|].
  destruct (pl (FCloseR (n_closer c))) eqn:E4; [discriminate|].
  inversion H; subst t c'. clear H.
  unfold io_copy in Ei.
  pose proof (io_copy_loop_ok _ _ _ _ HB _ _ _ _ _ _ _ Ei) as (_ & Hk1 & Hk2 & F1 & F2).
  split.
  - unfold ctr_le. cbn [n_reader n_writer n_read n_write n_closew n_closer n_mkdir]. repeat split; lia.
  - intros f Hf. destruct f as [j|j|j|j|j|j|j|j];
      cbn [in_range n_reader n_writer n_read n_write n_closew n_closer n_mkdir] in Hf.
    + assert (j = n_reader c) by lia. subst j. exact E1.
    + assert (j = n_writer c) by lia. subst j. exact E2.
    + apply F1. exact Hf.
    + apply F2. exact Hf.
    + assert (j = n_closew c) by lia. subst j. exact E3.
    + assert (j = n_closer c) by lia. subst j. exact E4.
    + lia.
    + contradiction.
Qed.

Lemma stream_copy_at_agree p1 p2 st mkpar B src dst ps pd c t c' : (1 <= B)%nat ->
  stream_copy_at p1 st mkpar B src dst ps pd c = (COk, t, c') ->
  (forall f, in_range c c' f -> p2 f = false) ->
  stream_copy_at p2 st mkpar B src dst ps pd c = (COk, t, c').
Proof.
  intros HB H Hp. unfold stream_copy_at in H |- *.
  destruct (p1 (FReader (n_reader c))); [discriminate|].
  destruct (lookup src ps) as [[data|]|]; try discriminate.
  destruct (p1 (FWriter (n_writer c))); [discriminate|].
  destruct (writer_open mkpar dst pd) as [d1|]; [|discriminate].
  destruct (io_copy p1 st B data (n_read c) (n_write c)) as [[[r acc] kr] kw] eqn:Ei.
  destruct r; try discriminate.
  destruct (p1 (FCloseW (n_closew c))); [discriminate|].
  destruct (p1 (FCloseR (n_closer c))); [discriminate|].
  inversion H; subst t c'. clear H.
  unfold io_copy in Ei.
  pose proof (io_copy_loop_ok _ _ _ _ HB _ _ _ _ _ _ _ Ei) as (_ & Hk1 & Hk2 & _ & _).
  assert (E2 : io_copy p2 st B data (n_read c) (n_write c) = (COk, acc, kr, kw)).
  { unfold io_copy. apply (io_copy_loop_agree _ p1 p2 _ _ HB _ _ _ _ _ _ _ Ei).
    - intros j Hj. apply (Hp (FRead j)). cbn [in_range n_read]. exact Hj.
    - intros j Hj. apply (Hp (FWrite j)). cbn [in_range n_write]. exact Hj. }
  rewrite (Hp (FReader (n_reader c))) by (cbn [in_range n_reader]; lia).
  rewrite (Hp (FWriter (n_writer c))) by (cbn [in_range n_writer]; lia).
  rewrite E2.
  rewrite (Hp (FCloseW (n_closew c))) by (cbn [in_range n_closew]; lia).
  rewrite (Hp (FCloseR (n_closer c))) by (cbn [in_range n_closer]; lia).
  reflexivity.
Qed.

Lemma stream_copy_at_nofuel pl st mkpar B src dst ps pd c : (1 <= B)%nat ->
  fst (fst (stream_copy_at pl st mkpar B src dst ps pd c)) <> CFuel.
Proof.
  intros HB. unfold stream_copy_at.
  destruct (pl (FReader (n_reader c))); [cbn; discriminate|].
  destruct (lookup src ps) as [[data|]|]; try (cbn; discriminate).
  destruct (pl (FWriter (n_writer c))); [cbn; discriminate|].
  destruct (writer_open mkpar dst pd) as [d1|]; [|cbn; discriminate].
  pose proof (proj1 (io_copy_exact pl st B data (n_read c) (n_write c) HB)) as Hn.
  destruct (io_copy pl st B data (n_read c) (n_write c)) as [[[r acc] kr] kw].
  cbn [fst] in Hn. destruct r; [|cbn; discriminate|congruence].
  destruct (pl (FCloseW (n_closew c))); [cbn; discriminate|].
  destruct (pl (FCloseR (n_closer c))); cbn; discriminate.
Qed.

(** The result of StreamCopy under ANY plan, relative to the fault-free run from the same
    counter state. *)
Theorem stream_copy_plan pl st mkpar B src dst ps pd c t0 c0 : (1 <= B)%nat ->
  stream_copy_at no_fault st mkpar B src dst ps pd c = (COk, t0, c0) ->
  ((forall f, in_range c c0 f -> pl f = false) ->
     stream_copy_at pl st mkpar B src dst ps pd c = (COk, t0, c0)) /\
  (forall t c', stream_copy_at pl st mkpar B src dst ps pd c = (COk, t, c') ->
     t = t0 /\ c' = c0 /\ forall f, in_range c c0 f -> pl f = false) /\
  (forall f, in_range c c0 f -> pl f = true ->
     fst (fst (stream_copy_at pl st mkpar B src dst ps pd c)) = CErr).
Proof.
  intros HB H0.
  assert (Hb : forall t c', stream_copy_at pl st mkpar B src dst ps pd c = (COk, t, c') ->
     t = t0 /\ c' = c0 /\ forall f, in_range c c0 f -> pl f = false).
  { intros t c' H. destruct (stream_copy_at_range _ _ _ _ _ _ _ _ _ _ _ HB H) as [_ Hr].
    pose proof (stream_copy_at_agree pl no_fault _ _ _ _ _ _ _ _ _ _ HB H (fun _ _ => eq_refl)) as H1.
    rewrite H0 in H1. inversion H1; subst. auto. }
  split; [|split].
  - intros Hp. exact (stream_copy_at_agree no_fault pl _ _ _ _ _ _ _ _ _ _ HB H0 Hp).
  - exact Hb.
  - intros f Hf Hpf.
    pose proof (stream_copy_at_nofuel pl st mkpar B src dst ps pd c HB) as Hn.
    destruct (stream_copy_at pl st mkpar B src dst ps pd c) as [[r t] c'] eqn:E. cbn [fst] in *.
    destruct r; [exfalso|reflexivity|congruence].
    destruct (Hb _ _ eq_refl) as (_ & _ & Hr). rewrite (Hr f Hf) in Hpf. discriminate.
Qed.

(** * MkdirAll *)

Lemma mkdir_step_range pl dst p c t c' :
  mkdir_step pl dst p c = (COk, t, c') -> ctr_le c c' /\ forall f, in_range c c' f -> pl f = false.
Proof.
  unfold mkdir_step. destruct (pl (FMkdir (n_mkdir c))) eqn:E; [discriminate|].
  destruct (mkdir_all dst p) as [tm|]; [|discriminate]. intros H. inversion H; subst t c'. split.
  - unfold ctr_le, bump_mkdir. cbn [n_reader n_writer n_read n_write n_closew n_closer n_mkdir]. repeat split; lia.
  - intros f Hf. destruct f as [j|j|j|j|j|j|j|j];
      cbn [in_range bump_mkdir n_reader n_writer n_read n_write n_closew n_closer n_mkdir] in Hf;
      try lia; try contradiction.
    assert (j = n_mkdir c) by lia. subst j. exact E.
Qed.

Lemma mkdir_step_agree p1 p2 dst p c t c' :
  mkdir_step p1 dst p c = (COk, t, c') -> (forall f, in_range c c' f -> p2 f = false) ->
  mkdir_step p2 dst p c = (COk, t, c').
Proof.
  unfold mkdir_step. destruct (p1 (FMkdir (n_mkdir c))); [discriminate|].
  destruct (mkdir_all dst p) as [tm|]; [|discriminate]. intros H Hp. inversion H; subst t c'.
  rewrite (Hp (FMkdir (n_mkdir c))) by (cbn [in_range bump_mkdir n_mkdir]; lia). reflexivity.
Qed.

Lemma mkdir_step_nofuel pl dst p c : fst (fst (mkdir_step pl dst p c)) <> CFuel.
Proof.
  unfold mkdir_step. destruct (pl _); [cbn; discriminate|]. destruct (mkdir_all dst p); cbn; discriminate.
Qed.

(** * Callbacks and the tree copy *)

(** The same configuration with another plan. *)
Definition set_plan (k : copy_cfg) (pl : plan) : copy_cfg :=
  mkCopyCfg pl (cc_eof k) (cc_mkpar k) (cc_buf k) (cc_file_mkdir k).

Lemma set_plan_id k : set_plan k (cc_plan k) = k.
Proof. destruct k; reflexivity. Qed.

Section Plans.
  Variable k : copy_cfg.
  Variable src : fs.
  Variable s d : path.
  Hypothesis HB : (1 <= cc_buf k)%nat.

  Lemma cb_step_range pl dst c x t c' :
    cb_step (set_plan k pl) src s d dst c x = (COk, t, c') ->
    ctr_le c c' /\ forall f, in_range c c' f -> pl f = false.
  Proof using HB.
    destruct x as [y|y]; cbn [cb_step set_plan cc_plan cc_eof cc_mkpar cc_buf cc_file_mkdir].
    - apply mkdir_step_range.
    - destruct (cc_file_mkdir k).
      + destruct (mkdir_step pl dst (d ++ removelast y) c) as [[r1 t1] c1] eqn:E1.
        destruct r1; try discriminate. intros H.
        destruct (mkdir_step_range _ _ _ _ _ _ E1) as [L1 R1].
        destruct (stream_copy_at_range _ _ _ _ _ _ _ _ _ _ _ HB H) as [L2 R2].
        split; [eapply ctr_le_trans; eassumption|].
        intros f Hf. apply (in_range_split c c1 c' f L1 L2) in Hf. destruct Hf; auto.
      + apply stream_copy_at_range. exact HB.
  Qed.

  Lemma cb_step_agree p1 p2 dst c x t c' :
    cb_step (set_plan k p1) src s d dst c x = (COk, t, c') ->
    (forall f, in_range c c' f -> p2 f = false) ->
    cb_step (set_plan k p2) src s d dst c x = (COk, t, c').
  Proof using HB.
    destruct x as [y|y]; cbn [cb_step set_plan cc_plan cc_eof cc_mkpar cc_buf cc_file_mkdir].
    - apply mkdir_step_agree.
    - destruct (cc_file_mkdir k).
      + destruct (mkdir_step p1 dst (d ++ removelast y) c) as [[r1 t1] c1] eqn:E1.
        destruct r1; try discriminate. intros H Hp.
        destruct (mkdir_step_range _ _ _ _ _ _ E1) as [L1 _].
        destruct (stream_copy_at_range _ _ _ _ _ _ _ _ _ _ _ HB H) as [L2 _].
        rewrite (mkdir_step_agree p1 p2 _ _ _ _ _ E1).
        * apply (stream_copy_at_agree p1 p2 _ _ _ _ _ _ _ _ _ _ HB H).
          intros f Hf. apply Hp. apply (in_range_split c c1 c' f L1 L2). right. exact Hf.
        * intros f Hf. apply Hp. apply (in_range_split c c1 c' f L1 L2). left. exact Hf.
      + apply stream_copy_at_agree. exact HB.
  Qed.

  Lemma cb_step_nofuel pl dst c x : fst (fst (cb_step (set_plan k pl) src s d dst c x)) <> CFuel.
  Proof using HB.
    destruct x as [y|y]; cbn [cb_step set_plan cc_plan cc_eof cc_mkpar cc_buf cc_file_mkdir].
    - apply mkdir_step_nofuel.
    - destruct (cc_file_mkdir k).
      + pose proof (mkdir_step_nofuel pl dst (d ++ removelast y) c) as Hn.
        destruct (mkdir_step pl dst (d ++ removelast y) c) as [[r1 t1] c1]. cbn [fst] in Hn.
        destruct r1; [|cbn; discriminate|congruence]. apply stream_copy_at_nofuel. exact HB.
      + apply stream_copy_at_nofuel. exact HB.
  Qed.

  Lemma run_cbs_range pl l : forall dst c t c',
    run_cbs (set_plan k pl) src s d dst c l = (COk, t, c') ->
    ctr_le c c' /\ forall f, in_range c c' f -> pl f = false.
  Proof using HB.
    induction l as [|x l IH]; intros dst c t c' H; cbn [run_cbs] in H.
    - inversion H; subst. split; [apply ctr_le_refl|]. intros f Hf. destruct (in_range_empty _ _ Hf).
    - destruct (cb_step (set_plan k pl) src s d dst c x) as [[r1 t1] c1] eqn:E1.
      destruct r1; try discriminate.
      destruct (cb_step_range _ _ _ _ _ _ E1) as [L1 R1]. destruct (IH _ _ _ _ H) as [L2 R2].
      split; [eapply ctr_le_trans; eassumption|].
      intros f Hf. apply (in_range_split c c1 c' f L1 L2) in Hf. destruct Hf; auto.
  Qed.

  Lemma run_cbs_agree p1 p2 l : forall dst c t c',
    run_cbs (set_plan k p1) src s d dst c l = (COk, t, c') ->
    (forall f, in_range c c' f -> p2 f = false) ->
    run_cbs (set_plan k p2) src s d dst c l = (COk, t, c').
  Proof using HB.
    induction l as [|x l IH]; intros dst c t c' H Hp; cbn [run_cbs] in H |- *; [exact H|].
    destruct (cb_step (set_plan k p1) src s d dst c x) as [[r1 t1] c1] eqn:E1.
    destruct r1; try discriminate.
    destruct (cb_step_range _ _ _ _ _ _ E1) as [L1 _]. destruct (run_cbs_range _ _ _ _ _ _ H) as [L2 _].
    rewrite (cb_step_agree p1 p2 _ _ _ _ _ E1).
    - apply (IH _ _ _ _ H). intros f Hf. apply Hp. apply (in_range_split c c1 c' f L1 L2). right. exact Hf.
    - intros f Hf. apply Hp. apply (in_range_split c c1 c' f L1 L2). left. exact Hf.
  Qed.

  Lemma run_cbs_nofuel pl l : forall dst c, fst (fst (run_cbs (set_plan k pl) src s d dst c l)) <> CFuel.
  Proof using HB.
    induction l as [|x l IH]; intros dst c; cbn [run_cbs]; [cbn; discriminate|].
    pose proof (cb_step_nofuel pl dst c x) as Hn.
    destruct (cb_step (set_plan k pl) src s d dst c x) as [[r1 t1] c1]. cbn [fst] in Hn.
    destruct r1; [apply IH|cbn; discriminate|congruence].
  Qed.

  (** The calls of a tree copy: those counted between [c] and [c0], and the walk's ReadDir calls. *)
  Definition walk_reached (c c0 : ctr) (l : list cb) (f : fault) : Prop :=
    in_range c c0 f \/ exists i, f = FReadDir i /\ (i < n_readdirs l)%nat.

  Lemma readdir_scan pl l :
    existsb (fun i => pl (FReadDir i)) (seq 0 (n_readdirs l)) = false <->
    (forall i, (i < n_readdirs l)%nat -> pl (FReadDir i) = false).
  Proof.
    split.
    - intros E i Hi. destruct (pl (FReadDir i)) eqn:Ei; [|reflexivity].
      assert (X : existsb (fun i => pl (FReadDir i)) (seq 0 (n_readdirs l)) = true).
      { apply existsb_exists. exists i. split; [apply in_seq; lia|exact Ei]. }
      congruence.
    - intros H. apply not_true_is_false. intros X. apply existsb_exists in X as (i & Hin & Hi).
      apply in_seq in Hin. rewrite H in Hi by lia. discriminate.
  Qed.

  (** The walk part shared by fshelper.Copy and Copier.copyDirectory: callbacks from [dst], [c],
      then the error list of the walk. *)
  Definition walk_part (pl : plan) (dst : fs) (c : ctr) (l : list cb) : cres * fs :=
    let '(r, t, _) := run_cbs (set_plan k pl) src s d dst c l in
    if existsb (fun i => pl (FReadDir i)) (seq 0 (n_readdirs l)) then (CErr, t) else (r, t).

  Theorem walk_part_plan pl dst c l t0 c0 :
    run_cbs (set_plan k no_fault) src s d dst c l = (COk, t0, c0) ->
    ((forall f, walk_reached c c0 l f -> pl f = false) -> walk_part pl dst c l = (COk, t0)) /\
    (forall t, walk_part pl dst c l = (COk, t) -> t = t0 /\ forall f, walk_reached c c0 l f -> pl f = false) /\
    (forall f, walk_reached c c0 l f -> pl f = true -> fst (walk_part pl dst c l) = CErr).
  Proof using HB.
    intros H0.
    assert (Hb : forall t, walk_part pl dst c l = (COk, t) ->
              t = t0 /\ forall f, walk_reached c c0 l f -> pl f = false).
    { intros t H. unfold walk_part in H.
      destruct (run_cbs (set_plan k pl) src s d dst c l) as [[r t1] c1] eqn:E.
      destruct (existsb _ _) eqn:Ex; [discriminate|]. inversion H; subst r t1. clear H.
      destruct (run_cbs_range _ _ _ _ _ _ E) as [_ Hr].
      pose proof (run_cbs_agree pl no_fault _ _ _ _ _ E (fun _ _ => eq_refl)) as E'.
      rewrite H0 in E'. inversion E'; subst. split; [reflexivity|].
      intros f [Hf|(i & -> & Hi)]; [apply Hr; exact Hf|].
      apply (proj1 (readdir_scan pl l) Ex). exact Hi. }
    split; [|split].
    - intros Hp. unfold walk_part.
      rewrite (run_cbs_agree no_fault pl _ _ _ _ _ H0) by (intros f Hf; apply Hp; left; exact Hf).
      replace (existsb _ _) with false; [reflexivity|]. symmetry. apply readdir_scan.
      intros i Hi. apply Hp. right. exists i. auto.
    - exact Hb.
    - intros f Hf Hpf. pose proof (run_cbs_nofuel pl l dst c) as Hn.
      destruct (walk_part pl dst c l) as [r t] eqn:E. cbn [fst].
      destruct r; [exfalso|reflexivity|exfalso].
      + destruct (Hb _ eq_refl) as [_ Hr]. rewrite (Hr f Hf) in Hpf. discriminate.
      + unfold walk_part in E. destruct (run_cbs (set_plan k pl) src s d dst c l) as [[r1 t1] c1].
        cbn [fst] in Hn. destruct (existsb _ _); [discriminate|]. inversion E; subst. congruence.
  Qed.
End Plans.

Lemma tree_copy_walk_part k pl src s d dst l :
  tree_copy (set_plan k pl) src s d dst l = walk_part k src s d pl dst ctr0 l.
Proof. reflexivity. Qed.

(** fshelper.Copy under EVERY plan, every callback list. *)
Theorem tree_copy_plan k pl src s d dst l t0 c0 : (1 <= cc_buf k)%nat ->
  run_cbs (set_plan k no_fault) src s d dst ctr0 l = (COk, t0, c0) ->
  ((forall f, walk_reached ctr0 c0 l f -> pl f = false) -> tree_copy (set_plan k pl) src s d dst l = (COk, t0)) /\
  (forall t, tree_copy (set_plan k pl) src s d dst l = (COk, t) ->
             t = t0 /\ forall f, walk_reached ctr0 c0 l f -> pl f = false) /\
  (forall f, walk_reached ctr0 c0 l f -> pl f = true -> fst (tree_copy (set_plan k pl) src s d dst l) = CErr).
Proof.
  intros HB H0. rewrite tree_copy_walk_part. exact (walk_part_plan k src s d HB pl dst ctr0 l t0 c0 H0).
Qed.

(** Copier.copyDirectory under EVERY plan: the calls are the MkdirAll of the destination root,
    the callbacks and the walk's ReadDir calls. *)
Theorem copier_dir_plan k pl src s d dst l t1 c1 t0 c0 : (1 <= cc_buf k)%nat ->
  is_dir_at src s = true ->
  mkdir_step no_fault dst d ctr0 = (COk, t1, c1) ->
  run_cbs (set_plan k no_fault) src s d t1 c1 l = (COk, t0, c0) ->
  ((forall f, walk_reached ctr0 c0 l f -> pl f = false) -> copier_dir (set_plan k pl) src s d dst l = (COk, t0)) /\
  (forall t, copier_dir (set_plan k pl) src s d dst l = (COk, t) ->
             t = t0 /\ forall f, walk_reached ctr0 c0 l f -> pl f = false) /\
  (forall f, walk_reached ctr0 c0 l f -> pl f = true -> fst (copier_dir (set_plan k pl) src s d dst l) = CErr).
Proof.
  intros HB Hd Hm H0.
  destruct (mkdir_step_range _ _ _ _ _ _ Hm) as [L1 _].
  destruct (run_cbs_range k src s d HB no_fault l _ _ _ _ H0) as [L2 _].
  pose proof (walk_part_plan k src s d HB pl t1 c1 l t0 c0 H0) as (Wa & Wb & Wc).
  assert (Hsplit : forall f, walk_reached ctr0 c0 l f <-> in_range ctr0 c1 f \/ walk_reached c1 c0 l f).
  { intros f. unfold walk_reached. rewrite (in_range_split ctr0 c1 c0 f L1 L2). tauto. }
  assert (Hshape : forall pl', copier_dir (set_plan k pl') src s d dst l =
            match mkdir_step pl' dst d ctr0 with
            | (COk, t, c) => walk_part k src s d pl' t c l
            | (r, t, _) => (r, t)
            end).
  { intros pl'. unfold copier_dir. rewrite Hd. reflexivity. }
  rewrite Hshape.
  split; [|split].
  - intros Hp. rewrite (mkdir_step_agree no_fault pl _ _ _ _ _ Hm) by (intros f Hf; apply Hp, Hsplit; left; exact Hf).
    apply Wa. intros f Hf. apply Hp, Hsplit. right. exact Hf.
  - intros t H. destruct (mkdir_step pl dst d ctr0) as [[r1 t1'] c1'] eqn:E1.
    destruct r1; try discriminate.
    destruct (mkdir_step_range _ _ _ _ _ _ E1) as [_ R1].
    pose proof (mkdir_step_agree pl no_fault _ _ _ _ _ E1 (fun _ _ => eq_refl)) as E1'.
    rewrite Hm in E1'. inversion E1'; subst t1' c1'.
    destruct (Wb _ H) as [Ht Hr]. split; [exact Ht|].
    intros f Hf. apply Hsplit in Hf. destruct Hf; auto.
  - intros f Hf Hpf. apply Hsplit in Hf.
    pose proof (mkdir_step_nofuel pl dst d ctr0) as Hn.
    destruct (mkdir_step pl dst d ctr0) as [[r1 t1'] c1'] eqn:E1. cbn [fst] in Hn.
    destruct r1; [|reflexivity|congruence].
    destruct (mkdir_step_range _ _ _ _ _ _ E1) as [_ R1].
    pose proof (mkdir_step_agree pl no_fault _ _ _ _ _ E1 (fun _ _ => eq_refl)) as E1'.
    rewrite Hm in E1'. inversion E1'; subst t1' c1'.
    destruct Hf as [Hf|Hf]; [rewrite (R1 f Hf) in Hpf; discriminate|].
    exact (Wc f Hf Hpf).
Qed.
