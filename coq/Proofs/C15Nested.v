(** Proofs about Model/LocksNested.v (C15): holders that wait for other holders inside their
    critical section (a task whose body submits sub-tasks keeps its locks until they are done).

    - Without a discipline the guarantee is lost, three witnesses ([nested_*_refuted]): a sub-task
      that wants what its parent holds; a sub-task that only READS what its parent reads, once a
      writer has announced itself in between (writer preference: recursive read locking); a
      sub-task whose map is disjoint from its parent's but lies BELOW it, with a third holder.
    - With the lock order continued through the nesting (every name of a sub-task above every name
      of the holders awaiting it) no reachable state is a deadlock, and from every reachable state
      everybody can finish ([nested_ordered_no_deadlock], [nested_ordered_can_finish]). *)
From Coq Require Import Lia ZifyBool ZifyNat.
From GC Require Import Common.Base Model.Locks Model.LocksNested Proofs.Locks Proofs.C15More.
Local Open Scope nat_scope.

(** * Basic facts about the guarded step *)

Lemma stepN_step deps i s s' : stepN deps i s = Some s' -> step i s = Some s'.
Proof.
  unfold stepN. destruct (nth_error (ths s) i) as [[d todo|d x todo|h|h]|]; auto.
  destruct (gate_open deps i s); [auto|discriminate].
Qed.

Lemma stepN_nil_deps i s : stepN [] i s = step i s.
Proof.
  unfold stepN, gate_open. destruct (nth_error (ths s) i) as [[d todo|d x todo|h|h]|]; auto.
  destruct i; reflexivity.
Qed.

Lemma runN_inv (P : state -> Prop) deps :
  (forall i s s', P s -> step i s = Some s' -> P s') ->
  forall sched s, P s -> P (runN deps sched s).
Proof.
  intros Hstep sched; induction sched as [|i r IH]; intros s Hs; cbn; auto.
  destruct (stepN deps i s) eqn:E; apply IH; auto. apply stepN_step in E. eauto.
Qed.

Lemma reachN_Inv progs deps sched : Inv progs (runN deps sched (init progs)).
Proof.
  apply runN_inv.
  - intros i s s' [A B] Hs. split; [eapply step_Inv1|eapply step_Inv3]; eauto.
  - split; [apply Inv1_init|apply Inv3_init].
Qed.

Lemma runN_app deps a : forall b s, runN deps (a ++ b) s = runN deps b (runN deps a s).
Proof. induction a as [|i a IH]; intros b s; cbn; auto. Qed.

Lemma stuckN_spec deps s : stuckN deps s = true <-> forall i, stepN deps i s = None.
Proof.
  unfold stuckN. rewrite negb_true_iff. split.
  - intros H i. destruct (stepN deps i s) as [s'|] eqn:E; auto. exfalso.
    assert (X : existsb (fun i => match stepN deps i s with Some _ => true | None => false end)
                  (seq 0 (length (ths s))) = true); [|congruence].
    apply existsb_exists. exists i. split; [|rewrite E; reflexivity].
    apply in_seq. apply stepN_step in E. destruct (step_some_thread _ _ _ E) as [t Ht].
    apply nth_error_lt in Ht. lia.
  - intro H. destruct (existsb _ _) eqn:E; auto.
    apply existsb_exists in E as (i & _ & Hi). rewrite H in Hi. discriminate.
Qed.

(** * The executable forms of the discipline *)

Lemma nth_beyond {A} (l : list (list A)) i : length l <= i -> nth i l [] = [].
Proof. intro H. apply nth_overflow. exact H. Qed.

Lemma seq_all n (f : nat -> bool) i :
  forallb f (seq 0 n) = true -> i < n -> f i = true.
Proof. intros H Hi. rewrite forallb_forall in H. apply H. apply in_seq. lia. Qed.

Lemma deps_forwardb_spec deps : deps_forwardb deps = true -> deps_forward deps.
Proof.
  intros H i j Hj. destruct (Nat.lt_ge_cases i (length deps)) as [Hi|Hi].
  - pose proof (seq_all _ _ _ H Hi) as G. cbn in G. rewrite forallb_forall in G.
    apply G in Hj. apply Nat.ltb_lt in Hj. exact Hj.
  - rewrite nth_beyond in Hj by exact Hi. destruct Hj.
Qed.

Lemma deps_closedb_spec deps : deps_closedb deps = true -> deps_closed deps.
Proof.
  intros H i j k Hj Hk. destruct (Nat.lt_ge_cases i (length deps)) as [Hi|Hi].
  - pose proof (seq_all _ _ _ H Hi) as G. cbn in G. rewrite forallb_forall in G.
    apply G in Hj. rewrite forallb_forall in Hj. apply Hj in Hk.
    apply existsb_exists in Hk as (k' & Hk' & E). apply Nat.eqb_eq in E. subst. exact Hk'.
  - rewrite nth_beyond in Hj by exact Hi. destruct Hj.
Qed.

Lemma deps_aboveb_spec maps deps : deps_aboveb maps deps = true -> deps_above maps deps.
Proof.
  intros H i j mi mj x y m1 m2 Hj Hmi Hmj I1 I2.
  destruct (Nat.lt_ge_cases i (length deps)) as [Hi|Hi].
  - pose proof (seq_all _ _ _ H Hi) as G. cbn in G. rewrite forallb_forall in G.
    apply G in Hj. rewrite (nth_error_nth _ _ _ Hmi), (nth_error_nth _ _ _ Hmj) in Hj.
    rewrite forallb_forall in Hj. apply Hj in I1. rewrite forallb_forall in I1. apply I1 in I2.
    cbn in I2. apply Nat.ltb_lt in I2. exact I2.
  - rewrite nth_beyond in Hj by exact Hi. destruct Hj.
Qed.

(** * A stuck state of the guarded system under the discipline is final *)

Section Gated.
  Variable progs : list (list req).
  Variable deps : list (list nat).
  Variable s : state.
  Hypothesis Hsorted : sorted_progs progs.
  Hypothesis H1 : Inv1 s.
  Hypothesis H3 : Inv3 progs s.
  Hypothesis Hfwd : deps_forward deps.
  Hypothesis Hclosed : deps_closed deps.
  Hypothesis Habove : forall i j pi pj x y m1 m2,
    In j (nth i deps []) -> nth_error progs i = Some pi -> nth_error progs j = Some pj ->
    In (x, m1) pi -> In (y, m2) pj -> x < y.
  Hypothesis Hstuck : forall i, stepN deps i s = None.

  Lemma g_tstep i t : nth_error (ths s) i = Some t -> inside t = false -> tstep (lk s) t = None.
  Proof.
    intros Ht Hni. pose proof (Hstuck i) as Hs. unfold stepN, step in Hs. rewrite Ht in Hs.
    destruct t as [d todo|d x todo|h|h]; try discriminate;
      destruct (tstep (lk s) _) as [[? ?]|]; try discriminate; reflexivity.
  Qed.

  Lemma g_gate i h :
    nth_error (ths s) i = Some (TIn h) ->
    exists k tk, In k (nth i deps []) /\ nth_error (ths s) k = Some tk /\ final_thread tk = false.
  Proof.
    intro Ht. pose proof (Hstuck i) as Hs. unfold stepN in Hs. rewrite Ht in Hs.
    destruct (gate_open deps i s) eqn:G.
    - unfold step in Hs. rewrite Ht in Hs. cbn in Hs. discriminate.
    - unfold gate_open in G. apply forallb_false_in in G as (k & Hk & Hf).
      unfold finished_at in Hf. destruct (nth_error (ths s) k) as [tk|] eqn:Ek; [|discriminate].
      eauto.
  Qed.

  Lemma g_prog j tj : nth_error (ths s) j = Some tj -> exists p, nth_error progs j = Some p /\ tinv p tj.
  Proof. destruct H3 as [_ H]. apply H. Qed.

  (** An unfinished holder leads to somebody who is blocked acquiring a name of its own map:
      itself, or one of the holders it awaits. *)
  Lemma g_descend : forall n k tk,
    length (ths s) - k <= n -> nth_error (ths s) k = Some tk -> final_thread tk = false ->
    exists j tj y pj m,
      nth_error (ths s) j = Some tj /\ waits tj y /\ (j = k \/ In j (nth k deps [])) /\
      nth_error progs j = Some pj /\ In (y, m) pj.
  Proof.
    induction n as [|n IH]; intros k tk Hn Hk Hf; pose proof (nth_error_lt _ _ _ Hk) as Hlt; [lia|].
    destruct (g_prog _ _ Hk) as (p & Hp & Ti).
    destruct tk as [d [|[y m] r] | d y r | h | [|q r]].
    - pose proof (g_tstep _ _ Hk eq_refl) as E. cbn in E. discriminate.
    - exists k, (TAcq d ((y, m) :: r)), y, p, m. repeat split; auto.
      + left. eauto.
      + cbn in Ti. rewrite <- Ti. apply in_or_app. right. left. reflexivity.
    - exists k, (TPend d y r), y, p, MW. repeat split; auto.
      + right. eauto.
      + eapply in_prog_of_pend; eauto.
    - destruct (g_gate _ _ Hk) as (k' & tk' & Hin & Hk' & Hf').
      pose proof (Hfwd _ _ Hin) as Hkk.
      destruct (IH k' tk') as (j & tj & y & pj & m & Hj & Hw & Hor & Hpj & Iy); auto; [lia|].
      exists j, tj, y, pj, m. repeat split; auto. right.
      destruct Hor as [->|Hor]; [exact Hin|eapply Hclosed; eauto].
    - discriminate.
    - pose proof (g_tstep _ _ Hk eq_refl) as E. destruct q as [z [|]]; cbn in E; discriminate.
  Qed.

  Lemma g_holder_waits_higher j tj x m :
    nth_error (ths s) j = Some tj -> In (x, m) (holds tj) ->
    exists j' tj' y, nth_error (ths s) j' = Some tj' /\ waits tj' y /\ x < y.
  Proof.
    intros Hj I. destruct (g_prog _ _ Hj) as (p & Hp & Ti).
    assert (Hs : ascb (map fst p) = true) by (apply Hsorted; eapply nth_error_In; eauto).
    destruct tj as [d [|[y m'] r] | d y r | h | [|q r]].
    - pose proof (g_tstep _ _ Hj eq_refl) as E. cbn in E. discriminate.
    - exists j, (TAcq d ((y, m') :: r)), y. split; auto. split; [left; eauto|].
      cbn in Ti, I. rewrite <- Ti, map_app in Hs. cbn [map fst] in Hs.
      eapply ascb_app_lt; [exact Hs|]. apply in_map_iff. exists (x, m). split; auto.
      apply in_rev in I. exact I.
    - exists j, (TPend d y r), y. split; auto. split; [right; eauto|].
      cbn in Ti, I. rewrite <- Ti, map_app in Hs. cbn [map fst] in Hs.
      eapply ascb_app_lt; [exact Hs|]. apply in_map_iff. exists (x, m). split; auto.
      apply in_rev in I. exact I.
    - cbn in Ti, I. subst h.
      destruct (g_gate _ _ Hj) as (k & tk & Hin & Hk & Hf).
      destruct (g_descend _ k tk (le_n _) Hk Hf) as (j' & tj' & y & pj & m' & Hj' & Hw & Hor & Hpj & Iy).
      exists j', tj', y. split; auto. split; auto.
      assert (Hin' : In j' (nth j deps [])) by (destruct Hor as [->|Hor]; [exact Hin|eapply Hclosed; eauto]).
      eapply (Habove j j'); eauto.
    - destruct I.
    - pose proof (g_tstep _ _ Hj eq_refl) as E. destruct q as [z [|]]; cbn in E; discriminate.
  Qed.

  Lemma g_blocked_by_holder x :
    wr (lk s x) = true \/ rd (lk s x) <> 0 ->
    exists j tj m, nth_error (ths s) j = Some tj /\ In (x, m) (holds tj).
  Proof.
    intro H. destruct (H1 x) as (A & B & _ & _). destruct H as [H|H].
    - rewrite H in B. cbn in B.
      destruct (sumf_pos (cW x) (ths s)) as (j & tj & Hj & Hc); [lia|].
      exists j, tj, MW. split; auto. apply cnt_pos. exact Hc.
    - destruct (sumf_pos (cR x) (ths s)) as (j & tj & Hj & Hc); [lia|].
      exists j, tj, MR. split; auto. apply cnt_pos. exact Hc.
  Qed.

  Lemma g_waits_higher i t x :
    nth_error (ths s) i = Some t -> waits t x ->
    exists j tj y, nth_error (ths s) j = Some tj /\ waits tj y /\ x < y.
  Proof.
    intros Ht Hw.
    assert (Hni : inside t = false) by (destruct Hw as [(d & m & r & ->)|(d & r & ->)]; reflexivity).
    pose proof (g_tstep _ _ Ht Hni) as Hn.
    assert (Hb : wr (lk s x) = true \/ rd (lk s x) <> 0 ->
                 exists j tj y, nth_error (ths s) j = Some tj /\ waits tj y /\ x < y).
    { intro Hb. destruct (g_blocked_by_holder _ Hb) as (j & tj & m & Hj & I).
      eapply g_holder_waits_higher; eauto. }
    destruct Hw as [(d & m & r & ->)|(d & r & ->)].
    - destruct m; cbn [tstep] in Hn; [|discriminate].
      destruct (can_r (lk s x)) eqn:Ec; [discriminate|].
      apply can_r_false in Ec as [Ec|Ec]; [apply Hb; auto|].
      destruct (H1 x) as (_ & _ & C & _).
      destruct (sumf_pos (regd x) (ths s)) as (j & tj & Hj & Hc); [lia|].
      destruct tj as [| d' y r' | |]; cbn in Hc; try lia.
      destruct (Nat.eqb x y) eqn:Exy; [|lia]. apply Nat.eqb_eq in Exy; subst y.
      pose proof (g_tstep _ _ Hj eq_refl) as Hn'. cbn [tstep] in Hn'.
      destruct (can_w (lk s x)) eqn:Ec'; [discriminate|].
      apply can_w_false in Ec'. apply Hb. exact Ec'.
    - cbn [tstep] in Hn. destruct (can_w (lk s x)) eqn:Ec; [discriminate|].
      apply can_w_false in Ec. apply Hb. exact Ec.
  Qed.

  Lemma g_nobody_waits : forall k i t x,
    sumf wname (ths s) - x <= k -> nth_error (ths s) i = Some t -> waits t x -> False.
  Proof.
    induction k as [|k IH]; intros i t x Hk Ht Hw;
      destruct (g_waits_higher _ _ _ Ht Hw) as (j & tj & y & Hj & Hwj & Hlt);
      pose proof (sumf_one wname _ _ _ Hj) as Hb; rewrite (waits_wname _ _ Hwj) in Hb.
    - lia.
    - eapply (IH j tj y); eauto. lia.
  Qed.

  Lemma g_stuck_all_final : all_final s = true.
  Proof.
    apply all_final_spec. intros i t Ht.
    destruct (final_thread t) eqn:Hf; [destruct t as [| | |[|]]; try discriminate; reflexivity|].
    exfalso.
    destruct (g_descend _ i t (le_n _) Ht Hf) as (j & tj & y & pj & m & Hj & Hw & _).
    eapply (g_nobody_waits _ j tj y (le_n _)); eauto.
  Qed.
End Gated.

(** * Final statements (used by Props/C15.v) *)

Lemma above_progs maps deps : deps_above maps deps ->
  forall i j pi pj x y m1 m2,
    In j (nth i deps []) -> nth_error (map lock_prog maps) i = Some pi ->
    nth_error (map lock_prog maps) j = Some pj -> In (x, m1) pi -> In (y, m2) pj -> x < y.
Proof.
  intros H i j pi pj x y m1 m2 Hj Hi Hjj I1 I2. rewrite nth_error_map in Hi, Hjj.
  destruct (nth_error maps i) as [mi|] eqn:Ei; [|discriminate].
  destruct (nth_error maps j) as [mj|] eqn:Ej; [|discriminate].
  cbn in Hi, Hjj. inversion Hi; inversion Hjj; subst.
  apply (proj1 (in_lock_prog _ _)) in I1. apply (proj1 (in_lock_prog _ _)) in I2.
  exact (H i j mi mj x y m1 m2 Hj Ei Ej I1 I2).
Qed.

Theorem nested_ordered_stuck_is_finished : forall maps deps sched,
  nodup_maps maps -> deps_forward deps -> deps_closed deps -> deps_above maps deps ->
  let s := runN deps sched (sys maps) in
  (forall i, stepN deps i s = None) -> all_final s = true /\ forall x, lk s x = lock0.
Proof.
  intros maps deps sched Hn Hf Hc Ha s Hst.
  pose proof (reachN_Inv (map lock_prog maps) deps sched) as [A B].
  assert (F : all_final s = true).
  { eapply (g_stuck_all_final (map lock_prog maps) deps s); eauto using sys_sorted, above_progs. }
  split; auto. apply final_locks_free; auto.
Qed.

Theorem nested_ordered_no_deadlock : forall maps deps sched,
  nodup_maps maps -> deps_forward deps -> deps_closed deps -> deps_above maps deps ->
  let s := runN deps sched (sys maps) in
  all_final s = false -> exists i, i < length maps /\ stepN deps i s <> None.
Proof.
  intros maps deps sched Hn Hf Hc Ha s Hnf.
  destruct (stuckN deps s) eqn:Est.
  - exfalso. rewrite stuckN_spec in Est.
    destruct (nested_ordered_stuck_is_finished maps deps sched Hn Hf Hc Ha Est) as [F _].
    fold s in F. congruence.
  - unfold stuckN in Est. apply negb_false_iff in Est. apply existsb_exists in Est as (i & Hi & He).
    exists i. split.
    + apply in_seq in Hi. pose proof (reachN_Inv (map lock_prog maps) deps sched) as [_ [Hl _]].
      fold (sys maps) in Hl. fold s in Hl. rewrite map_length in Hl. lia.
    + destruct (stepN deps i s); [discriminate|discriminate].
Qed.

Theorem nested_ordered_can_finish : forall maps deps sched,
  nodup_maps maps -> deps_forward deps -> deps_closed deps -> deps_above maps deps ->
  exists sched', all_final (runN deps (sched ++ sched') (sys maps)) = true.
Proof.
  intros maps deps sched Hn Hf Hc Ha.
  assert (G : forall n sc, measure (runN deps sc (sys maps)) <= n ->
              exists sc', all_final (runN deps (sc ++ sc') (sys maps)) = true).
  { induction n as [|n IH]; intros sc Hm;
      destruct (all_final (runN deps sc (sys maps))) eqn:Ef;
      try (exists []; rewrite app_nil_r; exact Ef);
      destruct (nested_ordered_no_deadlock maps deps sc Hn Hf Hc Ha Ef) as (i & _ & Hi);
      destruct (stepN deps i (runN deps sc (sys maps))) as [s'|] eqn:Es; try congruence;
      pose proof (step_measure _ _ _ (stepN_step _ _ _ _ Es)) as Hms.
    - lia.
    - assert (Er : runN deps (sc ++ [i]) (sys maps) = s').
      { rewrite runN_app. cbn. rewrite Es. reflexivity. }
      destruct (IH (sc ++ [i])) as (sc' & Hsc'); [rewrite Er; lia|].
      exists (i :: sc'). rewrite <- app_assoc in Hsc'. exact Hsc'. }
  eapply G. apply le_n.
Qed.

(** * Without the discipline: three deadlocks *)

(** (a) the sub-task (holder 1) wants what its parent (holder 0) holds. *)
Definition ns_self_maps : list (list req) := [[(0, MW)]; [(0, MW)]].
Definition ns_self_deps : list (list nat) := [[1]; []].
Definition ns_self_sched : list nat := [0; 0; 0; 1].

(** (b) recursive read locking: parent 0 reads name 0, its sub-task 1 reads name 0 too (the two
    maps are compatible); holder 2 writes name 0 and announces itself while the parent is inside. *)
Definition ns_read_maps : list (list req) := [[(0, MR)]; [(0, MR)]; [(0, MW)]].
Definition ns_read_deps : list (list nat) := [[1]; []; []].
Definition ns_read_sched : list nat := [0; 0; 2; 1].

(** (c) the sub-task's map is DISJOINT from its parent's but lies below it: parent 0 holds name 1
    and awaits sub-task 1 that wants name 0; holder 2 wants both. *)
Definition ns_cross_maps : list (list req) := [[(1, MW)]; [(0, MW)]; [(0, MW); (1, MW)]].
Definition ns_cross_deps : list (list nat) := [[1]; []; []].
Definition ns_cross_sched : list nat := [0; 0; 0; 2; 2; 2; 1].

Definition deadlocked (maps : list (list req)) (deps : list (list nat)) (sched : list nat) : Prop :=
  nodup_maps maps /\ deps_forward deps /\ deps_closed deps /\
  let s := runN deps sched (sys maps) in
  all_final s = false /\ forall i, stepN deps i s = None.

Ltac nodup_small := repeat constructor; cbn; intuition; try discriminate; try lia.

Theorem nested_self_refuted : deadlocked ns_self_maps ns_self_deps ns_self_sched.
Proof.
  split; [nodup_small|]. split; [apply deps_forwardb_spec; reflexivity|].
  split; [apply deps_closedb_spec; reflexivity|].
  split; [vm_compute; reflexivity|]. apply stuckN_spec. vm_compute. reflexivity.
Qed.

Theorem nested_recursive_read_refuted :
  deadlocked ns_read_maps ns_read_deps ns_read_sched /\
  (forall a b, nth_error ns_read_maps 0 = Some a -> nth_error ns_read_maps 1 = Some b -> compat a b).
Proof.
  split.
  - split; [nodup_small|]. split; [apply deps_forwardb_spec; reflexivity|].
    split; [apply deps_closedb_spec; reflexivity|].
    split; [vm_compute; reflexivity|]. apply stuckN_spec. vm_compute. reflexivity.
  - intros a b Ha Hb. cbn in Ha, Hb. inversion Ha; inversion Hb; subst.
    apply compatb_spec. reflexivity.
Qed.

Theorem nested_cross_refuted :
  deadlocked ns_cross_maps ns_cross_deps ns_cross_sched /\
  (forall a b x m1 m2, nth_error ns_cross_maps 0 = Some a -> nth_error ns_cross_maps 1 = Some b ->
                       In (x, m1) a -> In (x, m2) b -> False).
Proof.
  split.
  - split; [nodup_small|]. split; [apply deps_forwardb_spec; reflexivity|].
    split; [apply deps_closedb_spec; reflexivity|].
    split; [vm_compute; reflexivity|]. apply stuckN_spec. vm_compute. reflexivity.
  - intros a b x m1 m2 Ha Hb I1 I2. cbn in Ha, Hb. inversion Ha; inversion Hb; subst.
    cbn in I1, I2. destruct I1 as [I1|[]]; destruct I2 as [I2|[]]. congruence.
Qed.
