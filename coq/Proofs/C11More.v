(** C11More.v - lemmas added by the proof audit of C11 (Props/C11.v, last part).
    Model: Model/Scope.v, unchanged.  Everything is about [run cfg_current sched (init progs)] for
    arbitrary programs and schedules (or about an arbitrary micro-step where said so).

    A. frame of a micro-step on the scope table; the scope tree: parents are numbered before their
       children, a child shares its parent's context or owns an isolated context on it; hence the
       fuel of [chain] is enough at any depth;
    B. Close is accepted once per scope and returns at most once, to one caller;
    C. the commit/rollback decision: one moment, the error list of that moment; rollback implies a
       held error; what Close returned against the branch and the error list;
    D. Close does not pass its wait before every child registered before has completely closed;
    E. the watcher of an isolated context: the context is stopped after at most four of the
       watcher's own steps once the parent's context is done, whatever the other threads do. *)
From GC Require Import Common.Base Model.Scope Model.ScopeLive Proofs.Scope Proofs.ScopeClose Proofs.ScopeLive.
From Coq Require Import ZArith Lia ZifyBool ZifyNat.
Local Open Scope nat_scope.

(** * A. Frame of a micro-step on the scope table *)

(** What never changes in an existing scope: its context and its structural parent; its listener
    table only grows at the end; its registration can only be cleared; the table only grows. *)
Definition sfext (x y : scoperec) : Prop :=
  s_ctx y = s_ctx x /\ s_parent y = s_parent x /\
  (s_reg y = s_reg x \/ s_reg y = None) /\
  (exists t, s_tabs y = s_tabs x ++ t).
Definition sextl (l l' : list scoperec) : Prop :=
  length l <= length l' /\ forall s, s < length l -> sfext (nth s l dscope) (nth s l' dscope).
Definition sext (sh sh' : shared) : Prop := sextl (scopes sh) (scopes sh').

Lemma sfext_refl x : sfext x x.
Proof. repeat split; auto. exists []. now rewrite app_nil_r. Qed.
Lemma sfext_trans x y z : sfext x y -> sfext y z -> sfext x z.
Proof.
  intros (A1 & A2 & A3 & t1 & A4) (B1 & B2 & B3 & t2 & B4). repeat split; try congruence.
  - destruct B3 as [B3|B3]; auto. rewrite B3. auto.
  - exists (t1 ++ t2). rewrite B4, A4. now rewrite app_assoc.
Qed.
Lemma sextl_refl l : sextl l l.
Proof. split; auto. intros. apply sfext_refl. Qed.
Lemma sextl_trans a b c : sextl a b -> sextl b c -> sextl a c.
Proof.
  intros [L1 H1] [L2 H2]. split; [lia|]. intros x Hx. eapply sfext_trans; [apply H1|apply H2]; lia.
Qed.
Lemma sextl_upd n f l : (forall x, sfext x (f x)) -> sextl l (upd n f l).
Proof.
  intros H. split. rewrite upd_length; auto. intros x Hx. rewrite nth_upd.
  destruct (_ && _); auto using sfext_refl.
Qed.
Lemma sextl_app l x : sextl l (l ++ [x]).
Proof. split. rewrite app_length; lia. intros c Hc. rewrite app_nth1; auto using sfext_refl. Qed.

Lemma sf_pc p x : sfext x (s_set_pc p x).
Proof. repeat split; auto. exists []. simpl. now rewrite app_nil_r. Qed.
Lemma sf_branch b x : sfext x (s_set_branch b x).
Proof. repeat split; auto. exists []. simpl. now rewrite app_nil_r. Qed.
Lemma sf_wg d dt x : sfext x (s_add_wg d dt x).
Proof. repeat split; auto. exists []. simpl. now rewrite app_nil_r. Qed.
Lemma sf_clear x : sfext x (s_clear_reg x).
Proof. repeat split; auto. exists []. now rewrite app_nil_r. Qed.
Lemma sf_listener l x : sfext x (s_add_listener l x).
Proof. repeat split; auto. simpl. eauto. Qed.
#[local] Hint Resolve sf_pc sf_branch sf_wg sf_clear sf_listener sextl_refl sextl_app sextl_upd : sx.

Lemma close_step_sext cf sh s sh' p o a sp :
  close_step cf sh s = XOk sh' p o a sp -> sext sh sh'.
Proof.
  unfold close_step, sext, xok, set_pc. intros H.
  destruct (s_pc (gets sh s)) eqn:PC; try des_trig; repeat des_if; try inv_x; simpl;
    rewrite ?H0, ?H1; auto with sx.
  - eapply sextl_trans; [apply sextl_upd|apply sextl_upd]; auto with sx.
  - destruct (s_reg (gets sh s)); repeat des_if; inv_x; simpl; auto with sx.
    eapply sextl_trans; [|apply sextl_upd; auto with sx].
    eapply sextl_trans; apply sextl_upd; auto with sx.
Qed.

Lemma exec_sext cf b i sh sh' p o a sp :
  exec cf b i sh = XOk sh' p o a sp -> sext sh sh'.
Proof.
  destruct i; unfold exec, xok, xpush, sext, set_pc; intros H;
    try (destruct (close_step cf sh s) eqn:CS; try discriminate; inv_x; eapply close_step_sext; eauto; fail);
    try des_trig; repeat des_if; try inv_x; simpl; rewrite ?H0, ?H1; auto with sx.
  all: try (destruct es; inv_x; simpl; auto with sx; fail).
  all: try (destruct (c_iso (getc sh c)); repeat des_if; inv_x; auto with sx; fail).
  all: try (eapply sextl_trans; [apply sextl_upd|apply sextl_app]; auto with sx).
Qed.

Lemma step_sext cf t st st' : step cf t st = Some st' -> sext (sh st) (sh st').
Proof.
  destruct t as [n b]. intros H.
  apply step_inv in H as (th & i & rest & todo & _ & _ & [(k & _ & ->)|(sh1 & p & o & a & sp & X & ->)]); simpl.
  apply sextl_refl. eapply exec_sext; eauto.
Qed.

Lemma run_sext cf sched st : sext (sh st) (sh (run cf sched st)).
Proof.
  revert st; induction sched as [|t sched IH]; intros st; simpl. apply sextl_refl.
  eapply sextl_trans; [|apply IH]. unfold step_or_skip. destruct (step cf t st) eqn:E.
  eapply step_sext; eauto. apply sextl_refl.
Qed.

Lemma sext_valid sh sh' s : sext sh sh' -> valids sh s = true -> valids sh' s = true.
Proof. unfold valids. intros [L _] H. apply Nat.ltb_lt in H. apply Nat.ltb_lt. lia. Qed.
Lemma sext_ctx sh sh' s : sext sh sh' -> valids sh s = true -> s_ctx (gets sh' s) = s_ctx (gets sh s).
Proof. unfold valids, gets. intros [_ H] V. apply Nat.ltb_lt in V. apply (H s V). Qed.
Lemma sext_parent sh sh' s : sext sh sh' -> valids sh s = true -> s_parent (gets sh' s) = s_parent (gets sh s).
Proof. unfold valids, gets. intros [_ H] V. apply Nat.ltb_lt in V. apply (H s V). Qed.
Lemma sext_reg_none sh sh' s : sext sh sh' -> valids sh s = true ->
  s_reg (gets sh s) = None -> s_reg (gets sh' s) = None.
Proof.
  unfold valids, gets. intros [_ H] V R. apply Nat.ltb_lt in V.
  destruct (H s V) as (_ & _ & [E|E] & _); congruence.
Qed.

(** the error list of an existing scope only grows *)
Lemma errs_grow sh sh' s : cext sh sh' -> sext sh sh' -> valids sh s = true ->
  exists suf, errs_of sh' s = errs_of sh s ++ suf.
Proof.
  intros CE SE V. unfold errs_of. rewrite (sext_ctx _ _ _ SE V). apply cext_errors; auto.
Qed.

(** A micro-step creates at most one scope, and only [INewRoot] / [INewChild] do. *)
Definition fresh_scope (i : instr) (sh sh' : shared) : Prop :=
  let n := length (scopes sh) in
  let x := nth n (scopes sh') dscope in
  length (scopes sh') = S n /\
  s_pc x = CNone /\ s_branch x = None /\ s_ctx x < length (ctxs sh') /\
  ((i = INewRoot /\ s_parent x = None /\ s_reg x = None) \/
   (exists q iso, i = INewChild q iso /\ q < n /\ s_parent x = Some q /\
      (s_reg x = Some q \/ (s_reg x = None /\ c_done (getc sh (s_ctx (gets sh q))) = true)) /\
      (if iso then c_iso (getc sh' (s_ctx x)) = Some (s_ctx (gets sh q)) /\ length (ctxs sh) <= s_ctx x
       else s_ctx x = s_ctx (gets sh q)))).

Lemma nth_len_app {A} (l : list A) x d : nth (length l) (l ++ [x]) d = x.
Proof. apply nth_middle. Qed.

Lemma nth_len_upd_app {A} n f (l : list A) x d : nth (length l) (upd n f l ++ [x]) d = x.
Proof. rewrite <- (upd_length n f l) at 1. apply nth_middle. Qed.

Lemma exec_scopes_len cf b i sh sh' p o a sp :
  (forall c, c < length (scopes sh) -> s_ctx (nth c (scopes sh) dscope) < length (ctxs sh)) ->
  exec cf b i sh = XOk sh' p o a sp ->
  length (scopes sh') = length (scopes sh) \/ fresh_scope i sh sh'.
Proof.
  intros VC H. pose proof (exec_sext _ _ _ _ _ _ _ _ _ H) as [L _].
  destruct i; unfold exec, xok, xpush, set_pc in H;
    try (left; destruct (close_step cf sh s) eqn:CS; try discriminate; inv_x;
         unfold close_step, xok, set_pc in CS;
         destruct (s_pc (gets sh s)); try des_trig; repeat des_if; try inv_x; simpl; rewrite ?upd_length; try congruence;
         destruct (s_reg (gets sh s)); repeat des_if; inv_x; simpl; rewrite ?upd_length; auto; fail);
    try (destruct (valids sh p0 && negb (nil_fields (gets sh p0))) eqn:?; [|inv_x; auto]);
    try des_trig; try (repeat des_if; try inv_x; simpl; rewrite ?upd_length; auto; try (left; congruence); fail).
  all: try (left; destruct es; inv_x; simpl; auto; fail).
  all: try (left; destruct (c_iso (getc sh c)); repeat des_if; inv_x; auto; fail).
  - (* INewRoot *)
    inv_x. right. unfold fresh_scope. simpl. rewrite app_length, nth_len_app. simpl.
    repeat split; auto; try lia. rewrite app_length. simpl. lia.
  - (* INewChild *)
    apply andb_prop in Heqb0 as [V _]. unfold valids in V. apply Nat.ltb_lt in V.
    right. unfold fresh_scope.
    destruct iso, (c_done (getc sh (s_ctx (gets sh p0)))) eqn:D; simpl in H |- *; inv_x; simpl;
      rewrite ?app_length, ?upd_length, ?nth_len_upd_app, ?nth_len_app; simpl;
      (split; [lia|]); (split; [reflexivity|]); (split; [reflexivity|]);
      (split; [try lia; apply VC; auto|]); right.
    + exists p0, true. repeat split; auto.
      * destruct (remember_reg cf); simpl; auto.
      * unfold getc. simpl. rewrite nth_len_app. reflexivity.
    + exists p0, true. repeat split; auto.
      unfold getc. simpl. rewrite nth_len_app. reflexivity.
    + exists p0, false. repeat split; auto. destruct (remember_reg cf); simpl; auto.
    + exists p0, false. repeat split; auto.
Qed.

(** Program counter and branch of scope [s] are touched by [IC0 s] and [IRunClose s] only. *)
Lemma nth_app_pc l x s : s_pc x = CNone -> s_branch x = None ->
  s_pc (nth s (l ++ [x]) dscope) = s_pc (nth s l dscope) /\
  s_branch (nth s (l ++ [x]) dscope) = s_branch (nth s l dscope).
Proof.
  intros P B. destruct (Nat.lt_ge_cases s (length l)).
  - rewrite app_nth1; auto.
  - rewrite (nth_overflow l) by lia. destruct (Nat.eq_dec s (length l)) as [->|].
    + rewrite nth_middle. auto.
    + rewrite nth_overflow; auto. rewrite app_length; simpl; lia.
Qed.

Lemma nth_upd_pcb n f l s : (forall x, s_pc (f x) = s_pc x /\ s_branch (f x) = s_branch x) ->
  s_pc (nth s (upd n f l) dscope) = s_pc (nth s l dscope) /\
  s_branch (nth s (upd n f l) dscope) = s_branch (nth s l dscope).
Proof. intros H. rewrite nth_upd. destruct (_ && _); auto. Qed.

Lemma close_step_pc_other cf sh s0 sh' p o a sp s :
  close_step cf sh s0 = XOk sh' p o a sp -> s0 <> s ->
  s_pc (gets sh' s) = s_pc (gets sh s) /\ s_branch (gets sh' s) = s_branch (gets sh s).
Proof.
  unfold close_step, xok, set_pc. intros H N.
  assert (E : Nat.eqb s0 s = false) by (apply Nat.eqb_neq; auto).
  destruct (s_pc (gets sh s0)) eqn:PC; try des_trig; repeat des_if; try inv_x; auto;
    unfold gets, upd_scope, upd_ctx; simpl; rewrite ?H1; rewrite ?nth_upd, ?E; simpl; auto.
  destruct (s_reg (gets sh s0)); repeat des_if; inv_x; unfold gets, upd_scope; simpl;
    rewrite ?nth_upd, ?upd_length, ?E; simpl; auto.
  destruct (_ && _); auto.
Qed.

Lemma exec_pc_frame cf b i sh sh' p o a sp s :
  exec cf b i sh = XOk sh' p o a sp -> i <> IC0 s -> i <> IRunClose s ->
  s_pc (gets sh' s) = s_pc (gets sh s) /\ s_branch (gets sh' s) = s_branch (gets sh s).
Proof.
  intros H N0 N1. destruct i; unfold exec, xok, xpush, set_pc in H;
    try (match type of H with context [close_step cf sh ?x] =>
           destruct (close_step cf sh x) eqn:CS; try discriminate; inv_x;
           apply (close_step_pc_other _ _ _ _ _ _ _ _ s CS); intros ->; apply N1; reflexivity end);
    try des_trig; repeat des_if; try inv_x; auto;
    unfold gets, upd_scope, upd_ctx; simpl; rewrite ?H1; auto.
  all: try (destruct es; inv_x; auto; fail).
  all: try (apply nth_upd_pcb; auto; fail).
  all: try (destruct (c_iso (getc sh c)); repeat des_if; inv_x; auto; fail).
  all: try (apply nth_app_pc; auto; fail).
  all: try (match goal with |- context [nth ?z (?l ++ [?x]) dscope] =>
              destruct (nth_app_pc l x z eq_refl eq_refl) as [-> ->]; apply nth_upd_pcb; auto end; fail).
  - match goal with |- context [upd ?x _ _] => assert (E : Nat.eqb x s = false) by (apply Nat.eqb_neq; congruence) end.
    rewrite nth_upd, E. auto.
Qed.

(** The transitions of one Close: what [IRunClose s] does to scope [s] itself. *)
Definition cnext (p p' : cpc) : Prop :=
  match p with
  | CNone => p' = CNone
  | CFinished => p' = CFinished
  | CFire e => p' = next_pc e \/ exists x, p' = CErrA e x
  | CErrA e _ => p' = CErrS e
  | CErrS e => p' = CErrT e
  | CErrT e => p' = next_pc e \/ exists y, p' = CErr2A e y
  | CErr2A e _ => p' = CErr2S e
  | CErr2S e => p' = next_pc e
  | CWait => p' = CDecide
  | CDecide => p' = CMark
  | CMark => p' = CFire BCo \/ p' = CFire BR
  | CSignOff => p' = CRet
  | CRet => p' = CFinished
  end.

Lemma close_step_self cf sh s sh' p o a sp :
  close_step cf sh s = XOk sh' p o a sp ->
  cnext (s_pc (gets sh s)) (s_pc (gets sh' s)) /\
  (s_pc (gets sh s) = CWait -> s_wg (gets sh s) = 0%Z) /\
  (s_pc (gets sh s) = CDecide -> s_branch (gets sh' s) = Some (isnil (errs_of sh s))) /\
  (s_pc (gets sh s) <> CDecide -> s_branch (gets sh' s) = s_branch (gets sh s)) /\
  (s_pc (gets sh s) = CRet -> o = [OClosed s (negb (isnil (errs_of sh s)))]) /\
  (s_pc (gets sh s) <> CRet -> o = []) /\
  (s_pc (gets sh s) = CSignOff -> s_reg (gets sh' s) = None).
Proof.
  intros H.
  destruct (valids sh s) eqn:V.
  2:{ unfold valids in V. apply Nat.ltb_ge in V. unfold close_step in H. unfold gets in *.
      rewrite (nth_overflow (scopes sh)) in * by lia. simpl in *. unfold xok in H. inv_x.
      rewrite nth_overflow by lia. simpl. repeat split; auto; discriminate. }
  assert (G : forall q sh0, scopes sh0 = scopes sh -> s_pc (gets (set_pc sh0 s q) s) = q /\
            s_branch (gets (set_pc sh0 s q) s) = s_branch (gets sh s) /\
            s_reg (gets (set_pc sh0 s q) s) = s_reg (gets sh s)).
  { intros q sh0 E. unfold set_pc. rewrite gets_upd_scope. unfold valids, gets. rewrite E.
    fold (valids sh s). rewrite V, Nat.eqb_refl. simpl. auto. }
  unfold close_step, xok in H.
  destruct (s_pc (gets sh s)) eqn:PC; try des_trig; repeat des_if; try inv_x;
    try (match goal with |- context [gets (set_pc ?x s ?q) s] =>
           destruct (G q x) as (-> & -> & ->); [simpl; congruence|] end;
         simpl; repeat split; auto; try discriminate; try congruence; eauto; fail).
  - rewrite PC. repeat split; auto; discriminate.
  - (* CWait *) destruct (G CDecide sh eq_refl) as (-> & -> & ->). simpl. repeat split; auto; try discriminate. lia.
  - (* CDecide *)
    unfold set_pc. rewrite !gets_upd_scope, !valids_upd_scope, V, Nat.eqb_refl. simpl.
    repeat split; auto; try discriminate. congruence.
  - (* CSignOff *)
    destruct (s_reg (gets sh s)) as [q|] eqn:R; repeat des_if; inv_x.
    + unfold set_pc. rewrite !gets_upd_scope, !valids_upd_scope, V, Nat.eqb_refl. simpl.
      repeat split; auto; try discriminate. intros _. destruct (_ && _); auto.
    + destruct (G CRet sh eq_refl) as (-> & -> & ->). simpl. repeat split; auto; discriminate.
  - rewrite PC. repeat split; auto; discriminate.
Qed.

Lemma instr_eq_c0 i s : i = IC0 s \/ i <> IC0 s.
Proof. destruct i; try (right; discriminate). destruct (Nat.eq_dec s0 s) as [->|N]; [left|right]; congruence. Qed.
Lemma instr_eq_rc i s : i = IRunClose s \/ i <> IRunClose s.
Proof. destruct i; try (right; discriminate). destruct (Nat.eq_dec s0 s) as [->|N]; [left|right]; congruence. Qed.

(** * The scope tree *)
Definition closed_pc (p : cpc) : bool := match p with CRet | CFinished => true | _ => false end.

Definition treeI (sh : shared) : Prop :=
  forall c, c < length (scopes sh) ->
    s_ctx (gets sh c) < length (ctxs sh) /\
    (forall q, s_reg (gets sh c) = Some q -> s_parent (gets sh c) = Some q) /\
    (forall p, s_parent (gets sh c) = Some p ->
       p < c /\
       (s_ctx (gets sh c) = s_ctx (gets sh p) \/
        c_iso (getc sh (s_ctx (gets sh c))) = Some (s_ctx (gets sh p))) /\
       (s_reg (gets sh c) = Some p \/ closed_pc (s_pc (gets sh c)) = true \/
        c_done (getc sh (s_ctx (gets sh p))) = true)).

Lemma exec_closed_pc cf b i sh sh' p o a sp c :
  exec cf b i sh = XOk sh' p o a sp ->
  closed_pc (s_pc (gets sh c)) = true -> closed_pc (s_pc (gets sh' c)) = true.
Proof.
  intros H C.
  destruct (instr_eq_c0 i c) as [->|N0].
  - apply exec_c0 in H as [(_ & -> & _)|(_ & PC & _)]; auto. rewrite PC in C. discriminate.
  - destruct (instr_eq_rc i c) as [->|N1].
    + apply exec_runclose in H as [CS _]. apply close_step_self in CS as (X & _).
      destruct (s_pc (gets sh c)); try discriminate; simpl in X; rewrite X; reflexivity.
    + destruct (exec_pc_frame _ _ _ _ _ _ _ _ _ c H N0 N1) as [-> _]. auto.
Qed.

Lemma option_eq_dec (x y : option nat) : x = y \/ x <> y.
Proof. destruct x as [a|], y as [b|]; try (right; discriminate); auto. destruct (Nat.eq_dec a b); [left|right]; congruence. Qed.

Lemma cext_len sh sh' : cext sh sh' -> length (ctxs sh) <= length (ctxs sh').
Proof. intros [L _]; auto. Qed.

Lemma exec_tree cf b i sh sh' p o a sp :
  treeI sh -> exec cf b i sh = XOk sh' p o a sp -> treeI sh'.
Proof.
  intros T H.
  pose proof (exec_sext _ _ _ _ _ _ _ _ _ H) as SE.
  pose proof (exec_cext _ _ _ _ _ _ _ _ _ H) as CE.
  assert (VC : forall c, c < length (scopes sh) -> s_ctx (nth c (scopes sh) dscope) < length (ctxs sh)).
  { intros c Hc. apply (T c Hc). }
  pose proof (exec_scopes_len _ _ _ _ _ _ _ _ _ VC H) as LN.
  assert (OLD : forall c, c < length (scopes sh) ->
    s_ctx (gets sh' c) < length (ctxs sh') /\
    (forall q, s_reg (gets sh' c) = Some q -> s_parent (gets sh' c) = Some q) /\
    (forall p, s_parent (gets sh' c) = Some p ->
       p < c /\
       (s_ctx (gets sh' c) = s_ctx (gets sh' p) \/
        c_iso (getc sh' (s_ctx (gets sh' c))) = Some (s_ctx (gets sh' p))) /\
       (s_reg (gets sh' c) = Some p \/ closed_pc (s_pc (gets sh' c)) = true \/
        c_done (getc sh' (s_ctx (gets sh' p))) = true))).
  { intros c Hc. destruct (T c Hc) as (A & B & C).
    assert (Vc : valids sh c = true) by (apply Nat.ltb_lt; auto).
    rewrite (sext_ctx _ _ _ SE Vc), (sext_parent _ _ _ SE Vc).
    pose proof (cext_len _ _ CE) as LC.
    split; [lia|]. split.
    - intros q R. destruct SE as [_ SE]. destruct (SE c Hc) as (_ & _ & [E|E] & _); fold (gets sh' c) (gets sh c) in E.
      + apply B. congruence.
      + congruence.
    - intros q P. destruct (C q P) as (Lq & X & Y).
      assert (Vq : valids sh q = true) by (apply Nat.ltb_lt; lia).
      rewrite (sext_ctx _ _ _ SE Vq). split; auto. split.
      + destruct X as [X|X]; auto. right. rewrite (cext_iso _ _ _ CE); auto. apply Nat.ltb_lt; auto.
      + destruct Y as [Y|[Y|Y]].
        * destruct (option_eq_dec (s_reg (gets sh' c)) (Some q)) as [E|E]; auto.
          right; left.
          destruct (reg_cleared_by_signoff _ _ _ _ _ _ _ _ _ c q H Hc Y E) as [-> PC].
          apply exec_runclose in H as [CS _]. apply close_step_self in CS as (NX & _).
          rewrite PC in NX. simpl in NX. rewrite NX. reflexivity.
        * right; left. eapply exec_closed_pc; eauto.
        * right; right. eapply cext_done; eauto. }
  destruct LN as [LN|FS].
  - intros c Hc. apply OLD. lia.
  - destruct FS as (LN & PC & BR & CX & K). intros c Hc.
    destruct (Nat.lt_ge_cases c (length (scopes sh))) as [L|L]; [apply OLD; auto|].
    assert (c = length (scopes sh)) by lia. subst c.
    set (x := nth (length (scopes sh)) (scopes sh') dscope) in *.
    change (gets sh' (length (scopes sh))) with x.
    split; auto. destruct K as [(_ & P & R)|(q & iso & -> & Lq & P & R & X)].
    + rewrite P, R. split; intros; discriminate.
    + rewrite P. split.
      * intros q0 R0. destruct R as [R|[R _]]; congruence.
      * intros q0 E. inversion E; subst q0. split; auto.
        assert (Vq : valids sh q = true) by (apply Nat.ltb_lt; lia).
        rewrite (sext_ctx _ _ _ SE Vq). split.
        -- destruct iso; [right; apply X|left; apply X].
        -- destruct R as [R|[_ D]]; auto. right; right. eapply cext_done; eauto.
Qed.

Lemma treeI_init progs : treeI (sh (init progs)).
Proof. intros c Hc. simpl in Hc. lia. Qed.

Lemma tree_reach cf progs sched : treeI (sh (run cf sched (init progs))).
Proof. apply (run_shared_inv cf treeI). intros; eapply exec_tree; eauto. apply treeI_init. Qed.

Lemma parent_valid sh c p : s_parent (gets sh c) = Some p -> c < length (scopes sh).
Proof.
  intros H. destruct (Nat.lt_ge_cases c (length (scopes sh))); auto.
  unfold gets in H. rewrite nth_overflow in H by lia. discriminate.
Qed.

(** The fuel [S s] of [chain] is enough: more fuel gives the same listener chain, at any depth. *)
Lemma chain_fuel sh : treeI sh -> forall f s e, s < f -> chain f sh s e = chain (S s) sh s e.
Proof.
  intros T f. induction f as [f IH] using lt_wf_ind. intros s e L.
  destruct f as [|f]; [lia|]. cbn [chain].
  destruct (s_parent (gets sh s)) as [q|] eqn:P; auto.
  pose proof (parent_valid _ _ _ P) as Vs. destruct (T s Vs) as (_ & _ & C). destruct (C q P) as (Lq & _).
  f_equal. rewrite (IH f) by lia. symmetry. destruct (Nat.eq_dec s (S q)) as [->|N]; auto.
Qed.

Lemma tree_shape progs sched :
  let st := run cfg_current sched (init progs) in
  (forall c p, s_parent (gets (sh st) c) = Some p ->
     p < c /\ c < length (scopes (sh st)) /\
     (s_ctx (gets (sh st) c) = s_ctx (gets (sh st) p) \/
      c_iso (getc (sh st) (s_ctx (gets (sh st) c))) = Some (s_ctx (gets (sh st) p))) /\
     (s_reg (gets (sh st) c) = Some p \/ closed_pc (s_pc (gets (sh st) c)) = true \/
      c_done (getc (sh st) (s_ctx (gets (sh st) p))) = true)) /\
  (forall c q, s_reg (gets (sh st) c) = Some q -> s_parent (gets (sh st) c) = Some q) /\
  (forall f s e, s < f -> chain f (sh st) s e = chain (S s) (sh st) s e).
Proof.
  intros st. pose proof (tree_reach cfg_current progs sched) as T. fold st in T. split; [|split].
  - intros c p P. pose proof (parent_valid _ _ _ P) as V. destruct (T c V) as (_ & _ & C).
    destruct (C p P) as (A & B & D). auto.
  - intros c q R. assert (V : c < length (scopes (sh st))).
    { apply Nat.ltb_lt. eapply reg_valid; eauto. }
    destruct (T c V) as (_ & B & _). auto.
  - apply chain_fuel; auto.
Qed.

(** * B. Close is accepted once per scope and returns at most once *)
Definition is_tok (s : nat) (i : instr) : bool := match i with IRunClose s' => Nat.eqb s' s | _ => false end.
Definition is_ret (s : nat) (o : obs) : bool := match o with OClosed s' _ => Nat.eqb s' s | _ => false end.
Definition ntok (s : nat) (l : list instr) : nat := length (filter (is_tok s) l).
Definition nret (s : nat) (l : list obs) : nat := length (filter (is_ret s) l).
(** Close calls on [s] in progress (a thread holds the token of the state machine) / returned *)
Definition tokens (s : nat) (st : state) : nat := list_sum (map (fun th => ntok s (t_cur th)) (ths st)).
Definition returns (s : nat) (st : state) : nat := list_sum (map (fun th => nret s (t_out th)) (ths st)).

Definition calls_ok (pc : cpc) (T R : nat) : Prop :=
  match pc with
  | CNone => T = 0 /\ R = 0
  | CFinished => T = 0 /\ R = 1
  | _ => T <= 1 /\ R = 0
  end.
Definition onceI (st : state) : Prop :=
  forall s, calls_ok (s_pc (gets (sh st) s)) (tokens s st) (returns s st).

Lemma ntok_app s a b : ntok s (a ++ b) = ntok s a + ntok s b.
Proof. unfold ntok. now rewrite filter_app, app_length. Qed.
Lemma nret_app s a b : nret s (a ++ b) = nret s a + nret s b.
Proof. unfold nret. now rewrite filter_app, app_length. Qed.

Lemma exec_other_tok cf b i sh sh' p o a sp :
  exec cf b i sh = XOk sh' p o a sp -> (forall s, i <> IC0 s) -> (forall s, i <> IRunClose s) ->
  forall s, ntok s p = 0 /\ nret s o = 0.
Proof.
  intros H N0 N1 s. destruct i; try (elim (N0 s0); reflexivity); try (elim (N1 s0); reflexivity);
    unfold exec, xok, xpush in H; try des_trig; repeat des_if; try inv_x; auto.
  all: try (destruct es; inv_x; auto; fail).
  all: destruct (c_iso (getc sh c)); repeat des_if; inv_x; auto.
Qed.

Lemma exec_spawn_watch cf b i sh sh' p o a sp :
  exec cf b i sh = XOk sh' p o a sp -> Forall (fun cur => exists c, cur = [IWatch c]) sp.
Proof.
  intros H. destruct i; unfold exec, xok, xpush in H;
    try (match type of H with context [close_step cf sh ?x] =>
           destruct (close_step cf sh x) eqn:CS; try discriminate; inv_x; constructor end);
    try des_trig; repeat des_if; try inv_x; repeat constructor; eauto.
  all: try (destruct es; inv_x; constructor).
  all: destruct (c_iso (getc sh c)); repeat des_if; inv_x; constructor.
Qed.

Lemma exec_c0_out cf b s sh sh' p o a sp : exec cf b (IC0 s) sh = XOk sh' p o a sp -> o = [].
Proof. unfold exec, xok, xpush. intros H. repeat des_if; inv_x; auto. Qed.

Lemma in_progress_next p p' : cnext p p' -> in_progress p = true -> p <> CRet ->
  in_progress p' = true.
Proof.
  destruct p; simpl; intros H IP NR; try discriminate; try congruence;
    repeat match goal with H : _ \/ _ |- _ => destruct H | H : exists _, _ |- _ => destruct H end;
    subst; try reflexivity; try (destruct e; reflexivity).
Qed.

Lemma cpc_eq_decide p : p = CDecide \/ p <> CDecide.
Proof. destruct p; try (right; discriminate); auto. Qed.
Lemma obool_eq_dec (x y : option bool) : x = y \/ x <> y.
Proof. destruct x as [[]|], y as [[]|]; try (right; discriminate); auto. Qed.
Lemma cpc_eq_ret p : p = CRet \/ p <> CRet.
Proof. destruct p; try (right; discriminate); auto. Qed.

Lemma exec_calls cf b i sh sh' p o a sp s T R :
  exec cf b i sh = XOk sh' p o a sp ->
  calls_ok (s_pc (gets sh s)) (ntok s [i] + T) R ->
  calls_ok (s_pc (gets sh' s)) (ntok s p + T) (nret s o + R).
Proof.
  intros H C.
  destruct (instr_eq_rc i s) as [->|N1].
  { (* the Close of s itself *)
    apply exec_runclose in H as [CS ->].
    apply close_step_self in CS as (NX & _ & _ & _ & OR & ON & _).
    unfold ntok in C. simpl in C. rewrite Nat.eqb_refl in C. simpl in C.
    destruct (s_pc (gets sh s)) eqn:PC; simpl in C; try lia.
    11:{ simpl in NX. rewrite NX. simpl. rewrite (OR eq_refl). unfold nret. simpl. rewrite Nat.eqb_refl. simpl.
         split; lia. }
    all: assert (IP : in_progress (s_pc (gets sh' s)) = true) by
        (eapply in_progress_next; [exact NX|reflexivity|discriminate]).
    all: rewrite IP; rewrite ON by discriminate; unfold ntok, nret; simpl; rewrite Nat.eqb_refl; simpl.
    all: destruct (s_pc (gets sh' s)); try discriminate IP; simpl; lia. }
  destruct (instr_eq_c0 i s) as [->|N0].
  { pose proof (exec_c0_out _ _ _ _ _ _ _ _ _ H) as ->.
    apply exec_c0 in H as [(V & -> & ->)|(V & PC & -> & ->)]; auto.
    rewrite PC in C. simpl in C. unfold set_pc. rewrite gets_upd_scope, V, Nat.eqb_refl. simpl.
    unfold ntok. simpl. rewrite Nat.eqb_refl. simpl. lia. }
  destruct (exec_pc_frame _ _ _ _ _ _ _ _ _ s H N0 N1) as [-> _].
  assert (Z : ntok s [i] = 0).
  { unfold ntok. destruct i; simpl; auto. destruct (Nat.eqb_spec s0 s); auto. subst. now elim N1. }
  rewrite Z in C.
  assert (ntok s p = 0 /\ nret s o = 0) as [-> ->]; auto.
  destruct i; try (eapply exec_other_tok; eauto; intros; discriminate).
  - pose proof (exec_c0_out _ _ _ _ _ _ _ _ _ H) as ->.
    apply exec_c0 in H as [(V & -> & ->)|(V & PC & -> & ->)]; auto.
    unfold ntok. simpl. destruct (Nat.eqb_spec s0 s); auto. subst. now elim N0.
  - apply exec_runclose in H as [CS ->].
    assert (NE : Nat.eqb s0 s = false) by (apply Nat.eqb_neq; intros ->; now elim N1).
    split.
    + destruct (in_progress _); unfold ntok; simpl; rewrite ?NE; auto.
    + apply close_step_self in CS as (_ & _ & _ & _ & OR & ON & _).
      destruct (cpc_eq_ret (s_pc (gets sh s0))) as [E|E].
      * rewrite (OR E). unfold nret. simpl. rewrite NE. auto.
      * rewrite (ON E). auto.
Qed.

Lemma expand_no_tok sh o s : ntok s (expand sh o) = 0.
Proof. destruct o; simpl; repeat des_if; auto. destruct (nonnil es); auto. Qed.

Lemma view_tok sh th i rest todo s :
  view sh th = Some (i, rest, todo) -> ntok s (i :: rest) = ntok s (t_cur th).
Proof.
  intros V. apply view_inv in V as [[E _]|[E (o & _ & X)]].
  - now rewrite E.
  - rewrite E, <- X. apply expand_no_tok.
Qed.

Lemma calls_ok_le pc T T' R : calls_ok pc T R -> T' <= T -> calls_ok pc T' R.
Proof. destruct pc; simpl; lia. Qed.

Lemma spawned_sum (f : thread -> nat) sp : (forall cur, In cur sp -> f (spawned cur) = 0) ->
  list_sum (map f (map spawned sp)) = 0.
Proof. induction sp as [|x sp IH]; simpl; auto. intros H. rewrite H, IH; auto. Qed.

Lemma list_sum_mid_sp (f : thread -> nat) l1 x l2 sp :
  list_sum (map f ((l1 ++ x :: l2) ++ sp)) =
  list_sum (map f l1) + f x + list_sum (map f l2) + list_sum (map f sp).
Proof. rewrite map_app, list_sum_app, list_sum_mid. lia. Qed.

Lemma onceI_step cf t st st' : onceI st -> step cf t st = Some st' -> onceI st'.
Proof.
  intros I H s. specialize (I s). destruct t as [n b].
  apply step_inv in H as (th & i & rest & todo & Hn & V & H).
  destruct (upd_split' n (ths st) th Hn) as (l1 & l2 & E1 & E2).
  pose proof (view_tok _ _ _ _ _ s V) as VT.
  unfold tokens, returns in I. rewrite E1, !list_sum_mid in I.
  destruct H as [(k & X & ->)|(sh1 & p & o & a & sp & X & ->)]; unfold tokens, returns; simpl.
  - rewrite E2, !list_sum_mid. simpl. rewrite nret_app. unfold nret at 2. simpl.
    eapply calls_ok_le. 2:{ instantiate (1 := list_sum (map (fun th0 => ntok s (t_cur th0)) l1) + ntok s (t_cur th)
                                  + list_sum (map (fun th0 => ntok s (t_cur th0)) l2)). unfold ntok at 2. simpl. lia. }
    rewrite Nat.add_0_r. exact I.
  - rewrite E2, !list_sum_mid_sp. simpl.
    rewrite !spawned_sum.
    2:{ intros cur Hc. reflexivity. }
    2:{ intros cur Hc. pose proof (exec_spawn_watch _ _ _ _ _ _ _ _ _ X) as F. rewrite Forall_forall in F.
        destruct (F cur Hc) as (c & ->). reflexivity. }
    rewrite ntok_app, nret_app, !Nat.add_0_r.
    set (A := list_sum (map (fun th0 => ntok s (t_cur th0)) l1)) in *.
    set (B := list_sum (map (fun th0 => ntok s (t_cur th0)) l2)) in *.
    set (A' := list_sum (map (fun th0 => nret s (t_out th0)) l1)) in *.
    set (B' := list_sum (map (fun th0 => nret s (t_out th0)) l2)) in *.
    rewrite <- VT in I. change (i :: rest) with ([i] ++ rest) in I. rewrite ntok_app in I.
    pose proof (exec_calls _ _ _ _ _ _ _ _ _ s (A + ntok s rest + B) (A' + nret s (t_out th) + B') X) as EC.
    replace (A + (ntok s p + ntok s rest) + B) with (ntok s p + (A + ntok s rest + B)) by lia.
    replace (A' + (nret s (t_out th) + nret s o) + B') with (nret s o + (A' + nret s (t_out th) + B')) by lia.
    apply EC. replace (ntok s [i] + (A + ntok s rest + B)) with (A + (ntok s [i] + ntok s rest) + B) by lia. exact I.
Qed.

Lemma onceI_init progs : onceI (init progs).
Proof.
  intros s. simpl. unfold gets. simpl. destruct s; simpl.
  all: unfold tokens, returns; simpl; rewrite !map_map; simpl.
  all: assert (Z : forall l : list (list op), list_sum (map (fun _ => 0) l) = 0) by (induction l; simpl; auto).
  all: rewrite !Z; auto.
Qed.

Lemma once_reach cf progs sched : onceI (run cf sched (init progs)).
Proof. apply (run_inv cf onceI). intros; eapply onceI_step; eauto. apply onceI_init. Qed.

Lemma calls_ok_facts pc T R : calls_ok pc T R ->
  T + R <= 1 /\ (pc = CNone -> T = 0 /\ R = 0) /\ (R = 1 <-> pc = CFinished) /\ (pc = CFinished -> T = 0).
Proof.
  destruct pc; simpl; intros [A B]; subst; repeat split; auto; try lia; try discriminate; intros; try lia.
Qed.

Lemma in_nret s h l : In (OClosed s h) l -> 1 <= nret s l.
Proof.
  unfold nret. induction l as [|x l IH]; simpl; [tauto|]. intros [->|H].
  - simpl. rewrite Nat.eqb_refl. simpl. lia.
  - specialize (IH H). destruct (is_ret s x); simpl; lia.
Qed.

Lemma in_list_sum (f : thread -> nat) l th : In th l -> f th <= list_sum (map f l).
Proof. induction l as [|x l IH]; simpl; [tauto|]. intros [->|H]; [lia|]. specialize (IH H). lia. Qed.

Lemma in_returns st th s h : In th (ths st) -> In (OClosed s h) (t_out th) -> 1 <= returns s st.
Proof.
  intros Hin Ho. unfold returns.
  pose proof (in_list_sum (fun th0 => nret s (t_out th0)) _ _ Hin) as L. simpl in L.
  pose proof (in_nret _ _ _ Ho). lia.
Qed.

Lemma close_once progs sched s :
  let st := run cfg_current sched (init progs) in
  tokens s st + returns s st <= 1 /\
  (s_pc (gets (sh st) s) = CNone -> tokens s st = 0 /\ returns s st = 0) /\
  (returns s st = 1 <-> s_pc (gets (sh st) s) = CFinished) /\
  (s_pc (gets (sh st) s) = CFinished -> tokens s st = 0) /\
  (forall th h, In th (ths st) -> In (OClosed s h) (t_out th) ->
     returns s st = 1 /\ s_pc (gets (sh st) s) = CFinished).
Proof.
  intros st. pose proof (once_reach cfg_current progs sched s) as C. fold st in C.
  apply calls_ok_facts in C as (A & B & D & E).
  split; auto. split; auto. split; auto. split; auto.
  intros th h Hin Ho. pose proof (in_returns _ _ _ _ Hin Ho).
  assert (R1 : returns s st = 1) by lia. split; auto. apply D; auto.
Qed.

(** * C. The decision, and what Close returns *)
Lemma branch_valid sh s b : s_branch (gets sh s) = Some b -> valids sh s = true.
Proof.
  intros H. unfold valids. destruct (Nat.ltb_spec s (length (scopes sh))); auto.
  unfold gets in H. rewrite nth_overflow in H by lia. discriminate.
Qed.

Lemma exec_branch_frame cf b i sh sh' p o a sp s :
  exec cf b i sh = XOk sh' p o a sp -> i <> IRunClose s ->
  s_branch (gets sh' s) = s_branch (gets sh s).
Proof.
  intros H N1. destruct (instr_eq_c0 i s) as [->|N0].
  - apply exec_c0 in H as [(_ & -> & _)|(V & _ & -> & _)]; auto.
    unfold set_pc. rewrite gets_upd_scope. destruct (_ && _); auto.
  - apply (exec_pc_frame _ _ _ _ _ _ _ _ _ s H N0 N1).
Qed.

(** The branch of [s] changes in one kind of step only: the CDecide step of its own Close, which
    sets it to 'the error list is empty now'. *)
Lemma exec_branch_change cf b i sh sh' p o a sp s :
  exec cf b i sh = XOk sh' p o a sp -> s_branch (gets sh' s) <> s_branch (gets sh s) ->
  i = IRunClose s /\ s_pc (gets sh s) = CDecide /\
  s_branch (gets sh' s) = Some (isnil (errs_of sh s)).
Proof.
  intros H N. destruct (instr_eq_rc i s) as [->|N1].
  - split; auto. apply exec_runclose in H as [CS _].
    apply close_step_self in CS as (_ & _ & D & ND & _).
    destruct (cpc_eq_decide (s_pc (gets sh s))) as [E|E]; auto. elim N. auto.
  - elim N. eapply exec_branch_frame; eauto.
Qed.

(** Rollback implies a held error. *)
Definition rbI (sh : shared) : Prop :=
  forall s, s_branch (gets sh s) = Some false -> errs_of sh s <> [].

Lemma grow_ne sh sh' s : cext sh sh' -> sext sh sh' -> valids sh s = true ->
  errs_of sh s <> [] -> errs_of sh' s <> [].
Proof.
  intros CE SE V N. destruct (errs_grow _ _ _ CE SE V) as (suf & ->).
  destruct (errs_of sh s); [now elim N|discriminate].
Qed.

Lemma exec_rb cf b i sh sh' p o a sp :
  rbI sh -> exec cf b i sh = XOk sh' p o a sp -> rbI sh'.
Proof.
  intros I H s B'.
  pose proof (exec_sext _ _ _ _ _ _ _ _ _ H) as SE.
  pose proof (exec_cext _ _ _ _ _ _ _ _ _ H) as CE.
  destruct (obool_eq_dec (s_branch (gets sh' s)) (s_branch (gets sh s))) as [E|N].
  - rewrite E in B'. eapply grow_ne; eauto. eapply branch_valid; eauto.
  - destruct (exec_branch_change _ _ _ _ _ _ _ _ _ s H N) as (_ & PC & D).
    rewrite D in B'. inversion B' as [B2].
    eapply grow_ne; eauto. apply pc_valid. rewrite PC. discriminate.
    destruct (errs_of sh s); [discriminate|discriminate].
Qed.

Lemma rb_reach cf progs sched : rbI (sh (run cf sched (init progs))).
Proof.
  apply (run_shared_inv cf rbI). intros; eapply exec_rb; eauto.
  intros s B. unfold gets in B. simpl in B. destruct s; discriminate.
Qed.

Lemma exec_ret_out cf b i sh sh' p o a sp s h :
  exec cf b i sh = XOk sh' p o a sp -> In (OClosed s h) o ->
  i = IRunClose s /\ s_pc (gets sh s) = CRet /\ h = negb (isnil (errs_of sh s)).
Proof.
  intros H Hin. destruct i;
    try (destruct (exec_other_tok _ _ _ _ _ _ _ _ _ H) with (s := s) as [_ Z];
         [intros; discriminate|intros; discriminate|apply in_nret in Hin; lia]).
  - apply exec_c0_out in H. subst. elim Hin.
  - apply exec_runclose in H as [CS _]. apply close_step_self in CS as (_ & _ & _ & _ & OR & ON & _).
    destruct (cpc_eq_ret (s_pc (gets sh s0))) as [E|E].
    + rewrite (OR E) in Hin. destruct Hin as [X|[]]. inversion X; subst. auto.
    + rewrite (ON E) in Hin. elim Hin.
Qed.

Definition res_ok (sh : shared) (s : nat) (h : bool) : Prop :=
  exists b, s_branch (gets sh s) = Some b /\ (b = false -> h = true) /\ (h = true -> errs_of sh s <> []).
Definition resI (st : state) : Prop :=
  forall th, In th (ths st) -> forall s h, In (OClosed s h) (t_out th) -> res_ok (sh st) s h.

Lemma res_ok_exec cf b i sh sh' p o a sp s h :
  gramI sh -> exec cf b i sh = XOk sh' p o a sp -> res_ok sh s h -> res_ok sh' s h.
Proof.
  intros G H (br & B & X & Y). exists br. split. eapply exec_branch; eauto. split; auto.
  intros E. eapply grow_ne; eauto using exec_cext, exec_sext. eapply branch_valid; eauto.
Qed.

Lemma resI_step cf t st st' :
  gramI (sh st) -> rbI (sh st) -> resI st -> step cf t st = Some st' -> resI st'.
Proof.
  intros G RB I H. destruct t as [n b].
  apply step_inv in H as (th & i & rest & todo & Hn & V & [(k & X & ->)|(sh1 & p & o & a & sp & X & ->)]);
    intros th' Hin s h Ho; simpl in *.
  - apply in_upd in Hin as [Hin|(x & Hx & ->)]; [eapply I; eauto|]. simpl in Ho.
    apply in_app_or in Ho as [Ho|[Ho|[]]]; [|discriminate].
    apply (I th (nth_error_In _ _ Hn) s h Ho).
  - apply in_app_or in Hin as [Hin|Hin].
    + apply in_upd in Hin as [Hin|(x & Hx & ->)].
      * eapply res_ok_exec; eauto.
      * simpl in Ho. apply in_app_or in Ho as [Ho|Ho].
        -- eapply res_ok_exec; eauto. apply (I th (nth_error_In _ _ Hn) s h Ho).
        -- destruct (exec_ret_out _ _ _ _ _ _ _ _ _ _ _ X Ho) as (-> & PC & ->).
           assert (Vs : valids (sh st) s = true) by (apply pc_valid; rewrite PC; discriminate).
           destruct (proj2 G s) as [_ K]. { apply Nat.ltb_lt; auto. }
           fold (gets (sh st) s) in K. rewrite PC in K. simpl in K.
           destruct (s_branch (gets (sh st) s)) as [br|] eqn:B; [|discriminate].
           eapply res_ok_exec; eauto.
           exists br. split; auto. split.
           ++ intros ->. specialize (RB s B). destruct (errs_of (sh st) s); [now elim RB|reflexivity].
           ++ intros E. destruct (errs_of (sh st) s); [discriminate|discriminate].
    + apply in_map_iff in Hin as (cur & <- & _). elim Ho.
Qed.

Definition resAll (st : state) : Prop := gramI (sh st) /\ rbI (sh st) /\ resI st.

Lemma resAll_step cf t st st' : resAll st -> step cf t st = Some st' -> resAll st'.
Proof.
  intros (G & RB & I) H. split; [|split].
  - eapply (shared_inv_step cf gramI); eauto. intros; eapply exec_gram; eauto.
  - eapply (shared_inv_step cf rbI); eauto. intros; eapply exec_rb; eauto.
  - eapply resI_step; eauto.
Qed.

Lemma resAll_reach cf progs sched : resAll (run cf sched (init progs)).
Proof.
  apply (run_inv cf resAll). intros; eapply resAll_step; eauto.
  split. apply gramI_init. split.
  - intros s B. unfold gets in B. simpl in B. destruct s; discriminate.
  - intros th Hin s h Ho. apply in_map_iff in Hin as (ops & <- & _). elim Ho.
Qed.

(** What Close returned, against the branch, the word and the error list: in every reachable state,
    for every [OClosed s h] any thread has observed. *)
Lemma result_holds progs sched th s h :
  let st := run cfg_current sched (init progs) in
  In th (ths st) -> In (OClosed s h) (t_out th) ->
  s_pc (gets (sh st) s) = CFinished /\ returns s st = 1 /\
  exists b, s_branch (gets (sh st) s) = Some b /\ close_word (log (sh st)) s = full_word b /\
            (b = false -> h = true) /\ (h = true -> errs_of (sh st) s <> []).
Proof.
  intros st Hin Ho.
  destruct (close_once progs sched s) as (_ & _ & _ & _ & C). fold st in C.
  destruct (C th h Hin Ho) as [R1 PC]. split; auto. split; auto.
  destruct (resAll_reach cfg_current progs sched) as (_ & _ & I). fold st in I.
  destruct (I th Hin s h Ho) as (b & B & X & Y). exists b. split; auto. split; auto.
  assert (Vs : s < length (scopes (sh st))).
  { apply Nat.ltb_lt. apply pc_valid. rewrite PC. discriminate. }
  destruct (event_grammar progs sched s Vs) as (_ & _ & _ & _ & F). fold st in F.
  destruct (F PC) as (b' & B' & W). congruence.
Qed.

(** Branch stability from any state that satisfies the grammar invariant. *)
Lemma run_gram cf sched st : gramI (sh st) -> gramI (sh (run cf sched st)).
Proof. apply (run_shared_inv cf gramI). intros; eapply exec_gram; eauto. Qed.

Lemma step_branch cf t st st' s b :
  gramI (sh st) -> step cf t st = Some st' ->
  s_branch (gets (sh st) s) = Some b -> s_branch (gets (sh st') s) = Some b.
Proof.
  intros G H B. destruct t as [n b0].
  apply step_inv in H as (th & i & rest & todo & _ & _ & [(k & _ & ->)|(sh1 & p & o & a & sp & X & ->)]);
    simpl; auto. eapply exec_branch; eauto.
Qed.

Lemma run_branch cf sched : forall st s b,
  gramI (sh st) -> s_branch (gets (sh st) s) = Some b -> s_branch (gets (sh (run cf sched st)) s) = Some b.
Proof.
  induction sched as [|t sched IH]; intros st s b G B; simpl; auto.
  unfold step_or_skip. destruct (step cf t st) as [st'|] eqn:E; auto.
  apply IH. eapply (shared_inv_step cf gramI); eauto. intros; eapply exec_gram; eauto.
  eapply step_branch; eauto.
Qed.

(** The decision is taken at one moment: if the branch of [s] is undecided in [st] and is [b] after
    [s2], then [s2] splits around one step, the CDecide step of the Close of [s], taken in a state
    whose error list is empty iff [b]. *)
Lemma decision_split cf s2 : forall st s b,
  gramI (sh st) -> s_branch (gets (sh st) s) = None ->
  s_branch (gets (sh (run cf s2 st)) s) = Some b ->
  exists s3 t s4, s2 = s3 ++ t :: s4 /\
    let stm := run cf s3 st in
    s_pc (gets (sh stm) s) = CDecide /\ s_branch (gets (sh stm) s) = None /\
    b = isnil (errs_of (sh stm) s) /\
    exists stm', step cf t stm = Some stm' /\ s_branch (gets (sh stm') s) = Some b.
Proof.
  induction s2 as [|t s2 IH]; intros st s b G B0 B2; simpl in B2. congruence.
  unfold step_or_skip in B2. destruct (step cf t st) as [st1|] eqn:E.
  - assert (G1 : gramI (sh st1)).
    { eapply (shared_inv_step cf gramI); eauto. intros; eapply exec_gram; eauto. }
    destruct (s_branch (gets (sh st1) s)) as [b1|] eqn:B1.
    + exists [], t, s2. split; auto. simpl.
      pose proof (run_branch cf s2 st1 s b1 G1 B1) as B2'.
      assert (b1 = b) by congruence. subst b1.
      destruct t as [n b0]. pose proof E as E'.
      apply step_inv in E' as (th & i & rest & todo & _ & _ & [(k & _ & ->)|(sh1 & p & o & a & sp & X & ->)]).
      * simpl in B1. congruence.
      * simpl in B1. destruct (exec_branch_change _ _ _ _ _ _ _ _ _ s X) as (_ & PC & D). congruence.
        split; auto. split; auto. split. congruence. eexists. split; eauto.
    + destruct (IH st1 s b G1 B1 B2) as (s3 & t' & s4 & -> & PC & Bm & Eb & stm' & St & Bm').
      exists (t :: s3), t', s4. split; auto. simpl. unfold step_or_skip. rewrite E. eauto 10.
  - destruct (IH st s b G B0 B2) as (s3 & t' & s4 & -> & PC & Bm & Eb & stm' & St & Bm').
    exists (t :: s3), t', s4. split; auto. simpl. unfold step_or_skip. rewrite E. eauto 10.
Qed.

Lemma decision_moment progs s1 s2 s b :
  let st1 := run cfg_current s1 (init progs) in
  let st2 := run cfg_current (s1 ++ s2) (init progs) in
  s_branch (gets (sh st1) s) = None -> s_branch (gets (sh st2) s) = Some b ->
  exists s3 t s4, s2 = s3 ++ t :: s4 /\
    let stm := run cfg_current (s1 ++ s3) (init progs) in
    s_pc (gets (sh stm) s) = CDecide /\ s_branch (gets (sh stm) s) = None /\
    b = isnil (errs_of (sh stm) s) /\
    s_branch (gets (sh (run cfg_current (s1 ++ s3 ++ [t]) (init progs))) s) = Some b.
Proof.
  intros st1 st2 B1 B2. unfold st2 in B2. rewrite run_app in B2. fold st1 in B2.
  destruct (decision_split cfg_current s2 st1 s b (gram_reach progs s1) B1 B2)
    as (s3 & t & s4 & -> & PC & Bm & Eb & stm' & St & Bm').
  exists s3, t, s4. split; auto. rewrite !run_app. fold st1. simpl.
  repeat split; auto. unfold step_or_skip. rewrite St. auto.
Qed.

(** An error held before the decision forces the rollback branch, the rollback word and an error
    result. *)
Lemma error_before_decision progs s1 s2 s :
  let st1 := run cfg_current s1 (init progs) in
  let st2 := run cfg_current (s1 ++ s2) (init progs) in
  valids (sh st1) s = true -> s_branch (gets (sh st1) s) = None -> errs_of (sh st1) s <> [] ->
  s_branch (gets (sh st2) s) <> Some true /\
  (s_pc (gets (sh st2) s) = CFinished ->
   s_branch (gets (sh st2) s) = Some false /\ close_word (log (sh st2)) s = full_word false /\
   forall th h, In th (ths st2) -> In (OClosed s h) (t_out th) -> h = true).
Proof.
  intros st1 st2 V B1 NE.
  assert (NT : s_branch (gets (sh st2) s) <> Some true).
  { intros B2. destruct (decision_moment progs s1 s2 s true B1 B2) as (s3 & t & s4 & -> & _ & _ & Eb & _).
    rewrite run_app in Eb. fold st1 in Eb.
    assert (X : errs_of (sh (run cfg_current s3 st1)) s <> []).
    { eapply grow_ne; eauto. apply run_cext. apply run_sext. }
    destruct (errs_of (sh (run cfg_current s3 st1)) s); [now elim X|simpl in Eb; discriminate]. }
  split; auto. intros PC.
  assert (Vs : s < length (scopes (sh st2))).
  { apply Nat.ltb_lt. apply pc_valid. rewrite PC. discriminate. }
  destruct (event_grammar progs (s1 ++ s2) s Vs) as (_ & _ & _ & _ & F). fold st2 in F.
  destruct (F PC) as (b & B & W). destruct b; [congruence|]. split; auto. split; auto.
  intros th h Hin Ho. destruct (result_holds progs (s1 ++ s2) th s h Hin Ho) as (_ & _ & b & B' & _ & X & _).
  fold st2 in B'. apply X. congruence.
Qed.

(** The same for a completed AppendError / Kill on the context of [s] - issued on any scope or handle
    of that context, the parent of a shared child in particular. *)
Lemma completed_error_fails progs s1 s2 th c es e s :
  let st1 := run cfg_current s1 (init progs) in
  let st2 := run cfg_current (s1 ++ s2) (init progs) in
  In th (ths st1) -> In (c, es) (t_acks th) -> In e es ->
  valids (sh st1) s = true -> s_ctx (gets (sh st1) s) = c -> s_branch (gets (sh st1) s) = None ->
  s_branch (gets (sh st2) s) <> Some true /\
  (s_pc (gets (sh st2) s) = CFinished ->
   s_branch (gets (sh st2) s) = Some false /\ close_word (log (sh st2)) s = full_word false /\
   forall th2 h, In th2 (ths st2) -> In (OClosed s h) (t_out th2) -> h = true).
Proof.
  intros st1 st2 Hin Ha He V Hc B1. apply error_before_decision; auto.
  pose proof (shared_error progs s1 th c es e s Hin Ha He Hc) as X.
  intros E. unfold st1 in E. rewrite E in X. elim X.
Qed.

(** * D. Close does not pass its wait before the children registered before have closed *)
Definition past_wait (p : cpc) : bool :=
  match p with
  | CNone | CFire BC | CErrA BC _ | CErrS BC | CErrT BC | CErr2A BC _ | CErr2S BC | CWait => false
  | _ => true
  end.

Lemma exec_pass_wait cf b i sh sh' p o a sp s :
  exec cf b i sh = XOk sh' p o a sp ->
  past_wait (s_pc (gets sh s)) = false -> past_wait (s_pc (gets sh' s)) = true ->
  i = IRunClose s /\ s_pc (gets sh s) = CWait /\ s_wg (gets sh s) = 0%Z.
Proof.
  intros H P P'. destruct (instr_eq_rc i s) as [->|N1].
  - split; auto. apply exec_runclose in H as [CS _].
    apply close_step_self in CS as (NX & W & _).
    destruct (s_pc (gets sh s)) as [|e|e x|e|e|e x|e| | | | | |] eqn:PC; try destruct e; try discriminate P; simpl in NX;
      repeat match goal with H : _ \/ _ |- _ => destruct H | H : exists _, _ |- _ => destruct H end;
      try (rewrite NX in P'; discriminate P'); try (rewrite H in P'; discriminate P').
    split; auto.
  - destruct (instr_eq_c0 i s) as [->|N0].
    + apply exec_c0 in H as [(_ & -> & _)|(V & PC & -> & _)]; [congruence|].
      unfold set_pc in P'. rewrite gets_upd_scope, V, Nat.eqb_refl in P'. discriminate.
    + destruct (exec_pc_frame _ _ _ _ _ _ _ _ _ s H N0 N1) as [E _]. congruence.
Qed.

Lemma open_child_pos l c s : c < length l -> s_reg (nth c l dscope) = Some s -> 1 <= open_children l s.
Proof.
  intros Hc R. unfold open_children.
  assert (In (nth c l dscope) (filter (reg_on s) l)).
  { apply filter_In. split. apply nth_In; auto. unfold reg_on. rewrite R. apply Nat.eqb_refl. }
  destruct (filter (reg_on s) l); simpl in *; [tauto|lia].
Qed.

Definition childK (s c : nat) (sh : shared) : Prop :=
  (s_reg (gets sh c) = Some s /\ past_wait (s_pc (gets sh s)) = false) \/
  (s_reg (gets sh c) = None /\ closed_pc (s_pc (gets sh c)) = true /\ valids sh c = true).

Lemma exec_childK cf b i sh sh' p o a sp s c :
  wgI sh -> (0 <= s_tasks (gets sh s))%Z ->
  childK s c sh -> exec cf b i sh = XOk sh' p o a sp -> childK s c sh'.
Proof.
  intros W T K H.
  pose proof (exec_sext _ _ _ _ _ _ _ _ _ H) as SE.
  destruct K as [[R P]|(R & C & V)].
  - assert (Vc : valids sh c = true) by (eapply reg_valid; eauto).
    assert (Hc : c < length (scopes sh)) by (apply Nat.ltb_lt; auto).
    destruct (option_eq_dec (s_reg (gets sh' c)) (Some s)) as [E|E].
    + left. split; auto.
      destruct (past_wait (s_pc (gets sh' s))) eqn:P'; auto. exfalso.
      destruct (exec_pass_wait _ _ _ _ _ _ _ _ _ s H P P') as (_ & _ & Z).
      destruct (W c Hc) as [_ LT]. specialize (LT s R).
      destruct (W s) as [EQ _]; [lia|]. unfold gets in *.
      pose proof (open_child_pos (scopes sh) c s Hc R). lia.
    + right. destruct (reg_cleared_by_signoff _ _ _ _ _ _ _ _ _ c s H Hc R E) as [-> PC].
      apply exec_runclose in H as [CS _]. apply close_step_self in CS as (NX & _ & _ & _ & _ & _ & RN).
      rewrite PC in NX. simpl in NX. rewrite NX. split; auto. split; auto. eapply sext_valid; eauto.
  - right. split. eapply sext_reg_none; eauto. split. eapply exec_closed_pc; eauto. eapply sext_valid; eauto.
Qed.

Lemma run_childK s2 : forall st s c,
  wgI (sh st) -> childK s c (sh st) ->
  (forall s3 s4, s2 = s3 ++ s4 -> (0 <= s_tasks (gets (sh (run cfg_current s3 st)) s))%Z) ->
  childK s c (sh (run cfg_current s2 st)).
Proof.
  induction s2 as [|t s2 IH]; intros st s c W K T; simpl; auto.
  pose proof (T [] (t :: s2) eq_refl) as T0. simpl in T0.
  assert (T1 : forall s3 s4, s2 = s3 ++ s4 ->
               (0 <= s_tasks (gets (sh (run cfg_current s3 (step_or_skip cfg_current st t))) s))%Z).
  { intros s3 s4 ->. apply (T (t :: s3) s4). reflexivity. }
  unfold step_or_skip in *. destruct (step cfg_current t st) as [st1|] eqn:E; [|apply IH; auto].
  apply IH; auto.
  - eapply (shared_inv_step cfg_current wgI); eauto. intros; eapply exec_wg; eauto; reflexivity.
  - destruct t as [n b].
    apply step_inv in E as (th & i & rest & todo & _ & _ & [(k & _ & ->)|(sh1 & p & o & a & sp & X & ->)]);
      simpl; auto. eapply exec_childK; eauto.
Qed.

Lemma waits_for_children progs s1 s2 s c :
  let st1 := run cfg_current s1 (init progs) in
  let st2 := run cfg_current (s1 ++ s2) (init progs) in
  s_reg (gets (sh st1) c) = Some s ->
  past_wait (s_pc (gets (sh st1) s)) = false ->
  past_wait (s_pc (gets (sh st2) s)) = true ->
  (forall s3 s4, s2 = s3 ++ s4 ->
     (0 <= s_tasks (gets (sh (run cfg_current (s1 ++ s3) (init progs))) s))%Z) ->
  closed_pc (s_pc (gets (sh st2) c)) = true /\ s_reg (gets (sh st2) c) = None /\
  exists b, s_branch (gets (sh st2) c) = Some b /\ close_word (log (sh st2)) c = full_word b.
Proof.
  intros st1 st2 R P P2 T.
  assert (K : childK s c (sh st2)).
  { unfold st2. rewrite run_app. apply run_childK.
    - apply wg_reach.
    - left. split; auto.
    - intros s3 s4 E. rewrite <- run_app. eapply T; eauto. }
  destruct K as [[_ X]|(R2 & C & V)]; [congruence|]. split; auto. split; auto.
  assert (Vc : c < length (scopes (sh st2))) by (apply Nat.ltb_lt; auto).
  destruct (gram_reach progs (s1 ++ s2)) as [_ G]. fold st2 in G. destruct (G c Vc) as [Wd K].
  fold (gets (sh st2) c) in Wd, K.
  destruct (s_pc (gets (sh st2) c)); try discriminate C; simpl in K, Wd;
    destruct (s_branch (gets (sh st2) c)) as [br|]; try discriminate K; exists br; split; auto.
Qed.

(** * E. The watcher of an isolated context *)
Definition wshape (c r : nat) (cur : list instr) : Prop :=
  (r = 4 /\ cur = [IWatch c]) \/ (r = 3 /\ cur = [IWatchRead c]) \/
  (r = 2 /\ cur = [ICAppend c [Canceled]]) \/ (r = 1 /\ exists es, cur = [ICStop c es]).

(** thread [w] is the watcher of the isolated context [c] on [p], [r] micro-steps from stopping it *)
Definition WS (c p w r : nat) (st : state) : Prop :=
  validc (sh st) c = true /\ c_iso (getc (sh st) c) = Some p /\
  (c_done (getc (sh st) c) = true \/
   exists th, nth_error (ths st) w = Some th /\ t_todo th = [] /\ wshape c r (t_cur th)).

Lemma WS_other cf n b st st' c p w r :
  step cf (n, b) st = Some st' -> n <> w -> WS c p w r st -> WS c p w r st'.
Proof.
  intros H N (V & I & D). pose proof (step_cext _ _ _ _ H) as CE.
  split. eapply cext_valid; eauto. split. rewrite (cext_iso _ _ _ CE V); auto.
  destruct D as [D|(th & Hw & T & S)]. left; eapply cext_done; eauto.
  right. exists th. split; auto.
  apply step_inv in H as (th0 & i & rest & todo & Hn & _ & [(k & _ & ->)|(sh1 & p0 & o & a & sp & _ & ->)]); simpl.
  - rewrite nth_error_upd_neq; auto.
  - rewrite nth_error_app1. rewrite nth_error_upd_neq; auto.
    rewrite upd_length. apply nth_error_Some. congruence.
Qed.

Lemma view_cur sh th x : t_cur th = [x] -> t_todo th = [] -> view sh th = Some (x, [], []).
Proof. unfold view. intros -> ->. reflexivity. Qed.

Lemma WS_self b st st' c p w r :
  step cfg_current (w, b) st = Some st' -> WS c p w r st ->
  c_done (getc (sh st') c) = true \/ exists r', r' < r /\ WS c p w r' st'.
Proof.
  intros H (V & I & D). pose proof (step_cext _ _ _ _ H) as CE.
  destruct D as [D|(th & Hw & T & S)]. left; eapply cext_done; eauto.
  assert (V' : validc (sh st') c = true) by (eapply cext_valid; eauto).
  assert (I' : c_iso (getc (sh st') c) = Some p) by (rewrite (cext_iso _ _ _ CE V); auto).
  apply step_inv in H as (th0 & i & rest & todo & Hn & VW & H).
  assert (th0 = th) by congruence. subst th0.
  assert (L : w < length (ths st)) by (apply nth_error_Some; congruence).
  assert (NEW : forall sh1 cur o a r', r' < r -> wshape c r' cur ->
            st' = {| sh := sh1; ths := upd w (fun _ => {| t_cur := cur ++ []; t_todo := []; t_out := o; t_acks := a |}) (ths st) ++ map spawned [] |} ->
            c_done (getc (sh st') c) = true \/ exists r', r' < r /\ WS c p w r' st').
  { intros sh1 cur o a r' Lr S' E. right. exists r'. split; auto. split; auto. split; auto. right.
    rewrite E. simpl. rewrite app_nil_r. eexists. split. eapply nth_error_upd_eq; eauto.
    simpl. rewrite app_nil_r. auto. }
  destruct S as [(-> & C)|[(-> & C)|[(-> & C)|(-> & es & C)]]]; rewrite (view_cur _ _ _ C T) in VW;
    inversion VW; subst i rest todo; clear VW; simpl in H; rewrite ?I, ?V in H.
  - (* IWatch *)
    destruct (c_done (getc (sh st) p) && (negb (c_done (getc (sh st) c)) || b)) eqn:G.
    + destruct H as [(k & X & _)|(sh1 & p0 & o & a & sp & X & E)]; [discriminate|].
      unfold xpush in X. inv_x. eapply (NEW _ [IWatchRead c] _ _ 3); eauto. unfold wshape; auto.
    + destruct (c_done (getc (sh st) c)) eqn:SD.
      * left. eapply cext_done; eauto.
      * destruct H as [(k & X & _)|(sh1 & p0 & o & a & sp & X & E)]; discriminate.
  - (* IWatchRead *)
    destruct H as [(k & X & _)|(sh1 & p0 & o & a & sp & X & E)].
    + destruct (isnil _); discriminate.
    + destruct (isnil (c_errors (getc (sh st) p))); unfold xpush in X; inv_x.
      * eapply (NEW _ [ICStop c []] _ _ 1); eauto. unfold wshape. right; right; right. eauto.
      * eapply (NEW _ [ICAppend c [Canceled]] _ _ 2); eauto. unfold wshape. auto.
  - (* ICAppend *)
    destruct H as [(k & X & _)|(sh1 & p0 & o & a & sp & X & E)]; [discriminate|].
    unfold xpush in X. inv_x.
    eapply (NEW _ [ICStop c [Canceled]] _ _ 1); eauto. unfold wshape. right; right; right. eauto.
  - (* ICStop *)
    destruct H as [(k & X & _)|(sh1 & p0 & o & a & sp & X & E)]; [discriminate|].
    inv_x. left. simpl. rewrite getc_upd_ctx, Nat.eqb_refl, V. reflexivity.
Qed.

Lemma WS_enabled b st c p w r :
  WS c p w r st -> c_done (getc (sh st) p) = true -> c_done (getc (sh st) c) = false ->
  exists st', step cfg_current (w, b) st = Some st'.
Proof.
  intros (V & I & D) PD SD. destruct D as [D|(th & Hw & T & S)]; [congruence|].
  unfold step. rewrite Hw.
  destruct S as [(-> & C)|[(-> & C)|[(-> & C)|(-> & es & C)]]]; rewrite (view_cur _ _ _ C T);
    simpl; rewrite ?I, ?V, ?PD, ?SD; simpl; eauto.
  destruct (isnil _); simpl; eauto.
Qed.

(** how often thread [w] is scheduled *)
Definition sched_count (w : nat) (sched : list tid) : nat :=
  length (filter (fun t : tid => Nat.eqb (fst t) w) sched).

Lemma wshape_pos c r cur : wshape c r cur -> 1 <= r <= 4.
Proof. unfold wshape. intros [(-> & _)|[(-> & _)|[(-> & _)|(-> & _)]]]; lia. Qed.

Lemma WS_weaken c p w r st : WS c p w r st -> c_done (getc (sh st) c) = false -> 1 <= r <= 4.
Proof.
  intros (_ & _ & [D|(th & _ & _ & S)]) N. congruence. eapply wshape_pos; eauto.
Qed.

Lemma sched_count_cons w n b sched :
  sched_count w ((n, b) :: sched) = (if Nat.eqb n w then 1 else 0) + sched_count w sched.
Proof. unfold sched_count. simpl. destruct (Nat.eqb n w); reflexivity. Qed.

Lemma run_WS c p w sched : forall st r,
  WS c p w r st -> c_done (getc (sh st) p) = true ->
  c_done (getc (sh (run cfg_current sched st)) c) = true \/
  exists r', WS c p w r' (run cfg_current sched st) /\ r' + sched_count w sched <= r.
Proof.
  induction sched as [|t sched IH]; intros st r W PD; simpl.
  { right. exists r. split; auto. unfold sched_count. simpl. lia. }
  destruct t as [n b]. rewrite sched_count_cons.
  unfold step_or_skip.
  destruct (c_done (getc (sh st) c)) eqn:SD.
  { left. eapply cext_done. apply run_cext.
    destruct (step cfg_current (n, b) st) as [st1|] eqn:E; auto. eapply cext_done; eauto. eapply step_cext; eauto. }
  destruct (Nat.eqb_spec n w) as [->|N].
  - destruct (WS_enabled b st c p w r W PD SD) as (st1 & E). rewrite E.
    pose proof (step_cext _ _ _ _ E) as CE.
    destruct (WS_self _ _ _ _ _ _ _ E W) as [D|(r1 & L1 & W1)].
    + left. eapply cext_done. apply run_cext. auto.
    + destruct (IH st1 r1 W1 (cext_done _ _ _ CE PD)) as [D|(r2 & W2 & L2)]; auto.
      right. exists r2. split; auto. lia.
  - destruct (step cfg_current (n, b) st) as [st1|] eqn:E.
    + pose proof (step_cext _ _ _ _ E) as CE.
      destruct (IH st1 r (WS_other _ _ _ _ _ _ _ _ _ E N W) (cext_done _ _ _ CE PD)) as [D|(r2 & W2 & L2)]; eauto.
    + destruct (IH st r W PD) as [D|(r2 & W2 & L2)]; eauto.
Qed.

(** every isolated context has its watcher thread *)
Definition watchI (st : state) : Prop :=
  forall c p, validc (sh st) c = true -> c_iso (getc (sh st) c) = Some p ->
    exists w r, r <= 4 /\ WS c p w r st.

Lemma close_step_ctxlen cf sh s sh' p o a sp :
  close_step cf sh s = XOk sh' p o a sp -> length (ctxs sh') = length (ctxs sh).
Proof.
  unfold close_step, xok, set_pc. intros H.
  destruct (s_pc (gets sh s)); try des_trig; repeat des_if; try inv_x; simpl; rewrite ?upd_length; try congruence.
  destruct (s_reg (gets sh s)); repeat des_if; inv_x; reflexivity.
Qed.

Lemma exec_new_iso cf b i sh sh' p o a sp c q :
  exec cf b i sh = XOk sh' p o a sp ->
  validc sh c = false -> validc sh' c = true -> c_iso (getc sh' c) = Some q ->
  sp = [[IWatch c]].
Proof.
  intros H V V' I. unfold validc in *. apply Nat.ltb_ge in V. apply Nat.ltb_lt in V'.
  assert (SAME : ctxs sh' = ctxs sh -> False) by (intros E; rewrite E in V'; lia).
  assert (NEW : forall x l, ctxs sh' = ctxs sh ++ [x] -> c_iso x = None -> l = [[IWatch c]]).
  { intros x l E Z. exfalso. unfold getc in I. rewrite E in I, V'. rewrite app_length in V'. simpl in V'.
    assert (c = length (ctxs sh)) by lia. subst c. rewrite nth_middle in I. congruence. }
  assert (ISO : forall x, ctxs sh' = ctxs sh ++ [x] -> [[IWatch (length (ctxs sh))]] = [[IWatch c]]).
  { intros x E. rewrite E, app_length in V'. simpl in V'. assert (c = length (ctxs sh)) by lia. subst c. auto. }
  destruct i; unfold exec, xok, xpush, set_pc in H;
    try (match type of H with context [close_step cf sh ?x] =>
           destruct (close_step cf sh x) eqn:CS; try discriminate; inv_x;
           apply close_step_ctxlen in CS; exfalso; lia end);
    try des_trig; repeat des_if; try inv_x; simpl in *;
    try (exfalso; apply SAME; congruence).
  all: try (destruct es; inv_x; simpl in *; exfalso; rewrite ?upd_length in V'; lia).
  all: try (rewrite upd_length in V'; lia).
  all: try (destruct (c_iso (getc sh c0)); repeat des_if; inv_x; exfalso; lia).
  all: try (eapply NEW; eauto; reflexivity).
  all: try (eapply ISO; eauto; fail).
Qed.

Lemma watchI_step t st st' : watchI st -> step cfg_current t st = Some st' -> watchI st'.
Proof.
  intros I H c p V' I'. pose proof (step_cext _ _ _ _ H) as CE. destruct t as [n b].
  destruct (validc (sh st) c) eqn:V.
  - rewrite (cext_iso _ _ _ CE V) in I'. destruct (I c p V I') as (w & r & Lr & W).
    destruct (Nat.eq_dec n w) as [->|N].
    + destruct (WS_self _ _ _ _ _ _ _ H W) as [D|(r' & L' & W')].
      * exists w, r. split; auto. split; auto. split; auto. rewrite (cext_iso _ _ _ CE V); auto.
      * exists w, r'. split; auto. lia.
    + exists w, r. split; auto. eapply WS_other; eauto.
  - pose proof H as H'.
    apply step_inv in H' as (th & i & rest & todo & Hn & _ & [(k & _ & E)|(sh1 & p0 & o & a & sp & X & E)]).
    + rewrite E in V'. simpl in V'. congruence.
    + rewrite E in V', I'. simpl in V', I'.
      pose proof (exec_new_iso _ _ _ _ _ _ _ _ _ c p X V V' I') as ->.
      exists (length (ths st)), 4. split; auto. rewrite E. split; auto. split; auto. right. simpl.
      exists (spawned [IWatch c]). split.
      * rewrite nth_error_app2; rewrite upd_length; auto. rewrite Nat.sub_diag. reflexivity.
      * split; auto. unfold wshape. auto.
Qed.

Lemma watch_reach progs sched : watchI (run cfg_current sched (init progs)).
Proof.
  apply (run_inv cfg_current watchI). intros; eapply watchI_step; eauto.
  intros c p V. unfold validc in V. simpl in V. discriminate.
Qed.

(** An isolated context is stopped with its parent: once the parent's context is done, the watcher
    of [c] can always move, and after it has been scheduled four times [c] is done - under every
    continuation, whatever the other threads do in between. *)
Lemma isolated_stopped progs sched c p :
  let st := run cfg_current sched (init progs) in
  validc (sh st) c = true -> c_iso (getc (sh st) c) = Some p -> c_done (getc (sh st) p) = true ->
  exists w,
    (forall sched1, 4 <= sched_count w sched1 -> c_done (getc (sh (run cfg_current sched1 st)) c) = true) /\
    (forall sched1, let st1 := run cfg_current sched1 st in
       c_done (getc (sh st1) c) = false -> forall b, exists st2, step cfg_current (w, b) st1 = Some st2).
Proof.
  intros st V I PD. destruct (watch_reach progs sched c p V I) as (w & r & Lr & W). fold st in W.
  exists w. split.
  - intros sched1 L4. destruct (run_WS c p w sched1 st r W PD) as [D|(r' & W' & L')]; auto.
    destruct W' as (_ & _ & [D|(th & _ & _ & S)]); auto. apply wshape_pos in S. lia.
  - intros sched1 st1 SD b. destruct (run_WS c p w sched1 st r W PD) as [D|(r' & W' & L')].
    + unfold st1 in SD. congruence.
    + eapply WS_enabled; eauto. eapply cext_done; eauto. apply run_cext.
Qed.

(** * C, continued: the step in which Close returns *)
Lemma errs_set_pc sh s q s' : errs_of (set_pc sh s q) s' = errs_of sh s'.
Proof.
  unfold errs_of, set_pc. rewrite getc_upd_scope, gets_upd_scope. destruct (_ && _); reflexivity.
Qed.

Lemma result_at_return progs s1 t st' th' s h :
  let st := run cfg_current s1 (init progs) in
  step cfg_current t st = Some st' -> returns s st = 0 ->
  In th' (ths st') -> In (OClosed s h) (t_out th') ->
  s_pc (gets (sh st) s) = CRet /\ h = negb (isnil (errs_of (sh st) s)) /\
  errs_of (sh st') s = errs_of (sh st) s /\ s_pc (gets (sh st') s) = CFinished.
Proof.
  intros st H R0 Hin Ho. destruct t as [n b].
  assert (OLD : forall th, In th (ths st) -> ~ In (OClosed s h) (t_out th)).
  { intros th Hth Hx. pose proof (in_returns _ _ _ _ Hth Hx). lia. }
  apply step_inv in H as (th & i & rest & todo & Hn & _ & [(k & _ & ->)|(sh1 & p & o & a & sp & X & ->)]);
    simpl in *.
  - exfalso. apply in_upd in Hin as [Hin|(x & Hx & ->)]; [eapply OLD; eauto|]. simpl in Ho.
    apply in_app_or in Ho as [Ho|[Ho|[]]]; [|discriminate]. apply (OLD th (nth_error_In _ _ Hn) Ho).
  - apply in_app_or in Hin as [Hin|Hin].
    + apply in_upd in Hin as [Hin|(x & Hx & ->)]; [exfalso; eapply OLD; eauto|]. simpl in Ho.
      apply in_app_or in Ho as [Ho|Ho]; [exfalso; apply (OLD th (nth_error_In _ _ Hn) Ho)|].
      destruct (exec_ret_out _ _ _ _ _ _ _ _ _ _ _ X Ho) as (-> & PC & ->).
      split; auto. split; auto.
      apply exec_runclose in X as [CS _]. unfold close_step in CS. rewrite PC in CS. inversion CS; subst.
      rewrite errs_set_pc. split; auto. unfold set_pc. rewrite gets_upd_scope, Nat.eqb_refl.
      rewrite (pc_valid (sh st) s) by (rewrite PC; discriminate). reflexivity.
    + apply in_map_iff in Hin as (cur & <- & _). elim Ho.
Qed.

(** * Helpers for examples; a witness *)
Lemma tasks_prefix_check progs s1 s2 s :
  forallb (fun k => Z.leb 0 (s_tasks (gets (sh (run cfg_current (s1 ++ firstn k s2) (init progs))) s)))
          (seq 0 (S (length s2))) = true ->
  forall s3 s4, s2 = s3 ++ s4 ->
    (0 <= s_tasks (gets (sh (run cfg_current (s1 ++ s3) (init progs))) s))%Z.
Proof.
  intros H s3 s4 ->. rewrite forallb_forall in H. specialize (H (length s3)).
  rewrite firstn_app, firstn_all, Nat.sub_diag, firstn_O, app_nil_r in H.
  apply Z.leb_le, H, in_seq. rewrite app_length. lia.
Qed.

(** The clause 'Close waits for every child' is false as it stands: a child created on a parent whose
    context is already done (here: stopped, no error) is refused by AddTasks, hence not registered,
    and the parent's Close commits and returns while that child has not even started to close.
    ([tree_shape], last clause, says this is the only way for an unclosed child to be unregistered.) *)
Definition t0 : tid := (0, true).
Lemma waits_every_child_refuted : exists progs sched s c,
  let st := run cfg_current sched (init progs) in
  Forall (Forall (fun o => op_nodone o = true)) progs /\
  s_parent (gets (sh st) c) = Some s /\ s_pc (gets (sh st) c) = CNone /\
  s_pc (gets (sh st) s) = CFinished /\ close_word (log (sh st)) s = full_word true /\
  (exists th, In th (ths st) /\ In (OClosed s false) (t_out th)) /\
  c_done (getc (sh st) (s_ctx (gets (sh st) s))) = true /\ errs_of (sh st) s = [].
Proof.
  exists [[ONewRoot; OStop 0; ONewChild 0 false; OClose 0; OClose 1]], (repeat t0 16), 0, 1.
  vm_compute. split. repeat constructor. repeat split; auto.
  eexists. split. left. reflexivity. left. reflexivity.
Qed.
