(** Proofs about the runner model (Model/Runner.v). *)
From Coq Require Import Lia ZifyBool ZifyNat ZifyN.
From GC Require Import Common.Base Model.Runner.
Local Open Scope nat_scope.

(** * Task table lemmas *)

Lemma set_status_name st t : t_name (set_status st t) = t_name t.
Proof. reflexivity. Qed.

Lemma find_task_some n ts t : find_task n ts = Some t -> t_name t = n /\ In t ts.
Proof.
  unfold find_task. intro H. apply find_some in H as [H1 H2]. apply N.eqb_eq in H2. auto.
Qed.

Lemma find_task_none n ts : find_task n ts = None <-> registered n ts = false.
Proof.
  unfold find_task, registered. induction ts as [|x r IH]; simpl; [tauto|].
  destruct (N.eqb (t_name x) n); simpl; [split; discriminate | exact IH].
Qed.

Lemma registered_find n ts : registered n ts = true <-> exists t, find_task n ts = Some t.
Proof.
  destruct (find_task n ts) eqn:E.
  - split; [eauto|]. intros _. destruct (registered n ts) eqn:R; [reflexivity|].
    apply find_task_none in R. congruence.
  - apply find_task_none in E. rewrite E. split; [discriminate | intros [t H]; discriminate].
Qed.

Lemma find_upd_same n st ts t :
  find_task n ts = Some t -> find_task n (upd n st ts) = Some (set_status st t).
Proof.
  unfold find_task, upd. induction ts as [|x r IH]; simpl; [discriminate|].
  destruct (N.eqb (t_name x) n) eqn:E; simpl.
  - intro H; inversion H; subst. simpl. rewrite E. reflexivity.
  - rewrite E. exact IH.
Qed.

Lemma find_upd_other m n st ts : m <> n -> find_task m (upd n st ts) = find_task m ts.
Proof.
  intro Hne. unfold find_task, upd. induction ts as [|x r IH]; simpl; [reflexivity|].
  destruct (N.eqb (t_name x) n) eqn:E; simpl.
  - apply N.eqb_eq in E. destruct (N.eqb (t_name x) m) eqn:E2.
    + apply N.eqb_eq in E2. congruence.
    + exact IH.
  - destruct (N.eqb (t_name x) m); [reflexivity | exact IH].
Qed.

Lemma find_app_some n ts x t : find_task n ts = Some t -> find_task n (ts ++ [x]) = Some t.
Proof.
  unfold find_task. induction ts as [|y r IH]; simpl; [discriminate|].
  destruct (N.eqb (t_name y) n); auto.
Qed.

Lemma find_app_none n ts x :
  find_task n ts = None ->
  find_task n (ts ++ [x]) = if N.eqb (t_name x) n then Some x else None.
Proof.
  unfold find_task. induction ts as [|y r IH]; simpl; [reflexivity|].
  destruct (N.eqb (t_name y) n); [discriminate | exact IH].
Qed.

Lemma registered_upd m n st ts : registered m (upd n st ts) = registered m ts.
Proof.
  unfold registered, upd. induction ts as [|x r IH]; simpl; [reflexivity|].
  rewrite <- IH. destruct (N.eqb (t_name x) n); reflexivity.
Qed.

Lemma registered_app m ts x : registered m (ts ++ [x]) = registered m ts || N.eqb (t_name x) m.
Proof. unfold registered. rewrite existsb_app. simpl. rewrite orb_false_r. reflexivity. Qed.

Lemma names_upd n st ts : map t_name (upd n st ts) = map t_name ts.
Proof.
  unfold upd. rewrite map_map. apply map_ext. intro a. destruct (N.eqb (t_name a) n); reflexivity.
Qed.

Lemma registered_in n ts : registered n ts = true <-> In n (map t_name ts).
Proof.
  unfold registered. rewrite existsb_exists. rewrite in_map_iff. split.
  - intros [t [H1 H2]]. apply N.eqb_eq in H2. eauto.
  - intros [t [H1 H2]]. exists t. split; [assumption|]. apply N.eqb_eq. assumption.
Qed.

Lemma in_find n ts t :
  NoDup (map t_name ts) -> In t ts -> t_name t = n -> find_task n ts = Some t.
Proof.
  unfold find_task. induction ts as [|x r IH]; simpl; [tauto|].
  intros Hnd [Hx | Hin] Hn.
  - subst x. rewrite <- Hn, N.eqb_refl. reflexivity.
  - inversion Hnd as [|? ? Hni Hnd']; subst.
    destruct (N.eqb (t_name x) (t_name t)) eqn:E.
    + apply N.eqb_eq in E. exfalso. apply Hni. rewrite E. apply in_map. assumption.
    + apply IH; auto.
Qed.

(** * Context flags *)

Lemma ctx_failed_fail_same c s : ctx_failed c (fail_ctx c s) = true.
Proof.
  unfold fail_ctx. destruct (ctx_failed c s) eqn:E; [assumption|].
  unfold ctx_failed; simpl. rewrite N.eqb_refl. reflexivity.
Qed.

Lemma ctx_failed_fail_mono c d s : ctx_failed d s = true -> ctx_failed d (fail_ctx c s) = true.
Proof.
  unfold fail_ctx. destruct (ctx_failed c s); [auto|]. unfold ctx_failed; simpl. intros ->. apply orb_true_r.
Qed.

Lemma ctx_failed_fail_inv c d s : ctx_failed d (fail_ctx c s) = true -> d = c \/ ctx_failed d s = true.
Proof.
  unfold fail_ctx. destruct (ctx_failed c s); [auto|]. unfold ctx_failed; simpl.
  destruct (N.eqb d c) eqn:E; [apply N.eqb_eq in E; auto | simpl; auto].
Qed.

Lemma fail_ctx_tasks c s : tasks (fail_ctx c s) = tasks s.
Proof. unfold fail_ctx. destruct (ctx_failed c s); reflexivity. Qed.
Lemma fail_ctx_log c s : log (fail_ctx c s) = log s.
Proof. unfold fail_ctx. destruct (ctx_failed c s); reflexivity. Qed.
Lemma fail_ctx_counter c s : counter (fail_ctx c s) = counter s.
Proof. unfold fail_ctx. destruct (ctx_failed c s); reflexivity. Qed.
Lemma fail_ctx_mroot c s : mroot (fail_ctx c s) = mroot s.
Proof. unfold fail_ctx. destruct (ctx_failed c s); reflexivity. Qed.

(** * The transitions, relationally.  [ch s s'] : the shared effect of one atomic action:
    [n] = acting task (if any) with its old record [t] and new status; events emitted; whether a
    context got an error; an optional appended task. *)

Definition T (s : state) (n : name) (t : task) : Prop := find_task n (tasks s) = Some t.

Definition fmono (s s' : state) : Prop := forall c, ctx_failed c s = true -> ctx_failed c s' = true.

Definition new_task (sb : subm) (c : ctxid) (p : option name) (s : state) : task :=
  {| t_name := s_name sb; t_waits := s_waits sb; t_body := s_body sb; t_ctx := c; t_parent := p;
     t_orphan := ctx_failed c s; t_height := height_of (s_waits sb) (tasks s);
     t_idx := length (tasks s); t_st := Waiting 0 |}.

Lemma create_false_cases sb c p s :
  (create false sb c p s = (emit (ESubmitted (s_name sb) false) s, false))
  \/ (registered (s_name sb) (tasks s) = false
      /\ valid_waits (s_name sb) (s_waits sb) (tasks s) = true
      /\ create false sb c p s =
         (emit (ESubmitted (s_name sb) true)
               (with_counter (S (counter s)) (with_tasks (tasks s ++ [new_task sb c p s]) s)), true)).
Proof.
  unfold create. destruct (registered (s_name sb) (tasks s)) eqn:R; [left; reflexivity|].
  destruct (valid_waits (s_name sb) (s_waits sb) (tasks s)) eqn:V; simpl; [|left; reflexivity].
  destruct (Nat.leb (height_of (s_waits sb) (tasks s)) 100); simpl; [|left; reflexivity].
  destruct (negb (ctx_failed (mroot s) s)); simpl; [|left; reflexivity].
  right. auto.
Qed.

(** One atomic transition of the model with flag [false]. *)
Inductive tr (x : bool) (s : state) : state -> Prop :=
| tr_rej n : tr x s (emit (ESubmitted n false) s)
| tr_acc sb c p :
    registered (s_name sb) (tasks s) = false ->
    valid_waits (s_name sb) (s_waits sb) (tasks s) = true ->
    tr x s (emit (ESubmitted (s_name sb) true)
               (with_counter (S (counter s)) (with_tasks (tasks s ++ [new_task sb c p s]) s)))
| tr_failctx c : x = true -> tr x s (fail_ctx c s)
| tr_pass n t i u tu :
    T s n t -> t_st t = Waiting i -> nth_error (t_waits t) i = Some u ->
    T s u tu -> is_finished (t_st tu) = true -> ctx_failed (t_ctx tu) s = false ->
    tr x s (set_st n (Waiting (S i)) s)
| tr_waitfail n t i :
    T s n t -> t_st t = Waiting i -> i < length (t_waits t) ->
    tr x s (set_st n Closing (fail_ctx (t_ctx t) s))
| tr_bodybegin n t i :
    T s n t -> t_st t = Waiting i -> nth_error (t_waits t) i = None ->
    tr x s (emit (EBodyBegin n (t_waits t)) (set_st n (Running 0 PBefore) s))
| tr_stop n t pc :            (* end of script, or the loop saw the context done *)
    T s n t -> t_st t = Running pc PBefore ->
    tr x s (set_st n Closing s)
| tr_cmdbegin n t pc :
    T s n t -> t_st t = Running pc PBefore -> pc < length (t_body t) ->
    tr x s (emit (ECmdBegin n pc) (set_st n (Running pc PIn) s))
| tr_phase n t pc ph :
    T s n t -> t_st t = Running pc PIn -> ph <> PBefore ->
    tr x s (set_st n (Running pc ph) s)
| tr_cmdend_ok n t pc ph :
    T s n t -> t_st t = Running pc ph -> ph <> PBefore ->
    tr x s (emit (ECmdEnd n pc true) (set_st n (Running (S pc) PBefore) s))
| tr_cmdend_ctx n t pc ph :
    T s n t -> t_st t = Running pc ph -> ph <> PBefore -> ctx_failed (t_ctx t) s = true ->
    tr x s (emit (ECmdEnd n pc false) (set_st n Closing s))
| tr_cmdend_fail n t pc ph :
    T s n t -> t_st t = Running pc ph -> ph <> PBefore ->
    tr x s (emit (ECmdEnd n pc false) (set_st n Closing (fail_ctx (t_ctx t) s)))
| tr_finish n t :
    T s n t -> t_st t = Closing ->
    tr x s (emit (EFinished n (negb (ctx_failed (t_ctx t) s)))
               (with_counter (pred (counter s)) (set_st n (Finished (negb (ctx_failed (t_ctx t) s))) s))).

(** Every step is one transition, or (nested submission) a creation followed by a phase change. *)
Inductive tr2 (x : bool) (s s' : state) : Prop :=
| tr2_one : tr x s s' -> tr2 x s s'
| tr2_two s1 : tr x s s1 -> tr x s1 s' -> tr2 x s s'.

Lemma T_after_create sb c p s n t :
  T s n t -> T (fst (create false sb c p s)) n t.
Proof.
  intro H. destruct (create_false_cases sb c p s) as [E | (R & V & E)]; rewrite E; simpl.
  - exact H.
  - unfold T in *. simpl. apply find_app_some. exact H.
Qed.

Lemma task_step_tr x t s s' :
  T s (t_name t) t -> task_step false t s = Some s' -> tr2 x s s'.
Proof.
  intros HT. unfold task_step. set (n := t_name t) in *.
  destruct (t_st t) as [i | pc ph | | ok |] eqn:Est; try discriminate.
  - destruct (nth_error (t_waits t) i) as [u|] eqn:Enth.
    + destruct (find_task u (tasks s)) as [tu|] eqn:Eu.
      * destruct (is_finished (t_st tu)) eqn:Ef; [|discriminate].
        destruct (ctx_failed (t_ctx tu) s) eqn:Ec; intro H; inversion H; subst; apply tr2_one.
        -- eapply tr_waitfail; eauto. apply nth_error_Some. congruence.
        -- eapply tr_pass; eauto.
      * intro H; inversion H; subst. apply tr2_one. eapply tr_waitfail; eauto. apply nth_error_Some. congruence.
    + intro H; inversion H; subst. apply tr2_one. eapply tr_bodybegin; eauto.
  - destruct ph as [| | c |].
    + destruct (nth_error (t_body t) pc) eqn:Enth; intro H; inversion H; subst; apply tr2_one.
      * eapply tr_cmdbegin; eauto. apply nth_error_Some. congruence.
      * eapply tr_stop; eauto.
    + destruct (nth_error (t_body t) pc) as [[| | nm ws b]|] eqn:Enth; try discriminate.
      * destruct (ctx_failed (t_ctx t) s) eqn:Ec; intro H; inversion H; subst; apply tr2_one.
        -- eapply tr_cmdend_ctx; eauto. discriminate.
        -- eapply tr_cmdend_ok; eauto. discriminate.
      * intro H; inversion H; subst. apply tr2_one. eapply tr_cmdend_fail; eauto. discriminate.
      * destruct (create false {| s_name := nm; s_waits := ws; s_body := b |} (t_ctx t) (Some n) s) as [s1 acc] eqn:Ecr.
        intro H; inversion H; subst.
        assert (HT1 : T s1 n t).
        { replace s1 with (fst (create false {| s_name := nm; s_waits := ws; s_body := b |} (t_ctx t) (Some n) s))
            by (rewrite Ecr; reflexivity). apply T_after_create. exact HT. }
        apply tr2_two with s1.
        -- destruct (create_false_cases {| s_name := nm; s_waits := ws; s_body := b |} (t_ctx t) (Some n) s)
             as [E | (R & V & E)]; rewrite E in Ecr; inversion Ecr; subst.
           ++ apply tr_rej.
           ++ apply tr_acc; assumption.
        -- eapply tr_phase; eauto. destruct acc; discriminate.
    + destruct (find_task c (tasks s)) as [tc|] eqn:Ec'; [|discriminate].
      destruct (is_finished (t_st tc) || t_orphan tc); [|discriminate].
      destruct (ctx_failed (t_ctx t) s) eqn:Ec; intro H; inversion H; subst; apply tr2_one.
      * eapply tr_cmdend_ctx; eauto. discriminate.
      * eapply tr_cmdend_ok; eauto. discriminate.
    + intro H; inversion H; subst. apply tr2_one. eapply tr_cmdend_fail; eauto. discriminate.
  - intro H; inversion H; subst. apply tr2_one. eapply tr_finish; eauto.
Qed.

Lemma step_tr_gen x l s s' :
  match l with LFailCtx _ => x = true | _ => True end ->
  step false l s = Some s' -> tr2 x s s'.
Proof.
  intro Hx. destruct l as [sb c | n | n | c]; simpl.
  - intro H; inversion H; subst. apply tr2_one.
    destruct (create_false_cases sb c None s) as [E | (R & V & E)]; rewrite E; simpl.
    + apply tr_rej.
    + apply tr_acc; assumption.
  - destruct (find_task n (tasks s)) as [t|] eqn:E; [|discriminate].
    intro H. pose proof (find_task_some _ _ _ E) as [Hn _].
    apply (task_step_tr x) in H; [assumption|]. unfold T. rewrite Hn. exact E.
  - destruct (find_task n (tasks s)) as [t|] eqn:E; [|discriminate].
    destruct (t_st t) as [| pc [| | |] | | |] eqn:Est; try discriminate.
    destruct (ctx_failed (t_ctx t) s); [|discriminate].
    intro H; inversion H; subst. apply tr2_one. eapply tr_stop; eauto.
  - intro H; inversion H. apply tr2_one. apply tr_failctx. assumption.
Qed.

Lemma step_tr l s s' : step false l s = Some s' -> tr2 true s s'.
Proof. apply step_tr_gen. destruct l; auto. Qed.

(** Invariants preserved by [tr] hold along every schedule. *)
Lemma run_inv (I : state -> Prop) :
  (forall s s', I s -> tr true s s' -> I s') ->
  forall sched s, I s -> I (run false sched s).
Proof.
  intros Hpres sched. induction sched as [|l r IH]; intros s Hs; simpl; [assumption|].
  apply IH. unfold step_skip. destruct (step false l s) as [s'|] eqn:E; [|assumption].
  apply step_tr in E. destruct E as [E | s1 E1 E2]; eauto.
Qed.

(** * The main safety invariant *)

Definition ev_name (e : event) : name :=
  match e with ESubmitted n _ | EBodyBegin n _ | ECmdBegin n _ | ECmdEnd n _ _ | EFinished n _ => n end.
Definition is_sub (e : event) : bool := match e with ESubmitted _ _ => true | _ => false end.
Definition ev_cmd_of (n : name) (e : event) : Prop :=
  match e with ECmdBegin m _ | ECmdEnd m _ _ => m = n | _ => False end.

Definition NoCmd (n : name) (lg : list event) : Prop := forall e, In e lg -> ~ ev_cmd_of n e.
Definition CmdProg (n : name) (pc : nat) (before : bool) (lg : list event) : Prop :=
  (forall i, In (ECmdBegin n i) lg -> if before then i < pc else i <= pc) /\
  (forall i, i < pc -> In (ECmdBegin n i) lg /\ In (ECmdEnd n i true) lg) /\
  (forall i, ~ In (ECmdEnd n i false) lg) /\
  (before = false -> In (ECmdBegin n pc) lg).
Definition is_before (ph : phase) : bool := match ph with PBefore => true | _ => false end.

Definition task_inv (s : state) (n : name) (t : task) : Prop :=
  t_name t = n /\
  match t_st t with
  | Waiting i => (forall u, In u (firstn i (t_waits t)) -> In (EFinished u true) (log s)) /\ NoCmd n (log s)
  | Running pc ph => In (EBodyBegin n (t_waits t)) (log s) /\ CmdProg n pc (is_before ph) (log s)
  | Closing => (ctx_failed (t_ctx t) s = true \/ In (EBodyBegin n (t_waits t)) (log s))
               /\ (In (EBodyBegin n (t_waits t)) (log s) \/ NoCmd n (log s))
  | Finished ok => In (EFinished n ok) (log s) /\ (ok = false -> ctx_failed (t_ctx t) s = true)
                   /\ (ok = true -> In (EBodyBegin n (t_waits t)) (log s))
                   /\ (In (EBodyBegin n (t_waits t)) (log s) \/ NoCmd n (log s))
  | Zombie => False
  end.

(** [BodyBegin n] is preceded by [Finished u true] for every [u] of the wait list. *)
Definition Pbb (e : event) (b : list event) : Prop :=
  forall n ws, e = EBodyBegin n ws -> forall u, In u ws -> In (EFinished u true) b.
(** When command [j] of [n] begins, exactly the commands [0..j-1] of [n] began before, each of
    them ended successfully, and no command of [n] ended with an error. *)
Definition Pseq (e : event) (b : list event) : Prop :=
  forall n j, e = ECmdBegin n j ->
    (forall i, i < j -> In (ECmdBegin n i) b /\ In (ECmdEnd n i true) b) /\
    (forall i, In (ECmdBegin n i) b -> i < j) /\
    (forall i, ~ In (ECmdEnd n i false) b).

Record Inv (s : state) : Prop := {
  inv_tasks : forall n t, T s n t -> task_inv s n t;
  inv_evreg : forall e, In e (log s) -> is_sub e = false -> registered (ev_name e) (tasks s) = true;
  inv_fin : forall u ok, In (EFinished u ok) (log s) -> exists tu, T s u tu /\ t_st tu = Finished ok;
  inv_hbb : hist Pbb (log s);
  inv_hseq : hist Pseq (log s) }.

Lemma task_inv_frame s s' n t :
  task_inv s n t -> fmono s s' ->
  (forall x, In x (log s) -> In x (log s')) ->
  (forall x, In x (log s') -> In x (log s) \/ ~ ev_cmd_of n x) ->
  task_inv s' n t.
Proof.
  intros [Hn H] Hf Hincl Hnew. split; [assumption|].
  destruct (t_st t) as [i | pc ph | | ok |]; auto.
  - destruct H as [H1 H2]. split; [auto|]. intros e He. destruct (Hnew e He); auto.
  - destruct H as [H1 (H2 & H3 & H4 & H5)]. split; [auto|]. split; [|split; [|split]].
    + intros i Hi. destruct (Hnew _ Hi) as [Ho | Hc]; [apply H2; assumption | exfalso; apply Hc; reflexivity].
    + intros i Hi. destruct (H3 i Hi). auto.
    + intros i Hi. destruct (Hnew _ Hi) as [Ho | Hc]; [eapply H4; eauto | apply Hc; reflexivity].
    + auto.
  - assert (HN : NoCmd n (log s) -> NoCmd n (log s')).
    { intros H2 e He. destruct (Hnew e He); auto. }
    destruct H as [[H|H] [H'|H']]; auto.
  - assert (HN : NoCmd n (log s) -> NoCmd n (log s')).
    { intros H2 e He. destruct (Hnew e He); auto. }
    destruct H as (H1 & H2 & H3 & [H4|H4]); auto 6.
Qed.

Lemma hist_cons P e l : hist P (e :: l) <-> P e l /\ hist P l.
Proof. reflexivity. Qed.

Lemma T_set_st s n st m t' :
  T (set_st n st s) m t' ->
  (m = n /\ exists t, T s n t /\ t' = set_status st t) \/ (m <> n /\ T s m t').
Proof.
  unfold T, set_st; simpl. intro H. destruct (N.eq_dec m n) as [->|Hne].
  - left. split; [reflexivity|]. destruct (find_task n (tasks s)) as [t|] eqn:E.
    + exists t. split; [reflexivity|]. rewrite (find_upd_same _ _ _ _ E) in H. congruence.
    + exfalso. apply find_task_none in E. assert (R : registered n (upd n st (tasks s)) = true).
      { apply registered_find. eauto. }
      rewrite registered_upd in R. congruence.
  - right. split; [assumption|]. rewrite find_upd_other in H; assumption.
Qed.

(** Generic preservation for an action of task [n]. *)
Lemma act_inv s s' n t st' evs :
  Inv s -> T s n t -> is_finished (t_st t) = false ->
  tasks s' = upd n st' (tasks s) -> log s' = evs ++ log s -> fmono s s' ->
  (forall e, In e evs -> ev_name e = n /\ is_sub e = false) ->
  task_inv s' n (set_status st' t) ->
  (forall ok, In (EFinished n ok) evs -> st' = Finished ok) ->
  (forall ok, st' = Finished ok -> In (EFinished n ok) evs) ->
  hist Pbb (evs ++ log s) -> hist Pseq (evs ++ log s) ->
  Inv s'.
Proof.
  intros HI HT Hnf Htasks Hlog Hf Hevs Hnew Hfin1 Hfin2 Hbb Hseq.
  assert (Hreg : registered n (tasks s) = true) by (apply registered_find; eauto).
  split.
  - intros m t' HT'. unfold T in HT'. rewrite Htasks in HT'.
    destruct (N.eq_dec m n) as [->|Hne].
    + rewrite (find_upd_same _ _ _ _ HT) in HT'. inversion HT'; subst. exact Hnew.
    + rewrite find_upd_other in HT' by assumption.
      eapply task_inv_frame; [apply (inv_tasks _ HI); exact HT' | assumption | |].
      * intros x Hx. rewrite Hlog. apply in_or_app. auto.
      * intros x Hx. rewrite Hlog in Hx. apply in_app_or in Hx as [Hx|Hx]; [|auto].
        right. destruct (Hevs _ Hx) as [Hname _]. destruct x; simpl in *; try tauto; congruence.
  - intros e He Hs. rewrite Htasks, registered_upd. rewrite Hlog in He.
    apply in_app_or in He as [He|He].
    + destruct (Hevs _ He) as [-> _]. assumption.
    + apply (inv_evreg _ HI); assumption.
  - intros u ok Hu. rewrite Hlog in Hu. apply in_app_or in Hu as [Hu|Hu].
    + destruct (Hevs _ Hu) as [Hname _]. simpl in Hname. subst u.
      exists (set_status st' t). split.
      * unfold T. rewrite Htasks. apply find_upd_same. assumption.
      * simpl. apply Hfin1. assumption.
    + destruct (inv_fin _ HI _ _ Hu) as [tu [HTu Hst]].
      assert (u <> n). { intro; subst u. unfold T in *. rewrite HT in HTu. inversion HTu; subst. rewrite Hst in Hnf. discriminate. }
      exists tu. split; [|assumption]. unfold T. rewrite Htasks, find_upd_other; assumption.
  - rewrite Hlog. assumption.
  - rewrite Hlog. assumption.
Qed.

(** No event of an unregistered name (other than submission results) is in the log. *)
Lemma unreg_nocmd s n : Inv s -> registered n (tasks s) = false -> NoCmd n (log s).
Proof.
  intros HI R e He Hc. assert (is_sub e = false) by (destruct e; simpl in *; tauto || reflexivity).
  pose proof (inv_evreg _ HI _ He H) as R'. destruct e; simpl in *; try tauto; subst; congruence.
Qed.

Lemma fmono_refl s s' : failed s' = failed s -> fmono s s'.
Proof. intros E c H. unfold ctx_failed in *. rewrite E. exact H. Qed.
Lemma fmono_fail c s : fmono s (fail_ctx c s).
Proof. intros d H. apply ctx_failed_fail_mono. exact H. Qed.

Lemma firstn_S_nth {A} (l : list A) i u x :
  nth_error l i = Some u -> In x (firstn (S i) l) -> In x (firstn i l) \/ x = u.
Proof.
  revert i. induction l as [|a r IH]; intros [|i]; simpl; try discriminate.
  - intros H; inversion H; subst. intros [H1|[]]; auto.
  - intros H [H1|H1]; [auto|]. destruct (IH _ H H1); auto.
Qed.

Lemma firstn_all_nth {A} (l : list A) i : nth_error l i = None -> firstn i l = l.
Proof. intro H. apply firstn_all2. apply nth_error_None. assumption. Qed.

Ltac inv_simpl := simpl; rewrite ?fail_ctx_tasks, ?fail_ctx_log; try reflexivity.

Lemma cf_emit e s c : ctx_failed c (emit e s) = ctx_failed c s. Proof. reflexivity. Qed.
Lemma cf_set_st n st s c : ctx_failed c (set_st n st s) = ctx_failed c s. Proof. reflexivity. Qed.
Lemma cf_with_counter k s c : ctx_failed c (with_counter k s) = ctx_failed c s. Proof. reflexivity. Qed.
Lemma cf_with_tasks k s c : ctx_failed c (with_tasks k s) = ctx_failed c s. Proof. reflexivity. Qed.

Lemma no_new_tasks_inv s s' :
  Inv s -> tasks s' = tasks s -> fmono s s' ->
  (log s' = log s \/ exists n a, log s' = ESubmitted n a :: log s) -> Inv s'.
Proof.
  intros HI Ht Hf Hl.
  assert (Hincl : forall x, In x (log s) -> In x (log s')).
  { destruct Hl as [->|(n & a & ->)]; simpl; auto. }
  assert (Hnew : forall x, In x (log s') -> In x (log s) \/ is_sub x = true).
  { destruct Hl as [->|(n & a & ->)]; simpl; auto. intros x [<-|H]; auto. }
  split.
  - intros m t HT. unfold T in HT. rewrite Ht in HT.
    eapply task_inv_frame; [apply (inv_tasks _ HI); exact HT | assumption | assumption |].
    intros x Hx. destruct (Hnew x Hx) as [H|H]; [auto|]. right. destruct x; simpl in *; try discriminate; tauto.
  - intros e He Hs. rewrite Ht. destruct (Hnew e He) as [H|H]; [|congruence]. apply (inv_evreg _ HI); assumption.
  - intros u ok Hu. destruct (Hnew _ Hu) as [H|H]; [|discriminate].
    destruct (inv_fin _ HI _ _ H) as [tu [H1 H2]]. exists tu. split; [|assumption]. unfold T. rewrite Ht. exact H1.
  - destruct Hl as [->|(n & a & ->)]; [apply (inv_hbb _ HI)|]. split; [|apply (inv_hbb _ HI)].
    intros ? ? E; discriminate.
  - destruct Hl as [->|(n & a & ->)]; [apply (inv_hseq _ HI)|]. split; [|apply (inv_hseq _ HI)].
    intros ? ? E; discriminate.
Qed.

Lemma tr_inv ext s s' : Inv s -> tr ext s s' -> Inv s'.
Proof.
  intros HI Htr. destruct Htr.
  - (* rejected *) apply (no_new_tasks_inv s); [assumption | reflexivity | apply fmono_refl; reflexivity | right; simpl; eauto].
  - (* accepted *)
    set (nt := new_task sb c p s). set (e := ESubmitted (s_name sb) true).
    assert (Hnone : find_task (s_name sb) (tasks s) = None) by (apply find_task_none; assumption).
    split; simpl.
    + intros m t HT. unfold T in HT; simpl in HT.
      destruct (find_task m (tasks s)) as [t0|] eqn:E0.
      * rewrite (find_app_some _ _ _ _ E0) in HT. inversion HT; subst t0.
        eapply task_inv_frame; [apply (inv_tasks _ HI); exact E0 | apply fmono_refl; reflexivity | simpl; auto |].
        simpl. intros x [<-|Hx]; [right; simpl; tauto | auto].
      * rewrite (find_app_none _ _ _ E0) in HT. fold nt in HT.
        destruct (N.eqb (t_name nt) m) eqn:Em; [|discriminate]. inversion HT; subst t.
        apply N.eqb_eq in Em. split; [assumption|]. simpl. split; [intros u []|].
        intros x [<-|Hx]; [simpl; tauto|]. subst m. simpl in *.
        apply (unreg_nocmd s (s_name sb) HI); assumption.
    + intros x [<-|Hx] Hs; [discriminate|]. rewrite registered_app.
      rewrite (inv_evreg _ HI _ Hx Hs). reflexivity.
    + intros u ok [Hu|Hu]; [discriminate|].
      destruct (inv_fin _ HI _ _ Hu) as [tu [H1 H2]]. exists tu. split; [|assumption].
      unfold T; simpl. apply find_app_some. exact H1.
    + split; [intros ? ? E; discriminate | apply (inv_hbb _ HI)].
    + split; [intros ? ? E; discriminate | apply (inv_hseq _ HI)].
  - (* fail ctx *) apply (no_new_tasks_inv s); [assumption | apply fail_ctx_tasks | apply fmono_fail | left; apply fail_ctx_log].
  - (* pass *)
    pose proof (inv_tasks _ HI _ _ H) as [Hn Hti]. rewrite H0 in Hti. destruct Hti as [Hw Hnc].
    pose proof (inv_tasks _ HI _ _ H2) as [Hnu Htu].
    eapply (act_inv s _ n t (Waiting (S i)) []); eauto; try reflexivity.
    + rewrite H0; reflexivity.
    + apply fmono_refl; reflexivity.
    + intros e [].
    + split; [assumption|]. simpl. split; [|assumption].
      intros x Hx. destruct (firstn_S_nth _ _ _ _ H1 Hx) as [Hx' | ->]; [auto|].
      destruct (t_st tu) as [| | | ok |]; try discriminate.
      destruct Htu as (Hf1 & Hf2 & _). destruct ok; [assumption|].
      rewrite Hf2 in H4 by reflexivity. discriminate.
    + intros ok [].
    + discriminate.
    + apply (inv_hbb _ HI).
    + apply (inv_hseq _ HI).
  - (* wait failed *)
    pose proof (inv_tasks _ HI _ _ H) as [Hn Hti].
    eapply (act_inv s _ n t Closing []); eauto; try (inv_simpl; fail).
    + rewrite H0; reflexivity.
    + intros d Hd. rewrite cf_set_st. apply ctx_failed_fail_mono. assumption.
    + intros e [].
    + split; [assumption|]. simpl. split; [left; rewrite cf_set_st; apply ctx_failed_fail_same|].
      right. rewrite fail_ctx_log. rewrite H0 in Hti. apply Hti.
    + intros ok [].
    + discriminate.
    + apply (inv_hbb _ HI).
    + apply (inv_hseq _ HI).
  - (* body begin *)
    rename i into i0.
    pose proof (inv_tasks _ HI _ _ H) as [Hn Hti]. rewrite H0 in Hti. destruct Hti as [Hw Hnc].
    rewrite (firstn_all_nth _ _ H1) in Hw.
    eapply (act_inv s _ n t (Running 0 PBefore) [EBodyBegin n (t_waits t)]); eauto; try reflexivity.
    + rewrite H0; reflexivity.
    + apply fmono_refl; reflexivity.
    + intros e [<-|[]]. split; reflexivity.
    + split; [assumption|]. simpl. split; [auto|]. split; [|split; [|split]].
      * intros i [Hi|Hi]; [discriminate|]. exfalso. eapply Hnc; [exact Hi | reflexivity].
      * intros i Hi. lia.
      * intros i [Hi|Hi]; [discriminate|]. eapply Hnc; [exact Hi | reflexivity].
      * discriminate.
    + intros ok [Hx|[]]. discriminate.
    + discriminate.
    + simpl. split; [|apply (inv_hbb _ HI)]. intros n' ws E u Hu. inversion E; subst. auto.
    + simpl. split; [|apply (inv_hseq _ HI)]. intros ? ? E; discriminate.
  - (* stop *)
    pose proof (inv_tasks _ HI _ _ H) as [Hn Hti]. rewrite H0 in Hti. destruct Hti as [Hbb Hcp].
    eapply (act_inv s _ n t Closing []); eauto; try reflexivity.
    + rewrite H0; reflexivity.
    + apply fmono_refl; reflexivity.
    + intros e [].
    + split; [assumption|]. simpl. split; left + right; assumption.
    + intros ok [].
    + discriminate.
    + apply (inv_hbb _ HI).
    + apply (inv_hseq _ HI).
  - (* command begin *)
    pose proof (inv_tasks _ HI _ _ H) as [Hn Hti]. rewrite H0 in Hti. destruct Hti as [Hbb (C1 & C2 & C3 & C4)].
    simpl in C1.
    eapply (act_inv s _ n t (Running pc PIn) [ECmdBegin n pc]); eauto; try reflexivity.
    + rewrite H0; reflexivity.
    + apply fmono_refl; reflexivity.
    + intros e [<-|[]]. split; reflexivity.
    + split; [assumption|]. simpl. split; [auto|]. split; [|split; [|split]].
      * intros i [Hi|Hi]; [inversion Hi; lia|]. apply C1 in Hi. lia.
      * intros i Hi. destruct (C2 i Hi). split; right; assumption.
      * intros i [Hi|Hi]; [discriminate|]. eapply C3; eauto.
      * intros _. left. reflexivity.
    + intros ok [Hx|[]]. discriminate.
    + discriminate.
    + simpl. split; [|apply (inv_hbb _ HI)]. intros ? ? E; discriminate.
    + simpl. split; [|apply (inv_hseq _ HI)]. intros n' j E. inversion E; subst. auto.
  - (* phase *)
    pose proof (inv_tasks _ HI _ _ H) as [Hn Hti]. rewrite H0 in Hti. destruct Hti as [Hbb Hcp].
    eapply (act_inv s _ n t (Running pc ph) []); eauto; try reflexivity.
    + rewrite H0; reflexivity.
    + apply fmono_refl; reflexivity.
    + intros e [].
    + split; [assumption|]. simpl. split; [assumption|]. destruct ph; [congruence|assumption..].
    + intros ok [].
    + discriminate.
    + apply (inv_hbb _ HI).
    + apply (inv_hseq _ HI).
  - (* command end ok *)
    pose proof (inv_tasks _ HI _ _ H) as [Hn Hti]. rewrite H0 in Hti. destruct Hti as [Hbb (C1 & C2 & C3 & C4)].
    assert (Hb : is_before ph = false) by (destruct ph; [congruence|reflexivity..]). rewrite Hb in *.
    eapply (act_inv s _ n t (Running (S pc) PBefore) [ECmdEnd n pc true]); eauto; try reflexivity.
    + rewrite H0; reflexivity.
    + apply fmono_refl; reflexivity.
    + intros e [<-|[]]. split; reflexivity.
    + split; [assumption|]. simpl. split; [auto|]. split; [|split; [|split]].
      * intros i [Hi|Hi]; [discriminate|]. apply C1 in Hi. lia.
      * intros i Hi. destruct (Nat.eq_dec i pc) as [->|Hne].
        -- split; [right; apply C4; reflexivity | left; reflexivity].
        -- destruct (C2 i) as [X Y]; [lia|]. split; right; assumption.
      * intros i [Hi|Hi]; [discriminate|]. eapply C3; eauto.
      * discriminate.
    + intros ok [Hx|[]]. discriminate.
    + discriminate.
    + simpl. split; [|apply (inv_hbb _ HI)]. intros ? ? E; discriminate.
    + simpl. split; [|apply (inv_hseq _ HI)]. intros ? ? E; discriminate.
  - (* command end: context done *)
    pose proof (inv_tasks _ HI _ _ H) as [Hn Hti]. rewrite H0 in Hti. destruct Hti as [Hbb Hcp].
    eapply (act_inv s _ n t Closing [ECmdEnd n pc false]); eauto; try reflexivity.
    + rewrite H0; reflexivity.
    + apply fmono_refl; reflexivity.
    + intros e [<-|[]]. split; reflexivity.
    + split; [assumption|]. simpl. split; [right|left]; right; assumption.
    + intros ok [Hx|[]]. discriminate.
    + discriminate.
    + simpl. split; [|apply (inv_hbb _ HI)]. intros ? ? E; discriminate.
    + simpl. split; [|apply (inv_hseq _ HI)]. intros ? ? E; discriminate.
  - (* command end: failure *)
    pose proof (inv_tasks _ HI _ _ H) as [Hn Hti]. rewrite H0 in Hti. destruct Hti as [Hbb Hcp].
    eapply (act_inv s _ n t Closing [ECmdEnd n pc false]); eauto; try (inv_simpl; fail).
    + rewrite H0; reflexivity.
    + intros d Hd. rewrite cf_emit, cf_set_st. apply ctx_failed_fail_mono. assumption.
    + intros e [<-|[]]. split; reflexivity.
    + split; [assumption|]. simpl. rewrite fail_ctx_log. split; [right|left]; right; assumption.
    + intros ok [Hx|[]]. discriminate.
    + discriminate.
    + simpl. split; [|apply (inv_hbb _ HI)]. intros ? ? E; discriminate.
    + simpl. split; [|apply (inv_hseq _ HI)]. intros ? ? E; discriminate.
  - (* finish *)
    pose proof (inv_tasks _ HI _ _ H) as [Hn Hti]. rewrite H0 in Hti.
    set (ok := negb (ctx_failed (t_ctx t) s)).
    eapply (act_inv s _ n t (Finished ok) [EFinished n ok]); eauto; try reflexivity.
    + rewrite H0; reflexivity.
    + apply fmono_refl; reflexivity.
    + intros e [<-|[]]. split; reflexivity.
    + split; [assumption|]. simpl. destruct Hti as [Hti Hbn]. split; [auto|]. split; [|split].
      * unfold ok. intro E. rewrite cf_emit, cf_with_counter, cf_set_st.
        destruct (ctx_failed (t_ctx t) s); [reflexivity|discriminate].
      * unfold ok. intro E. destruct Hti as [Hc|Hb]; [|auto]. rewrite Hc in E. discriminate.
      * destruct Hbn as [Hb|Hb]; [auto|]. right. intros e [<-|He]; [simpl; tauto | auto].
    + intros ok' [Hx|[]]. inversion Hx; reflexivity.
    + intros ok' E. inversion E; subst. left; reflexivity.
    + simpl. split; [|apply (inv_hbb _ HI)]. intros ? ? E; discriminate.
    + simpl. split; [|apply (inv_hseq _ HI)]. intros ? ? E; discriminate.
Qed.

Lemma Inv_init root : Inv (init root).
Proof.
  split; simpl; try tauto; intros; try discriminate; try contradiction.
Qed.

Lemma Inv_run root sched : Inv (run false sched (init root)).
Proof. apply run_inv; [apply tr_inv | apply Inv_init]. Qed.

