(** C07 at full strength: the cache model (Model/Cache.v, Model/ViewsCache.v) SIMULATES the
    plain-tree reference of Model/CacheRef.v.  Every one of the 16 operations with any raw
    arguments, Commit and a failed Commit, issued on the cache or through a child view of it, in
    any reachable state, returns what the reference returns on the tree [cview c] (the remote
    with the pending operations applied) and leaves a cache whose view is the tree the reference
    leaves; hence every history is a run of the reference from the initial remote tree.
    Listings are compared as multisets (the order of a listing is the creation order of the
    underlying association lists, which a plain tree does not have).  Also here: a listing
    succeeds exactly on the visible directories; reads through a child view are the tree's
    answers at the prefixed path; what a copy reads as its source is the view. *)
From Coq Require Import Permutation.
From GC Require Import Common.Base Model.Paths Model.Fs Model.Views Model.Cache Model.ViewsCache
  Model.CacheRef Proofs.Paths Proofs.Fs Proofs.Clean Proofs.Views Proofs.Cache Proofs.CacheFrame.

(** * The simulation relation: the tree [t] is what is seen through the cache [c] *)
Record Sim (c : cache) (t : fs) : Prop := mkSim {
  sim_I : Inv c;
  sim_W : WF t;
  sim_L : forall q, lookup t q = vlookup c q
}.

Lemma Sim_cview c : Inv c -> Sim c (cview c).
Proof. intros I. constructor; [exact I|apply cview_WF; exact I|apply lookup_cview]. Qed.

(** Two answers are the same up to the order of a listing. *)
Definition out_sim (a b : out) : Prop :=
  match a, b with
  | RList l, RList l' => Permutation l l'
  | _, _ => a = b
  end.

Lemma out_sim_refl a : out_sim a a.
Proof. destruct a; simpl; try reflexivity. Qed.

Lemma out_sim_eq a b : a = b -> out_sim a b.
Proof. intros ->. apply out_sim_refl. Qed.

(** * Prefix closure, both sides *)
Lemma tree_prefix_closed t a q :
  WF t -> is_dir_at t a = true -> is_prefix q a = true -> lookup t q = Some D.
Proof.
  intros W Hd Hp. apply is_prefix_spec in Hp as [x Hx]. subst a. destruct x as [|n x].
  - rewrite app_nil_r in Hd. unfold is_dir_at in Hd. destruct (lookup t q) as [[|]|]; try discriminate. reflexivity.
  - pose proof (WF_prefix_dir t W (n :: x) q ltac:(discriminate)) as H. unfold exists_at, is_dir_at in *.
    destruct (lookup t (q ++ n :: x)) as [[|]|]; try discriminate. specialize (H eq_refl).
    destruct (lookup t q) as [[|]|]; try discriminate. reflexivity.
Qed.

Lemma view_prefix_closed c a q :
  Inv c -> vlookup c a = Some D -> is_prefix q a = true -> vlookup c q = Some D.
Proof.
  intros I Hd Hp. apply is_prefix_spec in Hp as [x Hx]. subst a. destruct x as [|n x].
  - rewrite app_nil_r in Hd. exact Hd.
  - apply (view_prefix_dir c q (n :: x) I); [discriminate|congruence].
Qed.

(** A tree that grew by one node [p] (and directories down to [a]) is determined. *)
Lemma grown_determined (f g f' g' : path -> option entry) (p a : path) (e : entry) :
  (forall q, f' q = f q) ->
  g p = Some e -> g' p = Some e ->
  (forall q, q <> p -> f q <> None -> g q = f q) ->
  (forall q, q <> p -> f' q <> None -> g' q = f' q) ->
  (forall q, q <> p -> f q = None -> g q <> None -> g q = Some D /\ is_prefix q a = true) ->
  (forall q, q <> p -> f' q = None -> g' q <> None -> g' q = Some D /\ is_prefix q a = true) ->
  (forall q, is_prefix q a = true -> g q = Some D) ->
  (forall q, is_prefix q a = true -> g' q = Some D) ->
  forall q, g' q = g q.
Proof.
  intros Hf Gp Gp' Fr Fr' Nw Nw' Cl Cl' q.
  destruct (path_eqb q p) eqn:Eqp.
  - apply path_eqb_spec in Eqp. subst q. congruence.
  - apply path_eqb_false in Eqp. destruct (f q) as [e0|] eqn:Ef.
    + rewrite (Fr q Eqp) by congruence. rewrite (Fr' q Eqp) by (rewrite Hf; congruence). rewrite Hf. reflexivity.
    + destruct (is_prefix q a) eqn:Ea.
      * rewrite (Cl q Ea), (Cl' q Ea). reflexivity.
      * assert (A : g q = None).
        { destruct (g q) eqn:Eg; [|reflexivity]. destruct (Nw q Eqp Ef) as [_ B]; congruence. }
        assert (A' : g' q = None).
        { destruct (g' q) eqn:Eg; [|reflexivity]. assert (Ef' : f' q = None) by (rewrite Hf; exact Ef). destruct (Nw' q Eqp Ef') as [_ B]; congruence. }
        congruence.
Qed.

(** * What [proper_prefixes] contains *)
Lemma In_proper_prefixes_inv p a : In a (proper_prefixes p) ->
  a <> [] /\ exists x, x <> [] /\ p = a ++ x.
Proof.
  intros H. destruct p as [|n p] using rev_ind; [contradiction|]. clear IHp.
  rewrite proper_prefixes_snoc in H. unfold prefixes in H.
  destruct (prefixes_from_In _ _ _ H) as (a0 & b & Hp & Ha & Hq). simpl in Hq. subst a p.
  split; [exact Ha|]. exists (b ++ [n]). split; [destruct b; discriminate|]. rewrite app_assoc. reflexivity.
Qed.

Lemma proper_prefix_of_parent a x : x <> [] -> is_prefix a (removelast (a ++ x)) = true.
Proof.
  intros Hx. destruct x as [|n x] using rev_ind; [congruence|]. clear IHx.
  rewrite app_assoc, removelast_last. apply is_prefix_app.
Qed.

Lemma check_dest_nofile c p wd :
  check_dest c p wd = true ->
  forall a, a <> [] -> is_prefix a (removelast p) = true -> p <> [] -> v_file c a = false.
Proof.
  intros H a Ha Hp Hne. destruct (check_dest_spec _ _ _ H) as [Hanc _].
  apply is_prefix_spec in Hp as [s Hs].
  apply (Hanc a (s ++ [last p []]) Ha); [destruct s; discriminate|].
  rewrite app_assoc, <- Hs. apply app_removelast_last. exact Hne.
Qed.

(** [check_dest] from the absence of files on the way. *)
Lemma check_dest_intro (c : cache) (p : path) (wd : bool) :
  (forall a, a <> [] -> forall x, x <> [] -> p = a ++ x -> v_file c a = false) ->
  (if wd then v_file c p = false else v_dir c p = false) ->
  check_dest c p wd = true.
Proof.
  intros Hanc Hk. unfold check_dest. apply andb_true_iff. split.
  - apply negb_true_iff. destruct (existsb (v_file c) (proper_prefixes p)) eqn:E; [|reflexivity].
    apply existsb_exists in E as (a & Hin & Hf).
    destruct (In_proper_prefixes_inv p a Hin) as (Ha & x & Hx & Hp).
    rewrite (Hanc a Ha x Hx Hp) in Hf. discriminate.
  - destruct wd; rewrite Hk; reflexivity.
Qed.

Lemma sim_file c t a : Sim c t -> is_file_at t a = v_file c a.
Proof. intros S. unfold is_file_at, v_file. rewrite (sim_L c t S). reflexivity. Qed.
Lemma sim_dir c t a : Sim c t -> is_dir_at t a = v_dir c a.
Proof. intros S. unfold is_dir_at, v_dir. rewrite (sim_L c t S). reflexivity. Qed.
Lemma sim_exists c t a : Sim c t -> exists_at t a = v_exists c a.
Proof. intros S. unfold exists_at, v_exists. rewrite (sim_L c t S). reflexivity. Qed.

(** * MkdirAll *)
Lemma sim_mkdir c t p : Sim c t -> good_path p = true ->
  snd (c_mkdir c p) = snd (ref_mkdir t p) /\ Sim (fst (c_mkdir c p)) (fst (ref_mkdir t p)).
Proof.
  intros S Hg. pose proof (sim_I c t S) as I. pose proof (sim_W c t S) as W.
  destruct p as [|n p]; [split; [reflexivity|exact S]|].
  set (P := n :: p) in *. assert (Hne : P <> []) by discriminate.
  unfold ref_mkdir. destruct (check_dest c P true) eqn:Hcd.
  - destruct (c_mkdir_spec c P I Hg Hne Hcd) as (c' & E & I' & Lp & Fr & Nw).
    destruct (check_dest_spec _ _ _ Hcd) as [Hanc Hnf].
    assert (Hmk : exists t', mkdir_all t P = Some t').
    { apply mkdir_all_succeeds. intros a Ha Hpre. rewrite (sim_file c t a S).
      apply is_prefix_spec in Hpre as [s Hs]. destruct s as [|m s].
      - rewrite app_nil_r in Hs. subst a. exact Hnf.
      - apply (Hanc a (m :: s)); [exact Ha|discriminate|exact Hs]. }
    destruct Hmk as [t' Hmk]. rewrite E, Hmk. cbn [fst snd upd]. split; [reflexivity|].
    destruct (mkdir_all_spec _ _ _ W Hg Hmk) as (W' & D' & P1 & N1).
    constructor; [exact I'|exact W'|].
    apply (grown_determined (vlookup c) (vlookup c') (lookup t) (lookup t') P P D).
    + apply (sim_L c t S).
    + exact Lp.
    + unfold is_dir_at in D'. destruct (lookup t' P) as [[|]|]; try discriminate. reflexivity.
    + intros q _ Hq. apply Fr. exact Hq.
    + intros q _ Hq. destruct (lookup t q) as [e|] eqn:El; [|congruence]. rewrite (P1 q e El). reflexivity.
    + intros q _. apply Nw.
    + intros q _. apply N1.
    + intros q Hq. apply (view_prefix_closed c' P q I' Lp Hq).
    + intros q Hq. apply (tree_prefix_closed t' P q W' D' Hq).
  - assert (E : c_mkdir c P = (c, RErr)) by (unfold c_mkdir, P; fold P; rewrite Hcd; reflexivity).
    rewrite E. destruct (mkdir_all t P) as [t'|] eqn:Hmk; [exfalso|split; [reflexivity|exact S]].
    destruct (mkdir_all_spec _ _ _ W Hg Hmk) as (W' & D' & P1 & _).
    assert (Hnofile : forall a, a <> [] -> is_prefix a P = true -> v_file c a = false).
    { intros a Ha Hpre. rewrite <- (sim_file c t a S). unfold is_file_at.
      destruct (lookup t a) as [[d|]|] eqn:El; try reflexivity.
      specialize (P1 a (F d) El). rewrite (tree_prefix_closed t' P a W' D' Hpre) in P1. discriminate. }
    rewrite check_dest_intro in Hcd; [discriminate| |].
    + intros a Ha x Hx Hp. apply Hnofile; [exact Ha|]. rewrite Hp. apply is_prefix_app.
    + apply Hnofile; [exact Hne|apply is_prefix_refl].
Qed.

(** * WriteFile / Writer *)
Lemma sim_write c t p data : Sim c t -> good_path p = true ->
  snd (c_write c p data) = snd (ref_write t p data) /\ Sim (fst (c_write c p data)) (fst (ref_write t p data)).
Proof.
  intros S Hg. pose proof (sim_I c t S) as I. pose proof (sim_W c t S) as W.
  destruct p as [|n p]; [split; [reflexivity|exact S]|].
  set (P := n :: p) in *. assert (Hne : P <> []) by discriminate.
  unfold ref_write. destruct (check_dest c P false) eqn:Hcd.
  - destruct (c_write_spec c P data I Hg Hne Hcd) as (c' & E & I' & Lp & Fr & Nw).
    destruct (check_dest_spec _ _ _ Hcd) as [_ Hnd].
    destruct (write_at_succeeds t P data W Hg Hne) as [t' Hwr].
    { intros a Ha Hpre. rewrite (sim_file c t a S). apply (check_dest_nofile c P false Hcd a Ha Hpre Hne). }
    { rewrite (sim_dir c t P S). exact Hnd. }
    rewrite E, Hwr. cbn [fst snd upd]. split; [reflexivity|].
    destruct (write_at_spec _ _ _ _ W Hg Hne Hwr) as (W' & L' & D' & Fr' & Nw').
    constructor; [exact I'|exact W'|].
    assert (Hpar : vlookup c' (removelast P) = Some D).
    { apply (view_prefix_dir c' (removelast P) [last P []] I'); [discriminate|].
      rewrite <- (app_removelast_last (l:=P) [] Hne). congruence. }
    apply (grown_determined (vlookup c) (vlookup c') (lookup t) (lookup t') P (removelast P) (F data)).
    + apply (sim_L c t S).
    + exact Lp.
    + exact L'.
    + exact Fr.
    + exact Fr'.
    + exact Nw.
    + exact Nw'.
    + intros q Hq. apply (view_prefix_closed c' (removelast P) q I' Hpar Hq).
    + intros q Hq. apply (tree_prefix_closed t' (removelast P) q W' D' Hq).
  - assert (E : c_write c P data = (c, RErr)) by (unfold c_write; rewrite Hcd; reflexivity).
    rewrite E. destruct (write_at t P data) as [t'|] eqn:Hwr; [exfalso|split; [reflexivity|exact S]].
    destruct (write_at_spec _ _ _ _ W Hg Hne Hwr) as (W' & L' & D' & Fr' & _).
    rewrite check_dest_intro in Hcd; [discriminate| |].
    + intros a Ha x Hx Hp. rewrite <- (sim_file c t a S). unfold is_file_at.
      destruct (lookup t a) as [[d|]|] eqn:El; try reflexivity. exfalso.
      assert (Hpre : is_prefix a (removelast P) = true) by (rewrite Hp; apply proper_prefix_of_parent; exact Hx).
      assert (Hap : a <> P).
      { intros ->. apply (f_equal (@length name)) in Hp. rewrite app_length in Hp. destruct x; [congruence|simpl in Hp; lia]. }
      specialize (Fr' a Hap). rewrite El in Fr'. specialize (Fr' ltac:(discriminate)).
      rewrite (tree_prefix_closed t' (removelast P) a W' D' Hpre) in Fr'. discriminate.
    + rewrite <- (sim_dir c t P S). unfold is_dir_at. destruct (lookup t P) as [[d|]|] eqn:El; try reflexivity. exfalso.
      unfold write_at in Hwr. destruct (mkdir_all t (removelast P)) as [t1|] eqn:Hmk; [|discriminate].
      destruct (mkdir_all_spec _ _ _ W (good_path_removelast P Hg) Hmk) as (_ & _ & P1 & _).
      rewrite (P1 P D El) in Hwr. discriminate.
Qed.

(** * Listings: a listing succeeds exactly on the visible directories *)
Lemma v_read_dir_some c p : Inv c -> vlookup c p = Some D -> exists l, v_read_dir c p = Some l.
Proof.
  intros I H. unfold v_read_dir, vlookup, vis, is_dir_at in *.
  destruct (lookup (cB c) p) as [[d|]|] eqn:Eb; [discriminate| |].
  - destruct (masked (cT c) p); [eauto|]. destruct (lookup (cR c) p) as [[|]|]; eauto.
  - destruct (masked (cT c) p); [discriminate|]. rewrite H. eauto.
Qed.

Lemma v_read_dir_none c p : Inv c -> vlookup c p <> Some D -> v_read_dir c p = None.
Proof.
  intros I H. unfold v_read_dir, is_dir_at.
  destruct (lookup (cB c) p) as [[d|]|] eqn:Eb.
  - destruct (inv_file c I p d Eb) as [Hv _]. unfold vis in Hv.
    destruct (masked (cT c) p); [reflexivity|]. destruct (lookup (cR c) p) as [[|]|]; congruence.
  - exfalso. apply H. unfold vlookup. rewrite Eb. reflexivity.
  - unfold vlookup, vis in H. rewrite Eb in H.
    destruct (masked (cT c) p); [reflexivity|]. destruct (lookup (cR c) p) as [[|]|]; congruence.
Qed.

Lemma NoDup_fst {A B} (l : list (A * B)) : NoDup (map fst l) -> NoDup l.
Proof.
  induction l as [|[a b] l IH]; intros H; [constructor|]. simpl in H. inversion H as [|? ? Hn Hd]; subst.
  constructor; [|apply IH; exact Hd]. intros Hin. apply Hn. apply in_map_iff. exists (a, b). auto.
Qed.

(** The listing through the cache is the tree's listing, as a multiset. *)
Lemma sim_read_dir c t p : Sim c t ->
  out_sim (match v_read_dir c p with Some l => RList l | None => RErr end)
          (if is_dir_at t p then RList (children t p) else RErr).
Proof.
  intros S. pose proof (sim_I c t S) as I. pose proof (sim_W c t S) as W.
  rewrite (sim_dir c t p S). unfold v_dir. destruct (vlookup c p) as [[d|]|] eqn:Ev.
  - rewrite (v_read_dir_none c p I) by congruence. reflexivity.
  - destruct (v_read_dir_some c p I Ev) as [l El]. rewrite El. simpl.
    destruct (v_read_dir_agrees c p l I El) as [Hnd Hin].
    apply NoDup_Permutation.
    + apply NoDup_fst. exact Hnd.
    + apply NoDup_fst. apply children_names_NoDup. exact W.
    + intros [n d]. rewrite Hin, (listing_agrees t p n d W). unfold kind_of.
      split; intros (e & He & Hd); exists e; (split; [|exact Hd]); [rewrite (sim_L c t S)|rewrite <- (sim_L c t S)]; exact He.
  - rewrite (v_read_dir_none c p I) by congruence. reflexivity.
Qed.

(** A visible directory lists nothing iff the tree has nothing below it. *)
Lemma sim_listing_empty c t p l : Sim c t -> v_read_dir c p = Some l ->
  has_children t p = match l with [] => false | _ => true end.
Proof.
  intros S El. pose proof (sim_I c t S) as I. pose proof (sim_W c t S) as W.
  destruct (v_read_dir_agrees c p l I El) as [_ Hin].
  destruct l as [|[n d] l].
  - destruct (has_children t p) eqn:Hc; [|reflexivity]. exfalso.
    apply has_children_spec in Hc as (q & e & Hq & Hpre & Hlen).
    apply is_prefix_spec in Hpre as [s Hs]. subst q. destruct s as [|x s]; [rewrite app_nil_r in Hlen; congruence|].
    assert (Hx : exists e', lookup t (p ++ [x]) = Some e').
    { destruct s as [|y s]; [exists e; apply In_lookup; assumption|].
      pose proof (WF_prefix_dir t W (y :: s) (p ++ [x]) ltac:(discriminate)) as Hd.
      rewrite <- app_assoc in Hd. cbn [app] in Hd. unfold exists_at, is_dir_at in Hd.
      rewrite (In_lookup t _ e W Hq) in Hd. specialize (Hd eq_refl).
      destruct (lookup t (p ++ [x])) as [e'|]; [eauto|discriminate]. }
    destruct Hx as [e' He']. rewrite (sim_L c t S) in He'.
    apply (proj2 (Hin x (kind_of e'))). exists e'. auto.
  - apply has_children_spec. destruct (proj1 (Hin n d) (or_introl eq_refl)) as (e & He & _).
    rewrite <- (sim_L c t S) in He. exists (p ++ [n]), e. split; [apply lookup_In; [apply snoc_not_nil|exact He]|].
    split; [apply is_prefix_app|]. rewrite app_length. simpl. lia.
Qed.

(** * Remove *)
Lemma parent_is_dir t p : WF t -> p <> [] -> exists_at t p = true -> is_dir_at t (removelast p) = true.
Proof.
  intros W Hp He. apply (WF_prefix_dir t W [last p []] (removelast p)); [discriminate|].
  rewrite <- (app_removelast_last (l:=p) [] Hp). exact He.
Qed.

Lemma sim_removed c t p c' t' : Sim c t -> Inv c' -> WF t' ->
  (forall q, vlookup c' q = if is_prefix p q then None else vlookup c q) ->
  (forall q, lookup t' q = if is_prefix p q then None else lookup t q) ->
  Sim c' t'.
Proof.
  intros S I' W' Hc Ht. constructor; [exact I'|exact W'|]. intros q. rewrite Hc, Ht, (sim_L c t S). reflexivity.
Qed.

Lemma sim_remove c t p : Sim c t ->
  snd (c_remove c p) = snd (ref_remove t p) /\ Sim (fst (c_remove c p)) (fst (ref_remove t p)).
Proof.
  intros S. pose proof (sim_I c t S) as I. pose proof (sim_W c t S) as W.
  destruct p as [|n p]; [split; [reflexivity|exact S]|].
  set (P := n :: p) in *. assert (Hne : P <> []) by discriminate.
  assert (Hfail : remove_at t P = None -> c_remove c P = (c, RErr) ->
                  snd (c_remove c P) = snd (ref_remove t P) /\ Sim (fst (c_remove c P)) (fst (ref_remove t P))).
  { intros Hr Hc. unfold ref_remove, P. fold P. rewrite Hr, Hc. split; [reflexivity|exact S]. }
  destruct (vlookup c P) as [e|] eqn:Ev.
  2:{ apply Hfail.
      - unfold remove_at. destruct (negb (is_dir_at t (removelast P))); [reflexivity|].
        rewrite (sim_L c t S), Ev. reflexivity.
      - unfold c_remove, P. fold P. unfold v_exists. rewrite Ev. reflexivity. }
  assert (Hex : v_exists c P = true) by (unfold v_exists; rewrite Ev; reflexivity).
  (* a visible, non-empty directory is refused on both sides *)
  assert (Hlist : v_dir c P = true -> exists l, v_read_dir c P = Some l /\
                  has_children t P = match l with [] => false | _ => true end).
  { intros Hd. unfold v_dir in Hd. destruct (vlookup c P) as [[|]|] eqn:E2; try discriminate.
    destruct (v_read_dir_some c P I E2) as [l El]. exists l. split; [exact El|].
    apply (sim_listing_empty c t P l S El). }
  destruct (v_dir c P && match v_read_dir c P with Some [] => false | _ => true end) eqn:Eblock.
  - apply andb_true_iff in Eblock as [Hd Hl]. destruct (Hlist Hd) as (l & El & Hc). rewrite El in Hl.
    apply Hfail.
    + apply remove_at_fails_on_nonempty_dir; [rewrite (sim_dir c t P S); exact Hd|].
      rewrite Hc. destruct l; [discriminate|reflexivity].
    + unfold c_remove, P. fold P. rewrite Hex. cbn [negb]. rewrite Hd, El. cbn [andb]. rewrite Hl. reflexivity.
  - (* the removal goes through *)
    assert (Hempty : v_dir c P = true -> forall x, vlookup c (P ++ [x]) = None).
    { intros Hd x. destruct (Hlist Hd) as (l & El & _). rewrite Hd, El in Eblock. cbn [andb] in Eblock.
      destruct l; [|discriminate]. destruct (v_read_dir_agrees c P [] I El) as [_ Hin].
      destruct (vlookup c (P ++ [x])) as [e'|] eqn:Ex; [|reflexivity].
      exfalso. apply (proj2 (Hin x (kind_of e'))). eauto. }
    assert (Hc : exists c', c_remove c P = (c', RUnit)).
    { unfold c_remove, P. fold P. rewrite Hex. cbn [negb]. rewrite Eblock.
      destruct (exists_at (cB c) P) eqn:Eb; [|eauto].
      assert (Hrm : exists b, remove_at (cB c) P = Some b).
      { unfold remove_at. rewrite (parent_is_dir (cB c) P (inv_B c I) Hne Eb). cbn [negb].
        unfold exists_at in Eb. destruct (lookup (cB c) P) as [[d|]|] eqn:El; [eauto| |discriminate].
        destruct (has_children (cB c) P) eqn:Hc; [exfalso|eauto].
        apply has_children_spec in Hc as (q & e' & Hq & Hpre & Hlen).
        apply is_prefix_spec in Hpre as [s Hs]. subst q. destruct s as [|x s]; [rewrite app_nil_r in Hlen; congruence|].
        assert (Hd : v_dir c P = true) by (unfold v_dir, vlookup; rewrite El; reflexivity).
        specialize (Hempty Hd x). unfold vlookup in Hempty.
        assert (Hx : exists_at (cB c) (P ++ [x]) = true).
        { destruct s as [|y s]; [unfold exists_at; rewrite (In_lookup _ _ e' (inv_B c I) Hq); reflexivity|].
          pose proof (WF_prefix_dir (cB c) (inv_B c I) (y :: s) (P ++ [x]) ltac:(discriminate)) as Hdd.
          rewrite <- app_assoc in Hdd. cbn [app] in Hdd. unfold exists_at in Hdd.
          rewrite (In_lookup _ _ e' (inv_B c I) Hq) in Hdd. specialize (Hdd eq_refl).
          unfold is_dir_at in Hdd. unfold exists_at. destruct (lookup (cB c) (P ++ [x])); [reflexivity|discriminate]. }
        unfold exists_at in Hx. destruct (lookup (cB c) (P ++ [x])); discriminate. }
      destruct Hrm as [b Hrm]. rewrite Hrm. eauto. }
    destruct Hc as [c' Hc]. destruct (c_remove_spec c P c' I Hne Hc) as (I' & _ & Lc).
    assert (Hr : exists t', remove_at t P = Some t').
    { unfold remove_at. rewrite (parent_is_dir t P W Hne) by (rewrite (sim_exists c t P S); exact Hex). cbn [negb].
      rewrite (sim_L c t S), Ev. destruct e as [d|]; [eauto|].
      assert (Hd : v_dir c P = true) by (unfold v_dir; rewrite Ev; reflexivity).
      destruct (Hlist Hd) as (l & El & Hh). rewrite Hd, El in Eblock. cbn [andb] in Eblock.
      destruct l; [|discriminate]. rewrite Hh. eauto. }
    destruct Hr as [t' Hr]. destruct (remove_at_spec t P t' W Hne Hr) as (W' & _ & Lt).
    unfold ref_remove, P. fold P. rewrite Hc, Hr. cbn [fst snd upd]. split; [reflexivity|].
    apply (sim_removed c t P c' t' S I' W' Lc Lt).
Qed.

(** * RemoveAll *)
Lemma sim_remove_all c t p : Sim c t ->
  snd (c_remove_all c p) = snd (ref_remove_all t p) /\ Sim (fst (c_remove_all c p)) (fst (ref_remove_all t p)).
Proof.
  intros S. pose proof (sim_I c t S) as I. pose proof (sim_W c t S) as W.
  destruct p as [|n p]; [split; [reflexivity|exact S]|].
  set (P := n :: p) in *. assert (Hne : P <> []) by discriminate.
  assert (Hc : exists c', c_remove_all c P = (c', RUnit)).
  { unfold c_remove_all, P. fold P. destruct (exists_at (cB c) P) eqn:Eb; [|eauto].
    unfold remove_all_at. rewrite (parent_is_dir (cB c) P (inv_B c I) Hne Eb). cbn [negb].
    unfold exists_at in Eb. destruct (lookup (cB c) P); [eauto|discriminate]. }
  destruct Hc as [c' Hc]. destruct (c_remove_all_spec c P c' I Hne Hc) as (I' & Lc).
  unfold ref_remove_all, P. fold P. rewrite Hc. cbn [fst snd]. split; [reflexivity|].
  apply (sim_removed c t P c' (delete_subtree t P) S I'); [apply WF_delete; assumption|exact Lc|].
  intros q. apply lookup_delete. exact Hne.
Qed.

(** * Copies *)
Lemma sim_copy_entries l : forall c t dst,
  Sim c t -> good_path dst = true -> (forall rel e, In (rel, e) l -> good_path rel = true) ->
  snd (copy_entries c dst l) = snd (ref_copy_entries t dst l) /\
  Sim (fst (copy_entries c dst l)) (fst (ref_copy_entries t dst l)).
Proof.
  induction l as [|[rel e] l IH]; intros c t dst S Hd Hl; [split; [reflexivity|exact S]|].
  assert (Hr : good_path rel = true) by (apply (Hl rel e); left; reflexivity).
  assert (Hl' : forall rel0 e0, In (rel0, e0) l -> good_path rel0 = true)
    by (intros ? ? H; eapply Hl; right; exact H).
  assert (Hg : good_path (dst ++ rel) = true) by (apply good_path_app; auto).
  cbn [copy_entries ref_copy_entries].
  assert (Hstep :
    let x := match e with
             | D => c_mkdir c (dst ++ rel)
             | F data => match c_mkdir c (dst ++ removelast rel) with
                         | (c0, RUnit) => c_write c0 (dst ++ rel) data
                         | x => x
                         end
             end in
    let y := match e with
             | D => ref_mkdir t (dst ++ rel)
             | F data => match ref_mkdir t (dst ++ removelast rel) with
                         | (t0, RUnit) => ref_write t0 (dst ++ rel) data
                         | x => x
                         end
             end in
    snd x = snd y /\ Sim (fst x) (fst y)).
  { destruct e as [data|]; cbv zeta.
    - assert (Hg0 : good_path (dst ++ removelast rel) = true)
        by (apply good_path_app; split; [exact Hd|apply good_path_removelast; exact Hr]).
      destruct (sim_mkdir c t _ S Hg0) as [A B].
      destruct (c_mkdir c (dst ++ removelast rel)) as [c0 r0], (ref_mkdir t (dst ++ removelast rel)) as [t0 r0'].
      cbn [fst snd] in A, B. subst r0'. destruct r0; try (split; [reflexivity|exact B]).
      apply sim_write; assumption.
    - apply sim_mkdir; assumption. }
  cbv zeta in Hstep.
  destruct (match e with
            | D => c_mkdir c (dst ++ rel)
            | F data => match c_mkdir c (dst ++ removelast rel) with
                        | (c0, RUnit) => c_write c0 (dst ++ rel) data
                        | x => x
                        end
            end) as [c1 r1].
  destruct (match e with
            | D => ref_mkdir t (dst ++ rel)
            | F data => match ref_mkdir t (dst ++ removelast rel) with
                        | (t0, RUnit) => ref_write t0 (dst ++ rel) data
                        | x => x
                        end
            end) as [t1 r1'].
  cbn [fst snd] in Hstep. destruct Hstep as [A B]. subst r1'.
  destruct r1; try (split; [reflexivity|exact B]). apply IH; assumption.
Qed.

Lemma sim_copy c src dst : Inv c -> good_path dst = true ->
  snd (c_copy c src dst) = snd (ref_copy (cview c) src dst) /\
  Sim (fst (c_copy c src dst)) (fst (ref_copy (cview c) src dst)).
Proof.
  intros I Hd. pose proof (Sim_cview c I) as S.
  unfold c_copy, ref_copy. destruct src as [|n src]; [split; [reflexivity|exact S]|].
  destruct (is_prefix (n :: src) dst); [split; [reflexivity|exact S]|].
  rewrite lookup_cview. destruct (vlookup c (n :: src)) as [[data|]|]; [apply sim_write; assumption| |split; [reflexivity|exact S]].
  destruct (sim_mkdir c (cview c) dst S Hd) as [A B].
  destruct (c_mkdir c dst) as [c1 r1], (ref_mkdir (cview c) dst) as [t1 r1']. cbn [fst snd] in A, B. subst r1'.
  destruct r1; try (split; [reflexivity|exact B]).
  apply sim_copy_entries; [exact B|exact Hd|].
  intros rel e Hin. apply In_moved in Hin as (x & _ & Hx & Hin). simpl in Hx. subst rel.
  apply (cview_entry_good c _ e I) in Hin. apply good_path_app in Hin. tauto.
Qed.

(** * One step of the cache = one step of the reference on the view *)
Theorem cache_step_sim c co : Inv c ->
  out_sim (snd (cache_step c co)) (snd (ref_step (cview c) co)) /\
  Sim (fst (cache_step c co)) (fst (ref_step (cview c) co)).
Proof.
  intros I. pose proof (Sim_cview c I) as S.
  assert (EQ : forall (x : cache * out) (y : fs * out), snd x = snd y /\ Sim (fst x) (fst y) ->
               out_sim (snd x) (snd y) /\ Sim (fst x) (fst y)).
  { intros x y [A B]. split; [apply out_sim_eq; exact A|exact B]. }
  destruct co as [o| |].
  2:{ destruct (c_commit_spec c I) as (c' & E & I' & _ & _ & _ & V). cbn [cache_step ref_step]. rewrite E. cbn [fst snd].
      split; [reflexivity|]. constructor; [exact I'|apply cview_WF; exact I|].
      intros q. rewrite lookup_cview, V. reflexivity. }
  2:{ split; [reflexivity|exact S]. }
  destruct o; cbn [cache_step ref_step]; unfold on1, ref_on1;
  repeat match goal with |- context [match cnorm ?s with _ => _ end] => destruct (cnorm s) eqn:? end;
  try (split; [reflexivity|exact S]);
  repeat match goal with H : cnorm _ = Some _ |- _ => apply cnorm_good in H end;
  rewrite ?(sim_dir c (cview c) _ S), ?(sim_file c (cview c) _ S), ?(sim_exists c (cview c) _ S), ?lookup_cview;
  try (split; [apply out_sim_refl|exact S]);
  try match goal with |- context [if v_dir c ?p then _ else _] =>
        destruct (v_dir c p); [|split; [reflexivity|exact S]] end;
  try match goal with |- context [if v_file c ?p then _ else _] =>
        destruct (v_file c p); [|split; [reflexivity|exact S]] end;
  try (apply EQ; first [apply sim_copy|apply sim_mkdir|apply sim_write|apply sim_remove|apply sim_remove_all]; assumption).
  (* ReadDir *)
  split; [|exact S]. cbn [snd].
  match goal with |- context [v_read_dir c ?p] =>
    pose proof (sim_read_dir c (cview c) p S) as H; rewrite (sim_dir c (cview c) p S) in H; exact H end.
Qed.

(** The same for an operation issued through a child view of the cache. *)
Theorem vcache_step_sim c v : Inv c ->
  out_sim (snd (vcache_step c v)) (snd (ref_vstep (cview c) v)) /\
  Sim (fst (vcache_step c v)) (fst (ref_vstep (cview c) v)).
Proof.
  intros I. destruct v as [co|base o]; [apply cache_step_sim; exact I|].
  assert (N : out_sim (snd (c, fail_out o)) (snd (cview c, fail_out o)) /\ Sim (fst (c, fail_out o)) (fst (cview c, fail_out o)))
    by (split; [apply out_sim_refl|apply Sim_cview; exact I]).
  cbn [vcache_step ref_vstep]. unfold sub_cache_step.
  destruct (map_args (fun nn s => transform1 nn (LSub base) s) o) as [o'|];
    destruct o; try exact N; try (apply cache_step_sim; exact I);
    (split; [apply out_sim_refl|apply Sim_cview; exact I]).
Qed.

(** * Histories: every history through the cache is a run of the reference

    The reference run starts from the initial remote tree.  Between two steps it may re-order
    the association list that represents the tree (same bindings, another creation order): a
    plain tree of named nodes has no order, and the only things an order decides are the order
    of a listing and which entries a FAILING directory copy got to before it stopped. *)
Definition tree_equiv (t t' : fs) : Prop := forall q, lookup t q = lookup t' q.

Inductive ref_run : fs -> list vcop -> list out -> fs -> Prop :=
| ref_run_nil t : ref_run t [] [] t
| ref_run_cons t v l t1 outs t2 :
    WF t1 -> tree_equiv (fst (ref_vstep t v)) t1 -> ref_run t1 l outs t2 ->
    ref_run t (v :: l) (snd (ref_vstep t v) :: outs) t2.

Lemma run_refines l : forall c, Inv c ->
  exists outs t, ref_run (cview c) l outs t /\
    Forall2 out_sim (cache_outs c l) outs /\
    WF t /\ forall q, lookup t q = vlookup (run_vcache c l) q.
Proof.
  induction l as [|v l IH]; intros c I.
  - exists [], (cview c). split; [constructor|]. split; [constructor|]. split; [apply cview_WF; exact I|apply lookup_cview].
  - destruct (vcache_step_sim c v I) as [Ho S]. set (c1 := fst (vcache_step c v)) in *.
    destruct (IH c1 (sim_I _ _ S)) as (outs & t & R & Fo & W & L).
    exists (snd (ref_vstep (cview c) v) :: outs), t. split; [|split; [|split]].
    + apply (ref_run_cons _ _ _ (cview c1)); [apply cview_WF; exact (sim_I _ _ S)| |exact R].
      intros q. rewrite (sim_L _ _ S), lookup_cview. reflexivity.
    + cbn [cache_outs]. constructor; [exact Ho|exact Fo].
    + exact W.
    + rewrite run_vcache_cons. exact L.
Qed.

Lemma filter_all_true {A} (f : A -> bool) l : (forall x, In x l -> f x = true) -> filter f l = l.
Proof.
  induction l as [|x l IH]; intros H; [reflexivity|]. simpl. rewrite (H x (or_introl eq_refl)).
  f_equal. apply IH. intros y Hy. apply H. right. exact Hy.
Qed.

Lemma cview_new r : WF r -> cview (new_cache r) = r.
Proof.
  intros W. unfold cview, new_cache. cbn [cB cR cT]. rewrite app_nil_r. apply filter_all_true.
  intros [q e] Hin. cbn [fst masked existsb negb andb]. destruct (WF_entry_good r q e W Hin) as [_ Hq].
  destruct q; [congruence|reflexivity].
Qed.

Theorem history_refines_plain_tree r l : WF r ->
  exists outs t, ref_run r l outs t /\
    Forall2 out_sim (cache_outs (new_cache r) l) outs /\
    WF t /\ forall q, lookup t q = vlookup (run_vcache (new_cache r) l) q.
Proof.
  intros W. destruct (run_refines l (new_cache r) (Inv_new r W)) as (outs & t & R & H).
  rewrite (cview_new r W) in R. eauto.
Qed.

(** The step theorem at every point of every history (direct and through child views,
    Commits and failed Commits in between). *)
Theorem reachable_step_sim r l v : WF r ->
  let c := run_vcache (new_cache r) l in
  out_sim (snd (vcache_step c v)) (snd (ref_vstep (cview c) v)) /\
  forall q, lookup (fst (ref_vstep (cview c) v)) q = vlookup (fst (vcache_step c v)) q.
Proof.
  intros W c. destruct (vcache_step_sim c v (run_vcache_Inv l _ (Inv_new r W))) as [A B].
  split; [exact A|apply (sim_L _ _ B)].
Qed.

(** * Listings, totally *)
Theorem listing_total c p : Inv c ->
  (vlookup c p = Some D ->
     exists l, v_read_dir c p = Some l /\ Permutation l (children (cview c) p)) /\
  (vlookup c p <> Some D -> v_read_dir c p = None).
Proof.
  intros I. split; [|apply v_read_dir_none; exact I].
  intros H. destruct (v_read_dir_some c p I H) as [l El]. exists l. split; [exact El|].
  pose proof (sim_read_dir c (cview c) p (Sim_cview c I)) as S. rewrite El in S.
  unfold is_dir_at in S. rewrite lookup_cview, H in S. exact S.
Qed.

(** * Reads through a child view of the cache = the tree's answers at the prefixed path *)
Lemma sub_arg_lands nn base b s r : base_ok base -> cred base = Some b -> reduce s = Some r ->
  transform1 nn (LSub base) s = Some (base ++ join r) /\ cnorm (base ++ join r) = Some (b ++ r).
Proof.
  intros Hb Hc Hs. assert (T : transform1 nn (LSub base) s = Some (base ++ join r)) by (unfold transform1; rewrite Hs; reflexivity).
  split; [exact T|]. destruct (sub_cache_arg nn base s _ Hb T) as (r' & Hr' & _ & _ & E).
  rewrite Hs in Hr'. inversion Hr'; subst r'. rewrite Hc in E. exact E.
Qed.

Theorem sub_cache_reads c base b o s r :
  base_ok base -> cred base = Some b -> read_arg o = Some s -> reduce s = Some r ->
  sub_cache_step base c o = (c, tree_read (cview c) o (b ++ r)).
Proof.
  intros Hb Hc Ha Hs.
  destruct o; simpl in Ha; inversion Ha; subst; unfold sub_cache_step; cbv beta iota zeta delta [map_args];
    match goal with |- context [transform1 ?nn (LSub base) s] =>
      destruct (sub_arg_lands nn base b s r Hb Hc Hs) as [T N]; rewrite T end;
    (erewrite cache_reads_are_tree_reads; [reflexivity|reflexivity|exact N]).
Qed.

Theorem sub_cache_listing c base b s r :
  base_ok base -> cred base = Some b -> reduce s = Some r ->
  sub_cache_step base c (OReadDir s) =
  (c, match v_read_dir c (b ++ r) with Some l => RList l | None => RErr end).
Proof.
  intros Hb Hc Hs. unfold sub_cache_step. cbv beta iota zeta delta [map_args].
  destruct (sub_arg_lands false base b s r Hb Hc Hs) as [T N]. rewrite T.
  cbn [cache_step]. unfold on1. rewrite N. reflexivity.
Qed.

(** An argument the view refuses (it climbs above the view root) and a view whose own base
    climbs out of the cache: every read answers false / an error, nothing is read. *)
Theorem sub_cache_reads_refused c base o s :
  base_ok base -> (read_arg o = Some s \/ o = OReadDir s) -> (reduce s = None \/ cred base = None) ->
  sub_cache_step base c o = (c, fail_out o).
Proof.
  intros Hb Ho Hs.
  assert (K : forall nn, match transform1 nn (LSub base) s with Some s' => cnorm s' = None | None => True end).
  { intros nn. destruct (transform1 nn (LSub base) s) as [s'|] eqn:T; [|exact I].
    destruct (sub_cache_arg nn base s s' Hb T) as (r & Hr & _ & _ & E). destruct Hs as [Hs|Hs]; [congruence|].
    rewrite Hs in E. exact E. }
  destruct Ho as [Ha| ->].
  - destruct o; simpl in Ha; inversion Ha; subst; unfold sub_cache_step; cbv beta iota zeta delta [map_args];
      match goal with |- context [transform1 ?nn (LSub base) s] =>
        pose proof (K nn) as Kn; destruct (transform1 nn (LSub base) s) as [s'|] end; try reflexivity;
      (erewrite cache_reads_climbing; [reflexivity|reflexivity|exact Kn]).
  - unfold sub_cache_step. cbv beta iota zeta delta [map_args]. pose proof (K false) as Kn.
    destruct (transform1 false (LSub base) s) as [s'|]; [|reflexivity].
    cbn [cache_step]. unfold on1. rewrite Kn. reflexivity.
Qed.

(** * What a copy reads as its source is the view *)
Theorem copy_source_is_view c src : Inv c ->
  NoDup (map fst (subtree_moved (cview c) src [])) /\
  forall rel e, In (rel, e) (subtree_moved (cview c) src []) <-> rel <> [] /\ vlookup c (src ++ rel) = Some e.
Proof.
  intros I. split; [apply NoDup_moved; apply (cview_WF c I)|]. intros rel e. split.
  - intros Hin. apply In_moved in Hin as (x & Hx & Hrel & Hin). simpl in Hrel. subst rel.
    split; [exact Hx|]. rewrite <- lookup_cview. apply In_lookup; [apply cview_WF; exact I|exact Hin].
  - intros [Hrel Hv].
    assert (Hin : In (src ++ rel, e) (cview c)).
    { apply lookup_In; [destruct src; destruct rel; try discriminate; congruence|]. rewrite lookup_cview. exact Hv. }
    unfold subtree_moved. apply in_flat_map. exists (src ++ rel, e). split; [exact Hin|].
    cbn [fst snd]. rewrite is_prefix_app, app_length.
    replace (Nat.eqb (length src + length rel) (length src)) with false.
    2:{ symmetry. apply Nat.eqb_neq. destruct rel; [congruence|simpl; lia]. }
    cbn [negb andb]. rewrite skipn_app_exact. left. reflexivity.
Qed.

Theorem copy_file_reads_view c src dst :
  src <> [] -> is_prefix src dst = false ->
  (forall data, vlookup c src = Some (F data) -> c_copy c src dst = c_write c dst data) /\
  (vlookup c src = None -> c_copy c src dst = (c, RErr)).
Proof.
  intros Hs Hp. split; [intros data Hv|intros Hv]; unfold c_copy; destruct src; try congruence; rewrite Hp, Hv; reflexivity.
Qed.
