(** Proof audit of C02, part 1: histories over both backends in which the operations go through
    the root and through child filespaces (held views named by their base; views made afresh by a
    chain of Filespace calls, nested to any depth).  Definitions: Model/DiskHist.v. *)
From Coq Require Import Permutation.
From GC Require Import Common.Base Model.Paths Model.Fs Model.DiskFs Model.DiskHist
  Proofs.Paths Proofs.Fs Proofs.DiskFs.

(** * Held views *)
Lemma mem_at_m b t o : good_path b = true -> mem_at b t o = m_step b t o.
Proof.
  intros Gb. destruct b as [|n b]; unfold mem_at.
  - apply mem_step_m.
  - apply view_step_m. exact Gb.
Qed.

Lemma pre_held_parts t bo : pre_held t bo = true ->
  good_path (fst bo) = true /\ is_dir_at t (fst bo) = true /\ pre_at (fst bo) t (snd bo) = true.
Proof.
  unfold pre_held. intros H. apply andb_true_iff in H as [H Hp]. apply andb_true_iff in H as [Hg Hd].
  auto.
Qed.

Lemma held_step_equiv t bo : WF t -> pre_held t bo = true ->
  fst (d_step (fst bo) t (snd bo)) = fst (mem_at (fst bo) t (snd bo)) /\
  out_equiv (snd (d_step (fst bo) t (snd bo))) (snd (mem_at (fst bo) t (snd bo))).
Proof.
  intros HWF Hp. destruct (pre_held_parts _ _ Hp) as (Gb & Hd & Hpre).
  rewrite (mem_at_m _ t _ Gb). apply d_m_equiv; assumption.
Qed.

Theorem equiv_held_history h : forall t, WF t -> pre_hist_at t h = true ->
  fst (fst (run_both_at t t h)) = snd (fst (run_both_at t t h)) /\
  WF (fst (fst (run_both_at t t h))) /\
  Forall (fun p => out_equiv (fst p) (snd p)) (snd (run_both_at t t h)).
Proof.
  induction h as [|bo h IH]; intros t HWF Hp; cbn [run_both_at].
  - split; [reflexivity|]. split; [exact HWF|constructor].
  - cbn [pre_hist_at] in Hp. apply andb_true_iff in Hp as [Hp Hh].
    destruct (held_step_equiv t bo HWF Hp) as [Ht Ho].
    destruct (pre_held_parts _ _ Hp) as (Gb & _ & _).
    pose proof (d_step_WF (fst bo) t (snd bo) HWF Gb) as HWF'.
    rewrite <- Ht.
    specialize (IH (fst (d_step (fst bo) t (snd bo))) HWF' Hh).
    destruct (run_both_at (fst (d_step (fst bo) t (snd bo))) (fst (d_step (fst bo) t (snd bo))) h)
      as [[td tm] outs].
    cbn [fst snd] in *. destruct IH as (A & B & C).
    split; [exact A|]. split; [exact B|]. constructor; [exact Ho|exact C].
Qed.

(** * Chains of Filespace calls *)
Lemma d_resolve_spec chain : forall t b b', good_path b = true -> is_dir_at t b = true ->
  d_resolve t b chain = Some b' ->
  good_path b' = true /\ is_dir_at t b' = true /\
  resolve_view (Some (view_base b)) chain = Some (Some (view_base b')).
Proof.
  induction chain as [|s chain IH]; intros t b b' Gb Hd Hr; cbn [d_resolve resolve_view] in *.
  - inversion Hr; subst. auto.
  - destruct (reduce s) as [r|] eqn:Es; [|discriminate].
    destruct (is_dir_at t (b ++ r)) eqn:Edir; [|discriminate].
    pose proof (reduce_good _ _ Es) as Gr.
    assert (Gbr : good_path (b ++ r) = true) by (apply good_app; assumption).
    destruct (IH t (b ++ r) b' Gbr Edir Hr) as (A & B & C).
    split; [exact A|]. split; [exact B|].
    unfold sub_view. rewrite Es. rewrite (reduce_wrap_view b r Gb Gr). exact C.
Qed.

(** the memfs history step through a chain that resolves on disk is the prefixed step *)
Lemma hist_step_resolved t chain o b : d_resolve t [] chain = Some b ->
  good_path b = true /\ is_dir_at t b = true /\ hist_step t (chain, o) = m_step b t o.
Proof.
  intros Hr. unfold hist_step. cbn [fst snd]. destruct chain as [|s chain].
  - cbn [d_resolve] in Hr. inversion Hr; subst. cbn [resolve_view].
    split; [reflexivity|]. split; [reflexivity|]. apply mem_step_m.
  - cbn [d_resolve resolve_view] in *.
    destruct (reduce s) as [r|] eqn:Es; [|discriminate].
    cbn [app] in Hr. destruct (is_dir_at t r) eqn:Edir; [|discriminate].
    pose proof (reduce_good _ _ Es) as Gr.
    destruct (d_resolve_spec chain t r b Gr Edir Hr) as (A & B & C).
    split; [exact A|]. split; [exact B|].
    unfold sub_view. rewrite Es. rewrite (reduce_join r Gr). rewrite C.
    apply view_step_m. exact A.
Qed.

Lemma chain_step_equiv t vo : WF t -> pre_chain t vo = true ->
  fst (disk_hist_step t vo) = fst (hist_step t vo) /\
  out_equiv (snd (disk_hist_step t vo)) (snd (hist_step t vo)).
Proof.
  intros HWF Hp. destruct vo as [chain o]. unfold pre_chain, disk_hist_step in *. cbn [fst snd] in *.
  destruct (d_resolve t [] chain) as [b|] eqn:Er; [|discriminate].
  destruct (hist_step_resolved t chain o b Er) as (Gb & Hd & ->).
  apply d_m_equiv; assumption.
Qed.

Lemma disk_hist_step_WF t vo : WF t -> WF (fst (disk_hist_step t vo)).
Proof.
  intros HWF. destruct vo as [chain o]. unfold disk_hist_step. cbn [fst snd].
  destruct (d_resolve t [] chain) as [b|] eqn:Er; [|exact HWF].
  destruct (hist_step_resolved t chain o b Er) as (Gb & _ & _).
  apply d_step_WF; assumption.
Qed.

Theorem equiv_view_history h : forall t, WF t -> pre_vhist t h = true ->
  fst (fst (run_both_v t t h)) = snd (fst (run_both_v t t h)) /\
  WF (fst (fst (run_both_v t t h))) /\
  Forall (fun p => out_equiv (fst p) (snd p)) (snd (run_both_v t t h)).
Proof.
  induction h as [|vo h IH]; intros t HWF Hp; cbn [run_both_v].
  - split; [reflexivity|]. split; [exact HWF|constructor].
  - cbn [pre_vhist] in Hp. apply andb_true_iff in Hp as [Hp Hh].
    destruct (chain_step_equiv t vo HWF Hp) as [Ht Ho].
    pose proof (disk_hist_step_WF t vo HWF) as HWF'.
    rewrite <- Ht.
    specialize (IH (fst (disk_hist_step t vo)) HWF' Hh).
    destruct (run_both_v (fst (disk_hist_step t vo)) (fst (disk_hist_step t vo)) h) as [[td tm] outs].
    cbn [fst snd] in *. destruct IH as (A & B & C).
    split; [exact A|]. split; [exact B|]. constructor; [exact Ho|exact C].
Qed.

(** * The property's own wording of the preconditions, on histories *)
Lemma prop_pre_vhist_implies h : forall t, prop_pre_vhist t h = true -> pre_vhist t h = true.
Proof.
  induction h as [|vo h IH]; intros t Hp; [reflexivity|].
  cbn [prop_pre_vhist pre_vhist] in *. apply andb_true_iff in Hp as [Hp Hh].
  apply andb_true_iff. split; [|apply IH; exact Hh].
  unfold prop_pre_chain, pre_chain in *. destruct (d_resolve t [] (fst vo)); [|discriminate].
  apply prop_pre_implies_pre. exact Hp.
Qed.

Theorem property_history h t : WF t -> prop_pre_vhist t h = true ->
  fst (fst (run_both_v t t h)) = snd (fst (run_both_v t t h)) /\
  WF (fst (fst (run_both_v t t h))) /\
  Forall (fun p => out_equiv (fst p) (snd p)) (snd (run_both_v t t h)).
Proof. intros HWF Hp. apply equiv_view_history; [exact HWF|]. apply prop_pre_vhist_implies. exact Hp. Qed.
