(** Proofs about Model/MemConc.v (interleaving model of memfs). *)
From GC Require Import Common.Base Model.Paths Model.Fs Model.MemConc Proofs.Paths Proofs.Fs.
From Coq Require Import Lia.
Open Scope N_scope.

Ltac brk H :=
  repeat match type of H with
         | context [match ?x with _ => _ end] => destruct x eqn:?; try discriminate H
         | context [if ?x then _ else _] => destruct x eqn:?; try discriminate H
         end.
Ltac inv H := inversion H; subst; clear H.

(** * Generic list facts *)
Lemma list_upd_length {A} (l : list A) i f : length (list_upd l i f) = length l.
Proof. revert i; induction l; intros [|i]; simpl; auto. Qed.

Lemma nth_list_upd_eq {A} (l : list A) i f x :
  nth_error l i = Some x -> nth_error (list_upd l i f) i = Some (f x).
Proof. revert i; induction l; intros [|i]; simpl; try discriminate; auto. intros H; inv H; auto. Qed.

Lemma nth_list_upd_neq {A} (l : list A) i j f : i <> j -> nth_error (list_upd l i f) j = nth_error l j.
Proof. revert i j; induction l; intros [|i] [|j]; simpl; auto; try congruence. Qed.

Lemma nth_list_upd {A} (l : list A) i j f y :
  nth_error (list_upd l i f) j = Some y ->
  (i <> j /\ nth_error l j = Some y) \/ (i = j /\ exists x, nth_error l j = Some x /\ y = f x).
Proof.
  revert i j; induction l; intros [|i] [|j]; simpl; try discriminate; intros H.
  - inv H. right. eauto.
  - left. split; [lia|auto].
  - left. split; [lia|auto].
  - apply IHl in H as [[H1 H2]|[H1 H2]]; [left|right]; split; auto.
Qed.

Lemma Forall_list_upd {A} (P : A -> Prop) l i f :
  Forall P l -> (forall x, nth_error l i = Some x -> P x -> P (f x)) -> Forall P (list_upd l i f).
Proof.
  revert i; induction l; intros [|i] H Hf; simpl; auto; inv H; constructor; auto.
Qed.

Lemma nth_error_app_l {A} (l l' : list A) i x : nth_error l i = Some x -> nth_error (l ++ l') i = Some x.
Proof. intros H. rewrite nth_error_app1; auto. apply nth_error_Some. congruence. Qed.

Lemma nth_error_snoc {A} (l : list A) x i y :
  nth_error (l ++ [x]) i = Some y -> (nth_error l i = Some y) \/ (i = length l /\ y = x).
Proof.
  intros H. destruct (Nat.lt_ge_cases i (length l)).
  - rewrite nth_error_app1 in H; auto.
  - rewrite nth_error_app2 in H; auto. destruct (i - length l)%nat eqn:E.
    + simpl in H. inv H. right. split; auto. lia.
    + simpl in H. destruct n; discriminate.
Qed.

Lemma Forall_nth {A} (P : A -> Prop) l i x : Forall P l -> nth_error l i = Some x -> P x.
Proof. intros H E. rewrite Forall_forall in H. apply H. eapply nth_error_In; eauto. Qed.

(** * Running schedules *)
Lemma run_inv (I : state -> Prop) ar :
  (forall t st st', I st -> step ar t st = Some st' -> I st') ->
  forall sched st, I st -> I (run ar sched st).
Proof.
  intros Hs sched. induction sched as [|t sched IH]; simpl; auto.
  intros st Hst. apply IH. unfold step_or_stay. destruct (step ar t st) eqn:E; eauto.
Qed.

Lemma run_app ar s1 s2 st : run ar (s1 ++ s2) st = run ar s2 (run ar s1 st).
Proof. unfold run. apply fold_left_app. Qed.

Lemma step_lt ar t st st' : step ar t st = Some st' -> (t < length (ths st))%nat.
Proof.
  unfold step. destruct (nth_error (ths st) t) eqn:E; [|discriminate]. intros _.
  apply nth_error_Some. congruence.
Qed.

(** Lifting a shared invariant [SP] and a per-thread invariant [LP] (which may mention the shared
    state and the thread id) from [step_local] to [step]; [t]'s step must not break the other
    threads' [LP]. *)
Definition TInv (SP : shared -> Prop) (LP : shared -> nat -> local -> Prop) (st : state) : Prop :=
  SP (sh st) /\ forall t l, nth_error (ths st) t = Some l -> LP (sh st) t l.

Lemma step_lift (SP : shared -> Prop) (LP : shared -> nat -> local -> Prop) ar :
  (forall t s l s' l', SP s -> LP s t l -> step_local ar t s l = Some (s', l') ->
     SP s' /\ LP s' t l' /\ forall t' l'', t' <> t -> LP s t' l'' -> LP s' t' l'') ->
  forall t st st', TInv SP LP st -> step ar t st = Some st' -> TInv SP LP st'.
Proof.
  intros H t st st' [HS HL] Hst. unfold step in Hst.
  destruct (nth_error (ths st) t) as [l|] eqn:El; [|discriminate].
  destruct (step_local ar t (sh st) l) as [[s' l']|] eqn:Es; [|discriminate]. inv Hst.
  destruct (H _ _ _ _ _ HS (HL _ _ El) Es) as (H1 & H2 & H3).
  split; simpl; auto. intros t' l'' E.
  apply nth_list_upd in E as [[Hn E]|[Hn (x & E & ->)]].
  - apply H3; auto.
  - subst. exact H2.
Qed.

(** * Exhaustive exploration is sound for all schedules *)
Lemma explore_sound ar P : forall sched n st,
  explore ar n P st = true ->
  (forall t, step ar t (run ar sched st) = None) -> P (run ar sched st) = true.
Proof.
  induction sched as [|t sched IH]; intros n st He Hf.
  - simpl in *.
    assert (Hc : forallb (fun t => match step ar t st with None => true | Some _ => false end)
                         (seq 0 (length (ths st))) = true).
    { apply forallb_forall. intros t _. rewrite Hf. reflexivity. }
    destruct n; simpl in He; rewrite Hc in He; exact He.
  - change (run ar (t :: sched) st) with (run ar sched (step_or_stay ar st t)) in *.
    unfold step_or_stay in *.
    destruct (step ar t st) as [st1|] eqn:E.
    + assert (Hc : forallb (fun t => match step ar t st with None => true | Some _ => false end)
                           (seq 0 (length (ths st))) = false).
      { apply Bool.not_true_is_false. intros Hc. rewrite forallb_forall in Hc.
        specialize (Hc t). rewrite E in Hc. discriminate Hc. apply in_seq. apply step_lt in E. lia. }
      destruct n; simpl in He; rewrite Hc in He; [discriminate|].
      rewrite forallb_forall in He. specialize (He t). rewrite E in He.
      eapply IH; eauto. apply He. apply in_seq. apply step_lt in E. lia.
    + eapply IH; eauto.
Qed.

Lemma final_no_step ar st : final st = true -> forall t, step ar t st = None.
Proof.
  intros Hf t. unfold step. destruct (nth_error (ths st) t) as [l|] eqn:E; auto.
  unfold final in Hf. rewrite forallb_forall in Hf. specialize (Hf l (nth_error_In _ _ E)).
  unfold done in Hf. unfold step_local. destruct (prog l); [|discriminate].
  destruct (pc l); try discriminate. reflexivity.
Qed.

(** * T1: directory indexes stay duplicate-free (and hold only good names) *)
Definition ch_ok (ch : list (name * ref)) : Prop :=
  NoDup (map fst ch) /\ Forall (fun n => good_name n = true) (map fst ch).
Definition names_ok (o : dirobj) : Prop := ch_ok (d_ch o).
Definition SI1 (s : shared) : Prop := Forall names_ok (dirs s).

Lemma lookup_ch_cons e ch n :
  lookup_ch (e :: ch) n = if bytes_eqb (fst e) n then Some (snd e) else lookup_ch ch n.
Proof. unfold lookup_ch, name in *. simpl. destruct (bytes_eqb (fst e) n); reflexivity. Qed.

Lemma lookup_ch_None ch n : lookup_ch ch n = None <-> ~ In n (map fst ch).
Proof.
  induction ch as [|e ch IH].
  - simpl. split; auto.
  - rewrite lookup_ch_cons. simpl. destruct (bytes_eqb (fst e) n) eqn:E.
    + apply bytes_eqb_spec in E. split; [discriminate|]. intros H; exfalso; apply H; auto.
    + rewrite IH. split; intros H; [intros [H1|H1]|intros H1; apply H; auto]; auto.
      subst. rewrite bytes_eqb_refl in E. discriminate.
Qed.

Lemma lookup_ch_In ch n r : lookup_ch ch n = Some r -> In (n, r) ch.
Proof.
  induction ch as [|e ch IH]; [discriminate|]. rewrite lookup_ch_cons.
  destruct (bytes_eqb (fst e) n) eqn:E.
  - apply bytes_eqb_spec in E. intros H; inv H. left. destruct e; reflexivity.
  - intros H. right. auto.
Qed.

Lemma ch_ok_snoc ch n r : ch_ok ch -> lookup_ch ch n = None -> good_name n = true -> ch_ok (ch ++ [(n, r)]).
Proof.
  intros [H1 H2] Hl Hg. unfold ch_ok. rewrite map_app. simpl. split.
  - apply NoDup_app_snoc; auto. apply lookup_ch_None; auto.
  - apply Forall_app. split; auto.
Qed.

Lemma unlink_incl ch n : incl (unlink_ch ch n) ch.
Proof.
  induction ch as [|e ch IH]; simpl; [apply incl_refl|].
  destruct (bytes_eqb (fst e) n); [apply incl_tl, incl_refl|].
  intros x [Hx|Hx]; [left; auto|right; auto].
Qed.

Lemma unlink_fst_incl ch n x : In x (map fst (unlink_ch ch n)) -> In x (map fst ch).
Proof. intros H. apply in_map_iff in H as (e & <- & He). apply in_map. apply unlink_incl in He. auto. Qed.

Lemma ch_ok_unlink ch n : ch_ok ch -> ch_ok (unlink_ch ch n).
Proof.
  intros [H1 H2]. split.
  - clear H2. induction ch as [|e ch IH]; simpl in *; auto.
    inv H1. destruct (bytes_eqb (fst e) n); auto. simpl. constructor; auto.
    intros Hin. apply H2. eapply unlink_fst_incl; eauto.
  - rewrite Forall_forall in *. intros x Hx. apply H2. eapply unlink_fst_incl; eauto.
Qed.

Lemma ch_ok_nil : ch_ok [].
Proof. split; constructor. Qed.

Lemma SI1_upd_keep s d f : SI1 s -> (forall o, d_ch (f o) = d_ch o) -> SI1 (upd_dir s d f).
Proof. intros H Hf. unfold SI1; simpl. apply Forall_list_upd; auto. intros x _ Hx. unfold names_ok. rewrite Hf. auto. Qed.

Lemma SI1_upd_file s i f : SI1 s -> SI1 (upd_file s i f).
Proof. auto. Qed.

Lemma SI1_set_ch s d ch : SI1 s -> ch_ok ch -> SI1 (upd_dir s d (set_ch ch)).
Proof. intros H Hc. unfold SI1; simpl. apply Forall_list_upd; auto. Qed.

Lemma SI1_alloc_dir s o : SI1 s -> names_ok o -> SI1 (fst (alloc_dir s o)).
Proof. intros H Ho. unfold SI1; simpl. apply Forall_app. split; auto. Qed.

Lemma SI1_alloc_file s o : SI1 s -> SI1 (fst (alloc_file s o)).
Proof. auto. Qed.

Lemma SI1_get s d o : SI1 s -> nth_error (dirs s) d = Some o -> ch_ok (d_ch o).
Proof. intros H E. exact (Forall_nth _ _ _ _ H E). Qed.

(** the deep copy allocates directories with the same names as their originals *)
Definition copy_step (n' : nat) :=
  fun (acc : option (shared * list (name * ref))) (e : name * ref) =>
    match acc with
    | None => None
    | Some (s1, out) =>
      match copy_ref n' s1 (snd e) with
      | Some (s2, r') => Some (s2, out ++ [(fst e, r')])
      | None => None
      end
    end.

Lemma copy_fold_None n l : fold_left (copy_step n) l None = None.
Proof. induction l; simpl; auto. Qed.

(** generic invariant of the deep copy: anything preserved by allocation is preserved *)
Lemma copy_ref_SI1 : forall n s r s' r', SI1 s -> copy_ref n s r = Some (s', r') -> SI1 s'.
Proof.
  induction n as [|n IH]; intros s r s' r' HS H; simpl in H; [discriminate|].
  destruct r as [d|f].
  - destruct (nth_error (dirs s) d) as [o|] eqn:Eo; [|discriminate].
    fold (copy_step n) in H.
    pose proof (SI1_get _ _ _ HS Eo) as Hok.
    assert (Hgen : forall l s0 out s1 ch1,
               SI1 s0 -> fold_left (copy_step n) l (Some (s0, out)) = Some (s1, ch1) ->
               SI1 s1 /\ map fst ch1 = map fst out ++ map fst l).
    { induction l as [|e l IHl]; intros s0 out s1 ch1 H0 Hf; simpl in Hf.
      - inv Hf. rewrite app_nil_r. auto.
      - destruct (copy_ref n s0 (snd e)) as [[s2 r2]|] eqn:Ec.
        + apply IHl in Hf as [Ha Hb]; [|eapply IH; eauto]. split; auto.
          rewrite Hb, map_app. simpl. rewrite <- app_assoc. reflexivity.
        + rewrite copy_fold_None in Hf. discriminate. }
    destruct (fold_left (copy_step n) (d_ch o) (Some (s, []))) as [[s1 ch1]|] eqn:Ef; [|discriminate].
    apply Hgen in Ef as [Ha Hb]; auto. simpl in Hb. inv H.
    apply (SI1_alloc_dir s1 (mkDir ch1 false None)); auto.
    unfold names_ok, ch_ok. simpl. rewrite Hb. exact Hok.
  - destruct (nth_error (files s) f) as [fo|]; [|discriminate].
    destruct (f_holder fo); [discriminate|]. inv H. auto.
Qed.

(** * Generic fact about the deep copy: it only allocates *)
Lemma copy_ref_rel (Q : shared -> shared -> Prop) :
  (forall s, Q s s) -> (forall a b c, Q a b -> Q b c -> Q a c) ->
  (forall s f fo, nth_error (files s) f = Some fo -> f_holder fo = None ->
                  Q s (fst (alloc_file s (mkFile (f_data fo) None)))) ->
  (forall s o, Q s (fst (alloc_dir s o))) ->
  forall n s r s' r', copy_ref n s r = Some (s', r') -> Q s s'.
Proof.
  intros Hr Ht Hf Hd. induction n as [|n IH]; intros s r s' r' H; [discriminate|].
  simpl in H. destruct r as [d|f].
  - destruct (nth_error (dirs s) d) as [o|] eqn:Eo; [|discriminate].
    fold (copy_step n) in H.
    assert (Hgen : forall l s0 out s1 ch1,
               fold_left (copy_step n) l (Some (s0, out)) = Some (s1, ch1) -> Q s0 s1).
    { induction l as [|e l IHl]; intros s0 out s1 ch1 Hfo; simpl in Hfo.
      - inv Hfo. auto.
      - destruct (copy_ref n s0 (snd e)) as [[s2 r2]|] eqn:Ec.
        + eapply Ht; [eapply IH; eauto|eapply IHl; eauto].
        + rewrite copy_fold_None in Hfo. discriminate. }
    destruct (fold_left (copy_step n) (d_ch o) (Some (s, []))) as [[s1 ch1]|] eqn:Ef; [|discriminate].
    apply Hgen in Ef. inv H. eapply Ht; [exact Ef|]. apply (Hd s1 (mkDir ch1 false None)).
  - destruct (nth_error (files s) f) as [fo|] eqn:Efo; [|discriminate].
    destruct (f_holder fo) eqn:Eh; [discriminate|]. inv H. apply (Hf s f fo); auto.
Qed.

Arguments copy_ref : simpl never.
Arguments copy_fuel : simpl never.

(** names carried by program counters are good (they come from the programs' paths) *)
Definition amk_good (a : amk) : Prop :=
  match a with
  | MDone => True
  | MWrite nm _ | MWriter nm _ | MSnap _ nm | MAdd _ nm => good_name nm = true
  end.
Definition ares_good (a : ares) : Prop :=
  match a with
  | ACopy _ dp nm => good_path dp = true /\ good_name nm = true
  | _ => True
  end.
Definition pc_good (p : pcs) : Prop :=
  match p with
  | PRes _ _ a => ares_good a
  | PMk full _ rest _ a => good_path full = true /\ good_path rest = true /\ amk_good a
  | PLockL full _ nm _ | PInL full _ nm _ _ | PSnap full _ _ nm | PAdd full _ _ nm =>
    good_path full = true /\ good_name nm = true
  | _ => True
  end.
Definition op_good (o : cop) : bool :=
  match o with
  | CWrite p _ | CWriter p _ | CMkdir p | CRead p | CReader p | CList p | CExist p | CRemove p _ => good_path p
  | CCopy _ s d => good_path s && good_path d
  end.
Definition res_good (r : cres) : Prop := match r with QList l => NoDup (map fst l) | _ => True end.
Definition next_good (n : next) : Prop := match n with NPc p => pc_good p | NRet r => res_good r end.

Lemma split_last_good p dp nm : split_last p = Some (dp, nm) -> good_path p = true ->
  good_path dp = true /\ good_name nm = true.
Proof.
  revert dp nm; induction p as [|n p IH]; intros dp nm; simpl; [discriminate|].
  destruct p as [|n' p'].
  - intros H; inv H. simpl. rewrite andb_true_r. auto.
  - destruct (split_last (n' :: p')) as [[dp' l]|] eqn:E; [|discriminate].
    intros H; inv H. intros Hg. apply andb_true_iff in Hg as [Hg1 Hg2].
    destruct (IH _ _ eq_refl Hg2) as [Ha Hb]. split; auto.
    change (good_name n && good_path dp' = true). rewrite Hg1, Ha. reflexivity.
Qed.

Lemma after_mk_good full d a : good_path full = true -> amk_good a -> next_good (after_mk full d a).
Proof. destruct a; simpl; auto. Qed.

Lemma goto_mk_good full cur rest a :
  good_path full = true -> good_path rest = true -> amk_good a -> next_good (goto_mk full cur rest a).
Proof. destruct rest; simpl; auto using after_mk_good. Qed.

Lemma after_res_good r a : ares_good a -> next_good (after_res r a).
Proof.
  destruct a; simpl; try (destruct r; simpl; auto; fail).
  intros [H1 H2]. destruct k, r; simpl; auto; apply goto_mk_good; simpl; auto.
Qed.

Lemma goto_res_good cur rest a : ares_good a -> next_good (goto_res cur rest a).
Proof. destruct rest; simpl; auto using after_res_good. Qed.

Lemma start_good o : op_good o = true -> next_good (start o).
Proof.
  destruct o; simpl; intros Hg.
  - destruct (split_last p) as [[dp nm]|] eqn:E; simpl; auto.
    destruct (split_last_good _ _ _ E Hg). apply goto_mk_good; simpl; auto.
  - destruct (split_last p) as [[dp nm]|] eqn:E; simpl; auto.
    destruct (split_last_good _ _ _ E Hg). apply goto_mk_good; simpl; auto.
  - apply goto_mk_good; simpl; auto.
  - destruct p; simpl; auto.
  - destruct p; simpl; auto.
  - apply goto_res_good; simpl; auto.
  - apply goto_res_good; simpl; auto.
  - destruct (split_last p) as [[dp nm]|] eqn:E; simpl; auto. apply goto_res_good; simpl; auto.
  - apply andb_true_iff in Hg as [Hg1 Hg2].
    destruct (split_last dst) as [[dp nm]|] eqn:E; simpl; auto.
    destruct (split_last_good _ _ _ E Hg2).
    destruct k, src; simpl; auto; try (apply after_res_good; simpl; auto).
    all: try (apply goto_mk_good; simpl; auto).
Qed.

Lemma good_path_cons n p : good_path (n :: p) = true -> good_name n = true /\ good_path p = true.
Proof. simpl. intros H. apply andb_true_iff in H. exact H. Qed.

Lemma step_pc_SI1 ar t s p s' n :
  SI1 s -> pc_good p -> step_pc ar t s p = Some (s', n) -> SI1 s' /\ next_good n.
Proof.
  intros HS Hg H. destruct p; simpl in H; try discriminate.
  - (* PRes *) brk H; inv H; simpl; auto using after_res_good, goto_res_good; destruct a; simpl; auto.
  - brk H; inv H; simpl; auto.
  - brk H; inv H; simpl; auto. split; auto. rewrite map_map. simpl.
    change (NoDup (map fst (d_ch d0))). eapply SI1_get; eauto.
  - brk H; inv H; simpl; auto.
  - brk H; inv H; simpl; auto.
  - (* PRemGap *)
    brk H; inv H; simpl; auto; split; auto;
      try (apply SI1_set_ch; [try apply SI1_upd_keep; auto|]; apply ch_ok_unlink; eapply SI1_get; eauto).
  - brk H; inv H; simpl; auto. split; auto. apply SI1_set_ch; auto. apply ch_ok_unlink. eapply SI1_get; eauto.
  - (* PMk *)
    destruct Hg as (Hf & Hr & Ha).
    destruct rest as [|c rest']; [inv H; split; auto using after_mk_good|].
    apply good_path_cons in Hr as [Hc Hr].
    destruct (nth_error (dirs s) cur) as [o|] eqn:Eo; [|inv H; simpl; auto].
    destruct (lookup_ch (d_ch o) c) as [[c'|f']|] eqn:El.
    + inv H. split; auto using goto_mk_good.
    + destruct second; inv H; simpl; auto. repeat split; auto. simpl. rewrite Hc, Hr. reflexivity.
    + destruct second; simpl in H.
      * destruct (d_removed o); inv H; [split; auto using goto_mk_good|].
        split; [|auto using goto_mk_good].
        apply SI1_set_ch; [apply (SI1_alloc_dir s (mkDir [] false None)); auto; apply ch_ok_nil|].
        apply ch_ok_snoc; auto. eapply SI1_get; eauto.
      * inv H. simpl. repeat split; auto. simpl. rewrite Hc, Hr. reflexivity.
  - (* PLockL *) brk H; inv H; simpl; auto. split; auto. apply SI1_upd_keep; auto.
  - (* PInL *)
    destruct Hg as [Hf Hn].
    destruct (nth_error (dirs s) d) as [o|] eqn:Eo; [|inv H; simpl; auto].
    destruct found as [[c|f]|].
    + inv H. split; simpl; auto. apply SI1_upd_keep; auto.
    + brk H; inv H; simpl; auto; split; auto; apply SI1_upd_keep; auto.
    + destruct (d_removed o).
      * inv H. split; [apply SI1_upd_keep; auto|]. apply goto_mk_good; auto. destruct w; simpl; auto.
      * destruct (lookup_ch (d_ch o) nm) eqn:El.
        -- inv H. split; simpl; auto. apply SI1_upd_keep; auto.
        -- assert (Hi : forall fo, SI1 (upd_dir (fst (alloc_file s fo)) d (set_ch (d_ch o ++ [(nm, RFile (length (files s)))])))).
           { intros fo. apply SI1_set_ch; auto. apply ch_ok_snoc; auto. eapply SI1_get; eauto. }
           destruct w; [|destruct (lock_first ar)]; inv H; split; simpl; auto;
             first [apply Hi | apply SI1_upd_keep; auto; apply Hi].
  - brk H; inv H; simpl; auto. split; auto. apply SI1_upd_keep; auto.
  - brk H; inv H; simpl; auto.
  - (* PSnap *)
    destruct (copy_ref (copy_fuel s) s src) as [[s1 r]|] eqn:Ec; [|discriminate]. inv H.
    split; [eapply copy_ref_SI1; eauto|exact Hg].
  - (* PAdd *)
    destruct Hg as [Hf Hn].
    brk H; inv H; simpl; auto.
    + split; auto. apply goto_mk_good; simpl; auto.
    + split; auto. apply SI1_set_ch; auto. apply ch_ok_snoc; auto. eapply SI1_get; eauto.
Qed.

Definition LP1 (s : shared) (t : nat) (l : local) : Prop :=
  pc_good (pc l) /\ forallb op_good (prog l) = true /\ Forall (fun e => res_good (snd e)) (log l).

Lemma apply_next_LP1 s t l n : LP1 s t l -> next_good n -> LP1 s t (apply_next l n).
Proof.
  intros (H1 & H2 & H3) Hn. destruct n as [p|r]; simpl.
  - repeat split; auto.
  - unfold finish. destruct (prog l) as [|o rest] eqn:E; simpl.
    + repeat split; simpl; auto.
    + simpl in H2. apply andb_true_iff in H2 as [_ H2]. repeat split; simpl; auto.
      apply Forall_app. split; auto.
Qed.

Lemma step_local_I1 ar t s l s' l' :
  SI1 s -> LP1 s t l -> step_local ar t s l = Some (s', l') ->
  SI1 s' /\ LP1 s' t l' /\ forall t' l'', t' <> t -> LP1 s t' l'' -> LP1 s' t' l''.
Proof.
  intros HS HL H. unfold step_local in H.
  assert (Hfr : forall s2 t' l'', LP1 s t' l'' -> LP1 s2 t' l'') by (intros; assumption).
  destruct (pc l) eqn:Ep.
  1: { destruct (prog l) as [|o rest] eqn:Eo; [discriminate|]. inv H. split; auto. split; auto.
    apply apply_next_LP1; auto. apply start_good. destruct HL as (_ & H2 & _). rewrite Eo in H2.
    simpl in H2. apply andb_true_iff in H2. tauto. }
  all: match type of H with context [step_pc ?a ?b ?c ?p] =>
         destruct (step_pc a b c p) as [[s1 n]|] eqn:Es; [|discriminate]; inv H;
         assert (Hg : pc_good p) by (destruct HL as (Hg & _); rewrite Ep in Hg; exact Hg);
         destruct (step_pc_SI1 _ _ _ _ _ _ HS Hg Es) as [Ha Hb];
         split; [exact Ha|split; [apply apply_next_LP1; auto|auto]]
       end.
Qed.

Definition I1 : state -> Prop := TInv SI1 LP1.

Lemma I1_step ar t st st' : I1 st -> step ar t st = Some st' -> I1 st'.
Proof. apply step_lift. intros. eapply step_local_I1; eauto. Qed.

Lemma nodup_names_spec l : nodup_names l = true -> NoDup l.
Proof.
  induction l as [|n l IH]; simpl; [constructor|]. intros H. apply andb_true_iff in H as [H1 H2].
  constructor; auto. intros Hin. apply negb_true_iff in H1.
  assert (existsb (bytes_eqb n) l = true); [|congruence].
  apply existsb_exists. exists n. split; auto. apply bytes_eqb_refl.
Qed.

Lemma good_shared_SI1 s : good_shared s = true -> SI1 s.
Proof.
  unfold good_shared. intros H. repeat (apply andb_true_iff in H as [H ?]).
  unfold SI1. apply Forall_forall. intros o Ho. rewrite forallb_forall in H2.
  specialize (H2 o Ho). unfold dir_ok in H2. repeat (apply andb_true_iff in H2 as [H2 ?]).
  split; [apply nodup_names_spec; auto|]. apply Forall_forall. rewrite forallb_forall in H4. auto.
Qed.

Lemma boot_nth s progs t l : nth_error (ths (boot s progs)) t = Some l ->
  exists p, nth_error progs t = Some p /\ l = mkLocal p PIdle [].
Proof.
  unfold boot; simpl. intros H. rewrite nth_error_map in H.
  destruct (nth_error progs t); inv H. eauto.
Qed.

Lemma I1_boot s progs : good_shared s = true -> forallb (forallb op_good) progs = true -> I1 (boot s progs).
Proof.
  intros Hs Hp. split; [apply good_shared_SI1; auto|].
  intros t l E. apply boot_nth in E as (p & E & ->). repeat split; simpl; auto.
  rewrite forallb_forall in Hp. apply Hp. eapply nth_error_In; eauto.
Qed.

Lemma I1_run ar s progs sched : good_shared s = true -> forallb (forallb op_good) progs = true ->
  I1 (run ar sched (boot s progs)).
Proof. intros. apply run_inv; [apply I1_step|apply I1_boot; auto]. Qed.

(** * The abstract tree of a state with duplicate-free indexes is a well-formed plain tree *)
Definition abs_item (n' : nat) (s : shared) (pre : path) (e : name * ref) : fs :=
  match snd e with
  | RFile f => match nth_error (files s) f with
               | Some fo => [(pre ++ [fst e], F (f_data fo))]
               | None => []
               end
  | RDir c => (pre ++ [fst e], D) :: abs_from n' s c (pre ++ [fst e])
  end.

Lemma abs_from_S n s d pre :
  abs_from (S n) s d pre =
  match nth_error (dirs s) d with None => [] | Some o => flat_map (abs_item n s pre) (d_ch o) end.
Proof. reflexivity. Qed.

Lemma abs_from_In : forall n s d pre p e, SI1 s -> In (p, e) (abs_from n s d pre) ->
  exists x q, p = pre ++ x :: q /\ good_path (x :: q) = true /\
              (q = [] \/ In (removelast p, D) (abs_from n s d pre)).
Proof.
  induction n as [|n IH]; intros s d pre p e HS Hin; [destruct Hin|].
  rewrite abs_from_S in *. destruct (nth_error (dirs s) d) as [o|] eqn:Eo; [|destruct Hin].
  apply in_flat_map in Hin as (e0 & He0 & Hin).
  assert (Hg : good_name (fst e0) = true).
  { destruct (SI1_get _ _ _ HS Eo) as [_ Hgn]. rewrite Forall_forall in Hgn. apply Hgn. apply in_map. auto. }
  unfold abs_item in Hin. destruct (snd e0) as [c|f] eqn:Er.
  - destruct Hin as [Hin|Hin].
    + inv Hin. exists (fst e0), []. simpl. rewrite Hg. auto.
    + apply IH in Hin as (x & q & -> & Hgq & Hpar); auto.
      exists (fst e0), (x :: q). rewrite <- app_assoc. simpl. split; auto. split.
      * simpl in *. rewrite Hg. auto.
      * right. apply in_flat_map. exists e0. split; auto. unfold abs_item. rewrite Er.
        destruct Hpar as [->|Hpar].
        -- left. f_equal. change (pre ++ fst e0 :: [x]) with (pre ++ [fst e0] ++ [x]).
           rewrite (app_assoc pre [fst e0] [x]). rewrite removelast_snoc. reflexivity.
        -- right. rewrite <- app_assoc in Hpar. exact Hpar.
  - destruct (nth_error (files s) f); [|destruct Hin]. destruct Hin as [Hin|[]]. inv Hin.
    exists (fst e0), []. simpl. rewrite Hg. auto.
Qed.

Lemma abs_item_prefix n s pre e0 p e : SI1 s -> In (p, e) (abs_item n s pre e0) -> exists q, p = pre ++ fst e0 :: q.
Proof.
  intros HS Hin. unfold abs_item in Hin. destruct (snd e0) as [c|f].
  - destruct Hin as [Hin|Hin]; [inv Hin; exists []; reflexivity|].
    apply abs_from_In in Hin as (x & q & -> & _); auto. exists (x :: q). rewrite <- app_assoc. reflexivity.
  - destruct (nth_error (files s) f); [|destruct Hin]. destruct Hin as [Hin|[]]. inv Hin. exists []; reflexivity.
Qed.

Lemma abs_from_NoDup : forall n s d pre, SI1 s -> NoDup (map fst (abs_from n s d pre)).
Proof.
  induction n as [|n IH]; intros s d pre HS; [constructor|].
  rewrite abs_from_S. destruct (nth_error (dirs s) d) as [o|] eqn:Eo; [|constructor].
  destruct (SI1_get _ _ _ HS Eo) as [Hnd _]. clear Eo.
  induction (d_ch o) as [|e0 ch IHc]; simpl; [constructor|].
  simpl in Hnd. inv Hnd. rewrite map_app. apply NoDup_app; auto.
  - unfold abs_item. destruct (snd e0) as [c|f].
    + simpl. constructor; auto. intros Hin. apply in_map_iff in Hin as ([p e] & Hp & Hin). simpl in Hp. subst p.
      apply abs_from_In in Hin as (x & q & Hp & _); auto.
      apply (f_equal (@length name)) in Hp. rewrite !app_length in Hp. simpl in Hp. lia.
    + destruct (nth_error (files s) f); simpl; repeat constructor. intros [].
  - intros p Hp1 Hp2.
    apply in_map_iff in Hp1 as ([p1 e1] & Hq1 & Hin1). simpl in Hq1. subst p1.
    apply in_map_iff in Hp2 as ([p2 e2] & Hq2 & Hin2). simpl in Hq2. subst p2.
    apply abs_item_prefix in Hin1 as (q1 & Hq1); auto.
    apply in_flat_map in Hin2 as (e3 & He3 & Hin2).
    apply abs_item_prefix in Hin2 as (q2 & Hq2); auto.
    rewrite Hq1 in Hq2. apply app_inv_head in Hq2. inv Hq2.
    apply H1. rewrite H0. apply in_map. exact He3.
Qed.

Lemma abs_WF s : SI1 s -> WF (abs s).
Proof.
  intros HS. unfold abs. split; [apply abs_from_NoDup; auto|].
  intros p e Hin.
  apply abs_from_In in Hin as (x & q & Hp & Hg & Hpar); auto. rewrite app_nil_l in Hp. subst p.
  split; [discriminate|]. split; [exact Hg|].
  unfold is_dir_at. destruct (removelast (x :: q)) as [|y r] eqn:Er; [reflexivity|].
  destruct Hpar as [->|Hpar]; [discriminate Er|].
  rewrite lookup_nonroot by discriminate. rewrite (In_assoc _ _ D); [reflexivity| |exact Hpar]. apply abs_from_NoDup; auto.
Qed.

(** * T2: a file holds a whole written value whenever no handle is open on it *)
Section Values.
  Variable V : list bytes.
  Variable fl : flavour.
  Definition emp_ok : Prop := lock_first fl = false -> In [] V.

  Definition file_v (fo : fileobj) : Prop := f_holder fo = None -> In (f_data fo) V.
  Definition SP2 (s : shared) : Prop := Forall file_v (files s).
  Definition wk_v (w : wk) : Prop :=
    match w with WData d => In d V | WStream c => In (concat c) V /\ emp_ok end.
  Definition amk_v (a : amk) : Prop :=
    match a with
    | MWrite _ d => In d V
    | MWriter _ c => In (concat c) V /\ emp_ok
    | _ => True
    end.
  Definition held_by (s : shared) (t f : nat) (P : bytes -> Prop) : Prop :=
    exists fo, nth_error (files s) f = Some fo /\ f_holder fo = Some t /\ P (f_data fo).
  Definition pc_v (s : shared) (t : nat) (p : pcs) : Prop :=
    match p with
    | PMk _ _ _ _ a => amk_v a
    | PLockL _ _ _ w | PInL _ _ _ _ w => wk_v w
    | PWriterAcq _ _ c => In (concat c) V
    | PWriting f c => held_by s t f (fun d => In (d ++ concat c) V)
    | PReaderClose f => held_by s t f (fun d => In d V)
    | _ => True
    end.
  Definition res_v (r : cres) : Prop := match r with QData v => In v V | _ => True end.
  Definition next_v (s : shared) (t : nat) (n : next) : Prop :=
    match n with NPc p => pc_v s t p | NRet r => res_v r end.

  (** [fr t s s']: files held by threads other than [t] are untouched *)
  Definition fr (t : nat) (s s' : shared) : Prop :=
    forall f fo t', t' <> t -> nth_error (files s) f = Some fo -> f_holder fo = Some t' ->
                    nth_error (files s') f = Some fo.

  Lemma fr_refl t s : fr t s s.
  Proof. intros f fo t' _ H _. exact H. Qed.
  Lemma fr_trans t a b c : fr t a b -> fr t b c -> fr t a c.
  Proof. intros H1 H2 f fo t' Hn E Eh. eapply H2; eauto. Qed.
  Lemma fr_same t s s' : files s' = files s -> fr t s s'.
  Proof. intros E f fo t' _ H _. rewrite E. exact H. Qed.
  Lemma fr_alloc_file t s o : fr t s (fst (alloc_file s o)).
  Proof. intros f fo t' _ H _. simpl. apply nth_error_app_l. exact H. Qed.
  Lemma fr_upd_file t s f g fo0 :
    nth_error (files s) f = Some fo0 -> (f_holder fo0 = None \/ f_holder fo0 = Some t) ->
    fr t s (upd_file s f g).
  Proof.
    intros E0 Hh f' fo t' Hn E Eh. simpl. destruct (Nat.eq_dec f f') as [->|Hne].
    - rewrite E in E0. inv E0. destruct Hh; congruence.
    - rewrite nth_list_upd_neq; auto.
  Qed.

  Lemma pc_v_frame t s s' t' p : fr t s s' -> t' <> t -> pc_v s t' p -> pc_v s' t' p.
  Proof.
    intros Hfr Hn. destruct p; simpl; auto; intros (fo & E & Eh & HP); exists fo; repeat split; eauto.
  Qed.

  Lemma SP2_same s s' : files s' = files s -> SP2 s -> SP2 s'.
  Proof. unfold SP2. intros ->. auto. Qed.
  Lemma SP2_upd_file s f g :
    SP2 s -> (forall fo, nth_error (files s) f = Some fo -> file_v (g fo)) -> SP2 (upd_file s f g).
  Proof. intros H Hg. unfold SP2; simpl. apply Forall_list_upd; auto. Qed.
  Lemma SP2_alloc_file s o : SP2 s -> file_v o -> SP2 (fst (alloc_file s o)).
  Proof. intros H Ho. unfold SP2; simpl. apply Forall_app. split; auto. Qed.
  Lemma SP2_get s f fo : SP2 s -> nth_error (files s) f = Some fo -> f_holder fo = None -> In (f_data fo) V.
  Proof. intros H E. exact (Forall_nth _ _ _ _ H E). Qed.

  Lemma copy_ref_v t n s r s' r' : copy_ref n s r = Some (s', r') -> (SP2 s -> SP2 s') /\ fr t s s'.
  Proof.
    apply (copy_ref_rel (fun a b => (SP2 a -> SP2 b) /\ fr t a b)).
    - intros a. split; auto using fr_refl.
    - intros a b c [H1 H2] [H3 H4]. split; eauto using fr_trans.
    - intros a f fo E Eh. split; [|apply fr_alloc_file]. intros Ha. apply SP2_alloc_file; auto.
      intros _. simpl. eapply SP2_get; eauto.
    - intros a o. split; [apply SP2_same; reflexivity|apply fr_same; reflexivity].
  Qed.

  Lemma after_mk_v s t full d a : amk_v a -> next_v s t (after_mk full d a).
  Proof. destruct a; simpl; auto. Qed.
  Lemma goto_mk_v s t full cur rest a : amk_v a -> next_v s t (goto_mk full cur rest a).
  Proof. destruct rest; simpl; auto using after_mk_v. Qed.
  Lemma after_res_v s t r a : next_v s t (after_res r a).
  Proof. destruct a, r; simpl; auto; destruct k; simpl; auto; apply goto_mk_v; simpl; auto. Qed.
  Lemma goto_res_v s t r rest a : next_v s t (goto_res r rest a).
  Proof. destruct rest; simpl; auto using after_res_v. Qed.
  Lemma res_fail_v a : res_v (res_fail a).
  Proof. destruct a; simpl; auto. Qed.

  Ltac same_files :=
    split; [eapply SP2_same; [reflexivity|eassumption]|split; [|apply fr_same; reflexivity]].

  Lemma step_pc_v t s p s' n :
    SP2 s -> pc_v s t p -> step_pc fl t s p = Some (s', n) ->
    SP2 s' /\ next_v s' t n /\ fr t s s'.
  Proof.
    intros HS Hp H. destruct p; simpl in H; try discriminate.
    - (* PRes *) brk H; inv H; same_files; simpl; auto using after_res_v, goto_res_v, res_fail_v.
    - (* PReadData *) brk H; inv H; same_files; simpl; auto. eapply SP2_get; eauto.
    - brk H; inv H; same_files; simpl; auto.
    - (* PReaderOpen *)
      brk H; inv H; try (same_files; simpl; auto; fail).
      split; [apply SP2_upd_file; auto; intros fo _ Hh; discriminate Hh|].
      split; [|eapply fr_upd_file; eauto].
      simpl. eexists. split; [apply nth_list_upd_eq; eauto|]. simpl. split; auto. eapply SP2_get; eauto.
    - (* PReaderClose *)
      destruct Hp as (fo & E & Eh & Hd). rewrite E in H. inv H.
      split; [apply SP2_upd_file; auto; intros fo' E' _; simpl; congruence|].
      split; [exact Hd|eapply fr_upd_file; eauto].
    - brk H; inv H; same_files; simpl; auto.
    - brk H; inv H; same_files; simpl; auto.
    - (* PMk *)
      simpl in Hp. brk H; inv H; same_files; simpl; auto using after_mk_v, goto_mk_v.
    - brk H; inv H; same_files; simpl; auto.
    - (* PInL *)
      simpl in Hp.
      destruct (nth_error (dirs s) d) as [o|] eqn:Eo; [|inv H; same_files; simpl; auto].
      destruct found as [[c|f]|].
      + inv H. same_files. simpl; auto.
      + destruct (nth_error (files s) f) as [fo|] eqn:Ef; [|inv H; same_files; simpl; auto].
        destruct (f_holder fo) eqn:Eh; [discriminate|].
        destruct w as [data|chunks]; inv H.
        * split; [eapply SP2_same; [reflexivity|]; apply SP2_upd_file; auto; intros fo' _ _; exact Hp|].
          split; [simpl; auto|]. eapply fr_trans; [eapply fr_upd_file; eauto|apply fr_same; reflexivity].
        * destruct Hp as [Hc He].
          split; [eapply SP2_same; [reflexivity|]; apply SP2_upd_file; auto; intros fo' _ Hh; discriminate Hh|].
          split; [|eapply fr_trans; [eapply fr_upd_file; eauto|apply fr_same; reflexivity]].
          simpl. eexists. split; [apply nth_list_upd_eq; eauto|]. simpl. auto.
      + destruct (d_removed o).
        * inv H. same_files. apply goto_mk_v. destruct w; simpl; auto.
        * destruct (lookup_ch (d_ch o) nm).
          -- inv H. same_files. simpl; auto.
          -- destruct w as [data|chunks]; inv H.
             ++ split; [eapply SP2_same; [reflexivity|]; apply SP2_alloc_file; auto; intros _; exact Hp|].
                split; [simpl; auto|]. eapply fr_trans; [apply fr_alloc_file|apply fr_same; reflexivity].
             ++ destruct Hp as [Hc He]. destruct (lock_first fl) eqn:Elf; inv H1.
                ** split; [eapply SP2_same; [reflexivity|]; apply SP2_alloc_file; auto; intros Hh; discriminate Hh|].
                   split; [|eapply fr_trans; [apply fr_alloc_file|apply fr_same; reflexivity]].
                   unfold next_v, pc_v, held_by. cbn [release_L upd_dir files].
                   eexists. split; [rewrite nth_error_app2, Nat.sub_diag by lia; reflexivity|].
                   simpl. auto.
                ** split; [eapply SP2_same; [reflexivity|]; apply SP2_alloc_file; auto; intros _; apply He; exact Elf|].
                   split; [exact Hc|]. eapply fr_trans; [apply fr_alloc_file|apply fr_same; reflexivity].
    - (* PWriterAcq *)
      simpl in Hp. destruct (nth_error (files s) f) as [fo|] eqn:Ef; [|inv H; same_files; simpl; auto].
      destruct (f_holder fo) eqn:Eh; [discriminate|]. inv H.
      split; [eapply SP2_same; [reflexivity|]; apply SP2_upd_file; auto; intros fo' _ Hh; discriminate Hh|].
      split; [|eapply fr_trans; [eapply fr_upd_file; eauto|apply fr_same; reflexivity]].
      simpl. eexists. split; [apply nth_list_upd_eq; eauto|]. simpl. auto.
    - (* PWriting *)
      destruct Hp as (fo & E & Eh & Hd). rewrite E in H. destruct chunks as [|c rest]; inv H.
      + split; [apply SP2_upd_file; auto; intros fo' E' _; simpl; rewrite E in E'; inv E'; simpl in Hd;
                rewrite app_nil_r in Hd; exact Hd|].
        split; [simpl; auto|eapply fr_upd_file; eauto].
      + split; [apply SP2_upd_file; auto; intros fo' E' Hh; simpl in Hh; congruence|].
        split; [|eapply fr_upd_file; eauto].
        simpl. eexists. split; [apply nth_list_upd_eq; eauto|]. simpl. split; auto.
        rewrite <- app_assoc. exact Hd.
    - (* PSnap *)
      destruct (copy_ref (copy_fuel s) s src) as [[s1 r]|] eqn:Ec; [|discriminate]. inv H.
      destruct (copy_ref_v t _ _ _ _ _ Ec) as [Ha Hb]. split; auto.
    - brk H; inv H; same_files; simpl; auto. apply goto_mk_v. simpl; auto.
  Qed.

  Definition LP2 (s : shared) (t : nat) (l : local) : Prop :=
    pc_v s t (pc l) /\ Forall (fun o => incl (op_vals fl o) V) (prog l) /\ Forall (fun e => res_v (snd e)) (log l).

  Lemma start_v s t o : incl (op_vals fl o) V -> next_v s t (start o).
  Proof.
    intros Hi. destruct o; simpl in *.
    - destruct (split_last p) as [[dp nm]|]; simpl; auto. apply goto_mk_v. simpl. apply Hi. left; auto.
    - destruct (split_last p) as [[dp nm]|]; simpl; auto. apply goto_mk_v. simpl. unfold emp_ok.
      destruct (lock_first fl); split; try (intros Hd; discriminate Hd); try (intros _); apply Hi; simpl; auto.
    - apply goto_mk_v. simpl; auto.
    - destruct p; simpl; auto.
    - destruct p; simpl; auto.
    - apply goto_res_v.
    - apply goto_res_v.
    - destruct (split_last p) as [[dp nm]|]; simpl; auto. apply goto_res_v.
    - destruct (split_last dst) as [[dp nm]|]; simpl; auto. destruct k, src; simpl; auto; try apply goto_res_v.
      all: try (apply goto_mk_v; simpl; auto).
  Qed.

  Lemma apply_next_LP2 s t l n :
    Forall (fun o => incl (op_vals fl o) V) (prog l) -> Forall (fun e => res_v (snd e)) (log l) ->
    next_v s t n -> LP2 s t (apply_next l n).
  Proof.
    intros H2 H3 Hn. destruct n as [p|r]; simpl.
    - repeat split; auto.
    - unfold finish. destruct (prog l) as [|o rest] eqn:E; simpl.
      + repeat split; simpl; auto.
      + inv H2. repeat split; simpl; auto. apply Forall_app. split; auto.
  Qed.

  Lemma LP2_frame t s s' t' l : fr t s s' -> t' <> t -> LP2 s t' l -> LP2 s' t' l.
  Proof. intros Hfr Hn (H1 & H2 & H3). repeat split; auto. eapply pc_v_frame; eauto. Qed.

  Lemma step_local_I2 t s l s' l' :
    SP2 s -> LP2 s t l -> step_local fl t s l = Some (s', l') ->
    SP2 s' /\ LP2 s' t l' /\ forall t' l'', t' <> t -> LP2 s t' l'' -> LP2 s' t' l''.
  Proof.
    intros HS (H1 & H2 & H3) H. unfold step_local in H.
    destruct (pc l) eqn:Ep.
    1: { destruct (prog l) as [|o rest] eqn:Eo; [discriminate|]. inv H. split; auto. split.
         - apply apply_next_LP2; auto. rewrite Eo; auto. apply start_v. inv H2. auto.
         - intros. eapply LP2_frame; eauto. apply fr_refl. }
    all: match type of H with context [step_pc ?a ?b ?c ?p] =>
           destruct (step_pc a b c p) as [[s1 n]|] eqn:Es; [|discriminate]; inv H;
           destruct (step_pc_v _ _ _ _ _ HS H1 Es) as (Ha & Hb & Hc);
           split; [exact Ha|split; [apply apply_next_LP2; auto|intros; eapply LP2_frame; eauto]]
         end.
  Qed.

  Definition I2 : state -> Prop := TInv SP2 LP2.

  Lemma I2_step t st st' : I2 st -> step fl t st = Some st' -> I2 st'.
  Proof. apply step_lift. intros. eapply step_local_I2; eauto. Qed.
End Values.

Lemma I2_boot fl s progs : good_shared s = true -> I2 (vals_of fl (boot s progs)) fl (boot s progs).
Proof.
  intros Hs. split.
  - unfold SP2. apply Forall_forall. intros fo Hfo _. unfold vals_of. apply in_or_app. left.
    simpl. apply in_map. exact Hfo.
  - intros t l E. apply boot_nth in E as (p & E & ->). repeat split; simpl; auto.
    apply Forall_forall. intros o Ho v Hv. unfold vals_of. apply in_or_app. right.
    apply in_flat_map. exists (mkLocal p PIdle []). split.
    + simpl. apply (in_map (fun p => mkLocal p PIdle [])). eapply nth_error_In; eauto.
    + simpl. apply in_flat_map. exists o. auto.
Qed.

(** * Statements over all schedules *)
Theorem index_consistent ar s0 progs sched :
  good_shared s0 = true -> forallb (forallb op_good) progs = true ->
  let st := run ar sched (boot s0 progs) in
  (forall d o, nth_error (dirs (sh st)) d = Some o -> NoDup (map fst (d_ch o))) /\
  (forall t o l, In (o, QList l) (results_of st t) -> NoDup (map fst l)) /\
  WF (abs (sh st)).
Proof.
  intros Hs Hp st. destruct (I1_run ar s0 progs sched Hs Hp) as [HS HL]. fold st in HS, HL.
  split; [|split].
  - intros d o E. eapply SI1_get; eauto.
  - intros t o l Hin. unfold results_of in Hin. destruct (nth_error (ths st) t) as [lo|] eqn:E; [|destruct Hin].
    destruct (HL _ _ E) as (_ & _ & Hlog). rewrite Forall_forall in Hlog. apply (Hlog _ Hin).
  - apply abs_WF. exact HS.
Qed.

Theorem values ar s0 progs sched :
  good_shared s0 = true ->
  let V := vals_of ar (boot s0 progs) in
  let st := run ar sched (boot s0 progs) in
  (forall f fo, nth_error (files (sh st)) f = Some fo -> f_holder fo = None -> In (f_data fo) V) /\
  (forall t o v, In (o, QData v) (results_of st t) -> In v V).
Proof.
  intros Hs V st.
  assert (HI : I2 V ar st) by (apply run_inv; [apply I2_step|apply I2_boot; auto]).
  destruct HI as [HS HL]. split.
  - intros f fo E Eh. eapply SP2_get; eauto.
  - intros t o v Hin. unfold results_of in Hin. destruct (nth_error (ths st) t) as [lo|] eqn:E; [|destruct Hin].
    destruct (HL _ _ E) as (_ & _ & Hlog). rewrite Forall_forall in Hlog. apply (Hlog _ Hin).
Qed.

(** every value of the abstract tree of a state without open handles is a written value *)

Lemma f28_all_explored :
  forallb (fun sc => explore cur 60 (sc_explained sc) (sc_init sc)) f28_scenarios = true.
Proof. vm_compute. reflexivity. Qed.

Theorem remove_create_serialisable sc sched :
  In sc f28_scenarios ->
  let st := run cur sched (sc_init sc) in
  final st = true -> sc_explained sc st = true.
Proof.
  intros Hin st Hf. pose proof f28_all_explored as H. rewrite forallb_forall in H.
  specialize (H sc Hin). eapply explore_sound; eauto. apply final_no_step. exact Hf.
Qed.

Definition sc_f28 : scenario :=
  mkSc [CMkdir [nD]; CWrite [nS] [1;2;3]; CWrite [nT; nS] [4]] (CRemove [nD] false) (CWrite [nD; nX] [5;6]).
Definition sched_f28 : list nat := [0;0;1;1;0;1;1]%nat.

Theorem F28_refuted :
  In sc_f28 f28_scenarios /\
  let st := run before_8463491 sched_f28 (sc_init sc_f28) in
  final st = true /\ both_ok st = true /\ sc_explained sc_f28 st = false /\
  lookup (abs (sh st)) [nD; nX] = None /\ lookup (abs (sh st)) [nD] = None.
Proof. split; [left; reflexivity|]. vm_compute. repeat split; reflexivity. Qed.

(** the same schedule on the current code: the creator starts again from the root *)
Theorem F28_fixed_same_schedule :
  let st := run cur (sched_f28 ++ [1;1;1;1;1;1]%nat) (sc_init sc_f28) in
  final st = true /\ both_ok st = true /\ sc_explained sc_f28 st = true /\
  lookup (abs (sh st)) [nD; nX] = Some (F [5;6]).
Proof. vm_compute. repeat split; reflexivity. Qed.

Definition sched_mkdir_p : list nat := [1;1;1;0;0;1;1;1;1;1;1]%nat.
Theorem mkdir_p_not_atomic :
  let st := run cur sched_mkdir_p (sc_init sc_mkdir_p) in
  final st = true /\ both_ok st = true /\ sc_explained sc_mkdir_p st = false.
Proof. vm_compute. repeat split; reflexivity. Qed.

Lemma co_all_explored : forallb (fun c => explore cur 40 (snd c) (fst c)) co_configs = true.
Proof. vm_compute. reflexivity. Qed.

Theorem create_once_instances c sched :
  In c co_configs -> (forall t, step cur t (run cur sched (fst c)) = None) ->
  snd c (run cur sched (fst c)) = true.
Proof.
  intros Hin Hn. pose proof co_all_explored as H. rewrite forallb_forall in H.
  eapply explore_sound; eauto.
Qed.

Lemma filter_name_nil (ch : list (name * ref)) n :
  ~ In n (map fst ch) -> filter (fun e => bytes_eqb (fst e) n) ch = [].
Proof.
  unfold name in *. induction ch as [|e ch IH]; simpl; auto. intros Hn.
  destruct (bytes_eqb (fst e) n) eqn:Ee.
  - apply bytes_eqb_spec in Ee. exfalso. apply Hn. left. exact Ee.
  - apply IH. intros Hi. apply Hn. right. exact Hi.
Qed.

Lemma filter_name_le1 (ch : list (name * ref)) n :
  NoDup (map fst ch) -> (length (filter (fun e => bytes_eqb (fst e) n) ch) <= 1)%nat.
Proof.
  unfold name in *. induction ch as [|e ch IH]; simpl; intros H; [lia|]. inv H.
  destruct (bytes_eqb (fst e) n) eqn:Ee; auto.
  apply bytes_eqb_spec in Ee. subst n. rewrite filter_name_nil; auto.
Qed.

Theorem create_once_unique ar s0 progs sched d o n :
  good_shared s0 = true -> forallb (forallb op_good) progs = true ->
  nth_error (dirs (sh (run ar sched (boot s0 progs)))) d = Some o ->
  (length (filter (fun e => bytes_eqb (fst e) n) (d_ch o)) <= 1)%nat.
Proof.
  intros Hs Hp E. destruct (index_consistent ar s0 progs sched Hs Hp) as (H & _).
  apply filter_name_le1. eapply H; eauto.
Qed.

(** * T3: no dangling reference (the model's Panic is a nil dereference) *)
Definition rin (s : shared) (r : ref) : Prop :=
  match r with RDir d => (d < length (dirs s))%nat | RFile f => (f < length (files s))%nat end.
Definition le_sh (s s' : shared) : Prop :=
  (length (dirs s) <= length (dirs s'))%nat /\ (length (files s) <= length (files s'))%nat.
Definition obj_refs (s : shared) (o : dirobj) : Prop := Forall (rin s) (map snd (d_ch o)).
Definition SP3 (s : shared) : Prop := (0 < length (dirs s))%nat /\ Forall (obj_refs s) (dirs s).

Lemma le_sh_refl s : le_sh s s. Proof. split; lia. Qed.
Lemma le_sh_trans a b c : le_sh a b -> le_sh b c -> le_sh a c.
Proof. intros [? ?] [? ?]; split; lia. Qed.
Lemma rin_mono s s' r : le_sh s s' -> rin s r -> rin s' r.
Proof. intros [? ?]; destruct r; simpl; lia. Qed.
Lemma obj_refs_mono s s' o : le_sh s s' -> obj_refs s o -> obj_refs s' o.
Proof. intros Hl H. unfold obj_refs in *. eapply Forall_impl; [|exact H]. intros r. apply rin_mono; auto. Qed.

Lemma le_upd_dir s d f : le_sh s (upd_dir s d f).
Proof. split; simpl; rewrite ?list_upd_length; lia. Qed.
Lemma le_upd_file s i f : le_sh s (upd_file s i f).
Proof. split; simpl; rewrite ?list_upd_length; lia. Qed.
Lemma le_alloc_dir s o : le_sh s (fst (alloc_dir s o)).
Proof. split; simpl; rewrite ?app_length; lia. Qed.
Lemma le_alloc_file s o : le_sh s (fst (alloc_file s o)).
Proof. split; simpl; rewrite ?app_length; lia. Qed.

Lemma SP3_upd_dir s d f :
  SP3 s -> (forall o, nth_error (dirs s) d = Some o -> obj_refs s o -> obj_refs s (f o)) -> SP3 (upd_dir s d f).
Proof.
  intros [H0 H] Hf. split; [simpl; rewrite list_upd_length; auto|].
  simpl. apply Forall_list_upd.
  - eapply Forall_impl; [|exact H]. intros o. apply obj_refs_mono. apply le_upd_dir.
  - intros o E Ho. eapply obj_refs_mono; [apply le_upd_dir|]. apply Hf; auto.
    rewrite Forall_forall in H. apply H. eapply nth_error_In; eauto.
Qed.
Lemma SP3_upd_keep s d f : SP3 s -> (forall o, d_ch (f o) = d_ch o) -> SP3 (upd_dir s d f).
Proof. intros H Hf. apply SP3_upd_dir; auto. intros o _. unfold obj_refs. rewrite Hf. auto. Qed.
Lemma SP3_upd_file s i f : SP3 s -> SP3 (upd_file s i f).
Proof.
  intros [H0 H]. split; auto. simpl. eapply Forall_impl; [|exact H]. intros o. apply obj_refs_mono. apply le_upd_file.
Qed.
Lemma SP3_alloc_file s o : SP3 s -> SP3 (fst (alloc_file s o)).
Proof.
  intros [H0 H]. split; auto. simpl. eapply Forall_impl; [|exact H]. intros x. apply obj_refs_mono. apply (le_alloc_file s o).
Qed.
Lemma SP3_alloc_dir s o : SP3 s -> obj_refs s o -> SP3 (fst (alloc_dir s o)).
Proof.
  intros [H0 H] Ho. split; [simpl; rewrite app_length; lia|]. simpl. apply Forall_app. split.
  - eapply Forall_impl; [|exact H]. intros x. apply obj_refs_mono. apply (le_alloc_dir s o).
  - constructor; auto. eapply obj_refs_mono; [apply (le_alloc_dir s o)|auto].
Qed.
Lemma SP3_get s d o : SP3 s -> nth_error (dirs s) d = Some o -> obj_refs s o.
Proof. intros [_ H] E. exact (Forall_nth _ _ _ _ H E). Qed.
Lemma SP3_lookup s d o n r : SP3 s -> nth_error (dirs s) d = Some o -> lookup_ch (d_ch o) n = Some r -> rin s r.
Proof.
  intros H E El. pose proof (SP3_get _ _ _ H E) as Ho. unfold obj_refs in Ho. rewrite Forall_forall in Ho.
  apply Ho. apply lookup_ch_In in El. apply (in_map snd) in El. exact El.
Qed.
Lemma obj_refs_snoc s ch n r rm l : Forall (rin s) (map snd ch) -> rin s r ->
  obj_refs s (mkDir (ch ++ [(n, r)]) rm l).
Proof. intros H Hr. unfold obj_refs. simpl. rewrite map_app. apply Forall_app. split; auto. simpl. auto. Qed.
Lemma obj_refs_unlink s ch n rm l : Forall (rin s) (map snd ch) -> obj_refs s (mkDir (unlink_ch ch n) rm l).
Proof.
  intros H. unfold obj_refs. simpl. rewrite Forall_forall in *. intros r Hr. apply H.
  apply in_map_iff in Hr as (e & <- & He). apply in_map. eapply unlink_incl; eauto.
Qed.

Arguments copy_ref : simpl nomatch.
Lemma copy_ref_refs : forall n s r s' r', SP3 s -> copy_ref n s r = Some (s', r') ->
  SP3 s' /\ rin s' r' /\ le_sh s s'.
Proof.
  induction n as [|n IH]; intros s r s' r' HS H; [unfold copy_ref in H; discriminate|].
  unfold copy_ref in H; fold copy_ref in H. destruct r as [d|f].
  - destruct (nth_error (dirs s) d) as [o|] eqn:Eo; [|discriminate].
    fold (copy_step n) in H.
    assert (Hgen : forall l s0 out s1 ch1,
               SP3 s0 -> Forall (rin s0) (map snd out) ->
               fold_left (copy_step n) l (Some (s0, out)) = Some (s1, ch1) ->
               SP3 s1 /\ Forall (rin s1) (map snd ch1) /\ le_sh s0 s1).
    { induction l as [|e l IHl]; intros s0 out s1 ch1 H0 Ho Hf; simpl in Hf.
      - inv Hf. auto using le_sh_refl.
      - destruct (copy_ref n s0 (snd e)) as [[s2 r2]|] eqn:Ec.
        + destruct (IH _ _ _ _ H0 Ec) as (Ha & Hb & Hc).
          apply IHl in Hf as (Hd & He & Hg); auto.
          * split; [auto|split; [auto|eapply le_sh_trans; eauto]].
          * rewrite map_app. apply Forall_app. split; [|simpl; auto].
            eapply Forall_impl; [|exact Ho]. intros x. apply rin_mono; auto.
        + rewrite copy_fold_None in Hf. discriminate. }
    destruct (fold_left (copy_step n) (d_ch o) (Some (s, []))) as [[s1 ch1]|] eqn:Ef; [|discriminate].
    apply Hgen in Ef as (Ha & Hb & Hc); [|auto|simpl; constructor]. inv H.
    split; [apply (SP3_alloc_dir s1 (mkDir ch1 false None)); auto|].
    split; [simpl; rewrite app_length; simpl; lia|].
    eapply le_sh_trans; [exact Hc|apply (le_alloc_dir s1 (mkDir ch1 false None))].
  - destruct (nth_error (files s) f) as [fo|] eqn:Efo; [|discriminate].
    destruct (f_holder fo) eqn:Eh; [discriminate|]. inv H.
    split; [apply (SP3_alloc_file s (mkFile (f_data fo) None)); auto|].
    split; [simpl; rewrite app_length; simpl; lia|apply (le_alloc_file s (mkFile (f_data fo) None))].
Qed.
Arguments copy_ref : simpl never.

Definition amk_refs (s : shared) (a : amk) : Prop :=
  match a with MSnap r _ | MAdd r _ => rin s r | _ => True end.
Definition dok (s : shared) (d : nat) : Prop := (d < length (dirs s))%nat.
Definition fok (s : shared) (f : nat) : Prop := (f < length (files s))%nat.
Definition pc_refs (s : shared) (p : pcs) : Prop :=
  match p with
  | PIdle => True
  | PRes cur _ _ => rin s cur
  | PReadData f | PReaderOpen f | PReaderClose f | PWriting f _ => fok s f
  | PListDir d | PRemGap d _ _ | PRemOld d _ | PLockL _ d _ _ => dok s d
  | PMk _ cur _ _ a => dok s cur /\ amk_refs s a
  | PInL _ d _ found _ => dok s d /\ match found with Some r => rin s r | None => True end
  | PWriterAcq d f _ => dok s d /\ fok s f
  | PSnap _ d r _ | PAdd _ d r _ => dok s d /\ rin s r
  | PPanic => False
  end.
Definition next_refs (s : shared) (n : next) : Prop := match n with NPc p => pc_refs s p | NRet _ => True end.

Lemma pc_refs_mono s s' p : le_sh s s' -> pc_refs s p -> pc_refs s' p.
Proof.
  intros Hl. pose proof (rin_mono _ _ (RDir 0) Hl) as _. destruct Hl as [H1 H2].
  assert (Hr : forall r, rin s r -> rin s' r) by (intros r; apply rin_mono; split; auto).
  destruct p; simpl; unfold dok, fok; auto; try lia;
    try (intros [? ?]; split; [lia|]); auto; try lia.
  all: try (match goal with a : amk |- _ => destruct a; simpl; auto end).
  all: try (match goal with f : option ref |- _ => destruct f; auto end).
Qed.

Lemma after_mk_refs s full d a : dok s d -> amk_refs s a -> next_refs s (after_mk full d a).
Proof. destruct a; simpl; auto. Qed.
Lemma goto_mk_refs s full cur rest a : dok s cur -> amk_refs s a -> next_refs s (goto_mk full cur rest a).
Proof. destruct rest; simpl; auto using after_mk_refs. Qed.
Lemma after_res_refs s r a : SP3 s -> rin s r -> next_refs s (after_res r a).
Proof.
  intros [H0 _] Hr. destruct a, r; simpl; auto; destruct k; simpl; auto; apply goto_mk_refs; simpl; auto.
Qed.
Lemma goto_res_refs s r rest a : SP3 s -> rin s r -> next_refs s (goto_res r rest a).
Proof. destruct rest; simpl; auto using after_res_refs. Qed.

Lemma nth_None_ge {A} (l : list A) i : nth_error l i = None -> (length l <= i)%nat.
Proof. apply nth_error_None. Qed.

Lemma step_pc_refs ar t s p s' n :
  SP3 s -> pc_refs s p -> step_pc ar t s p = Some (s', n) ->
  SP3 s' /\ next_refs s' n /\ le_sh s s'.
Proof.
  intros HS Hp H. pose proof HS as [H0 _].
  destruct p; simpl in H; try discriminate; simpl in Hp; unfold dok, fok in *.
  - (* PRes *)
    destruct rest as [|c rest']; [inv H; split; auto; split; auto using le_sh_refl, after_res_refs|].
    destruct cur as [d|f]; [|inv H; simpl; auto using le_sh_refl].
    destruct (nth_error (dirs s) d) as [o|] eqn:Eo; [|apply nth_None_ge in Eo; simpl in Hp; lia].
    destruct (lookup_ch (d_ch o) c) eqn:El; inv H; split; auto; split; simpl; auto using le_sh_refl.
    apply goto_res_refs; auto. eapply SP3_lookup; eauto.
  - destruct (nth_error (files s) f) eqn:E; [|apply nth_None_ge in E; lia].
    brk H; inv H; simpl; auto using le_sh_refl.
  - destruct (nth_error (dirs s) d) eqn:E; [|apply nth_None_ge in E; lia]. inv H; simpl; auto using le_sh_refl.
  - destruct (nth_error (files s) f) eqn:E; [|apply nth_None_ge in E; lia].
    brk H; inv H. split; [apply SP3_upd_file; auto|]. split; [|apply le_upd_file].
    simpl. unfold fok. simpl. rewrite list_upd_length. auto.
  - destruct (nth_error (files s) f) eqn:E; [|apply nth_None_ge in E; lia]. inv H.
    split; [apply SP3_upd_file; auto|]. split; [simpl; auto|apply le_upd_file].
  - (* PRemGap *)
    destruct (nth_error (dirs s) d) as [o|] eqn:Eo; [|apply nth_None_ge in Eo; lia].
    destruct (lookup_ch (d_ch o) nm) as [[c|f]|] eqn:El; [| |inv H; simpl; auto using le_sh_refl].
    + pose proof (SP3_lookup _ _ _ _ _ HS Eo El) as Hc. simpl in Hc.
      destruct (nth_error (dirs s) c) as [co|] eqn:Ec; [|apply nth_None_ge in Ec; lia].
      assert (Hu : forall s1, SP3 s1 -> le_sh s s1 -> SP3 (upd_dir s1 d (set_ch (unlink_ch (d_ch o) nm)))).
      { intros s1 H1 Hl. apply SP3_upd_dir; auto. intros o1 _ _. apply obj_refs_unlink.
        eapply Forall_impl; [|exact (SP3_get _ _ _ HS Eo)]. intros r. apply rin_mono; auto. }
      brk H; inv H; simpl; auto using le_sh_refl.
      * split; [apply Hu; [apply SP3_upd_keep; auto|apply le_upd_dir]|]. split; [simpl; auto|].
        eapply le_sh_trans; apply le_upd_dir.
      * split; [apply Hu; auto using le_sh_refl|]. split; [simpl; auto|]. apply le_upd_dir.
    + inv H. split; [|split; [simpl; auto|apply le_upd_dir]].
      apply SP3_upd_dir; auto. intros o1 _ _. apply obj_refs_unlink. exact (SP3_get _ _ _ HS Eo).
  - (* PRemOld *)
    destruct (nth_error (dirs s) d) as [o|] eqn:Eo; [|apply nth_None_ge in Eo; lia].
    destruct (lookup_ch (d_ch o) nm) eqn:El; inv H; simpl; auto using le_sh_refl.
    split; [|split; [simpl; auto|apply le_upd_dir]].
    apply SP3_upd_dir; auto. intros o1 _ _. apply obj_refs_unlink. exact (SP3_get _ _ _ HS Eo).
  - (* PMk *)
    destruct Hp as [Hc Ha].
    destruct rest as [|c rest']; [inv H; split; auto; split; auto using le_sh_refl, after_mk_refs|].
    destruct (nth_error (dirs s) cur) as [o|] eqn:Eo; [|apply nth_None_ge in Eo; lia].
    destruct (lookup_ch (d_ch o) c) as [[c'|f']|] eqn:El.
    + inv H. split; auto. split; auto using le_sh_refl. apply goto_mk_refs; auto.
      apply (SP3_lookup _ _ _ _ _ HS Eo El).
    + destruct second; inv H; simpl; auto 6 using le_sh_refl.
    + destruct second; simpl in H.
      * destruct (d_removed o); inv H.
        -- split; auto. split; auto using le_sh_refl. apply goto_mk_refs; auto.
        -- set (s1 := fst (alloc_dir s (mkDir [] false None))).
           assert (H1 : SP3 s1) by (apply SP3_alloc_dir; auto; constructor).
           assert (Hl : le_sh s s1) by apply le_alloc_dir.
           split; [|split].
           ++ apply SP3_upd_dir; auto. intros o1 _ _. apply obj_refs_snoc.
              ** eapply Forall_impl; [|exact (SP3_get _ _ _ HS Eo)]. intros r. apply rin_mono; auto.
              ** simpl. rewrite app_length. simpl. lia.
           ++ apply goto_mk_refs.
              ** unfold dok. simpl. rewrite list_upd_length, app_length. simpl. lia.
              ** destruct a; simpl in *; auto; eapply rin_mono; try exact Ha;
                   (eapply le_sh_trans; [exact Hl|apply le_upd_dir]).
           ++ eapply le_sh_trans; [exact Hl|apply le_upd_dir].
      * inv H. simpl. auto 6 using le_sh_refl.
  - (* PLockL *)
    destruct (nth_error (dirs s) d) as [o|] eqn:Eo; [|apply nth_None_ge in Eo; lia].
    destruct (d_L o); [discriminate|]. inv H.
    split; [apply SP3_upd_keep; auto|]. split; [|apply le_upd_dir].
    simpl. unfold dok. simpl. rewrite list_upd_length. split; auto.
    destruct (lookup_ch (d_ch o) nm) eqn:El; auto.
    eapply rin_mono; [apply le_upd_dir|]. apply (SP3_lookup _ _ _ _ _ HS Eo El).
  - (* PInL *)
    destruct Hp as [Hd Hf].
    destruct (nth_error (dirs s) d) as [o|] eqn:Eo; [|apply nth_None_ge in Eo; lia].
    destruct found as [[c|f]|].
    + inv H. split; [apply SP3_upd_keep; auto|]. split; [simpl; auto|apply le_upd_dir].
    + simpl in Hf. destruct (nth_error (files s) f) as [fo|] eqn:Ef; [|apply nth_None_ge in Ef; lia].
      destruct (f_holder fo); [discriminate|].
      destruct w; inv H.
      * split; [apply SP3_upd_keep; auto; apply SP3_upd_file; auto|]. split; [simpl; auto|].
        eapply le_sh_trans; [apply le_upd_file|apply le_upd_dir].
      * split; [apply SP3_upd_keep; auto; apply SP3_upd_file; auto|].
        split; [|eapply le_sh_trans; [apply le_upd_file|apply le_upd_dir]].
        simpl. unfold fok. simpl. rewrite list_upd_length. auto.
    + destruct (d_removed o).
      * inv H. split; [apply SP3_upd_keep; auto|]. split; [|apply le_upd_dir].
        apply goto_mk_refs; [unfold dok; simpl; rewrite list_upd_length; auto|]. destruct w; simpl; auto.
      * destruct (lookup_ch (d_ch o) nm) eqn:El.
        -- inv H. split; [apply SP3_upd_keep; auto|]. split; [simpl; auto|apply le_upd_dir].
        -- assert (Hi : forall fo, SP3 (upd_dir (fst (alloc_file s fo)) d (set_ch (d_ch o ++ [(nm, RFile (length (files s)))])))).
           { intros fo. apply SP3_upd_dir; [apply SP3_alloc_file; auto|]. intros o1 _ _. apply obj_refs_snoc.
             - eapply Forall_impl; [|exact (SP3_get _ _ _ HS Eo)]. intros r. apply rin_mono. apply (le_alloc_file s fo).
             - simpl. rewrite app_length. simpl. lia. }
           destruct w; [|destruct (lock_first ar)]; inv H.
           ++ split; [apply SP3_upd_keep; auto; apply Hi|]. split; [simpl; auto|].
              eapply le_sh_trans; [apply (le_alloc_file s)|]. eapply le_sh_trans; apply le_upd_dir.
           ++ split; [apply SP3_upd_keep; auto; apply Hi|]. split.
              ** simpl. unfold fok. simpl. rewrite app_length. simpl. lia.
              ** eapply le_sh_trans; [apply (le_alloc_file s)|]. eapply le_sh_trans; apply le_upd_dir.
           ++ split; [apply Hi|]. split; [|eapply le_sh_trans; [apply (le_alloc_file s)|apply le_upd_dir]].
              simpl. unfold dok, fok. simpl. rewrite list_upd_length, app_length. simpl. lia.
  - (* PWriterAcq *)
    destruct Hp as [Hd Hf].
    destruct (nth_error (files s) f) as [fo|] eqn:Ef; [|apply nth_None_ge in Ef; lia].
    destruct (f_holder fo); [discriminate|]. inv H.
    split; [apply SP3_upd_keep; auto; apply SP3_upd_file; auto|].
    split; [|eapply le_sh_trans; [apply le_upd_file|apply le_upd_dir]].
    simpl. unfold fok. simpl. rewrite list_upd_length. auto.
  - (* PWriting *)
    destruct (nth_error (files s) f) as [fo|] eqn:Ef; [|apply nth_None_ge in Ef; lia].
    destruct chunks; inv H; (split; [apply SP3_upd_file; auto|]); (split; [|apply le_upd_file]); simpl; auto.
    unfold fok. simpl. rewrite list_upd_length. auto.
  - (* PSnap *)
    destruct Hp as [Hd Hr].
    destruct (copy_ref (copy_fuel s) s src) as [[s1 r]|] eqn:Ec; [|discriminate]. inv H.
    destruct (copy_ref_refs _ _ _ _ _ HS Ec) as (Ha & Hb & Hc). split; auto. split; auto.
    simpl. split; auto. unfold dok. destruct Hc. lia.
  - (* PAdd *)
    destruct Hp as [Hd Hr].
    destruct (nth_error (dirs s) d) as [o|] eqn:Eo; [|apply nth_None_ge in Eo; lia].
    destruct (d_removed o).
    + inv H. split; auto. split; auto using le_sh_refl. apply goto_mk_refs; simpl; auto.
    + destruct (lookup_ch (d_ch o) nm) eqn:El; inv H; [simpl; auto using le_sh_refl|].
      split; [|split; [simpl; auto|apply le_upd_dir]].
      apply SP3_upd_dir; auto. intros o1 _ _. apply obj_refs_snoc; auto. exact (SP3_get _ _ _ HS Eo).
Qed.

Lemma start_refs s o : SP3 s -> next_refs s (start o).
Proof.
  intros HS. pose proof HS as [H0 _]. assert (Hr : rin s (RDir ROOT)) by exact H0.
  destruct o; simpl.
  - destruct (split_last p) as [[dp nm]|]; simpl; auto. apply goto_mk_refs; simpl; auto.
  - destruct (split_last p) as [[dp nm]|]; simpl; auto. apply goto_mk_refs; simpl; auto.
  - apply goto_mk_refs; simpl; auto.
  - destruct p; simpl; auto.
  - destruct p; simpl; auto.
  - apply goto_res_refs; auto.
  - apply goto_res_refs; auto.
  - destruct (split_last p) as [[dp nm]|]; simpl; auto. apply goto_res_refs; auto.
  - destruct (split_last dst) as [[dp nm]|]; simpl; auto.
    destruct k, src; simpl; auto; try (apply goto_mk_refs; simpl; auto).
Qed.

Definition LP3 (s : shared) (t : nat) (l : local) : Prop := pc_refs s (pc l).

Lemma apply_next_LP3 s t l n : next_refs s n -> LP3 s t (apply_next l n).
Proof. destruct n; simpl; auto. unfold LP3, finish. destruct (prog l); simpl; auto. Qed.

Lemma step_local_I3 ar t s l s' l' :
  SP3 s -> LP3 s t l -> step_local ar t s l = Some (s', l') ->
  SP3 s' /\ LP3 s' t l' /\ forall t' l'', t' <> t -> LP3 s t' l'' -> LP3 s' t' l''.
Proof.
  intros HS HL H. unfold step_local in H. unfold LP3 in HL.
  destruct (pc l) eqn:Ep.
  1: { destruct (prog l) as [|o rest] eqn:Eo; [discriminate|]. inv H. split; auto. split; auto.
       apply apply_next_LP3. apply start_refs; auto. }
  all: match type of H with context [step_pc ?a ?b ?c ?p] =>
         destruct (step_pc a b c p) as [[s1 n]|] eqn:Es; [|discriminate]; inv H;
         destruct (step_pc_refs _ _ _ _ _ _ HS HL Es) as (Ha & Hb & Hc);
         split; [exact Ha|split; [apply apply_next_LP3; auto|
                                  intros t' l'' _ Hx; unfold LP3 in *; eapply pc_refs_mono; eauto]]
       end.
Qed.

Definition I3 : state -> Prop := TInv SP3 LP3.
Lemma I3_step ar t st st' : I3 st -> step ar t st = Some st' -> I3 st'.
Proof. apply step_lift. intros. eapply step_local_I3; eauto. Qed.

Lemma good_shared_SP3 s : good_shared s = true -> SP3 s.
Proof.
  unfold good_shared. intros H. repeat (apply andb_true_iff in H as [H ?]).
  split; [apply Nat.ltb_lt; auto|]. apply Forall_forall. intros o Ho. rewrite forallb_forall in H2.
  specialize (H2 o Ho). unfold dir_ok in H2. repeat (apply andb_true_iff in H2 as [H2 ?]).
  unfold obj_refs. apply Forall_forall. intros r Hr. rewrite forallb_forall in H3. specialize (H3 r Hr).
  destruct r; simpl in *; apply Nat.ltb_lt; auto.
Qed.

Theorem no_panic ar s0 progs sched t l :
  good_shared s0 = true ->
  nth_error (ths (run ar sched (boot s0 progs))) t = Some l -> pc l <> PPanic.
Proof.
  intros Hs E.
  assert (HI : I3 (run ar sched (boot s0 progs))).
  { apply run_inv; [apply I3_step|]. split; [apply good_shared_SP3; auto|].
    intros t' l' E'. apply boot_nth in E' as (p & _ & ->). exact I. }
  destruct HI as [_ HL]. specialize (HL _ _ E). unfold LP3 in HL. intros Hp. rewrite Hp in HL. exact HL.
Qed.

(** * No removals: a binding, once visible, stays (same object) *)
Definition ext (s s' : shared) : Prop :=
  forall cur p r, walk s cur p = Some r -> walk s' cur p = Some r.

Lemma ext_refl s : ext s s. Proof. intros cur p r H; exact H. Qed.
Lemma ext_trans a b c : ext a b -> ext b c -> ext a c.
Proof. intros H1 H2 cur p r H. apply H2, H1, H. Qed.

Lemma ext_dirs s s' :
  (forall d o, nth_error (dirs s) d = Some o ->
     exists o', nth_error (dirs s') d = Some o' /\
                forall n r, lookup_ch (d_ch o) n = Some r -> lookup_ch (d_ch o') n = Some r) ->
  ext s s'.
Proof.
  intros H cur p. revert cur. induction p as [|n p IH]; intros cur r Hw; simpl in *; auto.
  destruct cur as [d|f]; [|discriminate].
  destruct (nth_error (dirs s) d) as [o|] eqn:Eo; [|discriminate].
  destruct (H _ _ Eo) as (o' & Eo' & Hl). rewrite Eo'.
  destruct (lookup_ch (d_ch o) n) as [r1|] eqn:El; [|discriminate].
  rewrite (Hl _ _ El). apply IH. exact Hw.
Qed.

Lemma ext_same s s' : dirs s' = dirs s -> ext s s'.
Proof. intros E. apply ext_dirs. intros d o Eo. exists o. rewrite E. auto. Qed.

Lemma ext_upd_dir s d f :
  (forall o n r, nth_error (dirs s) d = Some o -> lookup_ch (d_ch o) n = Some r -> lookup_ch (d_ch (f o)) n = Some r) ->
  ext s (upd_dir s d f).
Proof.
  intros Hf. apply ext_dirs. intros d' o Eo. simpl. destruct (Nat.eq_dec d d') as [->|Hn].
  - exists (f o). split; [apply nth_list_upd_eq; auto|]. intros n r. apply Hf; auto.
  - exists o. split; [rewrite nth_list_upd_neq; auto|auto].
Qed.

Lemma ext_alloc_dir s o : ext s (fst (alloc_dir s o)).
Proof. apply ext_dirs. intros d o' Eo. exists o'. split; auto. simpl. apply nth_error_app_l. exact Eo. Qed.

Lemma lookup_ch_snoc ch e n r : lookup_ch ch n = Some r -> lookup_ch (ch ++ [e]) n = Some r.
Proof.
  induction ch as [|x ch IH]; [discriminate|]. simpl app. rewrite !lookup_ch_cons.
  destruct (bytes_eqb (fst x) n); auto.
Qed.

Lemma copy_ref_ext n s r s' r' : copy_ref n s r = Some (s', r') -> ext s s'.
Proof.
  apply (copy_ref_rel ext); auto using ext_refl, ext_alloc_dir.
  - intros a b c. apply ext_trans.
  - intros a f fo _ _. apply ext_same. reflexivity.
Qed.

Definition pc_norm (p : pcs) : Prop :=
  match p with
  | PRes _ _ (ARemove _ _) | PRemGap _ _ _ | PRemOld _ _ => False
  | _ => True
  end.
Definition next_norm (n : next) : Prop := match n with NPc p => pc_norm p | NRet _ => True end.
Definition ares_norm (a : ares) : Prop := match a with ARemove _ _ => False | _ => True end.

Lemma goto_mk_norm full cur rest a : next_norm (goto_mk full cur rest a).
Proof. destruct rest; simpl; auto. destruct a; simpl; auto. Qed.
Lemma after_res_norm r a : ares_norm a -> next_norm (after_res r a).
Proof. destruct a, r; simpl; auto; try tauto; destruct k; simpl; auto; intros _; apply goto_mk_norm. Qed.
Lemma goto_res_norm r rest a : ares_norm a -> next_norm (goto_res r rest a).
Proof. destruct rest; simpl; auto using after_res_norm. Qed.
Lemma start_norm o : is_remove o = false -> next_norm (start o).
Proof.
  destruct o; simpl; intros Hr; try discriminate.
  - destruct (split_last p) as [[dp nm]|]; simpl; auto. apply goto_mk_norm.
  - destruct (split_last p) as [[dp nm]|]; simpl; auto. apply goto_mk_norm.
  - apply goto_mk_norm.
  - destruct p; simpl; auto.
  - destruct p; simpl; auto.
  - apply goto_res_norm; simpl; auto.
  - apply goto_res_norm; simpl; auto.
  - destruct (split_last dst) as [[dp nm]|]; simpl; auto.
    destruct k, src; simpl; auto; try apply goto_mk_norm.
Qed.

Lemma step_pc_ext ar t s p s' n :
  pc_norm p -> step_pc ar t s p = Some (s', n) -> ext s s' /\ next_norm n.
Proof.
  intros Hp H. destruct p; simpl in H; try discriminate; simpl in Hp; try tauto.
  - (* PRes *)
    assert (Ha : ares_norm a) by (destruct a; simpl in *; auto).
    brk H; inv H; split; auto using ext_refl, after_res_norm, goto_res_norm; simpl; auto.
  - brk H; inv H; split; simpl; auto using ext_refl.
  - brk H; inv H; split; simpl; auto using ext_refl.
  - brk H; inv H; split; simpl; auto using ext_refl. apply ext_same; reflexivity.
  - brk H; inv H; split; simpl; auto using ext_refl. apply ext_same; reflexivity.
  - (* PMk *)
    destruct rest as [|c rest']; [inv H; split; auto using ext_refl; destruct a; simpl; auto|].
    destruct (nth_error (dirs s) cur) as [o|] eqn:Eo; [|inv H; simpl; auto using ext_refl].
    destruct (lookup_ch (d_ch o) c) as [[c'|f']|] eqn:El.
    + inv H. split; auto using ext_refl, goto_mk_norm.
    + destruct second; inv H; simpl; auto using ext_refl.
    + destruct second; simpl in H.
      * destruct (d_removed o); inv H; [split; auto using ext_refl, goto_mk_norm|].
        split; [|apply goto_mk_norm].
        eapply ext_trans; [apply (ext_alloc_dir s (mkDir [] false None))|].
        apply ext_upd_dir. intros o1 n0 r0 E1 El1. simpl.
        simpl in E1. rewrite (nth_error_app_l _ _ _ _ Eo) in E1. inv E1. apply lookup_ch_snoc; auto.
      * inv H. simpl; auto using ext_refl.
  - (* PLockL *) brk H; inv H; split; simpl; auto using ext_refl. apply ext_upd_dir. intros; simpl; auto.
  - (* PInL *)
    destruct (nth_error (dirs s) d) as [o|] eqn:Eo; [|inv H; simpl; auto using ext_refl].
    assert (Hrel : forall s1, dirs s1 = dirs s -> ext s (release_L s1 d)).
    { intros s1 E1. eapply ext_trans; [apply ext_same; exact E1|]. apply ext_upd_dir. intros; simpl; auto. }
    destruct found as [[c|f]|].
    + inv H. split; simpl; auto.
    + brk H; inv H; split; simpl; auto using ext_refl.
    + destruct (d_removed o).
      * inv H. split; auto using goto_mk_norm.
      * destruct (lookup_ch (d_ch o) nm) eqn:El.
        -- inv H. split; simpl; auto.
        -- assert (Hi : forall fo, ext s (upd_dir (fst (alloc_file s fo)) d (set_ch (d_ch o ++ [(nm, RFile (length (files s)))])))).
           { intros fo. eapply ext_trans; [apply (ext_same s (fst (alloc_file s fo))); reflexivity|].
             apply ext_upd_dir. intros o1 n0 r0 E1 El1. simpl in *. rewrite Eo in E1. inv E1. apply lookup_ch_snoc; auto. }
           destruct w; [|destruct (lock_first ar)]; inv H; (split; [|simpl; auto]).
           ++ eapply ext_trans; [apply Hi|]. apply ext_upd_dir. intros; simpl; auto.
           ++ eapply ext_trans; [apply Hi|]. apply ext_upd_dir. intros; simpl; auto.
           ++ apply Hi.
  - (* PWriterAcq *)
    brk H; inv H; split; simpl; auto using ext_refl.
    eapply ext_trans; [apply (ext_same s (upd_file s f (fun _ => mkFile [] (Some t)))); reflexivity|]. apply ext_upd_dir. intros; simpl; auto.
  - brk H; inv H; split; simpl; auto using ext_refl; apply ext_same; reflexivity.
  - (* PSnap *)
    destruct (copy_ref (copy_fuel s) s src) as [[s1 r]|] eqn:Ec; [|discriminate]. inv H.
    split; simpl; auto. eapply copy_ref_ext; eauto.
  - (* PAdd *)
    destruct (nth_error (dirs s) d) as [o|] eqn:Eo; [|inv H; simpl; auto using ext_refl].
    destruct (d_removed o); [inv H; split; auto using ext_refl, goto_mk_norm|].
    destruct (lookup_ch (d_ch o) nm) eqn:El; inv H; split; simpl; auto using ext_refl.
    apply ext_upd_dir. intros o1 n0 r0 E1 El1. simpl. rewrite Eo in E1. inv E1. apply lookup_ch_snoc; auto.
Qed.

Definition LPn (s : shared) (t : nat) (l : local) : Prop :=
  pc_norm (pc l) /\ forallb (fun o => negb (is_remove o)) (prog l) = true.
Definition In_norm (st : state) : Prop := forall t l, nth_error (ths st) t = Some l -> LPn (sh st) t l.

Lemma step_norm ar t st st' :
  In_norm st -> step ar t st = Some st' -> In_norm st' /\ ext (sh st) (sh st').
Proof.
  intros HI Hst. unfold step in Hst.
  destruct (nth_error (ths st) t) as [l|] eqn:El; [|discriminate].
  destruct (step_local ar t (sh st) l) as [[s' l']|] eqn:Es; [|discriminate]. inv Hst. simpl.
  destruct (HI _ _ El) as [Hp Hprog].
  assert (Hres : LPn s' t l' /\ ext (sh st) s').
  { unfold step_local in Es. destruct (pc l) eqn:Ep.
    1: { destruct (prog l) as [|o rest] eqn:Eo; [discriminate|]. inv Es. split; auto using ext_refl.
         simpl in Hprog. apply andb_true_iff in Hprog as [Ho Hrest].
         assert (Hn : next_norm (start o)) by (apply start_norm; destruct (is_remove o); auto; discriminate).
         destruct (start o) as [p|r]; simpl in *.
         - split; auto. rewrite Eo. simpl. rewrite Ho. auto.
         - unfold finish. rewrite Eo. simpl. split; auto. }
    all: match type of Es with context [step_pc ?a ?b ?c ?p] =>
           destruct (step_pc a b c p) as [[s1 n]|] eqn:Esp; [|discriminate]; inv Es;
           destruct (step_pc_ext _ _ _ _ _ _ Hp Esp) as [Ha Hb]; split; auto;
           destruct n as [p'|r]; simpl in *; [split; auto|];
           unfold finish; destruct (prog l) as [|oo prest]; simpl in *; [split; auto|];
           apply andb_true_iff in Hprog as [_ Hrest]; split; auto
         end. }
  destruct Hres as [Hl He]. split; auto.
  intros t' l'' E. apply nth_list_upd in E as [[Hn E]|[Hn (x & E & ->)]].
  - exact (HI _ _ E).
  - exact Hl.
Qed.

Theorem no_remove_monotone ar s0 progs sched1 sched2 q r :
  forallb (forallb (fun o => negb (is_remove o))) progs = true ->
  walk_root (sh (run ar sched1 (boot s0 progs))) q = Some r ->
  walk_root (sh (run ar (sched1 ++ sched2) (boot s0 progs))) q = Some r.
Proof.
  intros Hp. rewrite run_app.
  assert (H1 : In_norm (run ar sched1 (boot s0 progs))).
  { apply run_inv; [intros t st st' HI Hs; eapply step_norm; eauto|].
    intros t l E. apply boot_nth in E as (p & E & ->). split; simpl; auto.
    rewrite forallb_forall in Hp. apply Hp. eapply nth_error_In; eauto. }
  generalize dependent (run ar sched1 (boot s0 progs)). clear Hp.
  induction sched2 as [|t sched2 IH]; intros st HI Hw; [exact Hw|].
  change (run ar (t :: sched2) st) with (run ar sched2 (step_or_stay ar st t)).
  unfold step_or_stay. destruct (step ar t st) as [st'|] eqn:Es.
  - destruct (step_norm _ _ _ _ HI Es) as [HI' He]. apply IH; auto. apply He. exact Hw.
  - apply IH; auto.
Qed.

Lemma f28_no_deadlock_explored : forallb (fun sc => explore cur 60 final (sc_init sc)) f28_scenarios = true.
Proof. vm_compute. reflexivity. Qed.

Theorem no_stuck_f28 sc sched :
  In sc f28_scenarios -> (forall t, step cur t (run cur sched (sc_init sc)) = None) ->
  final (run cur sched (sc_init sc)) = true.
Proof.
  intros Hin Hn. pose proof f28_no_deadlock_explored as H. rewrite forallb_forall in H.
  eapply explore_sound; eauto.
Qed.

(** Writer on a NEW file inserts it empty and takes the data lock afterwards: a concurrent
    ReadFile can return the empty content, which nobody wrote. *)
Definition st_writer_window : state := boot empty_shared [[CWriter [nX] [[1];[2]]]; [CRead [nX]]].
Definition sched_writer_window : list nat := [0;0;0;1;1;1;0;0;0;0]%nat.
Theorem writer_creation_window :
  let st := run before_288e3e2 sched_writer_window st_writer_window in
  final st = true /\ results_of st 1 = [(CRead [nX], QData [])] /\
  results_of st 0 = [(CWriter [nX] [[1];[2]], QOk)] /\ lookup (abs (sh st)) [nX] = Some (F [1;2]).
Proof. vm_compute. repeat split; reflexivity. Qed.

(** current code: the window is closed — over ALL schedules of the same configuration the reader
    gets an error (file not there yet) or the whole value, never the empty content *)
Definition window_closed (st : state) : bool :=
  final st &&
  match results_of st 1 with
  | [(_, QErr)] => true
  | [(_, QData v)] => bytes_eqb v [1;2]
  | _ => false
  end.
Lemma writer_window_closed_explored : explore cur 40 window_closed st_writer_window = true.
Proof. vm_compute. reflexivity. Qed.
Theorem writer_window_closed sched :
  (forall t, step cur t (run cur sched st_writer_window) = None) ->
  window_closed (run cur sched st_writer_window) = true.
Proof. intros Hn. eapply explore_sound; eauto. exact writer_window_closed_explored. Qed.

Theorem values_current s0 progs sched t o v :
  good_shared s0 = true ->
  In (o, QData v) (results_of (run cur sched (boot s0 progs)) t) ->
  In v (map f_data (files s0)) \/
  exists l p, In p progs /\ In l p /\
    match l with CWrite _ d => v = d | CWriter _ c => v = concat c | _ => False end.
Proof.
  intros Hs Hin. destruct (values cur s0 progs sched Hs) as [_ H]. apply H in Hin. clear H.
  unfold vals_of in Hin. apply in_app_or in Hin as [Hin|Hin]; [left; exact Hin|right].
  apply in_flat_map in Hin as (l0 & Hl0 & Hin). simpl in Hl0.
  apply in_map_iff in Hl0 as (p & <- & Hp). simpl in Hin.
  apply in_flat_map in Hin as (l & Hl & Hv). exists l, p. split; auto. split; auto.
  destruct l; simpl in Hv; try contradiction; destruct Hv as [Hv|[]]; auto.
Qed.
