(** Proofs about Model/Stream.v. *)
From GC Require Import Common.Base Model.Paths Model.Fs Model.Stream Proofs.Paths Proofs.Fs.
From Coq Require Import Lia.

(** * Writer *)

Lemma fold_w_write_full chunks : forall c,
  fold_left w_write chunks (c, length c) = (c ++ concat chunks, length (c ++ concat chunks)).
Proof.
  induction chunks as [|x l IH]; intros c; simpl.
  - rewrite app_nil_r. reflexivity.
  - rewrite firstn_all. rewrite skipn_all2 by lia. rewrite app_nil_r.
    replace (length c + length x)%nat with (length (c ++ x)) by (rewrite app_length; reflexivity).
    rewrite IH. rewrite <- app_assoc. reflexivity.
Qed.

Theorem writer_truncate_exact old chunks : writer_result Truncate old chunks = concat chunks.
Proof.
  unfold writer_result, w_open. change ([] : bytes, O) with (([] : bytes), length ([] : bytes)).
  rewrite fold_w_write_full. reflexivity.
Qed.

Theorem writer_append_result old chunks :
  writer_result Append old chunks = match old with Some b => b | None => [] end ++ concat chunks.
Proof. unfold writer_result, w_open. rewrite fold_w_write_full. reflexivity. Qed.

(** The tree-level statement: Writer(s) + writes + Close through the filespace step function. *)
Theorem writer_step_exact t s chunks p :
  WF t -> reduce_node s = Some p -> snd (mem_step t (OWriter s chunks)) = RUnit ->
  let t' := fst (mem_step t (OWriter s chunks)) in
  WF t' /\ lookup t' p = Some (F (concat chunks)) /\
  (forall q, q <> p -> lookup t q <> None -> lookup t' q = lookup t q).
Proof.
  intros HWF Hr Hok. cbn [mem_step] in *. rewrite Hr in *.
  destruct (reduce_node_good _ _ Hr) as [Hg Hne].
  destruct (write_at t p (concat chunks)) as [t1|] eqn:E; cbn in *; [|discriminate].
  destruct (write_at_spec _ _ _ _ HWF Hg Hne E) as (W & L & _ & Fr & _). auto.
Qed.

Lemma parent_is_dir t p e : WF t -> p <> [] -> lookup t p = Some e -> is_dir_at t (removelast p) = true.
Proof.
  intros HWF Hne Hl. apply lookup_In in Hl; [|exact Hne]. destruct HWF as [_ H].
  destruct (H _ _ Hl) as (_ & _ & Hd). exact Hd.
Qed.

(** The writer succeeds whenever nothing is in the way: the target is absent or a file and the
    parent chain can be made. *)
Lemma write_at_file_ok t p old data :
  WF t -> good_path p = true -> p <> [] -> lookup t p = Some (F old) -> exists t', write_at t p data = Some t'.
Proof.
  intros HWF Hg Hne Hl. unfold write_at.
  assert (Hpar : is_dir_at t (removelast p) = true) by (eapply parent_is_dir; eassumption).
  assert (Hm : mkdir_all t (removelast p) = Some t).
  { unfold mkdir_all. apply mkdir_chain_noop. intros q Hin. unfold prefixes in Hin.
    destruct (prefixes_from_In _ _ _ Hin) as (a & b & Hp & Hna & Hq). simpl in Hq. subst q.
    destruct b as [|y b]; [rewrite app_nil_r in Hp; rewrite <- Hp; exact Hpar|].
    apply (WF_prefix_dir t HWF (y :: b) a); [discriminate|].
    unfold exists_at. rewrite <- Hp. unfold is_dir_at in Hpar.
    destruct (lookup t (removelast p)); [reflexivity|discriminate]. }
  rewrite Hm, Hl. eauto.
Qed.

(** * Reader *)

Lemma read_calls_eager data bufs : read_calls EofEager data bufs = read_seq data bufs.
Proof. reflexivity. Qed.

Definition chunk_le (cb : (bytes * bool) * nat) : Prop := (length (fst (fst cb)) <= snd cb)%nat.

(** every chunk fits its buffer (chunks are paired with the buffer sizes in order) *)
Lemma read_seq_fits bufs : forall data,
  Forall chunk_le (combine (read_seq data bufs) bufs).
Proof.
  induction bufs as [|n bufs IH]; intros data; simpl; [constructor|].
  destruct (skipn n data) eqn:E; simpl.
  - constructor; [|constructor]. unfold chunk_le; simpl. rewrite firstn_length. lia.
  - constructor; [|apply IH]. unfold chunk_le; simpl. rewrite firstn_length. lia.
Qed.

Lemma read_lazy_fits bufs : forall data,
  Forall chunk_le (combine (read_lazy data bufs) bufs).
Proof.
  induction bufs as [|n bufs IH]; intros data; simpl; [constructor|].
  destruct n as [|n].
  - constructor; [|apply IH]. unfold chunk_le; simpl. lia.
  - destruct data as [|b data'].
    + constructor; [|constructor]. unfold chunk_le; simpl. lia.
    + constructor; [|apply IH]. unfold chunk_le. cbn [fst snd]. rewrite firstn_length. lia.
Qed.

Lemma read_calls_length st bufs : forall data, (length (read_calls st data bufs) <= length bufs)%nat.
Proof.
  destruct st; simpl; induction bufs as [|n bufs IH]; intros data; simpl; try lia.
  - destruct (skipn n data); simpl; [lia|]. specialize (IH (b :: l)). lia.
  - destruct n; simpl; [specialize (IH data); lia|].
    destruct data as [|b0 data0]; simpl; [lia|]. specialize (IH (skipn n data0)). simpl in IH. lia.
Qed.

(** the concatenation of the chunks is a prefix of the data; it is all of it once EOF was seen *)
Lemma read_seq_prefix bufs : forall data,
  exists rest, data = chunks_concat (read_seq data bufs) ++ rest /\
               (saw_eof (read_seq data bufs) = true -> rest = []).
Proof.
  induction bufs as [|n bufs IH]; intros data; simpl.
  - exists data. split; [reflexivity|discriminate].
  - destruct (skipn n data) as [|b r] eqn:E.
    + exists []. unfold chunks_concat; simpl. rewrite !app_nil_r. split; [|reflexivity].
      rewrite <- (firstn_skipn n data) at 1. rewrite E, app_nil_r. reflexivity.
    + destruct (IH (b :: r)) as (rest & H1 & H2). exists rest. unfold chunks_concat in *; simpl. split.
      * rewrite <- app_assoc, <- H1, <- E. symmetry. apply firstn_skipn.
      * exact H2.
Qed.

Lemma read_lazy_prefix bufs : forall data,
  exists rest, data = chunks_concat (read_lazy data bufs) ++ rest /\
               (saw_eof (read_lazy data bufs) = true -> rest = []).
Proof.
  induction bufs as [|n bufs IH]; intros data; simpl.
  - exists data. split; [reflexivity|discriminate].
  - destruct n as [|n].
    + destruct (IH data) as (rest & H1 & H2). exists rest. unfold chunks_concat in *; simpl. auto.
    + destruct data as [|b data'].
      * exists []. split; reflexivity.
      * destruct (IH (skipn (S n) (b :: data'))) as (rest & H1 & H2). exists rest.
        unfold chunks_concat in *. cbn [map fst concat saw_eof existsb snd orb]. split.
        -- rewrite <- app_assoc, <- H1. symmetry. apply firstn_skipn.
        -- exact H2.
Qed.

(** no early EOF / EOF is reached: with all buffer sizes >= 1 and more calls than bytes *)
Lemma read_seq_eof bufs : forall data,
  Forall (fun n => (1 <= n)%nat) bufs -> (length data < length bufs)%nat -> saw_eof (read_seq data bufs) = true.
Proof.
  induction bufs as [|n bufs IH]; intros data Hall Hlen; simpl in *; [lia|].
  inversion Hall; subst. destruct (skipn n data) as [|b r] eqn:E; [reflexivity|].
  unfold saw_eof in *. cbn [existsb snd orb]. apply IH; [assumption|].
  rewrite <- E. rewrite skipn_length. destruct data as [|b0 d0]; [rewrite skipn_nil in E; discriminate|]. cbn [length] in *. lia.
Qed.

Lemma read_lazy_eof bufs : forall data,
  Forall (fun n => (1 <= n)%nat) bufs -> (length data < length bufs)%nat -> saw_eof (read_lazy data bufs) = true.
Proof.
  induction bufs as [|n bufs IH]; intros data Hall Hlen; simpl in *; [lia|].
  inversion Hall; subst. destruct n as [|n]; [lia|].
  destruct data as [|b data']; [reflexivity|].
  unfold saw_eof in *. cbn [existsb snd orb]. apply IH; [assumption|].
  rewrite skipn_length. cbn [length] in *. lia.
Qed.

(** a zero-size buffer makes no progress, and signals EOF only at the end *)
Lemma read_one_zero st rest : fst (read_one st rest 0) = [] /\ (snd (read_one st rest 0) = true -> rest = []).
Proof.
  destruct st; simpl; split; auto; try discriminate.
  destruct rest; [reflexivity|discriminate].
Qed.

Lemma existsb_In_snd (l : list (bytes * bool)) : saw_eof l = true -> exists c, In (c, true) l.
Proof.
  unfold saw_eof. intros H. apply existsb_exists in H as ((c, b) & Hin & Hb). simpl in Hb. subst. eauto.
Qed.

(** EOF, when reported, is reported by the LAST call of the session, and only once everything
    was delivered. *)
Lemma read_seq_eof_last bufs : forall data pre c post,
  read_seq data bufs = pre ++ (c, true) :: post -> post = [] /\ chunks_concat (pre ++ [(c, true)]) = data.
Proof.
  induction bufs as [|n bufs IH]; intros data pre c post H; simpl in H.
  - destruct pre; discriminate.
  - destruct (skipn n data) as [|b r] eqn:E.
    + destruct pre as [|x pre]; simpl in H.
      * inversion H; subst. split; [reflexivity|]. unfold chunks_concat; simpl. rewrite app_nil_r.
        rewrite <- (firstn_skipn n data) at 2. rewrite E, app_nil_r. reflexivity.
      * inversion H. destruct pre; discriminate.
    + destruct pre as [|x pre]; simpl in H; [inversion H|].
      inversion H; subst x. destruct (IH _ _ _ _ H2) as [A Bq]. split; [exact A|].
      unfold chunks_concat in *; simpl. rewrite Bq, <- E. apply firstn_skipn.
Qed.

Lemma read_lazy_eof_last bufs : forall data pre c post,
  read_lazy data bufs = pre ++ (c, true) :: post -> post = [] /\ chunks_concat (pre ++ [(c, true)]) = data.
Proof.
  induction bufs as [|n bufs IH]; intros data pre c post H; simpl in H.
  - destruct pre; discriminate.
  - destruct n as [|n].
    + destruct pre as [|x pre]; simpl in H; [inversion H|]. inversion H; subst x.
      destruct (IH _ _ _ _ H2) as [A Bq]. split; [exact A|]. unfold chunks_concat in *; simpl. exact Bq.
    + destruct data as [|b data'].
      * destruct pre as [|x pre]; simpl in H.
        -- inversion H; subst. split; reflexivity.
        -- inversion H. destruct pre; discriminate.
      * destruct pre as [|x pre]; simpl in H; [inversion H|]. inversion H; subst x.
        destruct (IH _ _ _ _ H2) as [A Bq]. split; [exact A|].
        unfold chunks_concat in *. cbn [map fst concat app]. rewrite Bq. cbn [app]. f_equal. apply firstn_skipn.
Qed.

Theorem reader_exact st data bufs :
  let r := read_calls st data bufs in
  Forall chunk_le (combine r bufs) /\
  (length r <= length bufs)%nat /\
  (exists rest, data = chunks_concat r ++ rest /\ (saw_eof r = true -> rest = [])) /\
  (forall pre c post, r = pre ++ (c, true) :: post -> post = [] /\ chunks_concat r = data) /\
  (Forall (fun n => (1 <= n)%nat) bufs -> (length data < length bufs)%nat -> saw_eof r = true).
Proof.
  cbv zeta. split; [|split; [|split; [|split]]].
  - destruct st; [apply read_seq_fits|apply read_lazy_fits].
  - apply read_calls_length.
  - destruct st; [apply read_seq_prefix|apply read_lazy_prefix].
  - intros pre c post H. destruct st; simpl in H.
    + destruct (read_seq_eof_last _ _ _ _ _ H) as [A Bq]. subst post. split; [reflexivity|].
      simpl. rewrite H. exact Bq.
    + destruct (read_lazy_eof_last _ _ _ _ _ H) as [A Bq]. subst post. split; [reflexivity|].
      simpl. rewrite H. exact Bq.
  - destruct st; [apply read_seq_eof|apply read_lazy_eof].
Qed.

(** * io.Copy *)

Lemma read_one_spec st rest B : (1 <= B)%nat ->
  let (chunk, eof) := read_one st rest B in
  chunk = firstn B rest /\
  (chunk = [] -> rest = [] /\ eof = true) /\
  (eof = true -> skipn (length chunk) rest = []).
Proof.
  intros HB. destruct st; simpl.
  - split; [reflexivity|]. split.
    + intros H. destruct rest as [|b r]; [rewrite skipn_nil; auto|]. destruct B; [lia|discriminate].
    + intros H. rewrite firstn_length. destruct (skipn B rest) eqn:E; [|discriminate].
      destruct (Nat.le_ge_cases B (length rest)).
      * rewrite Nat.min_l by lia. exact E.
      * rewrite Nat.min_r by lia. apply skipn_all.
  - destruct B as [|B]; [lia|]. destruct rest as [|b r].
    + split; [reflexivity|]. split; auto.
    + split; [reflexivity|]. split; [discriminate|discriminate].
Qed.

(** An Ok result delivered exactly the remaining bytes; the counters only grow; no planned fault
    lies in the range of calls made. *)
Lemma io_copy_loop_ok fuel pl st B : (1 <= B)%nat -> forall rest acc kr kw acc' kr' kw',
  io_copy_loop fuel pl st B rest acc kr kw = (COk, acc', kr', kw') ->
  acc' = acc ++ rest /\ (kr < kr')%nat /\ (kw <= kw')%nat /\
  (forall j, (kr <= j < kr')%nat -> pl (FRead j) = false) /\
  (forall j, (kw <= j < kw')%nat -> pl (FWrite j) = false).
Proof.
  intros HB. induction fuel as [|fuel IH]; intros rest acc kr kw acc' kr' kw' H; simpl in H; [discriminate|].
  destruct (pl (FRead kr)) eqn:Er; [discriminate|].
  pose proof (read_one_spec st rest B HB) as Hs. destruct (read_one st rest B) as [chunk eof].
  destruct Hs as (Hc & Hempty & Heof).
  destruct chunk as [|b chunk].
  - destruct (Hempty eq_refl) as [Hr He]. subst rest eof. inversion H; subst.
    rewrite app_nil_r. repeat split; try lia;
      intros j Hj; first [lia | assert (j = kr) by lia; subst; assumption | assert (j = kw) by lia; subst; assumption].
  - destruct (pl (FWrite kw)) eqn:Ew; [discriminate|]. destruct eof.
    + inversion H; subst. specialize (Heof eq_refl).
      assert (Hrest : rest = b :: chunk).
      { assert (Hlen : length (b :: chunk) = Nat.min B (length rest)) by (rewrite Hc; apply firstn_length).
        rewrite Hlen in Heof.
        destruct (Nat.le_ge_cases B (length rest)).
        - rewrite Nat.min_l in Heof by lia. rewrite Hc. rewrite <- (firstn_skipn B rest) at 1.
          rewrite Heof, app_nil_r. reflexivity.
        - rewrite Hc. rewrite firstn_all2 by lia. reflexivity. }
      rewrite Hrest. repeat split; try lia;
        intros j Hj; first [lia | assert (j = kr) by lia; subst; assumption | assert (j = kw) by lia; subst; assumption].
    + apply IH in H. destruct H as (Ha & Hk1 & Hk2 & Hf1 & Hf2). repeat split; try lia.
      * rewrite Ha, <- app_assoc. f_equal. rewrite Hc.
        destruct (Nat.le_ge_cases B (length rest)).
        -- rewrite firstn_length, Nat.min_l by lia. apply firstn_skipn.
        -- rewrite firstn_all2 by lia. rewrite skipn_all. apply app_nil_r.
      * intros j Hj. destruct (Nat.eq_dec j kr); [subst; exact Er|apply Hf1; lia].
      * intros j Hj. destruct (Nat.eq_dec j kw); [subst; exact Ew|apply Hf2; lia].
Qed.

(** Fuel: length rest + 1 iterations are enough (every iteration that goes round consumed a byte). *)
Lemma io_copy_loop_fuel pl st B : (1 <= B)%nat -> forall fuel rest acc kr kw,
  (length rest < fuel)%nat -> fst (fst (fst (io_copy_loop fuel pl st B rest acc kr kw))) <> CFuel.
Proof.
  intros HB. induction fuel as [|fuel IH]; intros rest acc kr kw Hlen; [lia|]. simpl.
  destruct (pl (FRead kr)); [simpl; discriminate|].
  pose proof (read_one_spec st rest B HB) as Hs. destruct (read_one st rest B) as [chunk eof].
  destruct Hs as (Hc & Hempty & Heof).
  destruct chunk as [|b chunk].
  - destruct (Hempty eq_refl) as [_ He]. subst eof. simpl. discriminate.
  - destruct (pl (FWrite kw)); [simpl; discriminate|]. destruct eof; [simpl; discriminate|].
    apply IH. rewrite skipn_length.
    assert (length (b :: chunk) <= length rest)%nat by (rewrite Hc, firstn_length; lia).
    simpl in *. lia.
Qed.

(** Without a planned fault in range the loop ends Ok. *)
Lemma io_copy_loop_nofault pl st B : (1 <= B)%nat -> forall fuel rest acc kr kw,
  (length rest < fuel)%nat ->
  (forall j, (kr <= j)%nat -> pl (FRead j) = false) -> (forall j, (kw <= j)%nat -> pl (FWrite j) = false) ->
  fst (fst (fst (io_copy_loop fuel pl st B rest acc kr kw))) = COk.
Proof.
  intros HB. induction fuel as [|fuel IH]; intros rest acc kr kw Hlen Hr Hw; [lia|]. simpl.
  rewrite (Hr kr) by lia.
  pose proof (read_one_spec st rest B HB) as Hs. destruct (read_one st rest B) as [chunk eof].
  destruct Hs as (Hc & Hempty & Heof).
  destruct chunk as [|b chunk].
  - destruct (Hempty eq_refl) as [_ He]. subst eof. reflexivity.
  - rewrite (Hw kw) by lia. destruct eof; [reflexivity|].
    apply IH.
    + rewrite skipn_length.
      assert (length (b :: chunk) <= length rest)%nat by (rewrite Hc, firstn_length; lia).
      simpl in *. lia.
    + intros j Hj. apply Hr. lia.
    + intros j Hj. apply Hw. lia.
Qed.

(** The number of calls of an Ok run does not depend on the plan. *)
Lemma io_copy_loop_det st B fuel1 : forall fuel2 p1 p2 rest a1 a2 kr kw a1' a2' kr1 kw1 kr2 kw2,
  io_copy_loop fuel1 p1 st B rest a1 kr kw = (COk, a1', kr1, kw1) ->
  io_copy_loop fuel2 p2 st B rest a2 kr kw = (COk, a2', kr2, kw2) ->
  kr1 = kr2 /\ kw1 = kw2.
Proof.
  induction fuel1 as [|fuel1 IH]; intros fuel2 p1 p2 rest a1 a2 kr kw a1' a2' kr1 kw1 kr2 kw2 H1 H2;
    simpl in H1; [discriminate|].
  destruct fuel2 as [|fuel2]; simpl in H2; [discriminate|].
  destruct (p1 (FRead kr)); [discriminate|]. destruct (p2 (FRead kr)); [discriminate|].
  destruct (read_one st rest B) as [chunk eof]. destruct chunk as [|b chunk].
  - destruct eof.
    + inversion H1; inversion H2; subst. auto.
    + eapply IH; eassumption.
  - destruct (p1 (FWrite kw)); [discriminate|]. destruct (p2 (FWrite kw)); [discriminate|].
    destruct eof.
    + inversion H1; inversion H2; subst. auto.
    + eapply IH; eassumption.
Qed.

Theorem io_copy_exact pl st B data kr kw : (1 <= B)%nat ->
  fst (fst (fst (io_copy pl st B data kr kw))) <> CFuel /\
  (forall acc kr' kw', io_copy pl st B data kr kw = (COk, acc, kr', kw') -> acc = data) /\
  ((forall f, pl f = false) -> exists kr' kw', io_copy pl st B data kr kw = (COk, data, kr', kw')).
Proof.
  intros HB. unfold io_copy. split; [|split].
  - apply io_copy_loop_fuel; [exact HB|lia].
  - intros acc kr' kw' H. apply (io_copy_loop_ok _ _ _ _ HB) in H. destruct H as [H _]. exact H.
  - intros Hn.
    pose proof (io_copy_loop_nofault pl st B HB (S (length data)) data [] kr kw (Nat.lt_succ_diag_r _)
                  (fun j _ => Hn _) (fun j _ => Hn _)) as Hok.
    destruct (io_copy_loop (S (length data)) pl st B data [] kr kw) as [[[r acc] kr'] kw'] eqn:E.
    simpl in Hok. subst r. exists kr', kw'.
    apply (io_copy_loop_ok _ _ _ _ HB) in E as Hs. destruct Hs as [Ha _]. simpl in Ha. subst acc. reflexivity.
Qed.

(** A single Read/Write fault at a position the fault-free run reaches makes io.Copy fail. *)
Theorem io_copy_fault st B data kr kw kr0 kw0 f : (1 <= B)%nat ->
  io_copy no_fault st B data kr kw = (COk, data, kr0, kw0) ->
  (exists j, (kr <= j < kr0)%nat /\ f = FRead j) \/ (exists j, (kw <= j < kw0)%nat /\ f = FWrite j) ->
  fst (fst (fst (io_copy (single f) st B data kr kw))) = CErr.
Proof.
  intros HB H0 Hf.
  destruct (io_copy (single f) st B data kr kw) as [[[r acc] kr'] kw'] eqn:E. simpl.
  destruct r; [exfalso| reflexivity | exfalso].
  - unfold io_copy in *.
    destruct (io_copy_loop_det _ _ _ _ _ _ _ _ _ _ _ _ _ _ _ _ _ H0 E) as [A Bq]. subst kr' kw'.
    apply (io_copy_loop_ok _ _ _ _ HB) in E. destruct E as (_ & _ & _ & F1 & F2).
    destruct Hf as [(j & Hj & ->)|(j & Hj & ->)].
    + specialize (F1 j Hj). unfold single in F1. simpl in F1. rewrite Nat.eqb_refl in F1. discriminate.
    + specialize (F2 j Hj). unfold single in F2. simpl in F2. rewrite Nat.eqb_refl in F2. discriminate.
  - pose proof (proj1 (io_copy_exact (single f) st B data kr kw HB)) as Hn. rewrite E in Hn. simpl in Hn. congruence.
Qed.

(** * StreamCopy *)

Lemma writer_open_spec mkpar t p t1 :
  WF t -> good_path p = true -> p <> [] -> writer_open mkpar t p = Some t1 ->
  WF t1 /\ lookup t1 p = Some (F []) /\
  (forall q, q <> p -> lookup t q <> None -> lookup t1 q = lookup t q) /\
  (forall q, q <> p -> lookup t q = None -> lookup t1 q <> None ->
             lookup t1 q = Some D /\ is_prefix q (removelast p) = true).
Proof.
  intros HWF Hg Hne H. unfold writer_open in H.
  destruct (mkpar || is_dir_at t (removelast p)); [|discriminate].
  destruct (write_at_spec _ _ _ _ HWF Hg Hne H) as (A & Bq & _ & Cq & Dq). auto.
Qed.

(** Ok => the destination file is byte-for-byte the source file, for EVERY plan, every previous
    destination content; everything else in the destination is kept; new nodes are the parents. *)
Theorem stream_copy_ok pl st mkpar B src dst ps pd c r_dst c' :
  (1 <= B)%nat -> WF dst -> good_path pd = true -> pd <> [] ->
  stream_copy_at pl st mkpar B src dst ps pd c = (COk, r_dst, c') ->
  exists data, lookup src ps = Some (F data) /\
    WF r_dst /\ lookup r_dst pd = Some (F data) /\
    (forall q, q <> pd -> lookup dst q <> None -> lookup r_dst q = lookup dst q) /\
    (forall q, q <> pd -> lookup dst q = None -> lookup r_dst q <> None ->
               lookup r_dst q = Some D /\ is_prefix q (removelast pd) = true).
Proof.
  intros HB HWF Hg Hne H. unfold stream_copy_at in H.
  destruct (pl (FReader (n_reader c))); [discriminate|].
  destruct (lookup src ps) as [[data|]|] eqn:Es; try discriminate.
  destruct (pl (FWriter (n_writer c))); [discriminate|].
  destruct (writer_open mkpar dst pd) as [d1|] eqn:Eo; [|discriminate].
  destruct (writer_open_spec _ _ _ _ HWF Hg Hne Eo) as (W1 & L1 & K1 & N1).
  destruct (io_copy pl st B data (n_read c) (n_write c)) as [[[r acc] kr] kw] eqn:Ei.
  destruct r; try discriminate.
  destruct (pl (FCloseW (n_closew c))); [discriminate|].
  destruct (pl (FCloseR (n_closer c))); [discriminate|].
  inversion H; subst r_dst c'. clear H.
  pose proof (proj1 (proj2 (io_copy_exact pl st B data _ _ HB)) _ _ _ Ei) as Hacc. subst acc.
  destruct (write_at_file_ok d1 pd [] data W1 Hg Hne L1) as [d2 E2]. rewrite E2.
  destruct (write_at_spec _ _ _ _ W1 Hg Hne E2) as (W2 & L2 & _ & K2 & N2).
  exists data. split; [reflexivity|]. split; [exact W2|]. split; [exact L2|]. split.
  - intros q Hq Hex. rewrite K2; [apply K1; assumption|exact Hq|]. rewrite K1; assumption.
  - intros q Hq Hn Hs. destruct (lookup d1 q) eqn:E1.
    + assert (E2q : lookup d2 q = lookup d1 q) by (apply K2; [exact Hq|rewrite E1; discriminate]).
      rewrite E2q in *. rewrite E1. rewrite <- E1. apply N1; [exact Hq|exact Hn|rewrite E1; discriminate].
    + exfalso. destruct (N2 q Hq E1 Hs) as [_ Hp].
      (* q would be a new parent directory, but the parents exist after the open *)
      assert (Hd : is_dir_at d1 (removelast pd) = true) by (eapply parent_is_dir; eassumption).
      apply is_prefix_spec in Hp as [sfx Hp].
      destruct sfx as [|y sfx].
      * rewrite app_nil_r in Hp. subst q. unfold is_dir_at in Hd. rewrite E1 in Hd. discriminate.
      * assert (Hq' : is_dir_at d1 q = true).
        { apply (WF_prefix_dir d1 W1 (y :: sfx) q); [discriminate|]. unfold exists_at. rewrite <- Hp.
          unfold is_dir_at in Hd. destruct (lookup d1 (removelast pd)); [reflexivity|discriminate]. }
        unfold is_dir_at in Hq'. rewrite E1 in Hq'. discriminate.
Qed.

(** No fault, source is a file, the writer can be opened => Ok. *)
Theorem stream_copy_nofault pl st mkpar B src dst ps pd c data d1 :
  (1 <= B)%nat -> (forall f, pl f = false) ->
  lookup src ps = Some (F data) -> writer_open mkpar dst pd = Some d1 ->
  fst (fst (stream_copy_at pl st mkpar B src dst ps pd c)) = COk.
Proof.
  intros HB Hn Hs Ho. unfold stream_copy_at. rewrite !Hn, Hs, Ho.
  destruct (proj2 (proj2 (io_copy_exact pl st B data (n_read c) (n_write c) HB)) Hn) as (kr & kw & E).
  rewrite E. reflexivity.
Qed.

(** The fault-free run of a single StreamCopy makes one Reader, one Writer, kr Read, kw Write and
    two Close calls; failing any ONE of them gives Err. *)
Definition reached (data : bytes) (st : eof_style) (B : nat) (f : fault) : Prop :=
  match io_copy no_fault st B data 0 0 with
  | (_, _, kr, kw) =>
    match f with
    | FReader k | FWriter k | FCloseW k | FCloseR k => k = O
    | FRead k => (k < kr)%nat
    | FWrite k => (k < kw)%nat
    | _ => False
    end
  end.

Theorem stream_copy_single_fault st mkpar B src dst ps pd data f :
  (1 <= B)%nat -> lookup src ps = Some (F data) -> reached data st B f ->
  fst (fst (stream_copy_at (single f) st mkpar B src dst ps pd ctr0)) = CErr.
Proof.
  intros HB Hs Hr. unfold reached in Hr.
  destruct (proj2 (proj2 (io_copy_exact no_fault st B data 0 0 HB)) (fun _ => eq_refl)) as (kr & kw & E0).
  rewrite E0 in Hr.
  unfold stream_copy_at. cbn [n_reader n_writer n_read n_write n_closew n_closer n_mkdir ctr0].
  destruct (single f (FReader 0)) eqn:E1; [reflexivity|]. rewrite Hs.
  destruct (single f (FWriter 0)) eqn:E2; [reflexivity|].
  destruct (writer_open mkpar dst pd) as [d1|]; [|reflexivity].
  destruct (io_copy (single f) st B data 0 0) as [[[r acc] kr'] kw'] eqn:Ei.
  destruct r; [|reflexivity|].
  - destruct (single f (FCloseW 0)) eqn:E3; [reflexivity|].
    destruct (single f (FCloseR 0)) eqn:E4; [reflexivity|]. exfalso.
    destruct f as [k|k|k|k|k|k|k|k]; try contradiction.
    + subst k. cbv in E1. discriminate.
    + subst k. cbv in E2. discriminate.
    + pose proof (io_copy_fault st B data 0 0 kr kw (FRead k) HB E0 (or_introl (ex_intro _ k (conj (conj (Nat.le_0_l _) Hr) eq_refl)))) as Hf.
      rewrite Ei in Hf. discriminate.
    + pose proof (io_copy_fault st B data 0 0 kr kw (FWrite k) HB E0 (or_intror (ex_intro _ k (conj (conj (Nat.le_0_l _) Hr) eq_refl)))) as Hf.
      rewrite Ei in Hf. discriminate.
    + subst k. cbv in E3. discriminate.
    + subst k. cbv in E4. discriminate.
  - exfalso. pose proof (proj1 (io_copy_exact (single f) st B data 0 0 HB)) as Hn. rewrite Ei in Hn. apply Hn. reflexivity.
Qed.

(** Raw-string front ends. *)
Theorem stream_copy_raw_ok pl st mkpar B src dst s c r_dst c' :
  (1 <= B)%nat -> WF dst -> stream_copy pl st mkpar B src dst s c = (COk, r_dst, c') ->
  exists p data, reduce_node s = Some p /\ lookup src p = Some (F data) /\ WF r_dst /\
    lookup r_dst p = Some (F data) /\
    (forall q, q <> p -> lookup dst q <> None -> lookup r_dst q = lookup dst q).
Proof.
  intros HB HWF H. unfold stream_copy in H. destruct (reduce_node s) as [p|] eqn:Er; [|discriminate].
  destruct (reduce_node_good _ _ Er) as [Hg Hne].
  destruct (stream_copy_ok _ _ _ _ _ _ _ _ _ _ _ HB HWF Hg Hne H) as (data & A & W & L & K & _).
  exists p, data. auto.
Qed.
