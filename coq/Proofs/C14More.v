(** C14, proof audit: further lemmas about the runner model (Model/Runner.v).
    1. every suffix of a reachable log is the log of an earlier reachable state: ordering statements
       (commands only after the body began and after every prerequisite finished, nothing of a task
       after it finished, a body begins once);
    2. outcome of a task: finished without error = the whole body ran and every command ended
       without error; a command that ended with an error = the task ends failed;
    3. no deadlock when nested submissions wait for earlier siblings only (all that pip:run can
       express), which supersedes the premise "nested wait lists are empty";
    4. liveness without a fairness assumption: from every reachable state at most [work s] enabled
       runner steps finish every task; every accepted submission is then finished and the manager's
       Wait returns. *)
From Coq Require Import Lia ZifyBool ZifyNat ZifyN.
From GC Require Import Common.Base Model.Runner Proofs.Runner Proofs.Runner2.
Local Open Scope nat_scope.

(** * Reachability through atomic transitions *)

Inductive Reach (root : ctxid) : state -> Prop :=
| Reach_init : Reach root (init root)
| Reach_tr s s' : Reach root s -> tr true s s' -> Reach root s'.

Lemma Reach_run root sched : Reach root (run false sched (init root)).
Proof.
  apply (run_inv (Reach root)); [|apply Reach_init].
  intros s s' HR Htr. eapply Reach_tr; eauto.
Qed.

Lemma Inv2_init root : Inv2 (init root).
Proof. split; simpl; [intros [|] ? ? E; discriminate | constructor | reflexivity]. Qed.

Lemma Reach_Inv root s : Reach root s -> Inv s.
Proof. induction 1 as [|s s' HR IH Htr]; [apply Inv_init | eapply tr_inv; eauto]. Qed.

Lemma Reach_Inv2 root s : Reach root s -> Inv2 s.
Proof. induction 1 as [|s s' HR IH Htr]; [apply Inv2_init | eapply tr_inv2; eauto]. Qed.

Lemma Reach_BBW root s : Reach root s -> BBW s.
Proof. induction 1 as [|s s' HR IH Htr]; [intros n ws [] | eapply tr_BBW; eauto]. Qed.

Lemma run_app q a b s : run q (a ++ b) s = run q b (run q a s).
Proof. unfold run. apply fold_left_app. Qed.

Lemma T_fun s n t t' : T s n t -> T s n t' -> t = t'.
Proof. unfold T. intros H1 H2. rewrite H1 in H2. inversion H2. reflexivity. Qed.

Lemma cons_neq {A} (e : A) (l : list A) : l = e :: l -> False.
Proof. intro H. apply (f_equal (@length A)) in H. simpl in H. lia. Qed.

(** * Monotonicity of one transition *)

Lemma tr_log x s s' : tr x s s' -> log s' = log s \/ exists e, log s' = e :: log s.
Proof. intro H. destruct H; simpl; rewrite ?fail_ctx_log; eauto. Qed.

Lemma tr_log_incl x s s' : tr x s s' -> forall e, In e (log s) -> In e (log s').
Proof. intros H e He. destruct (tr_log _ _ _ H) as [-> | [e' ->]]; simpl; auto. Qed.

Lemma tr_fmono x s s' : tr x s s' -> fmono s s'.
Proof.
  intro H. destruct H; intros d Hd; rewrite ?cf_emit, ?cf_with_counter, ?cf_set_st, ?cf_with_tasks;
    try assumption; apply ctx_failed_fail_mono; assumption.
Qed.

Lemma tr_registered x s s' m : tr x s s' -> registered m (tasks s) = true -> registered m (tasks s') = true.
Proof.
  intros H R. destruct H; simpl; rewrite ?registered_upd, ?fail_ctx_tasks; try assumption.
  rewrite registered_app, R. reflexivity.
Qed.

(** What one transition does: nothing to the task table (a rejected submission, an outside error),
    one task appended (an accepted submission), or one action [act] of one unfinished task. *)
Inductive act (n : name) (t : task) : status -> list event -> Prop :=
| a_pass i : t_st t = Waiting i -> act n t (Waiting (S i)) []
| a_waitfail i : t_st t = Waiting i -> act n t Closing []
| a_bodybegin i : t_st t = Waiting i -> act n t (Running 0 PBefore) [EBodyBegin n (t_waits t)]
| a_stop pc : t_st t = Running pc PBefore -> act n t Closing []
| a_cmdbegin pc : t_st t = Running pc PBefore -> act n t (Running pc PIn) [ECmdBegin n pc]
| a_phase pc ph : t_st t = Running pc PIn -> ph <> PBefore -> act n t (Running pc ph) []
| a_endok pc ph : t_st t = Running pc ph -> ph <> PBefore -> act n t (Running (S pc) PBefore) [ECmdEnd n pc true]
| a_endfail pc ph : t_st t = Running pc ph -> ph <> PBefore -> act n t Closing [ECmdEnd n pc false]
| a_finish ok : t_st t = Closing -> act n t (Finished ok) [EFinished n ok].

Lemma act_unfinished n t st evs : act n t st evs -> is_finished (t_st t) = false.
Proof. intro H. destruct H as [i E|i E|i E|pc E|pc E|pc ph E|pc ph E|pc ph E|ok E]; rewrite E; reflexivity. Qed.

Ltac fin_shape :=
  simpl; rewrite ?fail_ctx_tasks, ?fail_ctx_log;
  (split; [reflexivity|]); (split; [reflexivity|]);
  (split; [intros pc' Hpc'; simpl in Hpc'; try contradiction; destruct Hpc' as [Hpc'|[]]; try discriminate Hpc'; try assumption
          | intros ok' Hok'; try discriminate Hok'; inversion Hok'; reflexivity]).

Lemma tr_shape x s s' :
  tr x s s' ->
  (tasks s' = tasks s /\ (log s' = log s \/ exists n, log s' = ESubmitted n false :: log s))
  \/ (exists sb c p, registered (s_name sb) (tasks s) = false /\ tasks s' = tasks s ++ [new_task sb c p s]
                     /\ log s' = ESubmitted (s_name sb) true :: log s)
  \/ (exists n t st evs, T s n t /\ act n t st evs /\ tasks s' = upd n st (tasks s) /\ log s' = evs ++ log s
        /\ (forall pc, In (ECmdEnd n pc false) evs -> ctx_failed (t_ctx t) s' = true)
        /\ (forall ok, st = Finished ok -> ok = negb (ctx_failed (t_ctx t) s))).
Proof.
  intro H.
  destruct H as [n | sb c p R V | c X | n t i u tu HT Hst | n t i HT Hst | n t i HT Hst
                 | n t pc HT Hst | n t pc HT Hst | n t pc ph HT Hst | n t pc ph HT Hst Hph
                 | n t pc ph HT Hst Hph Hcf | n t pc ph HT Hst Hph | n t HT Hst].
  - left. simpl. eauto.
  - right; left. exists sb, c, p. auto.
  - left. rewrite fail_ctx_tasks, fail_ctx_log. auto.
  - right; right. exists n, t, (Waiting (S i)), []. split; [assumption|]. split; [eapply a_pass; eauto|]. fin_shape.
  - right; right. exists n, t, Closing, []. split; [assumption|]. split; [eapply a_waitfail; eauto|]. fin_shape.
  - right; right. exists n, t, (Running 0 PBefore), [EBodyBegin n (t_waits t)].
    split; [assumption|]. split; [eapply a_bodybegin; eauto|]. fin_shape.
  - right; right. exists n, t, Closing, []. split; [assumption|]. split; [eapply a_stop; eauto|]. fin_shape.
  - right; right. exists n, t, (Running pc PIn), [ECmdBegin n pc].
    split; [assumption|]. split; [eapply a_cmdbegin; eauto|]. fin_shape.
  - right; right. exists n, t, (Running pc ph), []. split; [assumption|]. split; [eapply a_phase; eauto|]. fin_shape.
  - right; right. exists n, t, (Running (S pc) PBefore), [ECmdEnd n pc true].
    split; [assumption|]. split; [eapply a_endok; eauto|]. fin_shape.
  - right; right. exists n, t, Closing, [ECmdEnd n pc false].
    split; [assumption|]. split; [eapply a_endfail; eauto|]. fin_shape.
  - right; right. exists n, t, Closing, [ECmdEnd n pc false].
    split; [assumption|]. split; [eapply a_endfail; eauto|]. fin_shape.
    rewrite cf_emit, cf_set_st. apply ctx_failed_fail_same.
  - right; right. exists n, t, (Finished (negb (ctx_failed (t_ctx t) s))), [EFinished n (negb (ctx_failed (t_ctx t) s))].
    split; [assumption|]. split; [eapply a_finish; eauto|]. fin_shape.
Qed.

Lemma T_upd_cases s s' n st m t' :
  tasks s' = upd n st (tasks s) -> T s' m t' ->
  (m = n /\ exists t, T s n t /\ t' = set_status st t) \/ (m <> n /\ T s m t').
Proof. intros E H. unfold T in H. rewrite E in H. apply (T_set_st s n st m t'). exact H. Qed.

Lemma T_app_cases s s' x m t' :
  tasks s' = tasks s ++ [x] -> T s' m t' ->
  T s m t' \/ (find_task m (tasks s) = None /\ t' = x /\ t_name x = m).
Proof.
  intros E H. unfold T in *. rewrite E in H. destruct (find_task m (tasks s)) as [t0|] eqn:E0.
  - rewrite (find_app_some _ _ _ _ E0) in H. left. congruence.
  - rewrite (find_app_none _ _ _ E0) in H. destruct (N.eqb (t_name x) m) eqn:Em; [|discriminate].
    right. apply N.eqb_eq in Em. inversion H; subst. repeat split; reflexivity.
Qed.

(** * Every suffix of a reachable log is the log of an earlier reachable state *)

Lemma suffix_reach root s :
  Reach root s -> forall a e b, log s = a ++ e :: b ->
  exists s0 s1, Reach root s0 /\ tr true s0 s1 /\ log s0 = b /\ log s1 = e :: b.
Proof.
  induction 1 as [|s s' HR IH Htr]; intros a e b E.
  - simpl in E. destruct a; discriminate.
  - destruct (tr_log _ _ _ Htr) as [El | [x El]]; rewrite El in E.
    + eapply IH; eauto.
    + destruct a as [|y a']; simpl in E; inversion E; subst.
      * exists s, s'. auto.
      * eapply IH; eauto.
Qed.

(** The state in which an event of a task was emitted. *)
Lemma ev_origin root s0 s1 e :
  Reach root s0 -> tr true s0 s1 -> log s1 = e :: log s0 -> is_sub e = false ->
  exists t, T s0 (ev_name e) t /\ is_finished (t_st t) = false /\
    match e with
    | EBodyBegin n ws => exists i, t_st t = Waiting i /\ ws = t_waits t
    | ECmdBegin n j => t_st t = Running j PBefore
    | ECmdEnd n j ok => exists ph, t_st t = Running j ph /\ ph <> PBefore
                                   /\ (ok = false -> ctx_failed (t_ctx t) s1 = true)
    | EFinished n ok => t_st t = Closing /\ ok = negb (ctx_failed (t_ctx t) s0)
    | ESubmitted _ _ => True
    end.
Proof.
  intros HR Htr Hlog Hsub.
  destruct Htr as [n | sb c p R V | c X | n t i u tu HT Hst | n t i HT Hst | n t i HT Hst
                   | n t pc HT Hst | n t pc HT Hst | n t pc ph HT Hst | n t pc ph HT Hst Hph
                   | n t pc ph HT Hst Hph Hcf | n t pc ph HT Hst Hph | n t HT Hst];
    simpl in Hlog; rewrite ?fail_ctx_log in Hlog;
    try (exfalso; eapply cons_neq; eauto; fail);
    inversion Hlog; subst e; try discriminate Hsub;
    exists t; (split; [exact HT|]); (split; [rewrite Hst; reflexivity|]); simpl; eauto.
  - exists ph. split; [assumption|]. split; [assumption|]. discriminate.
  - exists ph. split; [assumption|]. split; [assumption|]. intros _.
    rewrite cf_emit, cf_set_st. apply ctx_failed_fail_same.
Qed.

(** A task that is still waiting has not begun its body. *)
Definition WaitFresh (s : state) : Prop :=
  forall n t i, T s n t -> t_st t = Waiting i -> forall ws, ~ In (EBodyBegin n ws) (log s).

(** An accepted submission stays registered. *)
Definition SubReg (s : state) : Prop :=
  forall n, In (ESubmitted n true) (log s) -> registered n (tasks s) = true.

Lemma tr_SubReg x s s' : SubReg s -> tr x s s' -> SubReg s'.
Proof.
  intros HS Htr n Hin.
  destruct (tr_log _ _ _ Htr) as [El | [e El]]; rewrite El in Hin.
  - eapply tr_registered; eauto.
  - destruct Hin as [He | Hin]; [|eapply tr_registered; eauto]. subst e.
    destruct Htr; simpl in El; rewrite ?fail_ctx_log in El;
      try (exfalso; eapply cons_neq; eauto; fail); inversion El; subst.
    simpl. rewrite registered_app. simpl. rewrite N.eqb_refl. apply orb_true_r.
Qed.

Lemma Reach_SubReg root s : Reach root s -> SubReg s.
Proof. induction 1 as [|s s' HR IH Htr]; [intros n [] | eapply tr_SubReg; eauto]. Qed.

Lemma tr_WaitFresh x s s' : Inv s -> WaitFresh s -> tr x s s' -> WaitFresh s'.
Proof.
  intros HI HW Htr m t' i HT' Hst ws Hin.
  destruct (tr_shape _ _ _ Htr) as [[Et El] | [(sb & c & p & R & Et & El) | (n & t & st & evs & HT & Hact & Et & El & Hcf & Hfin)]].
  - unfold T in HT'. rewrite Et in HT'.
    assert (Hold : In (EBodyBegin m ws) (log s)).
    { destruct El as [El | [n El]]; rewrite El in Hin; [assumption|]. destruct Hin as [Hin|Hin]; [discriminate|assumption]. }
    eapply HW; eauto.
  - rewrite El in Hin. destruct Hin as [Hin|Hin]; [discriminate|].
    destruct (T_app_cases _ _ _ _ _ Et HT') as [Ho | (Hnone & _ & Hm)].
    + eapply HW; eauto.
    + apply find_task_none in Hnone.
      pose proof (inv_evreg _ HI _ Hin eq_refl) as R'. simpl in R'. congruence.
  - rewrite El in Hin.
    destruct (T_upd_cases _ _ _ _ _ _ Et HT') as [[-> (t0 & HT0 & ->)] | [Hne Ho]].
    + pose proof (T_fun _ _ _ _ HT HT0); subst t0. simpl in Hst.
      destruct Hact as [k E|k E|k E|pc E|pc E|pc ph E|pc ph E|pc ph E|ok E]; try discriminate Hst.
      simpl in Hin. eapply HW; eauto.
    + apply in_app_or in Hin as [Hin|Hin]; [|eapply HW; eauto].
      destruct Hact as [k E|k E|k E|pc E|pc E|pc ph E|pc ph E|pc ph E|ok E]; simpl in Hin;
        try contradiction; destruct Hin as [Hin|[]]; try discriminate Hin.
      inversion Hin. congruence.
Qed.

Lemma Reach_WaitFresh root s : Reach root s -> WaitFresh s.
Proof.
  induction 1 as [|s s' HR IH Htr]; [intros n t i HT; discriminate HT|].
  eapply tr_WaitFresh; eauto. eapply Reach_Inv; eauto.
Qed.

(** * Ordering statements *)

(** When a command of [n] begins, the body of [n] has begun before, and before that every task of
    the wait list of [n] finished without error; [n] itself has not finished. *)
Lemma cmd_after_prereqs root sched a n j b :
  let s := run false sched (init root) in
  log s = a ++ ECmdBegin n j :: b ->
  exists t, T s n t /\ In (EBodyBegin n (t_waits t)) b
            /\ (forall u, In u (t_waits t) -> In (EFinished u true) b)
            /\ (forall ok, ~ In (EFinished n ok) b).
Proof.
  intros s E. pose proof (Reach_run root sched) as HR. fold s in HR.
  destruct (suffix_reach _ _ HR _ _ _ E) as (s0 & s1 & HR0 & Htr & E0 & E1).
  rewrite <- E0 in E1. destruct (ev_origin _ _ _ _ HR0 Htr E1 eq_refl) as (t0 & HT0 & Hnf & Hst).
  simpl in HT0, Hst. pose proof (Reach_Inv _ _ HR0) as HI0.
  pose proof (inv_tasks _ HI0 _ _ HT0) as [_ Hti]. rewrite Hst in Hti. destruct Hti as [Hbb _].
  assert (Hfin : In (EBodyBegin n (t_waits t0)) (log s)).
  { rewrite E, <- E0. apply in_or_app. right. right. exact Hbb. }
  destruct (Reach_BBW _ _ HR _ _ Hfin) as (t & HT & Hw).
  exists t. rewrite Hw, <- E0. split; [exact HT|]. split; [exact Hbb|]. split.
  - intros u Hu. destruct (in_split _ _ Hbb) as (a' & b' & Eb).
    pose proof (inv_hbb _ HI0) as Hh. rewrite Eb in Hh. apply hist_app in Hh.
    rewrite Eb. apply in_or_app. right. right. eapply Hh; eauto.
  - intros ok Hf. destruct (inv_fin _ HI0 _ _ Hf) as (tu & HTu & Hstu).
    pose proof (T_fun _ _ _ _ HT0 HTu); subst tu. rewrite Hstu in Hnf. discriminate.
Qed.

(** A command ends only after it began. *)
Lemma cmdend_after_begin root sched a n j ok b :
  log (run false sched (init root)) = a ++ ECmdEnd n j ok :: b -> In (ECmdBegin n j) b.
Proof.
  intros E. pose proof (Reach_run root sched) as HR.
  destruct (suffix_reach _ _ HR _ _ _ E) as (s0 & s1 & HR0 & Htr & E0 & E1).
  rewrite <- E0 in E1. destruct (ev_origin _ _ _ _ HR0 Htr E1 eq_refl) as (t0 & HT0 & Hnf & ph & Hst & Hph & _).
  simpl in HT0. pose proof (inv_tasks _ (Reach_Inv _ _ HR0) _ _ HT0) as [_ Hti]. rewrite Hst in Hti.
  destruct Hti as [_ (_ & _ & _ & C4)]. rewrite <- E0. apply C4. destruct ph; [congruence|reflexivity..].
Qed.

(** Once a task has finished nothing of it happens any more (in particular it finishes once and
    none of its commands runs afterwards). *)
Lemma nothing_after_finish root sched a e b :
  log (run false sched (init root)) = a ++ e :: b -> is_sub e = false ->
  forall ok, ~ In (EFinished (ev_name e) ok) b.
Proof.
  intros E Hsub ok Hf. pose proof (Reach_run root sched) as HR.
  destruct (suffix_reach _ _ HR _ _ _ E) as (s0 & s1 & HR0 & Htr & E0 & E1).
  rewrite <- E0 in E1, Hf. destruct (ev_origin _ _ _ _ HR0 Htr E1 Hsub) as (t0 & HT0 & Hnf & _).
  destruct (inv_fin _ (Reach_Inv _ _ HR0) _ _ Hf) as (tu & HTu & Hstu).
  pose proof (T_fun _ _ _ _ HT0 HTu); subst tu. rewrite Hstu in Hnf. discriminate.
Qed.

(** The body of a task begins at most once, and before every command of the task: the only older
    events that carry its name are submission results. *)
Lemma body_begins_once root sched a n ws b :
  log (run false sched (init root)) = a ++ EBodyBegin n ws :: b ->
  forall e, In e b -> ev_name e = n -> is_sub e = true.
Proof.
  intros E e He Hn. pose proof (Reach_run root sched) as HR.
  destruct (suffix_reach _ _ HR _ _ _ E) as (s0 & s1 & HR0 & Htr & E0 & E1).
  rewrite <- E0 in E1, He. destruct (ev_origin _ _ _ _ HR0 Htr E1 eq_refl) as (t0 & HT0 & Hnf & i & Hst & Hws).
  simpl in HT0. pose proof (Reach_Inv _ _ HR0) as HI0.
  pose proof (inv_tasks _ HI0 _ _ HT0) as [_ Hti]. rewrite Hst in Hti. destruct Hti as [_ Hnc].
  destruct e as [m acc | m ws' | m k | m k ok | m ok]; simpl in Hn; subst m; [reflexivity|exfalso..].
  - eapply (Reach_WaitFresh _ _ HR0); eauto.
  - eapply Hnc; [exact He | reflexivity].
  - eapply Hnc; [exact He | reflexivity].
  - destruct (inv_fin _ HI0 _ _ He) as (tu & HTu & Hstu).
    pose proof (T_fun _ _ _ _ HT0 HTu); subst tu. rewrite Hstu in Hnf. discriminate.
Qed.

(** * Outcome of a task, 1: a command that ended with an error *)

Definition CmdFailInv (s : state) : Prop :=
  forall n t i, T s n t -> In (ECmdEnd n i false) (log s) ->
    ctx_failed (t_ctx t) s = true /\ forall ok, t_st t = Finished ok -> ok = false.

Lemma tr_CmdFailInv x s s' : Inv s -> CmdFailInv s -> tr x s s' -> CmdFailInv s'.
Proof.
  intros HI HC Htr m t' i HT' Hin. pose proof (tr_fmono _ _ _ Htr) as Hf.
  destruct (tr_shape _ _ _ Htr) as [[Et El] | [(sb & c & p & R & Et & El) | (n & t & st & evs & HT & Hact & Et & El & Hcf & Hfin)]].
  - unfold T in HT'. rewrite Et in HT'.
    assert (Hold : In (ECmdEnd m i false) (log s)).
    { destruct El as [El | [n El]]; rewrite El in Hin; [assumption|]. destruct Hin as [Hin|Hin]; [discriminate|assumption]. }
    destruct (HC _ _ _ HT' Hold) as [A B]. split; [apply Hf; exact A | exact B].
  - rewrite El in Hin. destruct Hin as [Hin|Hin]; [discriminate|].
    destruct (T_app_cases _ _ _ _ _ Et HT') as [Ho | (Hnone & _ & Hm)].
    + destruct (HC _ _ _ Ho Hin) as [A B]. split; [apply Hf; exact A | exact B].
    + apply find_task_none in Hnone.
      pose proof (inv_evreg _ HI _ Hin eq_refl) as R'. simpl in R'. congruence.
  - rewrite El in Hin.
    destruct (T_upd_cases _ _ _ _ _ _ Et HT') as [[-> (t0 & HT0 & ->)] | [Hne Ho]].
    + pose proof (T_fun _ _ _ _ HT HT0); subst t0. cbn [set_status t_ctx t_st].
      apply in_app_or in Hin as [Hin|Hin].
      * split; [eapply Hcf; eauto|]. intros ok Hst.
        destruct Hact as [k E|k E|k E|pc E|pc E|pc ph E|pc ph E|pc ph E|ok0 E]; simpl in Hin;
          try contradiction; destruct Hin as [Hin|[]]; try discriminate Hin; discriminate Hst.
      * destruct (HC _ _ _ HT Hin) as [A B]. split; [apply Hf; exact A|].
        intros ok Hst. rewrite (Hfin _ Hst), A. reflexivity.
    + apply in_app_or in Hin as [Hin|Hin].
      * exfalso. destruct Hact as [k E|k E|k E|pc E|pc E|pc ph E|pc ph E|pc ph E|ok0 E]; simpl in Hin;
          try contradiction; destruct Hin as [Hin|[]]; try discriminate Hin; inversion Hin; congruence.
      * destruct (HC _ _ _ Ho Hin) as [A B]. split; [apply Hf; exact A | exact B].
Qed.

Lemma Reach_CmdFailInv root s : Reach root s -> CmdFailInv s.
Proof.
  induction 1 as [|s s' HR IH Htr]; [intros n t i HT; discriminate HT|].
  eapply tr_CmdFailInv; eauto. eapply Reach_Inv; eauto.
Qed.

(** A task one of whose commands ended with an error has an error in its context, can only
    finish failed, and never begins a later command. *)
Lemma failed_cmd_fails_task root sched n t i :
  let s := run false sched (init root) in
  T s n t -> In (ECmdEnd n i false) (log s) ->
  ctx_failed (t_ctx t) s = true /\ (forall ok, t_st t = Finished ok -> ok = false)
  /\ (forall j, In (ECmdBegin n j) (log s) -> j <= i).
Proof.
  intros s HT Hin. pose proof (Reach_run root sched) as HR. fold s in HR.
  destruct (Reach_CmdFailInv _ _ HR _ _ _ HT Hin) as [A B]. split; [exact A|]. split; [exact B|].
  intros j Hj. destruct (in_split _ _ Hin) as (a & b & E). rewrite E in Hj.
  apply in_app_or in Hj as [Hj|[Hj|Hj]]; [|discriminate|].
  - exfalso. destruct (in_split _ _ Hj) as (a1 & a2 & Ea). rewrite Ea, <- app_assoc in E. simpl in E.
    destruct (sequential_body _ _ _ _ _ _ E) as (_ & _ & C3). apply (C3 i).
    apply in_or_app. right. left. reflexivity.
  - destruct (suffix_reach _ _ HR _ _ _ E) as (s0 & s1 & HR0 & Htr & E0 & E1).
    rewrite <- E0 in E1, Hj. destruct (ev_origin _ _ _ _ HR0 Htr E1 eq_refl) as (t0 & HT0 & Hnf & ph & Hst & Hph & _).
    simpl in HT0. pose proof (inv_tasks _ (Reach_Inv _ _ HR0) _ _ HT0) as [_ Hti]. rewrite Hst in Hti.
    destruct Hti as [_ (C1 & _)]. specialize (C1 _ Hj).
    destruct ph; [congruence|simpl in C1; exact C1..].
Qed.

(** * Outcome of a task, 2: finished without error = the whole body ran *)

Ltac step_cases Hs :=
  repeat match type of Hs with
         | match ?x with _ => _ end = Some _ => destruct x eqn:?; try discriminate Hs
         | (let (_, _) := ?x in _) = Some _ => destruct x eqn:?
         | (if ?x then _ else _) = Some _ => destruct x eqn:?; try discriminate Hs
         end.

(** Why a runner goroutine leaves its body: its context has an error, or the script is over. *)
Definition closing_reason (t : task) (s' : state) : Prop :=
  ctx_failed (t_ctx t) s' = true \/ exists pc, t_st t = Running pc PBefore /\ length (t_body t) <= pc.

Lemma task_step_actor t s s' :
  T s (t_name t) t -> task_step false t s = Some s' ->
  exists st, T s' (t_name t) (set_status st t) /\
    (st = Closing -> closing_reason t s') /\
    (forall ok, st = Finished ok -> t_st t = Closing /\ ok = negb (ctx_failed (t_ctx t) s)).
Proof.
  intros HT Hs. unfold task_step in Hs. step_cases Hs; inversion Hs; subst s'; clear Hs.
  all: eexists; split;
    [unfold T; simpl; rewrite ?fail_ctx_tasks; apply find_upd_same; try exact HT
    | split; [intro E; try discriminate E | intros ok' E; try discriminate E]].
  all: try (left; rewrite ?cf_emit, ?cf_set_st; first [apply ctx_failed_fail_same | assumption]).
  all: try (right; eexists; split; [eassumption | apply nth_error_None; assumption]).
  all: try (inversion E; split; [first [assumption | reflexivity] | reflexivity]).
  match goal with
  | H : create false ?sb ?c ?p s = (?s1, _) |- _ =>
    replace s1 with (fst (create false sb c p s)) by (rewrite H; reflexivity)
  end.
  apply T_after_create. exact HT.
Qed.

Lemma task_step_unfinished t s s' : task_step false t s = Some s' -> is_finished (t_st t) = false.
Proof. unfold task_step. destruct (t_st t); try discriminate; reflexivity. Qed.

(** One step of the model seen from one task of the new state: untouched, new, or the actor. *)
Lemma step_back l s s' m t' :
  step false l s = Some s' -> T s' m t' ->
  T s m t'
  \/ (find_task m (tasks s) = None /\ t_st t' = Waiting 0)
  \/ (exists t st, T s m t /\ t' = set_status st t /\ is_finished (t_st t) = false
        /\ (st = Closing -> closing_reason t s')
        /\ (forall ok, st = Finished ok -> t_st t = Closing /\ ok = negb (ctx_failed (t_ctx t) s))).
Proof.
  intros Hs HT'. destruct l as [sb c | n | n | c]; simpl in Hs.
  - inversion Hs; subst s'; clear Hs.
    destruct (create_false_cases sb c None s) as [E | (R & V & E)]; rewrite E in HT'; simpl in HT'.
    + left. exact HT'.
    + eapply (T_app_cases s _ (new_task sb c None s)) in HT'; [|reflexivity].
      destruct HT' as [Ho | (Hnone & -> & _)]; auto.
  - destruct (find_task n (tasks s)) as [t|] eqn:En; [|discriminate].
    pose proof (find_task_some _ _ _ En) as [Hn _].
    assert (HT : T s (t_name t) t) by (unfold T; rewrite Hn; exact En).
    destruct (N.eq_dec m n) as [->|Hne].
    + right; right. destruct (task_step_actor _ _ _ HT Hs) as (st & HTs & A & B).
      rewrite Hn in HTs, HT. exists t, st. split; [exact HT|]. split; [eapply T_fun; eauto|].
      split; [eapply task_step_unfinished; eauto|]. auto.
    + destruct (task_step_shape t s s' HT Hs) as [(st & Ht & _) | (pc & nm & ws & b & _ & _ & _ & Ht)]; rewrite Hn in Ht.
      * destruct (T_upd_cases _ _ _ _ _ _ Ht HT') as [[-> _] | [_ Ho]]; [congruence | auto].
      * set (nt := new_task {| s_name := nm; s_waits := ws; s_body := b |} (t_ctx t) (Some n) s) in *.
        destruct (T_upd_cases (with_tasks (tasks s ++ [nt]) s) _ _ _ _ _ Ht HT') as [[-> _] | [_ Ho]]; [congruence|].
        eapply (T_app_cases s _ nt) in Ho; [|reflexivity].
        destruct Ho as [Ho' | (Hnone & -> & _)]; auto.
  - destruct (find_task n (tasks s)) as [t|] eqn:En; [|discriminate].
    destruct (t_st t) as [| pc [| | |] | | |] eqn:Est; try discriminate.
    destruct (ctx_failed (t_ctx t) s) eqn:Ec; [|discriminate]. inversion Hs; subst s'; clear Hs.
    destruct (T_set_st _ _ _ _ _ HT') as [[-> (t0 & HT0 & ->)] | [_ Ho]]; [|auto].
    right; right. exists t0, Closing. pose proof (T_fun _ _ _ _ En HT0); subst t0.
    split; [exact HT0|]. split; [reflexivity|]. split; [rewrite Est; reflexivity|].
    split; [intros _; left; exact Ec | intros ok E; discriminate E].
  - inversion Hs; subst s'. left. unfold T in *. rewrite fail_ctx_tasks in HT'. exact HT'.
Qed.

Lemma step_fmono l s s' : step false l s = Some s' -> fmono s s'.
Proof.
  intro H. apply step_tr in H. destruct H as [H | s1 H1 H2].
  - eapply tr_fmono; eauto.
  - intros c Hc. eapply tr_fmono; eauto. eapply tr_fmono; eauto.
Qed.

Lemma step_log_incl l s s' : step false l s = Some s' -> forall e, In e (log s) -> In e (log s').
Proof.
  intro H. apply step_tr in H. destruct H as [H | s1 H1 H2]; intros e He.
  - eapply tr_log_incl; eauto.
  - eapply tr_log_incl; eauto. eapply tr_log_incl; eauto.
Qed.

Lemma step_Inv l s s' : Inv s -> step false l s = Some s' -> Inv s'.
Proof.
  intros HI H. apply step_tr in H. destruct H as [H | s1 H1 H2].
  - eapply tr_inv; eauto.
  - eapply tr_inv; [eapply tr_inv|]; eauto.
Qed.

Definition AllOk (n : name) (t : task) (s : state) : Prop :=
  forall i, i < length (t_body t) -> In (ECmdEnd n i true) (log s).

Definition Done (s : state) : Prop :=
  forall n t, T s n t ->
    (t_st t = Closing -> ctx_failed (t_ctx t) s = true \/ AllOk n t s)
    /\ (t_st t = Finished true -> AllOk n t s).

Lemma step_Done l s s' : Inv s -> Done s -> step false l s = Some s' -> Done s'.
Proof.
  intros HI HD Hs n t' HT'.
  pose proof (step_fmono _ _ _ Hs) as Hf. pose proof (step_log_incl _ _ _ Hs) as Hl.
  assert (Keep : forall t, t_body t' = t_body t -> AllOk n t s -> AllOk n t' s').
  { intros t Eb H i Hi. apply Hl. apply H. rewrite <- Eb. exact Hi. }
  destruct (step_back _ _ _ _ _ Hs HT') as [Ho | [[_ Hw] | (t & st & HT & -> & Hnf & Hcl & Hfin)]].
  - destruct (HD _ _ Ho) as [A B]. split.
    + intro E. destruct (A E) as [H|H]; [left; apply Hf; exact H | right; eapply Keep; eauto].
    + intro E. eapply Keep; eauto.
  - rewrite Hw. split; intro E; discriminate E.
  - cbn [set_status t_st t_ctx]. destruct (HD _ _ HT) as [A B].
    pose proof (inv_tasks _ HI _ _ HT) as [_ Hti]. split.
    + intro E. destruct (Hcl E) as [H | (pc & Est & Hlen)]; [left; exact H | right].
      rewrite Est in Hti. destruct Hti as [_ (_ & C2 & _)].
      intros i Hi. apply Hl. apply C2. cbn [set_status t_body] in Hi. lia.
    + intro E. destruct (Hfin _ E) as [Ecl Eok].
      destruct (A Ecl) as [H|H]; [rewrite H in Eok; discriminate Eok|].
      eapply Keep; eauto.
Qed.

Lemma Done_run root sched : Done (run false sched (init root)) /\ Inv (run false sched (init root)).
Proof.
  assert (G : forall sched s, Inv s -> Done s -> Done (run false sched s) /\ Inv (run false sched s)).
  { clear. induction sched as [|l r IH]; intros s HI HD; simpl; [auto|].
    unfold step_skip. destruct (step false l s) as [s'|] eqn:E; [|apply IH; assumption].
    apply IH; [eapply step_Inv; eauto | eapply step_Done; eauto]. }
  apply G; [apply Inv_init|]. intros n t HT. discriminate HT.
Qed.

(** A task that finished without error began its body, ran every command of its script, each
    command ended without error and none with an error. *)
Lemma success_ran_all root sched n t :
  let s := run false sched (init root) in
  T s n t -> t_st t = Finished true ->
  In (EBodyBegin n (t_waits t)) (log s)
  /\ (forall i, i < length (t_body t) -> In (ECmdBegin n i) (log s) /\ In (ECmdEnd n i true) (log s))
  /\ (forall i, ~ In (ECmdEnd n i false) (log s)).
Proof.
  intros s HT Est. destruct (Done_run root sched) as [HD HI]. fold s in HD, HI.
  pose proof (inv_tasks _ HI _ _ HT) as [_ Hti]. rewrite Est in Hti. destruct Hti as (_ & _ & Hbb & _).
  split; [apply Hbb; reflexivity|]. split.
  - intros i Hi. destruct (HD _ _ HT) as [_ B]. specialize (B Est i Hi). split; [|exact B].
    destruct (in_split _ _ B) as (a' & b' & E'). pose proof (cmdend_after_begin _ _ _ _ _ _ _ E') as Hb.
    rewrite E'. apply in_or_app. right. right. exact Hb.
  - intros i Hin. destruct (failed_cmd_fails_task root sched n t i HT Hin) as (_ & B & _).
    specialize (B _ Est). discriminate B.
Qed.

(** * No deadlock when nested submissions wait for earlier siblings only *)

(** [sib_body b]: every nested submission in [b] (at any depth) names in its wait list only tasks
    submitted by EARLIER commands of the same body.  This is all that pip:run can express (it
    prefixes the wait names with the namespace of the running task), and it contains the case of
    empty nested wait lists ([flat_body]). *)
Definition spawn_names (x : cmd) (sn : list name) : list name :=
  match x with CSpawn nm _ _ => nm :: sn | _ => sn end.

Fixpoint sib_cmd (seen : list name) (c : cmd) {struct c} : bool :=
  match c with
  | CSpawn _ ws b =>
    forallb (fun w => existsb (N.eqb w) seen) ws
    && (fix go (sn : list name) (l : list cmd) {struct l} : bool :=
          match l with [] => true | x :: r => sib_cmd sn x && go (spawn_names x sn) r end) [] b
  | _ => true
  end.
Fixpoint sib_from (sn : list name) (l : list cmd) : bool :=
  match l with [] => true | x :: r => sib_cmd sn x && sib_from (spawn_names x sn) r end.
Definition sib_body (b : list cmd) : bool := sib_from [] b.
Definition sib_sched (sched : list label) : Prop :=
  forall sb c, In (LCreate sb c) sched -> sib_body (s_body sb) = true.

Lemma sib_inner sn b :
  (fix go (sn : list name) (l : list cmd) {struct l} : bool :=
     match l with [] => true | x :: r => sib_cmd sn x && go (spawn_names x sn) r end) sn b = sib_from sn b.
Proof. revert sn. induction b as [|x r IH]; intro sn; simpl; [reflexivity | rewrite IH; reflexivity]. Qed.

Definition earlier_spawn (b : list cmd) (pc : nat) (w : name) : Prop :=
  exists i ws' b', i < pc /\ nth_error b i = Some (CSpawn w ws' b').

Lemma sib_from_spec sn b pc nm ws b' :
  sib_from sn b = true -> nth_error b pc = Some (CSpawn nm ws b') ->
  sib_body b' = true /\ forall w, In w ws -> In w sn \/ earlier_spawn b pc w.
Proof.
  revert sn pc. induction b as [|x r IH]; intros sn [|pc] Hs Hn; simpl in Hn; try discriminate.
  - inversion Hn; subst x. cbn [sib_from sib_cmd] in Hs. rewrite sib_inner in Hs.
    apply andb_true_iff in Hs as [Hs _]. apply andb_true_iff in Hs as [Hw Hb]. split; [exact Hb|].
    intros w Hin. left. rewrite forallb_forall in Hw. specialize (Hw _ Hin).
    apply existsb_exists in Hw as (y & Hy & Ey). apply N.eqb_eq in Ey. subst y. exact Hy.
  - cbn [sib_from] in Hs. apply andb_true_iff in Hs as [_ Hs].
    destruct (IH _ _ Hs Hn) as [Hb Hw]. split; [exact Hb|]. intros w Hin.
    destruct (Hw w Hin) as [Hsn | (i & ws' & b'' & Hi & Hnth)].
    + destruct x as [| | nm0 ws0 b0]; simpl in Hsn; auto.
      destruct Hsn as [<-|Hsn]; [|auto]. right. exists 0, ws0, b0. split; [lia | reflexivity].
    + right. exists (S i), ws', b''. split; [lia | exact Hnth].
Qed.

Lemma flat_sib_cmd : forall c sn, flat_cmd c = true -> sib_cmd sn c = true.
Proof.
  fix IH 1. intros [| | nm ws b] sn H; [reflexivity | reflexivity |].
  cbn [flat_cmd] in H. cbn [sib_cmd]. apply andb_true_iff in H as [Hw Hb].
  destruct ws; [|discriminate]. cbn [forallb andb]. generalize (@nil name). revert Hb.
  induction b as [|x r IHr]; intros Hb sn0; [reflexivity|].
  apply andb_true_iff in Hb as [Hx Hr]. rewrite (IH x sn0 Hx). simpl. apply IHr. exact Hr.
Qed.

Lemma flat_sib_from b sn : flat_body b = true -> sib_from sn b = true.
Proof.
  revert sn. induction b as [|x r IH]; intros sn H; [reflexivity|]. simpl in H.
  apply andb_true_iff in H as [Hx Hr]. cbn [sib_from]. rewrite (flat_sib_cmd _ _ Hx). simpl. apply IH. exact Hr.
Qed.

Lemma flat_sib_sched sched : flat_sched sched -> sib_sched sched.
Proof. intros H sb c Hin. apply flat_sib_from. eapply H; eauto. Qed.

Definition fin_in (s : state) (u : name) : Prop := exists tu, T s u tu /\ is_finished (t_st tu) = true.

Record InvS (s : state) : Prop := {
  s_idx : forall t, In t (tasks s) -> t_idx t < length (tasks s);
  s_spawn : forall n t pc c, T s n t -> t_st t = Running pc (PSpawned c) ->
            exists tc, T s c tc /\ t_idx t < t_idx tc
                       /\ (forall u, In u (t_waits tc) -> fin_in s u)
                       /\ (t_orphan tc = true -> ctx_failed (t_ctx t) s = true)
                       /\ exists ws b, nth_error (t_body t) pc = Some (CSpawn c ws b);
  s_pin : forall n t pc, T s n t -> t_st t = Running pc PIn -> pc < length (t_body t);
  s_sibs : forall n t pc ph i nm ws b, T s n t -> t_st t = Running pc ph -> i < pc ->
           nth_error (t_body t) i = Some (CSpawn nm ws b) -> fin_in s nm;
  s_sib : forall t, In t (tasks s) -> sib_body (t_body t) = true }.

Lemma fin_in_upd s s' n t st u :
  tasks s' = upd n st (tasks s) -> T s n t -> is_finished (t_st t) = false -> fin_in s u -> fin_in s' u.
Proof.
  intros Et HT Hnf (tu & HTu & Hf). exists tu. split; [|exact Hf].
  assert (u <> n). { intro; subst u. pose proof (T_fun _ _ _ _ HT HTu); subst tu. congruence. }
  unfold T. rewrite Et, find_upd_other; assumption.
Qed.

Lemma fin_in_app s s' x u : tasks s' = tasks s ++ [x] -> fin_in s u -> fin_in s' u.
Proof. intros Et (tu & HTu & Hf). exists tu. split; [|exact Hf]. unfold T. rewrite Et. apply find_app_some. exact HTu. Qed.

Lemma T_upd_fwd s s' n st c tc :
  tasks s' = upd n st (tasks s) -> T s c tc ->
  exists tc', T s' c tc' /\ (tc' = tc \/ tc' = set_status st tc).
Proof.
  intros Et HT. unfold T. rewrite Et. destruct (N.eq_dec c n) as [->|Hne].
  - exists (set_status st tc). split; [apply find_upd_same; exact HT | auto].
  - exists tc. split; [rewrite find_upd_other; assumption | auto].
Qed.

Lemma InvS_upd s s' n t st :
  InvS s -> T s n t -> is_finished (t_st t) = false -> tasks s' = upd n st (tasks s) -> fmono s s' ->
  (forall pc c, st = Running pc (PSpawned c) ->
     exists tc, T s c tc /\ c <> n /\ t_idx t < t_idx tc /\ (forall u, In u (t_waits tc) -> fin_in s u)
                /\ (t_orphan tc = true -> ctx_failed (t_ctx t) s = true)
                /\ exists ws b, nth_error (t_body t) pc = Some (CSpawn c ws b)) ->
  (forall pc, st = Running pc PIn -> pc < length (t_body t)) ->
  (forall pc ph i nm ws b, st = Running pc ph -> i < pc ->
     nth_error (t_body t) i = Some (CSpawn nm ws b) -> fin_in s nm) ->
  InvS s'.
Proof.
  intros [K1 K2 K3 K4 K5] HT Hnf Et Hf Hsp Hpin Hsibs.
  assert (FI : forall u, fin_in s u -> fin_in s' u) by (intros u; eapply fin_in_upd; eauto).
  split.
  - intros t' Hin. rewrite Et in *. rewrite upd_length. apply in_upd_inv in Hin as [t0 [H0 [->|[-> _]]]]; simpl; auto.
  - intros m t' pc c HT' Hst.
    destruct (T_upd_cases _ _ _ _ _ _ Et HT') as [[-> (t0 & HT0 & ->)] | [Hne Ho]].
    + pose proof (T_fun _ _ _ _ HT HT0); subst t0. cbn [set_status t_st t_idx t_ctx t_body] in *.
      destruct (Hsp _ _ Hst) as (tc & A & Hc & B & C & D & E).
      exists tc. split; [unfold T; rewrite Et, find_upd_other; assumption|]. split; [exact B|].
      split; [intros u Hu; apply FI; auto|]. split; [intro Ho; apply Hf; auto | exact E].
    + destruct (K2 _ _ _ _ Ho Hst) as (tc & A & B & C & D & E).
      destruct (T_upd_fwd _ _ _ st _ _ Et A) as (tc' & A' & Htc').
      exists tc'. split; [exact A'|].
      assert (S3 : t_idx tc' = t_idx tc /\ t_waits tc' = t_waits tc /\ t_orphan tc' = t_orphan tc)
        by (destruct Htc' as [->| ->]; repeat split).
      destruct S3 as (S1 & S2 & S3). rewrite S1, S2, S3.
      split; [exact B|]. split; [intros u Hu; apply FI; auto|]. split; [intro Ho'; apply Hf; auto | exact E].
  - intros m t' pc HT' Hst.
    destruct (T_upd_cases _ _ _ _ _ _ Et HT') as [[-> (t0 & HT0 & ->)] | [Hne Ho]].
    + pose proof (T_fun _ _ _ _ HT HT0); subst t0. cbn [set_status t_st t_body] in *. auto.
    + eauto.
  - intros m t' pc ph i nm ws b HT' Hst Hi Hnth.
    destruct (T_upd_cases _ _ _ _ _ _ Et HT') as [[-> (t0 & HT0 & ->)] | [Hne Ho]].
    + pose proof (T_fun _ _ _ _ HT HT0); subst t0. cbn [set_status t_st t_body] in *. apply FI. eauto.
    + apply FI. eauto.
  - intros t' Hin. rewrite Et in Hin. apply in_upd_inv in Hin as [t0 [H0 [->|[-> _]]]]; simpl; auto.
Qed.

Lemma InvS_app s s' x :
  InvS s -> registered (t_name x) (tasks s) = false -> t_idx x = length (tasks s) ->
  sib_body (t_body x) = true -> t_st x = Waiting 0 ->
  tasks s' = tasks s ++ [x] -> fmono s s' -> InvS s'.
Proof.
  intros [K1 K2 K3 K4 K5] R Hidx Hsb Hst Et Hf.
  assert (FI : forall u, fin_in s u -> fin_in s' u) by (intros u; eapply fin_in_app; eauto).
  assert (Old : forall m t', T s' m t' -> T s m t' \/ t_st t' = Waiting 0).
  { intros m t' HT'. destruct (T_app_cases _ _ _ _ _ Et HT') as [Ho | (_ & -> & _)]; auto. }
  split.
  - intros t' Hin. rewrite Et in *. rewrite app_length. simpl.
    apply in_app_or in Hin as [Hin|[<-|[]]]; [specialize (K1 _ Hin); lia | lia].
  - intros m t' pc c HT' Hs. destruct (Old _ _ HT') as [Ho | Hw]; [|congruence].
    destruct (K2 _ _ _ _ Ho Hs) as (tc & A & B & C & D & E). exists tc.
    split; [unfold T; rewrite Et; apply find_app_some; exact A|]. split; [exact B|].
    split; [intros u Hu; apply FI; auto|]. split; [intro Ho'; apply Hf; auto | exact E].
  - intros m t' pc HT' Hs. destruct (Old _ _ HT') as [Ho | Hw]; [eauto | congruence].
  - intros m t' pc ph i nm ws b HT' Hs Hi Hnth. destruct (Old _ _ HT') as [Ho | Hw]; [|congruence].
    apply FI. eauto.
  - intros t' Hin. rewrite Et in Hin. apply in_app_or in Hin as [Hin|[<-|[]]]; auto.
Qed.

Lemma InvS_same s s' : InvS s -> tasks s' = tasks s -> fmono s s' -> InvS s'.
Proof.
  intros [K1 K2 K3 K4 K5] Et Hf.
  assert (FI : forall u, fin_in s u -> fin_in s' u).
  { intros u (tu & A & B). exists tu. split; [unfold T in *; rewrite Et; exact A | exact B]. }
  split; unfold T in *; rewrite Et; eauto.
  - intros m t' pc c HT' Hs. destruct (K2 _ _ _ _ HT' Hs) as (tc & A & B & C & D & E). exists tc.
    split; [exact A|]. split; [exact B|]. split; [intros u Hu; apply FI; auto|]. split; [intro Ho'; apply Hf; auto | exact E].
Qed.

(** Why the program counter of the actor has the value it has after a step. *)
Definition pc_reason (t : task) (s : state) (pc : nat) : Prop :=
  pc = 0 \/ (exists ph0, t_st t = Running pc ph0)
  \/ (exists pc0, pc = S pc0 /\
        ((t_st t = Running pc0 PIn /\ nth_error (t_body t) pc0 = Some COk)
         \/ (exists c tc, t_st t = Running pc0 (PSpawned c) /\ T s c tc
                          /\ (is_finished (t_st tc) || t_orphan tc) = true
                          /\ ctx_failed (t_ctx t) s = false))).

Lemma task_step_pc t s s' :
  T s (t_name t) t -> task_step false t s = Some s' ->
  exists st, T s' (t_name t) (set_status st t) /\ forall pc ph, st = Running pc ph -> pc_reason t s pc.
Proof.
  intros HT Hs. unfold pc_reason. unfold task_step in Hs. step_cases Hs; inversion Hs; subst s'; clear Hs.
  all: eexists; split;
    [unfold T; simpl; rewrite ?fail_ctx_tasks; apply find_upd_same; try exact HT
    | intros pc' ph' E; try discriminate E; inversion E; subst].
  all: try (left; reflexivity).
  all: try (right; left; eexists; reflexivity).
  all: try (right; right; eexists; split; [reflexivity|]; left; split; [reflexivity | assumption]).
  all: try (right; right; eexists; split; [reflexivity|]; right; do 2 eexists;
            split; [reflexivity|]; split; [eassumption|]; split; [assumption | first [assumption | reflexivity]]).
  match goal with
  | H : create false ?sb ?c ?p s = (?s1, _) |- _ =>
    replace s1 with (fst (create false sb c p s)) by (rewrite H; reflexivity)
  end.
  apply T_after_create. exact HT.
Qed.

Lemma InvS_step l s s' :
  InvS s -> match l with LCreate sb _ => sib_body (s_body sb) = true | _ => True end ->
  step false l s = Some s' -> InvS s'.
Proof.
  intros HK Hsb Hs. pose proof (step_fmono _ _ _ Hs) as Hf.
  destruct l as [sb c | n | n | c]; simpl in Hs.
  - inversion Hs; subst s'; clear Hs.
    destruct (create_false_cases sb c None s) as [Ec | (R & V & Ec)]; rewrite Ec in *; simpl in Hf |- *.
    + eapply InvS_same; eauto.
    + eapply (InvS_app s _ (new_task sb c None s)); eauto.
  - destruct (find_task n (tasks s)) as [t|] eqn:En; [|discriminate].
    pose proof (find_task_some _ _ _ En) as [Hn Hin].
    assert (HT : T s (t_name t) t) by (unfold T; rewrite Hn; exact En).
    pose proof (task_step_unfinished _ _ _ Hs) as Hnf.
    destruct (task_step_pc _ _ _ HT Hs) as (st' & HTs' & Hpc).
    destruct (task_step_shape t s s' HT Hs) as [(st & Ht & Hns & Hpin) | (pc & nm & ws & b & Hst & Hnth & R & Ht)].
    + assert (Est' : st' = st).
      { assert (HTs : T s' (t_name t) (set_status st t)) by (unfold T; rewrite Ht; apply find_upd_same; exact HT).
        pose proof (T_fun _ _ _ _ HTs' HTs) as Eq. apply (f_equal t_st) in Eq. exact Eq. }
      subst st'.
      eapply (InvS_upd s s' (t_name t) t st); eauto.
      * intros pc c0 Ec. exfalso. eapply Hns; eauto.
      * intros pc ph i nm ws b Est Hi Hnth.
        destruct (Hpc _ _ Est) as [-> | [(ph0 & E0) | (pc0 & -> & [[E0 Hcmd] | (c0 & tc & E0 & HTc & Hfo & Hcf)])]].
        -- lia.
        -- eapply (s_sibs _ HK (t_name t) t); eauto.
        -- destruct (Nat.eq_dec i pc0) as [->|Hne]; [congruence|].
           eapply (s_sibs _ HK (t_name t) t pc0); eauto. lia.
        -- destruct (Nat.eq_dec i pc0) as [->|Hne].
           ++ destruct (s_spawn _ HK _ _ _ _ HT E0) as (tc1 & A & B & C & D & (ws1 & b1 & E1)).
              rewrite E1 in Hnth. inversion Hnth; subst.
              pose proof (T_fun _ _ _ _ A HTc); subst tc1.
              exists tc. split; [exact HTc|]. apply orb_true_iff in Hfo as [Hfo|Hfo]; [exact Hfo|].
              rewrite (D Hfo) in Hcf. discriminate.
           ++ eapply (s_sibs _ HK (t_name t) t pc0); eauto. lia.
    + destruct (sib_from_spec _ _ _ _ _ _ (s_sib _ HK _ Hin) Hnth) as [Hsb' Hw].
      set (nt := new_task {| s_name := nm; s_waits := ws; s_body := b |} (t_ctx t) (Some (t_name t)) s) in *.
      set (s1 := with_tasks (tasks s ++ [nt]) s).
      assert (HK1 : InvS s1).
      { eapply (InvS_app s s1 nt); eauto; try reflexivity. intros c0 Hc0. exact Hc0. }
      assert (HT1 : T s1 (t_name t) t) by (unfold T; simpl; apply find_app_some; exact HT).
      assert (Hne : nm <> t_name t).
      { intro; subst nm. apply find_task_none in R. unfold T in HT. congruence. }
      apply (InvS_upd s1 s' (t_name t) t (Running pc (PSpawned nm)) HK1 HT1 Hnf Ht).
      * intros c0 Hc0. apply Hf. exact Hc0.
      * intros pc' c0 Ec. inversion Ec; subst c0 pc'. exists nt.
        split; [unfold T; simpl; rewrite find_app_none by (apply find_task_none; assumption);
                simpl; rewrite N.eqb_refl; reflexivity|].
        split; [exact Hne|]. split; [simpl; apply (s_idx _ HK); assumption|].
        split; [|split; [intro Ho; exact Ho | eauto]].
        intros u Hu. simpl in Hu. destruct (Hw u Hu) as [[] | (i & ws' & b' & Hi & Hnth')].
        eapply (fin_in_app s s1 nt); [reflexivity|]. eapply (s_sibs _ HK (t_name t) t); eauto.
      * intros pc' Ec. discriminate Ec.
      * intros pc' ph i nm' ws' b' Est Hi Hnth'. inversion Est; subst pc' ph.
        eapply (fin_in_app s s1 nt); [reflexivity|]. eapply (s_sibs _ HK (t_name t) t); eauto.
  - destruct (find_task n (tasks s)) as [t|] eqn:En; [|discriminate].
    destruct (t_st t) as [| pc [| | |] | | |] eqn:Est; try discriminate.
    destruct (ctx_failed (t_ctx t) s); [|discriminate]. inversion Hs; subst s'.
    eapply (InvS_upd s _ n t Closing); eauto; try discriminate; try reflexivity.
    rewrite Est. reflexivity.
  - inversion Hs; subst s'. eapply InvS_same; eauto. apply fail_ctx_tasks.
Qed.

Lemma InvS_init root : InvS (init root).
Proof. split; simpl; try tauto; intros; discriminate. Qed.

Lemma sib_sched_cons l r : sib_sched (l :: r) -> sib_sched r.
Proof. intros H sb c Hin. apply (H sb c). right. exact Hin. Qed.

Lemma InvS_run_from sched s : sib_sched sched -> InvS s -> InvS (run false sched s).
Proof.
  revert s. induction sched as [|l r IH]; intros s Hf Hs; simpl; [assumption|].
  apply IH; [eapply sib_sched_cons; eauto|].
  unfold step_skip. destruct (step false l s) as [s'|] eqn:E; [|assumption].
  eapply InvS_step; eauto. destruct l; auto. apply (Hf sb c). left. reflexivity.
Qed.

Lemma InvS_run root sched : sib_sched sched -> InvS (run false sched (init root)).
Proof. intro H. apply InvS_run_from; [exact H | apply InvS_init]. Qed.

(** Descend along [blocked on the task I spawned]: the chain ends in an enabled task. *)
Lemma descend_sib s :
  Inv s -> InvS s ->
  forall d n t, T s n t -> length (tasks s) - t_idx t <= d ->
    is_finished (t_st t) = false ->
    (forall i, t_st t = Waiting i -> forall u, In u (t_waits t) -> fin_in s u) ->
    exists m, step false (LTask m) s <> None.
Proof.
  intros HI HK. induction d as [|d IH]; intros n t HT Hd Hnf Hw.
  - pose proof (find_task_some _ _ _ HT) as [_ Hin]. pose proof (s_idx _ HK _ Hin). lia.
  - pose proof (find_task_some _ _ _ HT) as [Hn Hin].
    assert (Hstep : step false (LTask n) s = task_step false t s) by (simpl; unfold T in HT; rewrite HT; reflexivity).
    destruct (t_st t) as [i | pc ph | | ok |] eqn:Est; try discriminate.
    + exists n. rewrite Hstep. unfold task_step. rewrite Est.
      destruct (nth_error (t_waits t) i) as [u|] eqn:Enth; [|discriminate].
      destruct (Hw i eq_refl u (nth_error_In _ _ Enth)) as (tu & HTu & Hfu).
      unfold T in HTu. rewrite HTu, Hfu. destruct (ctx_failed _ _); discriminate.
    + destruct ph as [| | c |].
      * exists n. rewrite Hstep. unfold task_step. rewrite Est. destruct (nth_error _ _); discriminate.
      * exists n. rewrite Hstep. unfold task_step. rewrite Est.
        pose proof (s_pin _ HK _ _ _ HT Est) as Hpc. apply nth_error_Some in Hpc.
        destruct (nth_error (t_body t) pc) as [[| | nm ws b]|]; [| | |congruence].
        -- destruct (ctx_failed _ _); discriminate.
        -- discriminate.
        -- destruct (create _ _ _ _ _). discriminate.
      * destruct (s_spawn _ HK _ _ _ _ HT Est) as (tc & A & B & C & _).
        destruct (is_finished (t_st tc) || t_orphan tc) eqn:Ef.
        -- exists n. rewrite Hstep. unfold task_step. rewrite Est. unfold T in A. rewrite A, Ef.
           destruct (ctx_failed _ _); discriminate.
        -- apply orb_false_iff in Ef as [Ef _].
           apply (IH c tc A); [lia | assumption | intros; auto].
      * exists n. rewrite Hstep. unfold task_step. rewrite Est. discriminate.
    + exists n. rewrite Hstep. unfold task_step. rewrite Est. discriminate.
    + pose proof (inv_tasks _ HI _ _ HT) as [_ Hti]. rewrite Est in Hti. contradiction.
Qed.

(** No deadlock: in every reachable state with an unfinished task some runner goroutine has an
    enabled step - for every schedule whose outside submissions have sibling-only nested waits. *)
Lemma no_deadlock_sib root sched :
  sib_sched sched ->
  let s := run false sched (init root) in
  all_finished s = false -> exists n, step false (LTask n) s <> None.
Proof.
  intros Hfl s Hnf. pose proof (Inv_run root sched) as HI. pose proof (Inv2_run root sched) as [Ho Hnd _].
  pose proof (InvS_run root sched Hfl) as HK. fold s in HI, Ho, Hnd, HK.
  destruct (first_unfinished _ Hnf) as (a & x & b & E & Ha & Hx).
  assert (Hin : In x (tasks s)) by (rewrite E; apply in_or_app; right; left; reflexivity).
  pose proof (in_find _ _ _ Hnd Hin eq_refl) as HT.
  eapply (descend_sib s HI HK _ _ x HT (Nat.le_refl _) Hx).
  intros i Est u Hu. destruct (Ho _ _ _ E u Hu) as [R _].
  apply registered_find in R as [tu Hu']. pose proof (find_task_some _ _ _ Hu') as [_ Hina].
  exists tu. split; [unfold T; rewrite E; apply find_app_l; exact Hu'|].
  rewrite forallb_forall in Ha. apply Ha. exact Hina.
Qed.

(** * Liveness without a fairness assumption *)

Definition is_ltask (l : label) : bool := match l with LTask _ => true | _ => false end.

Lemma sib_sched_app a b : sib_sched a -> forallb is_ltask b = true -> sib_sched (a ++ b).
Proof.
  intros Ha Hb sb c Hin. apply in_app_or in Hin as [Hin|Hin]; [eapply Ha; eauto|].
  rewrite forallb_forall in Hb. specialize (Hb _ Hin). discriminate Hb.
Qed.

(** When every registered task has finished, the manager's Wait is enabled and every accepted
    submission (outside or nested) has its Finished event. *)
Lemma finished_state root sched :
  let s := run false sched (init root) in
  all_finished s = true ->
  mgr_wait s <> None /\ forall n, In (ESubmitted n true) (log s) -> exists ok, In (EFinished n ok) (log s).
Proof.
  intros s Ha. split; [apply (manager_wait root sched); exact Ha|].
  intros n Hn. pose proof (Reach_run root sched) as HR. fold s in HR.
  pose proof (Reach_SubReg _ _ HR _ Hn) as R. apply registered_find in R as [t HT].
  pose proof (find_task_some _ _ _ HT) as [_ Hin].
  unfold all_finished in Ha. rewrite forallb_forall in Ha. specialize (Ha _ Hin).
  pose proof (inv_tasks _ (Reach_Inv _ _ HR) _ _ HT) as [_ Hti].
  destruct (t_st t) as [| | | ok |]; try discriminate Ha. exists ok. apply Hti.
Qed.

Lemma finish_within k : forall root sched,
  sib_sched sched -> work (run false sched (init root)) <= k ->
  exists sched', forallb is_ltask sched' = true /\ length sched' <= k
    /\ effective sched' (run false sched (init root)) = length sched'
    /\ all_finished (run false sched' (run false sched (init root))) = true.
Proof.
  induction k as [|k IH]; intros root sched Hs Hw;
    (destruct (all_finished (run false sched (init root))) eqn:Ea;
     [exists []; simpl; repeat split; [lia | exact Ea] |]);
    destruct (no_deadlock_sib root sched Hs Ea) as [n Hn];
    destruct (step false (LTask n) (run false sched (init root))) as [s1|] eqn:E; try congruence;
    pose proof (Inv2_run root sched) as [_ Hnd _];
    pose proof (step_work (LTask n) _ _ Hnd eq_refl E) as Hlt; [lia|].
  assert (E1 : run false (sched ++ [LTask n]) (init root) = s1).
  { rewrite run_app. simpl. unfold step_skip. rewrite E. reflexivity. }
  destruct (IH root (sched ++ [LTask n])) as (sched' & A & B & C & D).
  - apply sib_sched_app; [exact Hs | reflexivity].
  - rewrite E1. lia.
  - rewrite E1 in C, D. exists (LTask n :: sched'). split; [exact A|]. split; [simpl; lia|]. split.
    + cbn [effective length]. rewrite E, C. reflexivity.
    + change (run false (LTask n :: sched') (run false sched (init root)))
        with (run false sched' (step_skip false (run false sched (init root)) (LTask n))).
      unfold step_skip. rewrite E. exact D.
Qed.

(** From every reachable state at most [work s] enabled steps of runner goroutines lead to a state
    in which every task has finished; there the manager's Wait returns and every accepted
    submission has finished. *)
Lemma accept_finishes_live root sched :
  sib_sched sched ->
  let s := run false sched (init root) in
  exists sched', forallb is_ltask sched' = true /\ length sched' <= work s
    /\ effective sched' s = length sched'
    /\ let s' := run false sched' s in
       all_finished s' = true /\ mgr_wait s' <> None
       /\ forall n, In (ESubmitted n true) (log s') -> exists ok, In (EFinished n ok) (log s').
Proof.
  intros Hs s. destruct (finish_within (work s) root sched Hs (Nat.le_refl _)) as (sched' & A & B & C & D).
  exists sched'. split; [exact A|]. split; [exact B|]. split; [exact C|].
  cbv zeta. unfold s in *. rewrite <- run_app in *. split; [exact D|]. apply finished_state. exact D.
Qed.

(** A run that cannot go on is complete: a reachable state in which no runner goroutine has an
    enabled step has every task finished. *)
Lemma stuck_is_finished root sched :
  sib_sched sched ->
  let s := run false sched (init root) in
  (forall n, step false (LTask n) s = None) ->
  all_finished s = true /\ mgr_wait s <> None
  /\ forall n, In (ESubmitted n true) (log s) -> exists ok, In (EFinished n ok) (log s).
Proof.
  intros Hs s Hstuck. assert (Ha : all_finished s = true).
  { destruct (all_finished s) eqn:Ea; [reflexivity|].
    destruct (no_deadlock_sib root sched Hs Ea) as [n Hn]. exfalso. apply Hn. apply Hstuck. }
  split; [exact Ha|]. apply finished_state. exact Ha.
Qed.

(** * A failing command fails its task *)

(** A runner goroutine that waits for a nested task is at a pip:run command. *)
Definition PhaseInv (s : state) : Prop :=
  forall n t pc c, T s n t -> t_st t = Running pc (PSpawned c) ->
    exists ws b, nth_error (t_body t) pc = Some (CSpawn c ws b).

Lemma step_PhaseInv l s s' : PhaseInv s -> step false l s = Some s' -> PhaseInv s'.
Proof.
  intros HP Hs m t' pc c HT' Hst. destruct l as [sb c0 | n | n | c0]; simpl in Hs.
  - inversion Hs; subst s'; clear Hs.
    destruct (create_false_cases sb c0 None s) as [E | (R & V & E)]; rewrite E in HT'; simpl in HT'.
    + eapply HP; eauto.
    + eapply (T_app_cases s _ (new_task sb c0 None s)) in HT'; [|reflexivity].
      destruct HT' as [Ho | (_ & -> & _)]; [eapply HP; eauto | discriminate Hst].
  - destruct (find_task n (tasks s)) as [t|] eqn:En; [|discriminate].
    pose proof (find_task_some _ _ _ En) as [Hn _].
    assert (HT : T s (t_name t) t) by (unfold T; rewrite Hn; exact En).
    destruct (task_step_shape t s s' HT Hs) as [(st & Ht & Hns & _) | (pc0 & nm & ws & b & _ & Hnth & _ & Ht)].
    + destruct (T_upd_cases _ _ _ _ _ _ Ht HT') as [[-> (t0 & HT0 & ->)] | [_ Ho]]; [|eapply HP; eauto].
      simpl in Hst. exfalso. eapply Hns; eauto.
    + set (nt := new_task {| s_name := nm; s_waits := ws; s_body := b |} (t_ctx t) (Some (t_name t)) s) in *.
      destruct (T_upd_cases (with_tasks (tasks s ++ [nt]) s) _ _ _ _ _ Ht HT') as [[-> (t0 & HT0 & ->)] | [_ Ho]].
      * assert (HT1 : T (with_tasks (tasks s ++ [nt]) s) (t_name t) t) by (unfold T; simpl; apply find_app_some; exact HT).
        pose proof (T_fun _ _ _ _ HT1 HT0); subst t0. simpl in Hst. inversion Hst; subst. simpl. eauto.
      * eapply (T_app_cases s _ nt) in Ho; [|reflexivity].
        destruct Ho as [Ho | (_ & -> & _)]; [eapply HP; eauto | discriminate Hst].
  - destruct (find_task n (tasks s)) as [t|] eqn:En; [|discriminate].
    destruct (t_st t) as [| pc0 [| | |] | | |] eqn:Est; try discriminate.
    destruct (ctx_failed (t_ctx t) s); [|discriminate]. inversion Hs; subst s'; clear Hs.
    destruct (T_set_st _ _ _ _ _ HT') as [[-> (t0 & HT0 & ->)] | [_ Ho]]; [discriminate Hst | eapply HP; eauto].
  - inversion Hs; subst s'. unfold T in HT'. rewrite fail_ctx_tasks in HT'. eapply HP; eauto.
Qed.

(** Where a successful end of a command comes from. *)
Lemma step_cmdend_true l s s' n i :
  step false l s = Some s' -> In (ECmdEnd n i true) (log s') ->
  In (ECmdEnd n i true) (log s)
  \/ exists t, T s n t /\ ((t_st t = Running i PIn /\ nth_error (t_body t) i = Some COk)
                           \/ exists c, t_st t = Running i (PSpawned c)).
Proof.
  intros Hs Hin. destruct l as [sb c0 | m | m | c0]; simpl in Hs.
  - inversion Hs; subst s'; clear Hs.
    destruct (create_false_cases sb c0 None s) as [E | (R & V & E)]; rewrite E in Hin; simpl in Hin;
      (destruct Hin as [Hin|Hin]; [discriminate Hin | left; exact Hin]).
  - destruct (find_task m (tasks s)) as [t|] eqn:En; [|discriminate].
    pose proof (find_task_some _ _ _ En) as [Hn _].
    assert (HT : T s (t_name t) t) by (unfold T; rewrite Hn; exact En).
    unfold task_step in Hs. step_cases Hs; inversion Hs; subst s'; clear Hs.
    all: simpl in Hin; rewrite ?fail_ctx_log in Hin.
    all: try (left; exact Hin).
    all: try (destruct Hin as [Hin|Hin]; [try discriminate Hin | left; exact Hin]).
    all: try (inversion Hin; subst; right; exists t; split; [exact HT|]; first [left; split; assumption | right; eexists; eassumption]).
    match goal with
    | H : create false ?sb ?c ?p s = (?s1, _) |- _ =>
      destruct (create_false_cases sb c p s) as [E | (R & V & E)]; rewrite E in H; inversion H; subst; simpl in Hin;
        (destruct Hin as [Hin|Hin]; [discriminate Hin | left; exact Hin])
    end.
  - destruct (find_task m (tasks s)) as [t|] eqn:En; [|discriminate].
    destruct (t_st t) as [| pc0 [| | |] | | |] eqn:Est; try discriminate.
    destruct (ctx_failed (t_ctx t) s); [|discriminate]. inversion Hs; subst s'. left. exact Hin.
  - inversion Hs; subst s'. rewrite fail_ctx_log in Hin. left. exact Hin.
Qed.

Definition CmdKind (s : state) : Prop :=
  forall n t i, T s n t -> In (ECmdEnd n i true) (log s) -> nth_error (t_body t) i <> Some CFail.

Lemma step_CmdKind l s s' : Inv s -> PhaseInv s -> CmdKind s -> step false l s = Some s' -> CmdKind s'.
Proof.
  intros HI HP HC Hs n t' i HT' Hin.
  assert (Hbody : forall t, T s n t -> t_body t' = t_body t).
  { intros t HT. destruct (step_back _ _ _ _ _ Hs HT') as [Ho | [[Hnone _] | (t0 & st & HT0 & -> & _)]].
    - rewrite (T_fun _ _ _ _ HT Ho). reflexivity.
    - unfold T in HT. congruence.
    - rewrite (T_fun _ _ _ _ HT HT0). reflexivity. }
  destruct (step_cmdend_true _ _ _ _ _ Hs Hin) as [Hold | (t & HT & Horig)].
  - pose proof (inv_evreg _ HI _ Hold eq_refl) as R. simpl in R. apply registered_find in R as [t HT].
    rewrite (Hbody _ HT). eapply HC; eauto.
  - rewrite (Hbody _ HT). destruct Horig as [[_ Hc] | [c Hst]].
    + rewrite Hc. discriminate.
    + destruct (HP _ _ _ _ HT Hst) as (ws & b & Hc). rewrite Hc. discriminate.
Qed.

Lemma CmdKind_run root sched :
  let s := run false sched (init root) in CmdKind s /\ PhaseInv s /\ Inv s.
Proof.
  assert (G : forall sched s, Inv s -> PhaseInv s -> CmdKind s ->
                              CmdKind (run false sched s) /\ PhaseInv (run false sched s) /\ Inv (run false sched s)).
  { clear. induction sched as [|l r IH]; intros s HI HP HC; simpl; [auto|].
    unfold step_skip. destruct (step false l s) as [s'|] eqn:E; [|apply IH; assumption].
    apply IH; [eapply step_Inv; eauto | eapply step_PhaseInv; eauto | eapply step_CmdKind; eauto]. }
  apply G; [apply Inv_init | intros n t pc c HT; discriminate HT | intros n t i HT; discriminate HT].
Qed.

(** A task whose script has a failing command at position [i]: that command never ends without
    error, no later command of the script ever begins, and the task can only finish failed -
    in every schedule. *)
Lemma failing_command root sched n t i :
  let s := run false sched (init root) in
  T s n t -> nth_error (t_body t) i = Some CFail ->
  ~ In (ECmdEnd n i true) (log s)
  /\ (forall j, i < j -> ~ In (ECmdBegin n j) (log s))
  /\ (forall ok, t_st t = Finished ok -> ok = false).
Proof.
  intros s HT Hc. destruct (CmdKind_run root sched) as (HC & _ & _). fold s in HC.
  assert (H1 : ~ In (ECmdEnd n i true) (log s)) by (intro Hin; eapply HC; eauto).
  split; [exact H1|]. split.
  - intros j Hj Hin. destruct (in_split _ _ Hin) as (a & b & E).
    destruct (sequential_body _ _ _ _ _ _ E) as (C1 & _). destruct (C1 i Hj) as [_ Hend].
    apply H1. fold s in E. rewrite E. apply in_or_app. right. right. exact Hend.
  - intros ok Est. destruct ok; [|reflexivity]. exfalso.
    destruct (success_ran_all root sched n t HT Est) as (_ & Hall & _).
    apply H1. apply Hall. apply nth_error_Some. congruence.
Qed.

(** * A failed prerequisite: the waiting task does finish, failed, without running *)

Lemma run_static sched s n t : T s n t -> exists t', T (run false sched s) n t' /\ same_static t t'.
Proof.
  intro HT. apply (run_inv (fun x => exists t', T x n t' /\ same_static t t')).
  - intros x x' (t1 & HT1 & (A1 & A2 & A3 & A4)) Htr.
    destruct (tr_static _ _ _ _ _ Htr HT1) as (t2 & HT2 & (B1 & B2 & B3 & B4)).
    exists t2. split; [exact HT2|]. repeat split; congruence.
  - exists t. split; [exact HT | repeat split].
Qed.

Lemma run_log_incl sched s e : In e (log s) -> In e (log (run false sched s)).
Proof.
  intro H. apply (run_inv (fun x => In e (log x))); [|exact H].
  intros x x' Hx Htr. eapply tr_log_incl; eauto.
Qed.

Lemma failed_prereq_ends_failed root sched n t u :
  sib_sched sched ->
  let s := run false sched (init root) in
  T s n t -> In u (t_waits t) -> In (EFinished u false) (log s) ->
  exists sched', forallb is_ltask sched' = true /\ length sched' <= work s /\
    let s' := run false sched' s in
    (exists t', T s' n t' /\ t_st t' = Finished false)
    /\ (forall ws, ~ In (EBodyBegin n ws) (log s')) /\ (forall i, ~ In (ECmdBegin n i) (log s')).
Proof.
  intros Hs s HT Hu Hf.
  destruct (finish_within (work s) root sched Hs (Nat.le_refl _)) as (sched' & A & B & _ & D).
  exists sched'. split; [exact A|]. split; [exact B|]. cbv zeta.
  destruct (run_static sched' s n t HT) as (t' & HT' & (_ & Hw & _)).
  pose proof (run_log_incl sched' s _ Hf) as Hf'.
  unfold s in HT', Hf', D |- *. rewrite <- run_app in *.
  rewrite <- Hw in Hu.
  destruct (failed_prereq root (sched ++ sched') n t' u HT' Hu Hf') as (P1 & P2 & P3).
  split; [|split; assumption]. exists t'. split; [exact HT'|].
  pose proof (find_task_some _ _ _ HT') as [_ Hin].
  unfold all_finished in D. rewrite forallb_forall in D. specialize (D _ Hin).
  destruct (t_st t') as [| | | ok |] eqn:Est; try discriminate D. rewrite (P3 ok eq_refl). reflexivity.
Qed.

(** * A rejected submission leaves nothing behind (the repaired TaskManager.Create, F21) *)

Lemma reject_no_residue sb c p s s' :
  create false sb c p s = (s', false) ->
  tasks s' = tasks s /\ counter s' = counter s /\ failed s' = failed s
  /\ log s' = ESubmitted (s_name sb) false :: log s.
Proof.
  intro E. destruct (create_false_cases sb c p s) as [E' | (_ & _ & E')]; rewrite E' in E; inversion E; subst.
  repeat split.
Qed.

Lemma reject_unknown sb c p s u :
  In u (s_waits sb) -> registered u (tasks s) = false \/ u = s_name sb ->
  snd (create false sb c p s) = false.
Proof.
  intros Hu Hbad. destruct (create false sb c p s) as [s' acc] eqn:E. destruct acc; [|reflexivity].
  destruct (create_accepted_waits _ _ _ _ _ E u Hu) as [R Hne]. destruct Hbad as [Hb | Hb]; congruence.
Qed.

(** * The premise on nested wait lists is needed *)

Lemma nested_wait_refuted :
  let s := run false [LCreate {| s_name := 1%N; s_waits := []; s_body := [CSpawn 2%N [1%N] [COk]] |} 11%N;
                      LTask 1%N; LTask 1%N; LTask 1%N] (init 0%N) in
  all_finished s = false /\ (forall n, step false (LTask n) s = None) /\ mgr_wait s = None
  /\ In (ESubmitted 2%N true) (log s).
Proof.
  cbv zeta. split; [vm_compute; reflexivity|]. split; [|split; [vm_compute; reflexivity | vm_compute; auto]].
  intro n. cbn [step].
  match goal with |- match find_task n (tasks ?s) with _ => _ end = None =>
    destruct (find_task n (tasks s)) as [t|] eqn:E; [|reflexivity] end.
  apply find_task_some in E as [_ Hin]. vm_compute in Hin.
  destruct Hin as [<-|[<-|[]]]; vm_compute; reflexivity.
Qed.
