(** Proof audit of C02, part 2: the clean-failure (frame) clause over whole histories, for both
    backends, root and held child filespaces, with NO precondition on the operations. *)
From GC Require Import Common.Base Model.Paths Model.Fs Model.DiskFs Model.DiskHist
  Proofs.Paths Proofs.Fs Proofs.DiskFs Proofs.DiskHist.

Lemma reduce_node_reduce s r : reduce_node s = Some r -> reduce s = Some r.
Proof. unfold reduce_node. destruct (reduce s) as [[|? ?]|]; congruence. Qed.

(** a memfs view forwards ONE root operation whose targets are the view's targets, prefixed *)
Lemma view_step_forward2 b t o : good_path b = true ->
  fst (view_step (view_base b) t o) = t \/
  exists o', view_step (view_base b) t o = mem_step t o' /\
    forall s', In s' (targets o') ->
      exists s r, In s (targets o) /\ reduce s = Some r /\ reduce s' = Some (b ++ r).
Proof.
  intros Gb.
  destruct o; cbv beta iota zeta delta [view_step];
  repeat match goal with
  | |- context [match reduce ?s with _ => _ end] => destruct (reduce s) eqn:?
  | |- context [match reduce_node ?s with _ => _ end] => destruct (reduce_node s) eqn:?
  end; auto; right; eexists; (split; [reflexivity|]); cbn [targets In]; intros s' Hs';
  repeat match goal with H : _ \/ _ |- _ => destruct H | H : False |- _ => destruct H end; subst;
  repeat match goal with
  | H : reduce_node _ = Some _ |- _ => apply reduce_node_reduce in H
  end;
  eexists; eexists; (split; [left; reflexivity|]); (split; [eassumption|]);
  (apply reduce_wrap_view; [exact Gb|eapply reduce_good; eassumption]).
Qed.

Lemma mem_at_WF b t o : WF t -> WF (fst (mem_at b t o)).
Proof. intros H. destruct b; unfold mem_at; [apply mem_step_WF|apply view_step_WF]; exact H. Qed.

Theorem mem_at_outside b t o q :
  WF t -> good_path b = true ->
  (forall s p, In s (targets o) -> reduce s = Some p -> is_prefix (b ++ p) q = false) ->
  (forall e, lookup t q = Some e -> lookup (fst (mem_at b t o)) q = Some e) /\
  (lookup t q = None -> lookup (fst (mem_at b t o)) q <> None ->
   lookup (fst (mem_at b t o)) q = Some D /\
   exists s p, In s (targets o) /\ reduce s = Some p /\ is_prefix q (b ++ p) = true).
Proof.
  intros HWF Gb Hout. destruct b as [|n b]; unfold mem_at.
  - exact (mem_step_outside t o q HWF Hout).
  - destruct (view_step_forward2 (n :: b) t o Gb) as [->|(o' & -> & Ht)].
    + split; [auto|]. intros A B. congruence.
    + assert (Hout' : forall s p, In s (targets o') -> reduce s = Some p -> is_prefix p q = false).
      { intros s' p Hs' Hp. destruct (Ht s' Hs') as (s & r & Hs & Hr & Hs'r).
        rewrite Hs'r in Hp. inversion Hp; subst. exact (Hout s r Hs Hr). }
      destruct (mem_step_outside t o' q HWF Hout') as [P N]. split; [exact P|].
      intros A B. destruct (N A B) as (C & s' & p & Hs' & Hp & Hqp). split; [exact C|].
      destruct (Ht s' Hs') as (s & r & Hs & Hr & Hs'r). rewrite Hs'r in Hp. inversion Hp; subst.
      exists s, r. auto.
Qed.

(** * Histories *)
Definition unaddressed (h : list (path * op)) (q : path) : Prop :=
  forall bo s p, In bo h -> In s (targets (snd bo)) -> reduce s = Some p ->
                 is_prefix (fst bo ++ p) q = false.

Definition hframe (h : list (path * op)) (t t' : fs) (q : path) : Prop :=
  (forall e, lookup t q = Some e -> lookup t' q = Some e) /\
  (lookup t q = None -> lookup t' q <> None ->
   lookup t' q = Some D /\
   exists bo s p, In bo h /\ In s (targets (snd bo)) /\ reduce s = Some p /\
                  is_prefix q (fst bo ++ p) = true).

Section HistFrame.
  Variable step : path -> fs -> op -> fs * out.
  Hypothesis step_WF : forall b t o, WF t -> good_path b = true -> WF (fst (step b t o)).
  Hypothesis step_outside : forall b t o q, WF t -> good_path b = true ->
    (forall s p, In s (targets o) -> reduce s = Some p -> is_prefix (b ++ p) q = false) ->
    (forall e, lookup t q = Some e -> lookup (fst (step b t o)) q = Some e) /\
    (lookup t q = None -> lookup (fst (step b t o)) q <> None ->
     lookup (fst (step b t o)) q = Some D /\
     exists s p, In s (targets o) /\ reduce s = Some p /\ is_prefix q (b ++ p) = true).

  Lemma fold_frame q h : forall t, WF t ->
    (forall bo, In bo h -> good_path (fst bo) = true) -> unaddressed h q ->
    hframe h t (fold_left (fun t bo => fst (step (fst bo) t (snd bo))) h t) q /\
    WF (fold_left (fun t bo => fst (step (fst bo) t (snd bo))) h t).
  Proof.
    induction h as [|bo h IH]; intros t HWF Hg Hun; cbn [fold_left].
    - split; [|exact HWF]. split; [auto|]. intros A B. congruence.
    - assert (Gb : good_path (fst bo) = true) by (apply Hg; left; reflexivity).
      pose proof (step_WF (fst bo) t (snd bo) HWF Gb) as HWF1.
      destruct (step_outside (fst bo) t (snd bo) q HWF Gb) as [P1 N1].
      { intros s p Hs Hp. exact (Hun bo s p (or_introl eq_refl) Hs Hp). }
      destruct (IH (fst (step (fst bo) t (snd bo))) HWF1) as [[P2 N2] HWF2].
      { intros bo' Hin. apply Hg. right. exact Hin. }
      { intros bo' s p Hin. apply Hun. right. exact Hin. }
      split; [|exact HWF2]. split.
      + intros e He. apply P2, P1, He.
      + intros A B. destruct (lookup (fst (step (fst bo) t (snd bo))) q) as [e1|] eqn:E1.
        * destruct (N1 A ltac:(congruence)) as (C & s & p & Hs & Hp & Hqp). inversion C; subst.
          split; [apply P2; reflexivity|]. exists bo, s, p. split; [left; reflexivity|]. auto.
        * destruct (N2 eq_refl B) as (C & bo' & s & p & Hin & Hs & Hp & Hqp).
          split; [exact C|]. exists bo', s, p. split; [right; exact Hin|]. auto.
  Qed.
End HistFrame.

Theorem frame_history h t q :
  WF t -> (forall bo, In bo h -> good_path (fst bo) = true) -> unaddressed h q ->
  hframe h t (run_disk_at t h) q /\ hframe h t (run_mem_at t h) q /\
  WF (run_disk_at t h) /\ WF (run_mem_at t h).
Proof.
  intros HWF Hg Hun.
  destruct (fold_frame d_step d_step_WF d_step_outside q h t HWF Hg Hun) as [A B].
  destruct (fold_frame mem_at (fun b t o H _ => mem_at_WF b t o H) mem_at_outside q h t HWF Hg Hun) as [C E].
  unfold run_disk_at, run_mem_at. auto.
Qed.
