(** ScopeLive.v — the executable premise of the liveness theorem of the close protocol
    (C11_close_returns).  Definitions only.

    The first [k] threads of a state are the program threads ([init progs] creates [length progs] of
    them; every later thread is the watcher of an isolated context).  [live_ok k st] says, of the
    operations the program threads still have to issue and of the micro-steps they are in:

    - wind-down: no AddTasks and no NewChild is left (no task counter will be raised any more);
    - every accepted task is finished exactly once: for every scope the number of DoneTask
      operations left in the programs is the ghost count of accepted, unfinished tasks
      (and no DoneTask is left for a scope that does not exist);
    - every Close that has started is being run by a program thread;
    - every child registered on its parent has not signed off yet, and its Close is either being
      run or is left in some program;
    - no circular wait between the programs themselves: an operation on which a thread can park
      (Close s / Wait s with a non-zero task counter of s NOW; counters never rise again) is followed,
      in the same thread, only by DoneTask a / Close a with a < s (a child has a larger number
      than its parent, so this is: a thread that waits for a sub-tree owes nothing to that sub-tree
      or to a scope created later). *)
From GC Require Import Common.Base Model.Scope.
From Coq Require Import ZArith.
Local Open Scope nat_scope.

Definition op_noinc (o : op) : bool :=
  match o with OAddTasks _ | ONewChild _ _ => false | _ => true end.

(** the scope on which an operation / a micro-step can park *)
Definition blk_op (o : op) : option nat :=
  match o with OClose s | OWait s => Some s | _ => None end.
Definition blk_instr (i : instr) : option nat :=
  match i with IRunClose s | IWait s => Some s | _ => None end.
(** the scope whose counter an operation brings down (its own for DoneTask; the parent's, through the
    sign-off, for Close: both are numbered by the scope the operation names) *)
Definition obl_op (o : op) : option nat :=
  match o with ODoneTask s | OClose s => Some s | _ => None end.

Definition busy (sh : shared) (s : nat) : bool := negb (Z.eqb (s_wg (gets sh s)) 0).
Definition below (b : nat) (o : op) : bool :=
  match obl_op o with Some a => Nat.ltb a b | None => true end.
Definition may_wait (sh : shared) (ob : option nat) (later : list op) : bool :=
  match ob with
  | Some b => if busy sh b then forallb (below b) later else true
  | None => true
  end.
Fixpoint ordered_ops (sh : shared) (l : list op) : bool :=
  match l with
  | [] => true
  | o :: l' => may_wait sh (blk_op o) l' && ordered_ops sh l'
  end.
Definition ordered_thread (sh : shared) (th : thread) : bool :=
  forallb (fun i => may_wait sh (blk_instr i) (t_todo th)) (t_cur th) && ordered_ops sh (t_todo th).

Definition pthreads (k : nat) (st : state) : list thread := firstn k (ths st).

Definition is_done (s : nat) (o : op) : bool :=
  match o with ODoneTask s' => Nat.eqb s' s | _ => false end.
Definition is_close (s : nat) (o : op) : bool :=
  match o with OClose s' => Nat.eqb s' s | _ => false end.
Definition done_count (s : nat) (l : list op) : nat := length (filter (is_done s) l).
Definition total_done (s : nat) (P : list thread) : nat :=
  list_sum (map (fun th => done_count s (t_todo th)) P).
Definition holds_token (s : nat) (th : thread) : bool :=
  match t_cur th with IRunClose s' :: _ => Nat.eqb s' s | _ => false end.
Definition will_close (s : nat) (th : thread) : bool := existsb (is_close s) (t_todo th).
Definition in_progress (p : cpc) : bool :=
  match p with CNone | CFinished => false | _ => true end.

Definition done_valid (sh : shared) (o : op) : bool :=
  match o with ODoneTask s => valids sh s | _ => true end.
Definition tasks_ok (sh : shared) (P : list thread) : bool :=
  forallb (fun s => Z.eqb (s_tasks (gets sh s)) (Z.of_nat (total_done s P))) (seq 0 (length (scopes sh)))
  && forallb (fun th => forallb (done_valid sh) (t_todo th)) P.
Definition scope_ok (sh : shared) (P : list thread) (s : nat) : bool :=
  let sc := gets sh s in
  (if in_progress (s_pc sc) then existsb (holds_token s) P else true)
  && match s_reg sc with
     | None => true
     | Some _ =>
       match s_pc sc with
       | CRet | CFinished => false
       | CNone => existsb (will_close s) P
       | _ => true
       end
     end.

Definition live_ok (k : nat) (st : state) : bool :=
  let P := pthreads k st in
  forallb (fun th => forallb op_noinc (t_todo th)) P
  && tasks_ok (sh st) P
  && forallb (scope_ok (sh st) P) (seq 0 (length (scopes (sh st))))
  && forallb (ordered_thread (sh st)) P.

(** What the continuation reaches. *)
Definition finished (th : thread) : bool := isnil (t_cur th) && isnil (t_todo th).
Definition idle_pc (p : cpc) : bool := negb (in_progress p).
Definition returned (s : nat) (st : state) : bool :=
  existsb (fun th => existsb (fun o => match o with OClosed s' _ => Nat.eqb s' s | _ => false end) (t_out th))
          (ths st).

(** No thread can take a step (both values of the choice bit). *)
Definition no_step (st : state) (n : nat) : bool :=
  match step cfg_current (n, true) st, step cfg_current (n, false) st with
  | None, None => true
  | _, _ => false
  end.
Definition deadlocked (st : state) : bool := forallb (no_step st) (seq 0 (length (ths st))).

(** Number of successful steps of program threads along a schedule. *)
Fixpoint psteps (k : nat) (sched : list tid) (st : state) : nat :=
  match sched with
  | [] => 0
  | t :: r =>
    match step cfg_current t st with
    | Some st' => (if Nat.ltb (fst t) k then 1 else 0) + psteps k r st'
    | None => psteps k r st
    end
  end.
