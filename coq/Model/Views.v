(** Stacks of filespace views as PATH TRANSFORMERS (property C03).

    Every view kind of goatcore handles a path argument the same way: it normalises the
    argument (or not), prepends its base string, and hands the result to its parent; the
    backend at the bottom (memfs root or a disk root) resolves the final string relative to its
    own root with [reduce] (varutil.ReduceAbsPath).  This file models exactly that string
    pipeline; what the root then does with the resolved path is Model/Fs.v.

      LWrap b  memfs/wraper.go            arg: reduce (reduceNodePath where a name is needed); b ++ join r
      LSub b   fshelper/subfs.go          arg: reduce;                                      b ++ join r
      LRO      fshelper/rofs.go           arg passed through unchanged (writes are refused)
      LEnc     encryptfs/filespace.go     arg passed through unchanged
      LCache   fscache/cache.go           arg: varutil.CleanPath (path.Clean, strip one leading slash)

    A chain lists the layers outermost first.  Definitions only. *)
From GC Require Import Common.Base Model.Paths Model.Fs.

Inductive layer :=
| LWrap (base : bytes)
| LSub (base : bytes)
| LRO
| LEnc
| LCache.

Definition chain := list layer.

(** [nn] = the operation needs a node name (memfs wrapper rejects its own root then). *)
Definition transform1 (nn : bool) (l : layer) (s : bytes) : option bytes :=
  match l with
  | LWrap b =>
    match (if nn then reduce_node s else reduce s) with
    | Some r => Some (b ++ join r)
    | None => None
    end
  | LSub b =>
    match reduce s with
    | Some r => Some (b ++ join r)
    | None => None
    end
  | LRO | LEnc => Some s
  | LCache => Some (clean_path s)
  end.

Fixpoint transform (nn : bool) (c : chain) (s : bytes) : option bytes :=
  match c with
  | [] => Some s
  | l :: c' =>
    match transform1 nn l s with
    | Some s' => transform nn c' s'
    | None => None
    end
  end.

(** The path (relative to the ROOT backend's root) that a raw argument finally addresses;
    [None] = rejected by some layer or by the root. *)
Definition resolve (nn : bool) (c : chain) (s : bytes) : option path :=
  match transform nn c s with
  | Some s' => reduce s'
  | None => None
  end.

(** The view's own root, as seen from the root backend: where the empty argument lands. *)
Definition root_of (c : chain) : option path := resolve false c [].

(** Filespace(p) on a filespace described by [c] ([None] = the call returns an error).
    The memfs root is the empty chain. *)
Fixpoint child (c : chain) (p : bytes) : option chain :=
  match c with
  | [] =>                                   (* memfs root: NewFilespaceWrapper(fs, p) *)
    match reduce p with
    | Some r => Some [LWrap (join r ++ [SLASH])]
    | None => None
    end
  | LWrap b :: c' =>                        (* wrapper: NewFilespaceWrapper(w.fs, b ++ reduced p) *)
    match reduce p with
    | Some r =>
      match reduce (b ++ join r) with
      | Some comps => Some (LWrap (join comps ++ [SLASH]) :: c')
      | None => None
      end
    | None => None
    end
  | LSub b :: c' =>                         (* SubFS{ path.Clean(b ++ reduced p) + "/" } *)
    match reduce p with
    | Some r => Some (LSub (go_clean (b ++ join r) ++ [SLASH]) :: c')
    | None => None
    end
  | LRO :: c' =>                            (* NewReadonlyFS(NewSubFS(ro.fs, reduced p)) *)
    match reduce p with
    | Some r => Some (LRO :: LSub (go_clean (join r) ++ [SLASH]) :: c')
    | None => None
    end
  | LEnc :: c' =>                           (* re-wrap the base's child *)
    match child c' p with
    | Some c'' => Some (LEnc :: c'')
    | None => None
    end
  | LCache :: c' =>                         (* fshelper.NewSubFS(cache, p): p is NOT reduced *)
    Some (LSub (go_clean p ++ [SLASH]) :: LCache :: c')
  end.

(** fshelper.NewSubFS(fs, base) on top of [c]. *)
Definition new_sub (c : chain) (base : bytes) : chain := LSub (go_clean base ++ [SLASH]) :: c.

(** ** Operations through a chain whose root backend is the in-memory filespace.
    Read-only layers refuse every mutating operation; the other layers only rewrite the path
    arguments.  (Encrypted layers also transform file CONTENTS, which does not matter for
    which paths are touched; contents are property C05.) *)
Definition is_mutating (o : op) : bool :=
  match o with
  | OCopy _ _ | OCopyDir _ _ | OCopyFile _ _ | OMkdirAll _ | OWriteFile _ _ | OWriter _ _
  | ORemove _ | ORemoveAll _ => true
  | _ => false
  end.

Definition has_ro (c : chain) : bool := existsb (fun l => match l with LRO => true | _ => false end) c.

Definition map_args (f : bool -> bytes -> option bytes) (o : op) : option op :=
  let one nn s k := match f nn s with Some s' => Some (k s') | None => None end in
  let two nns s d k := match f nns s, f true d with Some s', Some d' => Some (k s' d') | _, _ => None end in
  match o with
  | OCopy s d => two false s d OCopy
  | OCopyDir s d => two false s d OCopyDir
  | OCopyFile s d => two true s d OCopyFile
  | OReadDir s => one false s OReadDir
  | OIsExist s => one false s OIsExist
  | OIsFile s => one true s OIsFile
  | OIsDir s => one false s OIsDir
  | OMkdirAll s => one false s OMkdirAll
  | OReadFile s => one true s OReadFile
  | OWriteFile s data => one true s (fun x => OWriteFile x data)
  | OFilespace s => one false s OFilespace
  | OReader s bufs => one true s (fun x => OReader x bufs)
  | OWriter s chunks => one true s (fun x => OWriter x chunks)
  | ORemove s => one true s ORemove
  | ORemoveAll s => one true s ORemoveAll
  | OLstat s => one false s OLstat
  end.

(** One operation through the chain [c] (no LCache layer: the cache has its own state, see
    Model/Cache.v) on the memfs tree [t]. *)
Definition chain_step (c : chain) (t : fs) (o : op) : fs * out :=
  if has_ro c && is_mutating o then (t, RErr) else
  match o with
  | OFilespace p => (t, match child c p with Some _ => RUnit | None => RErr end)
  | _ =>
    match map_args (fun nn s => transform nn c s) o with
    | Some o' => mem_step t o'
    | None => (t, fail_out o)
    end
  end.

(** How the harness builds a filespace: starting from the memfs root (empty chain). *)
Inductive ctor :=
| KChild (p : bytes)        (* fs.Filespace(p) *)
| KNewSub (b : bytes)       (* fshelper.NewSubFS(fs, b) *)
| KRO                       (* fshelper.NewReadonlyFS(fs) *)
| KEnc.                     (* encryptfs.NewEncryptFS(fs, settings) *)

Fixpoint build (c : chain) (ks : list ctor) : option chain :=
  match ks with
  | [] => Some c
  | KChild p :: ks' => match child c p with Some c' => build c' ks' | None => None end
  | KNewSub b :: ks' => build (new_sub c b) ks'
  | KRO :: ks' => build (LRO :: c) ks'
  | KEnc :: ks' => build (LEnc :: c) ks'
  end.
