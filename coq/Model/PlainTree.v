(** The reference the property C01 names: a plain tree of named nodes, as a NESTED inductive
    structure (a node is a file with bytes or a directory with an ordered list of named
    children), with the file operations written by recursion along the path.  It shares nothing
    with Model/Fs.v except the path reduction and the vocabulary of operations and outcomes;
    Proofs/C01Tree.v shows that the memfs model (an insertion-ordered list of full paths) and
    this tree give the same answers and the same observable tree on every history.

    Definitions only. *)
From GC Require Import Common.Base Model.Paths Model.Fs.

Inductive tree := TF (d : bytes) | TD (cs : list (name * tree)).

(** first child called [n] *)
Fixpoint tfind (n : name) (cs : list (name * tree)) : option tree :=
  match cs with
  | [] => None
  | (m, c) :: cs' => if bytes_eqb n m then Some c else tfind n cs'
  end.

(** put [c] under the name [n]: in place when the name is taken, at the end otherwise *)
Fixpoint tset (n : name) (c : tree) (cs : list (name * tree)) : list (name * tree) :=
  match cs with
  | [] => [(n, c)]
  | (m, c0) :: cs' => if bytes_eqb n m then (m, c) :: cs' else (m, c0) :: tset n c cs'
  end.

Definition tdel (n : name) (cs : list (name * tree)) : list (name * tree) :=
  filter (fun mc => negb (bytes_eqb n (fst mc))) cs.

(** the node at path [p] *)
Fixpoint tget (T : tree) (p : path) : option tree :=
  match p with
  | [] => Some T
  | n :: p' =>
    match T with
    | TD cs => match tfind n cs with Some c => tget c p' | None => None end
    | TF _ => None
    end
  end.

Definition ent (c : tree) : entry := match c with TF d => F d | TD _ => D end.

Definition tlookup (T : tree) (p : path) : option entry :=
  match tget T p with Some c => Some (ent c) | None => None end.

(** the listing of a directory: names and kinds of its children, in order *)
Definition tlist (cs : list (name * tree)) : list (name * bool) :=
  map (fun nc => (fst nc, match snd nc with TD _ => true | TF _ => false end)) cs.

(** Walk down [p] from the (possibly missing) node [o]; a file on the way is a failure; a
    missing directory on the way is created when [mk] and is a failure otherwise; at the end
    [f] decides: [None] = refuse, [Some None] = the node goes, [Some (Some c)] = the node becomes
    [c].  The directories walked through are rebuilt around the result. *)
Fixpoint talter (mk : bool) (f : option tree -> option (option tree)) (p : path) (o : option tree)
  : option (option tree) :=
  match p with
  | [] => f o
  | n :: p' =>
    match o with
    | Some (TF _) => None
    | Some (TD cs) =>
      match talter mk f p' (tfind n cs) with
      | None => None
      | Some (Some c') => Some (Some (TD (tset n c' cs)))
      | Some None => Some (Some (TD (tdel n cs)))
      end
    | None =>
      if mk then
        match talter mk f p' None with
        | Some (Some c') => Some (Some (TD [(n, c')]))
        | _ => None
        end
      else None
    end
  end.

Definition talter_root (mk : bool) f (p : path) (T : tree) : option tree :=
  match talter mk f p (Some T) with Some (Some T') => Some T' | _ => None end.

(** what happens at the end of the path *)
Definition f_mkdir (o : option tree) : option (option tree) :=
  match o with None => Some (Some (TD [])) | Some (TD cs) => Some (Some (TD cs)) | Some (TF _) => None end.
Definition f_write (d : bytes) (o : option tree) : option (option tree) :=
  match o with Some (TD _) => None | _ => Some (Some (TF d)) end.
Definition f_remove (o : option tree) : option (option tree) :=
  match o with Some (TF _) => Some None | Some (TD []) => Some None | _ => None end.
Definition f_remove_all (o : option tree) : option (option tree) :=
  match o with Some _ => Some None | None => None end.
Definition f_insert (sub : tree) (o : option tree) : option (option tree) :=
  match o with None => Some (Some sub) | Some _ => None end.

Definition tmkdir (T : tree) (p : path) : option tree := talter_root true f_mkdir p T.
Definition twrite (T : tree) (p : path) (d : bytes) : option tree := talter_root true (f_write d) p T.
Definition tremove (T : tree) (p : path) : option tree := talter_root false f_remove p T.
Definition tremove_all (T : tree) (p : path) : option tree := talter_root false f_remove_all p T.

(** copy: the source must exist with the demanded kind; the destination's parents are made; the
    subtree found at the source THEN is put under the destination name, which must be free (the
    order of memfs: it matters only when the destination lies inside the source). *)
Definition tcopy (k : copy_kind) (T : tree) (src dst : path) : option tree :=
  match tget T src with
  | None => None
  | Some e =>
    let kind_ok := match k, e with
                   | CAny, _ => true | CDirOnly, TD _ => true | CFileOnly, TF _ => true
                   | _, _ => false end in
    if negb kind_ok then None else
    match tmkdir T (removelast dst) with
    | None => None
    | Some T1 =>
      match tget T1 src with
      | Some sub => talter_root true (f_insert sub) dst T1
      | None => None
      end
    end
  end.

Definition tupd (T : tree) (r : option tree) : tree * out :=
  match r with Some T' => (T', RUnit) | None => (T, RErr) end.

(** The 16 operations issued through a view whose canonical base is [b] (the root filespace is
    the view with the empty base): the argument is reduced and the operation happens at
    [b ++ reduced argument]. *)
Definition tree_step (b : path) (T : tree) (o : op) : tree * out :=
  match o with
  | OCopy s d =>
    match reduce s, reduce_node d with
    | Some sr, Some dr => tupd T (tcopy CAny T (b ++ sr) (b ++ dr)) | _, _ => (T, RErr) end
  | OCopyDir s d =>
    match reduce s, reduce_node d with
    | Some sr, Some dr => tupd T (tcopy CDirOnly T (b ++ sr) (b ++ dr)) | _, _ => (T, RErr) end
  | OCopyFile s d =>
    match reduce_node s, reduce_node d with
    | Some sr, Some dr => tupd T (tcopy CFileOnly T (b ++ sr) (b ++ dr)) | _, _ => (T, RErr) end
  | OReadDir s =>
    match reduce s with
    | Some r => match tget T (b ++ r) with Some (TD cs) => (T, RList (tlist cs)) | _ => (T, RErr) end
    | None => (T, RErr) end
  | OIsExist s =>
    match reduce s with
    | Some r => (T, RBool (match tget T (b ++ r) with Some _ => true | None => false end))
    | None => (T, RBool false) end
  | OIsFile s =>
    match reduce_node s with
    | Some r => (T, RBool (match tget T (b ++ r) with Some (TF _) => true | _ => false end))
    | None => (T, RBool false) end
  | OIsDir s =>
    match reduce s with
    | Some r => (T, RBool (match tget T (b ++ r) with Some (TD _) => true | _ => false end))
    | None => (T, RBool false) end
  | OMkdirAll s => match reduce s with Some r => tupd T (tmkdir T (b ++ r)) | None => (T, RErr) end
  | OReadFile s =>
    match reduce_node s with
    | Some r => match tget T (b ++ r) with Some (TF d) => (T, RData d) | _ => (T, RErr) end
    | None => (T, RErr) end
  | OWriteFile s data => match reduce_node s with Some r => tupd T (twrite T (b ++ r) data) | None => (T, RErr) end
  | OFilespace s => match reduce s with Some _ => (T, RUnit) | None => (T, RErr) end
  | OReader s bufs =>
    match reduce_node s with
    | Some r => match tget T (b ++ r) with Some (TF d) => (T, RChunks (read_seq d bufs)) | _ => (T, RErr) end
    | None => (T, RErr) end
  | OWriter s chunks => match reduce_node s with Some r => tupd T (twrite T (b ++ r) (concat chunks)) | None => (T, RErr) end
  | ORemove s => match reduce_node s with Some r => tupd T (tremove T (b ++ r)) | None => (T, RErr) end
  | ORemoveAll s => match reduce_node s with Some r => tupd T (tremove_all T (b ++ r)) | None => (T, RErr) end
  | OLstat s =>
    match reduce s with
    | Some r => match tget T (b ++ r) with
                | Some (TD _) => (T, RStat true 0)
                | Some (TF d) => (T, RStat false (N.of_nat (length d)))
                | None => (T, RErr) end
    | None => (T, RErr) end
  end.

(** the base of the view a chain of Filespace arguments leads to *)
Fixpoint tchain (acc : path) (chain : list bytes) : option path :=
  match chain with
  | [] => Some acc
  | s :: c' => match reduce s with Some r => tchain (acc ++ r) c' | None => None end
  end.

Definition thist_step (T : tree) (vo : list bytes * op) : tree * out :=
  match tchain [] (fst vo) with
  | Some b => tree_step b T (snd vo)
  | None => (T, RErr)
  end.

(** a whole history: the answers in order, and the final tree *)
Fixpoint thist (T : tree) (h : list (list bytes * op)) : list out * tree :=
  match h with
  | [] => ([], T)
  | vo :: h' => let (T', o) := thist_step T vo in let (os, Tf) := thist T' h' in (o :: os, Tf)
  end.

(** the same for the memfs model *)
Fixpoint fhist (t : fs) (h : list (list bytes * op)) : list out * fs :=
  match h with
  | [] => ([], t)
  | vo :: h' => let (t', o) := hist_step t vo in let (os, tf) := fhist t' h' in (o :: os, tf)
  end.
