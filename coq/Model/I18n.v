(** Model of i18n/fsi18loader.Load + i18n/i18mem (Set / Translate without format arguments).

    The tree walk itself (fsloop) is property C08 and is NOT modelled here: a run of the loader is
    represented by the list [order] of the files whose OnFile callback ran, in the order in which
    the callbacks took the store's mutex.  C08 ("every selected node is visited exactly once")
    says that [order] is a permutation of the selected files; C20_loader takes exactly that as its
    hypothesis.  I18Mem.Set holds the mutex for the whole map, so callbacks are atomic.

    Definitions only — proofs are in Proofs/I18n.v. *)
From GC Require Import Common.Base Model.PlainMap Model.Json.

(** a file of the directory: (path below the base directory, content) *)
Definition file := (bytes * bytes)%type.

Definition JSON_SUFFIX : bytes := [46; 106; 115; 111; 110].      (* ".json" *)

(** FileFilter of the loader: strings.HasSuffix(subPath, ".json") *)
Definition selected (f : file) : bool := has_suffix (fst f) JSON_SUFFIX.

(** the translations a file contributes: JSONToPlainStringMap of its content *)
Definition file_log (f : file) : option flatmap :=
  match read_json (snd f) with ROk log => Some log | _ => None end.

(** I18Mem.Set: translates[key] = value for every entry (a log read with [lookup_last]) *)
Definition i18_set (store values : flatmap) : flatmap := store ++ values.

(** I18Mem.Translate(key) with no format arguments, for values without '%' *)
Definition translate (k : bytes) (store : flatmap) : option bytes := lookup_last k store.

(** the OnFile callbacks in the order they ran; None = some callback returned an error *)
Fixpoint run_callbacks (order : list file) (store : flatmap) : option flatmap :=
  match order with
  | [] => Some store
  | f :: r => match file_log f with
              | Some log => run_callbacks r (i18_set store log)
              | None => None
              end
  end.

(** file [f] defines key [k] *)
Definition defines (k : bytes) (f : file) : Prop :=
  exists log v, file_log f = Some log /\ lookup_last k log = Some v.

Definition disjoint_files (f g : file) : Prop := forall k, ~ (defines k f /\ defines k g).
