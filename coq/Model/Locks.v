(** Model of the named resource locks of goatcore
    (app/modules/commonm/commservices/mutex/{mutex.go,mutex_hander.go}).

    What the Go code does (read from /repo HEAD):
    - [SharedMutex] owns a map name -> *sync.RWMutex.  [get name] looks the name up under the read
      side of [mutexesMU]; when absent it re-checks and creates the mutex under the write side
      (double-checked), so every caller always receives the SAME mutex object for a name and
      [mutexesMU] is never held while a named mutex is being waited for.  Model: the lock table is
      a total function [nat -> lock] whose default is the free lock (creation on demand is
      invisible).
    - [Lock(resources)] copies the Go map (keys are unique, so a holder can never ask for both a
      read and a write lock on one name) into a slice, sorts it with [sort.SliceStable] by
      [Name <] (byte-wise string order), then for every row IN THAT ORDER calls [RLock] (value
      [LockR = false]) or [Lock] (value [LockRW = true]) on the name's mutex, and returns a
      handler holding the sorted slice.
    - [Unlock] walks the same slice in the same (ascending) order and calls [RUnlock]/[Unlock].
    - [sync.RWMutex] is writer-preferring: a writer that called [Lock] first announces itself
      (new readers now block), then waits for the active readers to drain.  Model: per name
      (readers, writer flag, number of pending writers); a pending writer registers in one step
      and acquires in a second step enabled when readers = 0 and no writer; [RLock] is enabled
      when there is no writer and no pending writer.

    Resource names are natural numbers ordered by [<]; the concrete byte-string order of Go is
    modelled separately at the end of this file ([lex_ltb], [sort_rows]) and tied to the numeric
    names by ranking in a strictly sorted pool (see Corr/C15.v).

    Definitions only; proofs are in Proofs/Locks.v. *)
From GC Require Import Common.Base.
Local Open Scope nat_scope.

Inductive mode := MR | MW.
Definition req := (nat * mode)%type.

Definition mode_eqb (a b : mode) : bool :=
  match a, b with MR, MR => true | MW, MW => true | _, _ => false end.

(** One sync.RWMutex. *)
Record lock := mkLock { rd : nat; wr : bool; pend : nat }.
Definition lock0 := mkLock 0 false 0.
Definition locks := nat -> lock.
Definition upd (L : locks) (x : nat) (v : lock) : locks :=
  fun y => if Nat.eqb y x then v else L y.

Definition can_r (l : lock) : bool := negb (wr l) && Nat.eqb (pend l) 0.
Definition can_w (l : lock) : bool := negb (wr l) && Nat.eqb (rd l) 0.

(** A holder (one call of [Lock] ... [Unlock]).
    [TAcq d todo]    inside [Lock]: [d] acquired so far (latest first), [todo] still to acquire;
                     with [todo = []] the next step is the return of [Lock];
    [TPend d x todo] inside [mu.Lock()] of name [x]: registered as pending writer;
    [TIn h]          [Lock] returned, the holder is in its critical section holding [h];
    [TRel h]         inside [Unlock]: [h] still to release; [TRel []] is finished. *)
Inductive thread :=
| TAcq (d todo : list req)
| TPend (d : list req) (x : nat) (todo : list req)
| TIn (h : list req)
| TRel (h : list req).

Definition tstep (L : locks) (t : thread) : option (locks * thread) :=
  match t with
  | TAcq d [] => Some (L, TIn (rev d))
  | TAcq d ((x, MR) :: r) =>
      let l := L x in
      if can_r l then Some (upd L x (mkLock (S (rd l)) (wr l) (pend l)), TAcq ((x, MR) :: d) r)
      else None
  | TAcq d ((x, MW) :: r) =>
      let l := L x in Some (upd L x (mkLock (rd l) (wr l) (S (pend l))), TPend d x r)
  | TPend d x r =>
      let l := L x in
      if can_w l then Some (upd L x (mkLock (rd l) true (pred (pend l))), TAcq ((x, MW) :: d) r)
      else None
  | TIn h => Some (L, TRel h)
  | TRel [] => None
  | TRel ((x, MR) :: r) =>
      let l := L x in Some (upd L x (mkLock (pred (rd l)) (wr l) (pend l)), TRel r)
  | TRel ((x, MW) :: r) =>
      let l := L x in Some (upd L x (mkLock (rd l) false (pend l)), TRel r)
  end.

Record state := mkState { lk : locks; ths : list thread }.

Fixpoint set_nth {A} (i : nat) (v : A) (l : list A) : list A :=
  match l, i with
  | [], _ => []
  | _ :: r, O => v :: r
  | a :: r, S j => a :: set_nth j v r
  end.

(** [step i s]: thread [i] performs its next shared-memory action; [None] = blocked, finished,
    or no such thread. *)
Definition step (i : nat) (s : state) : option state :=
  match nth_error (ths s) i with
  | Some t =>
      match tstep (lk s) t with
      | Some (L', t') => Some (mkState L' (set_nth i t' (ths s)))
      | None => None
      end
  | None => None
  end.

(** A schedule is a list of thread ids; disabled steps are skipped. *)
Fixpoint run (sched : list nat) (s : state) : state :=
  match sched with
  | [] => s
  | i :: r => run r (match step i s with Some s' => s' | None => s end)
  end.

(** [progs]: for every holder the list of requests in ACQUISITION order. *)
Definition init (progs : list (list req)) : state :=
  mkState (fun _ => lock0) (map (fun p => TAcq [] p) progs).

(** The order [Lock] uses: rows sorted by name (insertion sort; keys of a Go map are distinct,
    so stability is irrelevant). *)
Fixpoint insert_req (q : req) (l : list req) : list req :=
  match l with
  | [] => [q]
  | p :: r => if Nat.leb (fst q) (fst p) then q :: l else p :: insert_req q r
  end.
Fixpoint lock_prog (m : list req) : list req :=
  match m with [] => [] | q :: r => insert_req q (lock_prog r) end.

(** The system the code implements: holder [i] acquires [lock_prog (maps[i])]. *)
Definition sys (maps : list (list req)) : state := init (map lock_prog maps).
(** The same system with acquisition in the order the rows happen to be listed (what the code
    would do without the sort: Go's map iteration order is arbitrary). *)
Definition sys_unsorted (maps : list (list req)) : state := init maps.

Fixpoint ascb (l : list nat) : bool :=
  match l with
  | x :: ((y :: _) as r) => Nat.ltb x y && ascb r
  | _ => true
  end.

Definition final_thread (t : thread) : bool :=
  match t with TRel [] => true | _ => false end.
Definition all_final (s : state) : bool := forallb final_thread (ths s).
Definition enabled (i : nat) (s : state) : bool :=
  match step i s with Some _ => true | None => false end.
Definition stuck (s : state) : bool :=
  negb (existsb (fun i => enabled i s) (seq 0 (length (ths s)))).

(** What a thread currently holds. *)
Definition holds (t : thread) : list req :=
  match t with
  | TAcq d _ => d
  | TPend d _ _ => d
  | TIn h => h
  | TRel h => h
  end.
Definition inside (t : thread) : bool := match t with TIn _ => true | _ => false end.

(** Two lock maps are compatible when every name they share is requested in read mode by both. *)
Definition compat (a b : list req) : Prop :=
  forall x m1 m2, In (x, m1) a -> In (x, m2) b -> m1 = MR /\ m2 = MR.
Definition compatb (a b : list req) : bool :=
  forallb (fun p => forallb (fun q =>
    negb (Nat.eqb (fst p) (fst q)) || (mode_eqb (snd p) MR && mode_eqb (snd q) MR)) b) a.
Definition pairwise_compat (maps : list (list req)) : Prop :=
  forall i j a b, i <> j -> nth_error maps i = Some a -> nth_error maps j = Some b -> compat a b.

(** Termination measure: the number of steps a thread still has to perform. *)
Fixpoint acq_cost (l : list req) : nat :=
  match l with
  | [] => 0
  | (_, MR) :: r => 1 + acq_cost r
  | (_, MW) :: r => 2 + acq_cost r
  end.
Definition tmeasure (t : thread) : nat :=
  match t with
  | TAcq d todo => acq_cost todo + 2 + length d + length todo
  | TPend d x todo => 1 + acq_cost todo + 2 + S (length d) + length todo
  | TIn h => 1 + length h
  | TRel h => length h
  end.
Definition measure (s : state) : nat := fold_right (fun t n => tmeasure t + n) 0 (ths s).

(** ** Trace acceptor (correspondence, L1).
    The harness records, with one global order, [EAcq i] right AFTER holder [i]'s [Lock]
    returned and [ERel i] right BEFORE holder [i] calls [Unlock].  The acceptor replays the
    trace on the model: the hidden acquisition steps of [i] are performed as late as possible
    (at [EAcq i]) and the hidden release steps as early as possible (at [ERel i]); every replayed
    step must be enabled, and at the end everybody must be finished with every lock free. *)
Inductive event := EAcq (i : nat) | ERel (i : nat).

Fixpoint drive_in (fuel : nat) (i : nat) (s : state) : option state :=
  match nth_error (ths s) i with
  | Some (TIn _) => Some s
  | Some (TRel _) => None
  | Some _ =>
      match fuel with
      | O => None
      | S f => match step i s with Some s' => drive_in f i s' | None => None end
      end
  | None => None
  end.

Fixpoint drive_out (fuel : nat) (i : nat) (s : state) : option state :=
  match nth_error (ths s) i with
  | Some (TRel []) => Some s
  | Some (TIn _) | Some (TRel _) =>
      match fuel with
      | O => None
      | S f => match step i s with Some s' => drive_out f i s' | None => None end
      end
  | _ => None
  end.

Definition fuel_of (s : state) (i : nat) : nat :=
  match nth_error (ths s) i with Some t => S (tmeasure t) | None => 0 end.

Fixpoint replay (tr : list event) (s : state) : option state :=
  match tr with
  | [] => Some s
  | EAcq i :: r =>
      match nth_error (ths s) i with
      | Some (TAcq [] _) =>
          match drive_in (fuel_of s i) i s with Some s' => replay r s' | None => None end
      | _ => None
      end
  | ERel i :: r =>
      match nth_error (ths s) i with
      | Some (TIn _) =>
          match drive_out (fuel_of s i) i s with Some s' => replay r s' | None => None end
      | _ => None
      end
  end.

Definition lock_free (l : lock) : bool := Nat.eqb (rd l) 0 && negb (wr l) && Nat.eqb (pend l) 0.
Definition names_of (maps : list (list req)) : list nat := map fst (concat maps).

Definition accepts (maps : list (list req)) (tr : list event) : bool :=
  match replay tr (sys maps) with
  | Some s => all_final s && forallb (fun x => lock_free (lk s x)) (names_of maps)
  | None => false
  end.

(** ** The concrete order of [Lock]: Go's [<] on strings is byte-wise lexicographic. *)
Local Open Scope N_scope.
Fixpoint lex_ltb (a b : bytes) : bool :=
  match a, b with
  | [], [] => false
  | [], _ :: _ => true
  | _ :: _, [] => false
  | x :: a', y :: b' => if N.ltb x y then true else if N.eqb x y then lex_ltb a' b' else false
  end.
Definition row := (bytes * bool)%type.   (* name, value: true = LockRW, false = LockR *)
Fixpoint insert_row (q : row) (l : list row) : list row :=
  match l with
  | [] => [q]
  | p :: r => if lex_ltb (fst p) (fst q) then p :: insert_row q r else q :: l
  end.
Fixpoint sort_rows (m : list row) : list row :=
  match m with [] => [] | q :: r => insert_row q (sort_rows r) end.

Fixpoint lex_ascb (l : list bytes) : bool :=
  match l with
  | x :: ((y :: _) as r) => lex_ltb x y && lex_ascb r
  | _ => true
  end.

(** rank of a name in a pool *)
Fixpoint index_of (x : bytes) (pool : list bytes) : option nat :=
  match pool with
  | [] => None
  | y :: r => if bytes_eqb x y then Some O
              else match index_of x r with Some n => Some (S n) | None => None end
  end.
Definition mode_of (b : bool) : mode := if b then MW else MR.
Fixpoint rank_rows (pool : list bytes) (m : list row) : option (list req) :=
  match m with
  | [] => Some []
  | (n, v) :: r =>
      match index_of n pool, rank_rows pool r with
      | Some k, Some l => Some ((k, mode_of v) :: l)
      | _, _ => None
      end
  end.

(** ** Lock-list parsing of pip:run (pipc/helpers.go markBoolMapForNamespace), as a pure
    function: split at ',', trim "\n\t ", a leading '@' marks a global name (kept with the '@'),
    otherwise the namespace is prefixed; names must match ^[a-zA-Z_]+[a-zA-Z0-9_]*$; a later
    entry overwrites an earlier one (rlock is processed before wlock, so write wins). *)
Definition is_cut (c : N) : bool := N.eqb c 10 || N.eqb c 9 || N.eqb c 32.
Fixpoint trim_left (l : bytes) : bytes :=
  match l with c :: r => if is_cut c then trim_left r else l | [] => [] end.
Definition trim (l : bytes) : bytes := rev (trim_left (rev (trim_left l))).
Fixpoint split_comma_aux (cur : bytes) (l : bytes) : list bytes :=
  match l with
  | [] => [rev cur]
  | c :: r => if N.eqb c 44 then rev cur :: split_comma_aux [] r else split_comma_aux (c :: cur) r
  end.
Definition split_comma (l : bytes) : list bytes := split_comma_aux [] l.
Definition is_alpha_ (c : N) : bool :=
  (N.leb 97 c && N.leb c 122) || (N.leb 65 c && N.leb c 90) || N.eqb c 95.
Definition is_alnum_ (c : N) : bool := is_alpha_ c || (N.leb 48 c && N.leb c 57).
Definition good_name (l : bytes) : bool :=
  match l with c :: r => is_alpha_ c && forallb is_alnum_ r | [] => false end.
Fixpoint set_row (k : bytes) (v : bool) (m : list row) : list row :=
  match m with
  | [] => [(k, v)]
  | (k', v') :: r => if bytes_eqb k k' then (k, v) :: r else (k', v') :: set_row k v r
  end.
(** result: [None] = error (entries before the bad one stay in the map in Go; the command then
    aborts, so only the error is observable). *)
Fixpoint mark_rows (rows : list bytes) (ns : bytes) (v : bool) (m : list row) : option (list row) :=
  match rows with
  | [] => Some m
  | r0 :: rest =>
      let r := trim r0 in
      match r with
      | 64 :: nm => if good_name nm then mark_rows rest ns v (set_row r v m) else None
      | _ => if good_name r then mark_rows rest ns v (set_row (ns ++ r) v m) else None
      end
  end.
Definition mark_bool_map (keys ns : bytes) (v : bool) (m : list row) : option (list row) :=
  mark_rows (split_comma keys) ns v m.
