(** Scope.v — executable model of goatcore's scope kernel (app/scope/scope.go, child.go,
    contextscope/{context,isolated}.go, eventscope/{event,child}.go) AS IT IS after the fixes
    F19 (Stop tests and closes under the mutex), F20 (NewChild remembers whether the parent
    accepted the registration), b43446f (closed is set after the wait), 59678b1 (Err/Errors under the
    mutex) and 9241715 (mutex+cond task counter: a refused decrement leaves the counter unchanged and
    panics; [s_wg] is that counter).  Shared by C11 and C12.  Definitions only.

    Concurrency convention (DESIGN §3): state + threads + executable [step]; every Go statement
    that touches shared memory is one atomic step; lock-protected regions in which nothing blocks
    are one step; blocking operations are enabled only when they can complete; a Go panic is an
    explicit outcome [OPanic k] of the thread (recovered at the operation boundary, as the harness
    does).  The schedule is a list of [(thread number, choice bit)]; the bit resolves Go's [select]
    in the isolated context's watcher when both cases are ready and is ignored otherwise.

    What is coarser than the code (said once, here):
    - one [Trigger] call (the whole chain of listener callbacks) is one atomic step: listeners in
      the model only write the log;
    - Close's [preventDoubleClosed; mu.Lock; preventDoubleClosed; closed = true] is one
      test-and-set (the loser panics at once instead of after waiting for the mutex);
    - [AddTasks] ([IsDone] test, [wg.Add]) is one step;
    - NewChild on a parent whose Close has completely finished is outside the model (the real child
      is created but its Close dereferences the parent's nil'ed event scope); the model ignores it;
    - reads are atomic (after 59678b1 Err()/Errors() take the mutex; before it they could observe a
      torn slice header and panic — a defect the model cannot express; the stress oracle found it). *)
From GC Require Import Common.Base.
From Coq Require Import ZArith.

Definition err := N.
Definition Canceled : err := 0%N.

(** Model parameters: [stop_atomic = false] is the pre-F19 two-step Stop; [remember_reg = false]
    is the pre-F20 NewChild (the child always signs off on its parent); [late_closed = false] is
    Close before commit b43446f (closed = true set BEFORE the wait, so that AppendError/Kill/Stop
    issued by the scope's own tasks during the wait panic). *)
Record cfg := { stop_atomic : bool; remember_reg : bool; late_closed : bool }.
Definition cfg_current := {| stop_atomic := true; remember_reg := true; late_closed := true |}.

Inductive event :=
| EKill | EStop | EError
| EBeforeCommit | ECommit | EAfterCommit
| EBeforeRollback | ERollback | EAfterRollback
| EBeforeClose | EAfterClose.

Definition event_code (e : event) : nat :=
  match e with
  | EKill => 0 | EStop => 1 | EError => 2
  | EBeforeCommit => 3 | ECommit => 4 | EAfterCommit => 5
  | EBeforeRollback => 6 | ERollback => 7 | EAfterRollback => 8
  | EBeforeClose => 9 | EAfterClose => 10
  end%nat.
Definition event_eqb (a b : event) : bool := Nat.eqb (event_code a) (event_code b).

(** The eight events of the close protocol. *)
Inductive cev := BC | BCo | Co | ACo | BR | Ro | AR | AC.
Definition ev_of (e : cev) : event :=
  match e with
  | BC => EBeforeClose | BCo => EBeforeCommit | Co => ECommit | ACo => EAfterCommit
  | BR => EBeforeRollback | Ro => ERollback | AR => EAfterRollback | AC => EAfterClose
  end.
Definition cev_of (e : event) : option cev :=
  match e with
  | EBeforeClose => Some BC | EBeforeCommit => Some BCo | ECommit => Some Co
  | EAfterCommit => Some ACo | EBeforeRollback => Some BR | ERollback => Some Ro
  | EAfterRollback => Some AR | EAfterClose => Some AC
  | _ => None
  end.

(** Context objects (ContextScope / Isolated: identical methods). *)
Record ctxrec := {
  c_errors : list err;
  c_done : bool;
  c_iso : option nat;          (* Some p: contextscope.NewIsolated(ctx p) *)
  c_sys : list err             (* ghost: the errors appended by Close calls (listener errors) *)
}.
Definition dctx := {| c_errors := []; c_done := false; c_iso := None; c_sys := [] |}.

(** Program counter of one scope's Close call (kept in the scope: whoever holds the
    [IRunClose] token advances it). *)
Inductive cpc :=
| CNone                         (* Close not called: closed = false *)
| CFire (e : cev)               (* about to Trigger e *)
| CErrA (e : cev) (x : err)     (* Trigger e returned x: ContextScope.AppendError(x), locked append *)
| CErrS (e : cev)               (*   ... its Stop *)
| CErrT (e : cev)               (* Trigger(ErrorEvent) *)
| CErr2A (e : cev) (x : err)    (* an ErrorEvent listener failed with x: append *)
| CErr2S (e : cev)              (*   ... its Stop *)
| CWait                         (* wg.Wait() *)
| CDecide                       (* Err() read inside Wait(): the branch is decided once *)
| CMark                         (* closed = true (from here on preventClosed panics) *)
| CSignOff                      (* parent.DoneTask() of the remembered parent; fields nil'ed *)
| CRet                          (* return scp.Err() *)
| CFinished.

Record scoperec := {
  s_ctx : nat;
  s_wg : Z;
  s_tasks : Z;                  (* ghost: accepted AddTasks minus successful user DoneTask *)
  s_pc : cpc;
  s_branch : option bool;       (* Some true = commit, decided at CDecide *)
  s_parent : option nat;        (* structural parent = parent of the child event scope *)
  s_reg : option nat;           (* parent that accepted the registration, until signed off *)
  s_tabs : list (event * nat * option err)   (* listeners in registration order: event, id, error returned *)
}.
Definition dscope := {| s_ctx := 0; s_wg := 0; s_tasks := 0; s_pc := CNone; s_branch := None;
                        s_parent := None; s_reg := None; s_tabs := [] |}.

(** One Trigger call: event, firing scope, the listener calls made (owner scope, listener id). *)
Record trec := { tr_ev : event; tr_by : nat; tr_calls : list (nat * nat) }.

Record shared := { ctxs : list ctxrec; scopes : list scoperec; log : list trec }.

Definition getc (sh : shared) (c : nat) : ctxrec := nth c (ctxs sh) dctx.
Definition gets (sh : shared) (s : nat) : scoperec := nth s (scopes sh) dscope.
Definition validc (sh : shared) (c : nat) : bool := Nat.ltb c (length (ctxs sh)).
Definition valids (sh : shared) (s : nat) : bool := Nat.ltb s (length (scopes sh)).

Fixpoint upd {A} (n : nat) (f : A -> A) (l : list A) : list A :=
  match l with
  | [] => []
  | x :: l' => match n with O => f x :: l' | S n' => x :: upd n' f l' end
  end.

Definition set_ctxs (sh : shared) (l : list ctxrec) : shared :=
  {| ctxs := l; scopes := scopes sh; log := log sh |}.
Definition set_scopes (sh : shared) (l : list scoperec) : shared :=
  {| ctxs := ctxs sh; scopes := l; log := log sh |}.
Definition add_log (sh : shared) (r : trec) : shared :=
  {| ctxs := ctxs sh; scopes := scopes sh; log := log sh ++ [r] |}.
Definition upd_ctx (sh : shared) (c : nat) (f : ctxrec -> ctxrec) : shared :=
  set_ctxs sh (upd c f (ctxs sh)).
Definition upd_scope (sh : shared) (s : nat) (f : scoperec -> scoperec) : shared :=
  set_scopes sh (upd s f (scopes sh)).

Definition c_append (es : list err) (c : ctxrec) : ctxrec :=
  {| c_errors := c_errors c ++ es; c_done := c_done c; c_iso := c_iso c; c_sys := c_sys c |}.
Definition c_append_sys (es : list err) (c : ctxrec) : ctxrec :=
  {| c_errors := c_errors c ++ es; c_done := c_done c; c_iso := c_iso c; c_sys := c_sys c ++ es |}.
Definition c_close (c : ctxrec) : ctxrec :=
  {| c_errors := c_errors c; c_done := true; c_iso := c_iso c; c_sys := c_sys c |}.

Definition s_set_pc (p : cpc) (s : scoperec) : scoperec :=
  {| s_ctx := s_ctx s; s_wg := s_wg s; s_tasks := s_tasks s; s_pc := p; s_branch := s_branch s;
     s_parent := s_parent s; s_reg := s_reg s; s_tabs := s_tabs s |}.
Definition s_set_branch (b : option bool) (s : scoperec) : scoperec :=
  {| s_ctx := s_ctx s; s_wg := s_wg s; s_tasks := s_tasks s; s_pc := s_pc s; s_branch := b;
     s_parent := s_parent s; s_reg := s_reg s; s_tabs := s_tabs s |}.
Definition s_add_wg (d dt : Z) (s : scoperec) : scoperec :=
  {| s_ctx := s_ctx s; s_wg := (s_wg s + d)%Z; s_tasks := (s_tasks s + dt)%Z; s_pc := s_pc s;
     s_branch := s_branch s; s_parent := s_parent s; s_reg := s_reg s; s_tabs := s_tabs s |}.
Definition s_clear_reg (s : scoperec) : scoperec :=
  {| s_ctx := s_ctx s; s_wg := s_wg s; s_tasks := s_tasks s; s_pc := s_pc s; s_branch := s_branch s;
     s_parent := s_parent s; s_reg := None; s_tabs := s_tabs s |}.
Definition s_add_listener (l : event * nat * option err) (s : scoperec) : scoperec :=
  {| s_ctx := s_ctx s; s_wg := s_wg s; s_tasks := s_tasks s; s_pc := s_pc s; s_branch := s_branch s;
     s_parent := s_parent s; s_reg := s_reg s; s_tabs := s_tabs s ++ [l] |}.

Definition nonnil (es : list (option err)) : list err :=
  flat_map (fun o => match o with Some e => [e] | None => [] end) es.
Definition isnil {A} (l : list A) : bool := match l with [] => true | _ => false end.

(** *** Trigger: ancestors' listeners first (root first), each table in registration order;
    the first failing listener is called, stops the trigger, and its error is returned. *)
Definition table (sc : scoperec) (owner : nat) (e : event) : list (nat * nat * option err) :=
  flat_map (fun l => match l with (e', lid, f) => if event_eqb e e' then [(owner, lid, f)] else [] end)
           (s_tabs sc).

Fixpoint chain (fuel : nat) (sh : shared) (s : nat) (e : event) : list (nat * nat * option err) :=
  match fuel with
  | O => []
  | S f =>
    (match s_parent (gets sh s) with Some p => chain f sh p e | None => [] end)
      ++ table (gets sh s) s e
  end.

Fixpoint run_listeners (l : list (nat * nat * option err)) : list (nat * nat) * option err :=
  match l with
  | [] => ([], None)
  | (o, lid, f) :: l' =>
    match f with
    | Some x => ([(o, lid)], Some x)
    | None => let (c, r) := run_listeners l' in ((o, lid) :: c, r)
    end
  end.

Definition trigger (sh : shared) (s : nat) (e : event) : shared * option err :=
  let (calls, r) := run_listeners (chain (S s) sh s e) in
  (add_log sh {| tr_ev := e; tr_by := s; tr_calls := calls |}, r).

(** *** Instructions (micro-steps) and user-level operations *)
Inductive pkind :=
| PClosed      (* preventClosed: Kill/Stop/AppendError on a scope whose Close has started *)
| PDouble      (* preventDoubleClosed *)
| PNegWG       (* negative task counter (refused decrement) *)
| PChan        (* close of closed channel *)
| PNil.        (* nil event scope: On after the scope has been closed *)

Inductive obs :=
| OPanic (k : pkind)
| OAdd (accepted : bool)       (* AddTasks: nil / ErrDoned *)
| OBool (b : bool)             (* IsDone, Err()!=nil, Wait()!=nil *)
| OClosed (s : nat) (haserr : bool).   (* Close returned *)

Inductive instr :=
| INop
| IChkClosed (s : nat)
| ICAppend (c : nat) (es : list err)     (* locked append of the (already filtered) errors, then Stop *)
| ICStop (c : nat) (es : list err)       (* Stop; es = ghost: the errors whose append it completes *)
| ICClose (c : nat) (es : list err)      (* pre-F19 only: the close(done) half of Stop *)
| ITrig (s : nat) (kill : bool)          (* appendError(Trigger(KillEvent | StopEvent)) *)
| ITrigErr (s : nat)                     (* ContextScope.AppendError(Trigger(ErrorEvent)) *)
| IAddTasks (s : nat)
| IDoneTask (s : nat)
| INewCtx
| INewIso (p : nat)
| INewRoot
| INewChild (p : nat) (iso : bool)
| IOn (s : nat) (e : event) (lid : nat) (f : option err)
| IC0 (s : nat)
| IRunClose (s : nat)
| IIsDone (c : nat)
| IErr (c : nat)
| IWait (s : nat)
| IWatch (c : nat)
| IWatchRead (c : nat).

Inductive op :=
| ONewCtx                         (* contextscope.New() *)
| ONewIso (p : nat)               (* contextscope.NewIsolated(ctx p) *)
| ONewRoot                        (* scope.New(Params{}) : fresh plain context *)
| ONewChild (p : nat) (iso : bool) (* scope.NewChild(p, {}) / {ContextScope: NewIsolated(p)} *)
| OOn (s : nat) (e : event) (lid : nat) (f : option err)
| OAddTasks (s : nat)
| ODoneTask (s : nat)
| OAppendError (s : nat) (es : list (option err))
| OKill (s : nat)
| OStop (s : nat)
| OClose (s : nat)
| OIsDone (s : nat)
| OErr (s : nat)
| OWait (s : nat)
| OCAppend (c : nat) (es : list (option err))   (* the same on a bare context object *)
| OCKill (c : nat)
| OCStop (c : nat)
| OCIsDone (c : nat)
| OCErr (c : nat).

(** Expansion of an operation into its micro-steps (the context of a scope never changes, so
    it is resolved here). *)
Definition expand (sh : shared) (o : op) : list instr :=
  match o with
  | ONewCtx => [INewCtx]
  | ONewIso p => [INewIso p]
  | ONewRoot => [INewRoot]
  | ONewChild p iso => [INewChild p iso]
  | OOn s e lid f => [IOn s e lid f]
  | OAddTasks s => [IAddTasks s]
  | ODoneTask s => [IDoneTask s]
  | OAppendError s es =>
    if valids sh s then
      match nonnil es with
      | [] => [IChkClosed s]
      | l => [IChkClosed s; ICAppend (s_ctx (gets sh s)) l; ITrigErr s]
      end
    else [INop]
  | OKill s =>
    if valids sh s then [IChkClosed s; ICAppend (s_ctx (gets sh s)) [Canceled]; ITrig s true]
    else [INop]
  | OStop s =>
    if valids sh s then [IChkClosed s; ICStop (s_ctx (gets sh s)) []; ITrig s false]
    else [INop]
  | OClose s => [IC0 s]
  | OIsDone s => if valids sh s then [IIsDone (s_ctx (gets sh s))] else [INop]
  | OErr s => if valids sh s then [IErr (s_ctx (gets sh s))] else [INop]
  | OWait s => [IWait s]
  | OCAppend c es => [ICAppend c (nonnil es)]
  | OCKill c => [ICAppend c [Canceled]]
  | OCStop c => [ICStop c []]
  | OCIsDone c => [IIsDone c]
  | OCErr c => [IErr c]
  end.

Inductive xres :=
| XBlocked
| XPanic (k : pkind)
| XOk (sh' : shared) (push : list instr) (out : list obs)
      (acks : list (nat * list err)) (spawn : list (list instr)).

Definition xok (sh : shared) := XOk sh [] [] [] [].
Definition xpush (sh : shared) (p : list instr) := XOk sh p [] [] [].

Definition br_default (o : option bool) : bool := match o with Some b => b | None => true end.

(** *** The Close state machine of scope [s]: one micro-step. *)
Definition next_pc (e : cev) : cpc :=
  match e with
  | BC => CWait
  | BCo => CFire Co | Co => CFire ACo | ACo => CFire AC
  | BR => CFire Ro | Ro => CFire AR | AR => CFire AC
  | AC => CSignOff
  end.

Definition set_pc (sh : shared) (s : nat) (p : cpc) : shared := upd_scope sh s (s_set_pc p).

Definition close_step (cf : cfg) (sh : shared) (s : nat) : xres :=
  let sc := gets sh s in
  let c := s_ctx sc in
  match s_pc sc with
  | CNone => xok sh
  | CFinished => xok sh
  | CFire e =>
    let (sh1, r) := trigger sh s (ev_of e) in
    match r with
    | None => xok (set_pc sh1 s (next_pc e))
    | Some x => xok (set_pc sh1 s (CErrA e x))
    end
  | CErrA e x => xok (set_pc (upd_ctx sh c (c_append_sys [x])) s (CErrS e))
  | CErrS e => xok (set_pc (upd_ctx sh c c_close) s (CErrT e))
  | CErrT e =>
    let (sh1, r) := trigger sh s EError in
    match r with
    | None => xok (set_pc sh1 s (next_pc e))
    | Some y => xok (set_pc sh1 s (CErr2A e y))
    end
  | CErr2A e y => xok (set_pc (upd_ctx sh c (c_append_sys [y])) s (CErr2S e))
  | CErr2S e => xok (set_pc (upd_ctx sh c c_close) s (next_pc e))
  | CWait => if Z.eqb (s_wg sc) 0 then xok (set_pc sh s CDecide) else XBlocked
  | CDecide =>
    let b := isnil (c_errors (getc sh c)) in
    xok (set_pc (upd_scope sh s (s_set_branch (Some b))) s CMark)
  | CMark => xok (set_pc sh s (CFire (if br_default (s_branch sc) then BCo else BR)))
  | CSignOff =>
    match s_reg sc with
    | None => xok (set_pc sh s CRet)
    | Some p =>
      if Z.leb (s_wg (gets sh p)) 0 then XPanic PNegWG
      else xok (set_pc (upd_scope (upd_scope sh p (s_add_wg (-1) 0)) s s_clear_reg) s CRet)
    end
  | CRet =>
    XOk (set_pc sh s CFinished) [] [OClosed s (negb (isnil (c_errors (getc sh c))))] [] []
  end.

(** [closing]: Close has started (preventDoubleClosed).  [closed]: the flag tested by
    preventClosed — set after the wait (current code) or together with [closing] (old code). *)
Definition closing (sc : scoperec) : bool := match s_pc sc with CNone => false | _ => true end.
Definition closed (cf : cfg) (sc : scoperec) : bool :=
  match s_pc sc with
  | CNone => false
  | CFire BC | CErrA BC _ | CErrS BC | CErrT BC | CErr2A BC _ | CErr2S BC | CWait | CDecide | CMark =>
    negb (late_closed cf)
  | _ => true
  end.
Definition nil_fields (sc : scoperec) : bool :=
  match s_pc sc with CRet | CFinished => true | _ => false end.

Definition new_scope (c : nat) (parent reg : option nat) : scoperec :=
  {| s_ctx := c; s_wg := 0; s_tasks := 0; s_pc := CNone; s_branch := None;
     s_parent := parent; s_reg := reg; s_tabs := [] |}.
Definition new_ctx (iso : option nat) : ctxrec :=
  {| c_errors := []; c_done := false; c_iso := iso; c_sys := [] |}.

(** *** One micro-step.  [b] is the schedule's choice bit (used by [IWatch] only). *)
Definition exec (cf : cfg) (b : bool) (i : instr) (sh : shared) : xres :=
  match i with
  | INop => xok sh
  | IChkClosed s => if closed cf (gets sh s) then XPanic PClosed else xok sh
  | ICAppend c es =>
    if validc sh c then
      match es with
      | [] => xok sh
      | _ => xpush (upd_ctx sh c (c_append es)) [ICStop c es]
      end
    else xok sh
  | ICStop c es =>
    if validc sh c then
      if stop_atomic cf then XOk (upd_ctx sh c c_close) [] [] [(c, es)] []
      else if c_done (getc sh c) then XOk sh [] [] [(c, es)] []
           else xpush sh [ICClose c es]
    else xok sh
  | ICClose c es =>
    if validc sh c then
      if c_done (getc sh c) then XPanic PChan
      else XOk (upd_ctx sh c c_close) [] [] [(c, es)] []
    else xok sh
  | ITrig s k =>
    if valids sh s then
      let (sh1, r) := trigger sh s (if k then EKill else EStop) in
      match r with
      | None => xok sh1
      | Some x => xpush sh1 [ICAppend (s_ctx (gets sh s)) [x]; ITrigErr s]
      end
    else xok sh
  | ITrigErr s =>
    if valids sh s then
      let (sh1, r) := trigger sh s EError in
      match r with
      | None => xok sh1
      | Some x => xpush sh1 [ICAppend (s_ctx (gets sh s)) [x]]
      end
    else xok sh
  | IAddTasks s =>
    if valids sh s then
      if c_done (getc sh (s_ctx (gets sh s))) then XOk sh [] [OAdd false] [] []
      else XOk (upd_scope sh s (s_add_wg 1 1)) [] [OAdd true] [] []
    else xok sh
  | IDoneTask s =>
    if valids sh s then
      if Z.leb (s_wg (gets sh s)) 0 then XPanic PNegWG
      else xok (upd_scope sh s (s_add_wg (-1) (-1)))
    else xok sh
  | INewCtx => xok (set_ctxs sh (ctxs sh ++ [new_ctx None]))
  | INewIso p =>
    if validc sh p then
      XOk (set_ctxs sh (ctxs sh ++ [new_ctx (Some p)])) [] [] [] [[IWatch (length (ctxs sh))]]
    else xok sh
  | INewRoot =>
    xok (set_scopes (set_ctxs sh (ctxs sh ++ [new_ctx None]))
                    (scopes sh ++ [new_scope (length (ctxs sh)) None None]))
  | INewChild p iso =>
    if valids sh p && negb (nil_fields (gets sh p)) then
      let pc := s_ctx (gets sh p) in
      let accepted := negb (c_done (getc sh pc)) in
      let reg := if accepted || negb (remember_reg cf) then Some p else None in
      let sh1 := if accepted then upd_scope sh p (s_add_wg 1 0) else sh in
      if iso then
        XOk (set_scopes (set_ctxs sh1 (ctxs sh1 ++ [new_ctx (Some pc)]))
                        (scopes sh1 ++ [new_scope (length (ctxs sh1)) (Some p) reg]))
            [] [] [] [[IWatch (length (ctxs sh1))]]
      else
        xok (set_scopes sh1 (scopes sh1 ++ [new_scope pc (Some p) reg]))
    else xok sh
  | IOn s e lid f =>
    if valids sh s then
      if nil_fields (gets sh s) then XPanic PNil
      else xok (upd_scope sh s (s_add_listener (e, lid, f)))
    else xok sh
  | IC0 s =>
    if valids sh s then
      if closing (gets sh s) then XPanic PDouble
      else xpush (set_pc sh s (CFire BC)) [IRunClose s]
    else xok sh
  | IRunClose s =>
    match close_step cf sh s with
    | XOk sh1 _ out _ _ =>
      XOk sh1 (match s_pc (gets sh1 s) with CFinished | CNone => [] | _ => [IRunClose s] end) out [] []
    | r => r
    end
  | IIsDone c => XOk sh [] [OBool (c_done (getc sh c))] [] []
  | IErr c => XOk sh [] [OBool (negb (isnil (c_errors (getc sh c))))] [] []
  | IWait s =>
    if valids sh s then
      if Z.eqb (s_wg (gets sh s)) 0 then xpush sh [IErr (s_ctx (gets sh s))] else XBlocked
    else xok sh
  | IWatch c =>
    match c_iso (getc sh c) with
    | None => xok sh
    | Some p =>
      let pd := c_done (getc sh p) in
      let sd := c_done (getc sh c) in
      if pd && (negb sd || b) then xpush sh [IWatchRead c]
      else if sd then xok sh
      else XBlocked
    end
  | IWatchRead c =>
    match c_iso (getc sh c) with
    | None => xok sh
    | Some p =>
      if isnil (c_errors (getc sh p)) then xpush sh [ICStop c []]
      else xpush sh [ICAppend c [Canceled]]
    end
  end.

(** *** Threads and the system *)
Record thread := {
  t_cur : list instr;              (* rest of the operation in progress *)
  t_todo : list op;                (* operations still to issue *)
  t_out : list obs;                (* what the thread observed, in order *)
  t_acks : list (nat * list err)   (* ghost: completed (context, appended errors) / Stop on context *)
}.
Record state := { sh : shared; ths : list thread }.

Definition mk_thread (ops : list op) : thread :=
  {| t_cur := []; t_todo := ops; t_out := []; t_acks := [] |}.
Definition spawned (cur : list instr) : thread :=
  {| t_cur := cur; t_todo := []; t_out := []; t_acks := [] |}.

Definition empty_shared : shared := {| ctxs := []; scopes := []; log := [] |}.
Definition init (progs : list (list op)) : state :=
  {| sh := empty_shared; ths := map mk_thread progs |}.

(** The next instruction of a thread: the head of the operation in progress, or the first
    micro-step of the next operation. *)
Definition view (sh : shared) (th : thread) : option (instr * list instr * list op) :=
  match t_cur th with
  | i :: rest => Some (i, rest, t_todo th)
  | [] =>
    match t_todo th with
    | [] => None
    | o :: os =>
      match expand sh o with
      | i :: rest => Some (i, rest, os)
      | [] => Some (INop, [], os)
      end
    end
  end.

Definition tid := (nat * bool)%type.

Definition step (cf : cfg) (t : tid) (st : state) : option state :=
  let (n, b) := t in
  match nth_error (ths st) n with
  | None => None
  | Some th =>
    match view (sh st) th with
    | None => None
    | Some (i, rest, todo) =>
      match exec cf b i (sh st) with
      | XBlocked => None
      | XPanic k =>
        Some {| sh := sh st;
                ths := upd n (fun _ => {| t_cur := []; t_todo := todo;
                                          t_out := t_out th ++ [OPanic k]; t_acks := t_acks th |})
                           (ths st) |}
      | XOk sh1 push out acks spawn =>
        Some {| sh := sh1;
                ths := upd n (fun _ => {| t_cur := push ++ rest; t_todo := todo;
                                          t_out := t_out th ++ out; t_acks := t_acks th ++ acks |})
                           (ths st) ++ map spawned spawn |}
      end
    end
  end.

Definition step_or_skip (cf : cfg) (st : state) (t : tid) : state :=
  match step cf t st with Some st' => st' | None => st end.

Definition run (cf : cfg) (sched : list tid) (st : state) : state :=
  fold_left (step_or_skip cf) sched st.

(** *** Observers *)
Definition is_panic (o : obs) : bool := match o with OPanic _ => true | _ => false end.
Definition panics_of (th : thread) : list obs := filter is_panic (t_out th).
Definition all_panics (st : state) : list obs := flat_map panics_of (ths st).

Definition errs_of (sh : shared) (s : nat) : list err := c_errors (getc sh (s_ctx (gets sh s))).

(** Events of the close protocol fired BY scope [s] (one per Trigger call), in log order. *)
Definition close_word (l : list trec) (s : nat) : list cev :=
  flat_map (fun r => if Nat.eqb (tr_by r) s
                     then match cev_of (tr_ev r) with Some e => [e] | None => [] end
                     else []) l.

(** The flat log as the harness records it: (event, firing scope, listener id). *)
Definition flat_log (l : list trec) : list (event * nat * nat) :=
  flat_map (fun r => map (fun c => (tr_ev r, tr_by r, snd c)) (tr_calls r)) l.

(** Number of children currently registered on [p] (registration accepted, not yet signed off). *)
Definition reg_on (p : nat) (sc : scoperec) : bool :=
  match s_reg sc with Some q => Nat.eqb q p | None => false end.
Definition open_children (l : list scoperec) (p : nat) : nat := length (filter (reg_on p) l).

(** The word a Close has fired when its program counter is [p] (branch [b]). *)
Definition before (b : bool) (e : cev) : list cev :=
  match e with
  | BC => []
  | BCo => [BC] | Co => [BC; BCo] | ACo => [BC; BCo; Co]
  | BR => [BC] | Ro => [BC; BR] | AR => [BC; BR; Ro]
  | AC => if b then [BC; BCo; Co; ACo] else [BC; BR; Ro; AR]
  end.
Definition full_word (b : bool) : list cev := before b AC ++ [AC].
Definition word_of (p : cpc) (br : option bool) : list cev :=
  let b := br_default br in
  match p with
  | CNone => []
  | CFire e => before b e
  | CErrA e _ | CErrS e | CErrT e | CErr2A e _ | CErr2S e => before b e ++ [e]
  | CWait | CDecide | CMark => [BC]
  | CSignOff | CRet | CFinished => full_word b
  end.

(** *** Accounting of appended errors (used by C12_errors_retained) *)
Definition stop_item (c : nat) (i : instr) : list err :=
  match i with
  | ICStop c' es | ICClose c' es => if Nat.eqb c' c then es else []
  | _ => []
  end.
Definition acked (c : nat) (a : list (nat * list err)) : list err :=
  flat_map (fun x => if Nat.eqb (fst x) c then snd x else []) a.
(** errors of the completed AppendError/Kill calls on context [c] (all threads) *)
Definition completed (c : nat) (st : state) : list err :=
  flat_map (fun th => acked c (t_acks th)) (ths st).
(** errors already appended by calls that have not yet finished their Stop *)
Definition inflight (c : nat) (st : state) : list err :=
  flat_map (fun th => flat_map (stop_item c) (t_cur th)) (ths st).

(** *** Classes of programs used in the statements *)
Definition op_nodone (o : op) : bool := match o with ODoneTask _ => false | _ => true end.
Definition op_safe (o : op) : bool := match o with ODoneTask _ | OClose _ => false | _ => true end.
Definition by_design (k : pkind) : bool := match k with PNegWG | PChan => false | _ => true end.
Definition bad_panic (o : obs) : bool := match o with OPanic k => negb (by_design k) | _ => false end.

(** *** Sequential driver (used by the correspondence checks of C11 and C12)
    The harness issues operations one after the other from one goroutine, except Close, which runs
    in a goroutine of its own (it may block).  After every operation it lets everything settle.
    The driver below is nothing but a scheduler: thread 0 is the main thread, threads 1..k are the
    closers (one [OClose] each), every later thread is a watcher spawned by NewIsolated. *)
Inductive hop := HOp (o : op) | HClose (s : nat).

Definition main_prog (h : list hop) : list op :=
  flat_map (fun x => match x with HOp o => [o] | HClose _ => [] end) h.
Definition closer_progs (h : list hop) : list (list op) :=
  flat_map (fun x => match x with HOp _ => [] | HClose s => [[OClose s]] end) h.
Definition progs_of (h : list hop) : list (list op) := main_prog h :: closer_progs h.

(** watchers run eagerly: every enabled watcher step (threads with index > k) is taken *)
Fixpoint first_step (cf : cfg) (b : bool) (ns : list nat) (st : state) : option state :=
  match ns with
  | [] => None
  | n :: ns' => match step cf (n, b) st with Some st' => Some st' | None => first_step cf b ns' st end
  end.
Fixpoint settle_watchers (cf : cfg) (fuel k : nat) (st : state) : state :=
  match fuel with
  | O => st
  | S f =>
    match first_step cf false (seq (S k) (length (ths st) - S k)) st with
    | Some st' => settle_watchers cf f k st'
    | None => st
    end
  end.
(** run thread n as far as it goes (to the end of its operation for the main thread) *)
Fixpoint run_thread (cf : cfg) (fuel k n : nat) (st : state) : state :=
  match fuel with
  | O => st
  | S f =>
    match step cf (n, true) st with
    | Some st' =>
      let st1 := settle_watchers cf 200 k st' in
      if Nat.eqb n 0 && isnil (t_cur (nth 0 (ths st1) (mk_thread []))) then st1
      else run_thread cf f k n st1
    | None => st
    end
  end.
(** started closers, oldest first: the first one that can move runs as far as it goes; repeat *)
Fixpoint settle_closers (cf : cfg) (fuel k : nat) (started : list nat) (st : state) : state :=
  match fuel with
  | O => st
  | S f =>
    match first_step cf true started st with
    | None => st
    | Some _ =>
      let fix go (l : list nat) : state :=
          match l with
          | [] => st
          | n :: l' => match step cf (n, true) st with
                       | Some _ => run_thread cf 400 k n st
                       | None => go l'
                       end
          end in
      settle_closers cf f k started (go started)
    end
  end.

(** observation after each history item *)
Inductive sobs := SPanic | SAdd (b : bool) | SBool (b : bool).
Definition erase (o : obs) : list sobs :=
  match o with OPanic _ => [SPanic] | OAdd b => [SAdd b] | OBool b => [SBool b] | OClosed _ _ => [] end.
(** closer status: 0 not started, 1 in progress (blocked), 2 returned nil, 3 returned an error, 4 panicked *)
Definition closer_status (started : bool) (th : thread) : N :=
  if negb started then 0%N else
  match t_out th with
  | [] => 1%N
  | OClosed _ false :: _ => 2%N
  | OClosed _ true :: _ => 3%N
  | _ => 4%N
  end.
Record stepobs := { so_main : list sobs; so_closers : list N; so_ctxs : list (bool * nat) }.

Definition observe (k : nat) (started : list nat) (nout : nat) (st : state) : stepobs :=
  {| so_main := flat_map erase (skipn nout (t_out (nth 0 (ths st) (mk_thread []))));
     so_closers := map (fun n => closer_status (existsb (Nat.eqb n) started) (nth n (ths st) (mk_thread [])))
                       (seq 1 k);
     so_ctxs := map (fun c => (c_done c, length (c_errors c))) (ctxs (sh st)) |}.

Fixpoint drive (cf : cfg) (k : nat) (h : list hop) (started : list nat) (st : state)
  : list stepobs * state :=
  match h with
  | [] => ([], st)
  | x :: h' =>
    let nout := length (t_out (nth 0 (ths st) (mk_thread []))) in
    let '(started1, st1) :=
        match x with
        | HOp _ => (started, run_thread cf 400 k 0 st)
        | HClose _ => let n := S (length started) in
                      (started ++ [n], run_thread cf 400 k n st)
        end in
    let st2 := settle_closers cf 50 k started1 (settle_watchers cf 200 k st1) in
    let (os, st3) := drive cf k h' started1 st2 in
    (observe k started1 nout st2 :: os, st3)
  end.

Definition drive_all (cf : cfg) (h : list hop) : list stepobs * state :=
  let progs := progs_of h in
  drive cf (length (closer_progs h)) h [] (init progs).
