(** Model of varutil/plainmap/json.go + main.go (formatStringJSON) and of the fragment of
    github.com/buger/jsonparser they use (ObjectEach, Get/getType, stringEnd, blockEnd, tokenEnd,
    nextToken, ParseString/Unescape).

    The reader is a byte-level model of the real control flow: the object walk looks for a key
    string, a colon, classifies the value by its first byte, finds the END of a nested object or
    array by bracket counting (skipping strings), and re-enters itself on the slice of a nested
    object.  It is not defined from the emitter.  Text positions are kept as the remaining suffix
    instead of an offset.  Only the object walk needs fuel ([read_json] supplies
    [S (length data)]; Proofs/Json.v shows that this never runs out: [read_json_fuel]).

    jsonparser.stringEnd looks back over the run of backslashes in front of a quote; the model
    scans forward with an "escaped" flag — the same function (a quote ends the string iff an even
    number of backslashes precedes it), validated by the correspondence run.

    Definitions only — proofs are in Proofs/Json.v. *)
From GC Require Import Common.Base Model.PlainMap.
From Coq Require Import ZArith.

Definition QUOTE : byte := 34.
Definition BSL : byte := 92.
Definition LBRACE : byte := 123.
Definition RBRACE : byte := 125.
Definition LBRACK : byte := 91.
Definition RBRACK : byte := 93.
Definition COMMA : byte := 44.
Definition COLON : byte := 58.

(** * jsonparser primitives *)

Definition is_ws (c : byte) : bool := N.eqb c 32 || N.eqb c 10 || N.eqb c 13 || N.eqb c 9.

(** data[nextToken(data):]; [] when nextToken returns -1 *)
Fixpoint skipws (s : bytes) : bytes :=
  match s with
  | [] => []
  | c :: t => if is_ws c then skipws t else s
  end.

Definition cons_fst {A B} (x : A) (r : option (list A * B)) : option (list A * B) :=
  match r with Some (a, b) => Some (x :: a, b) | None => None end.

(** stringEnd on the text after an opening quote: (content before the closing quote, text after
    it); None = no closing quote. *)
Fixpoint str_end (esc : bool) (s : bytes) : option (bytes * bytes) :=
  match s with
  | [] => None
  | c :: t =>
    if esc then cons_fst c (str_end false t)
    else if N.eqb c QUOTE then Some ([], t)
    else if N.eqb c BSL then cons_fst c (str_end true t)
    else cons_fst c (str_end false t)
  end.

Definition is_delim (c : byte) : bool :=
  is_ws c || N.eqb c COMMA || N.eqb c RBRACE || N.eqb c RBRACK.

(** tokenEnd: (token, rest) *)
Fixpoint token_end (s : bytes) : bytes * bytes :=
  match s with
  | [] => ([], [])
  | c :: t => if is_delim c then ([], s) else let (a, b) := token_end t in (c :: a, b)
  end.

(** blockEnd(data, open, close): (data[:end], data[end:]); None = -1.  Strings are skipped with
    stringEnd, here by the two flags [instr]/[esc]. *)
Fixpoint block_scan (o c : byte) (level : Z) (instr esc : bool) (s : bytes) : option (bytes * bytes) :=
  match s with
  | [] => None
  | x :: t =>
    if instr then
      if esc then cons_fst x (block_scan o c level true false t)
      else if N.eqb x QUOTE then cons_fst x (block_scan o c level false false t)
      else if N.eqb x BSL then cons_fst x (block_scan o c level true true t)
      else cons_fst x (block_scan o c level true false t)
    else if N.eqb x QUOTE then cons_fst x (block_scan o c level true false t)
    else if N.eqb x o then cons_fst x (block_scan o c (level + 1) false false t)
    else if N.eqb x c then
      if Z.eqb (level - 1) 0 then Some ([x], t)
      else cons_fst x (block_scan o c (level - 1) false false t)
    else cons_fst x (block_scan o c level false false t)
  end.

Definition block_end (o c : byte) (s : bytes) : option (bytes * bytes) := block_scan o c 0 false false s.

(** * ParseString / Unescape *)

Definition hexval (c : byte) : option N :=
  if N.leb 48 c && N.leb c 57 then Some (c - 48)
  else if N.leb 65 c && N.leb c 70 then Some (c - 55)
  else if N.leb 97 c && N.leb c 102 then Some (c - 87)
  else None.

Definition hex4 (a b c d : byte) : option N :=
  match hexval a, hexval b, hexval c, hexval d with
  | Some h1, Some h2, Some h3, Some h4 => Some (h1 * 4096 + h2 * 256 + h3 * 16 + h4)
  | _, _, _, _ => None
  end.

(** utf8.EncodeRune (invalid runes and surrogates become U+FFFD) *)
Definition utf8_encode (r : N) : bytes :=
  if N.ltb r 128 then [r]
  else if N.ltb r 2048 then [192 + r / 64; 128 + r mod 64]
  else if N.ltb 1114111 r || (N.leb 55296 r && N.leb r 57343) then [239; 191; 189]
  else if N.ltb r 65536 then [224 + r / 4096; 128 + (r / 64) mod 64; 128 + r mod 64]
  else [240 + r / 262144; 128 + (r / 4096) mod 64; 128 + (r / 64) mod 64; 128 + r mod 64].

Definition is_surrogate (r : N) : bool := N.leb 55296 r && N.leb r 57343.

(** backslashCharEscapeTable *)
Definition basic_escape (e : byte) : option byte :=
  if N.eqb e 34 then Some 34 else if N.eqb e 92 then Some 92 else if N.eqb e 47 then Some 47
  else if N.eqb e 98 then Some 8 else if N.eqb e 102 then Some 12 else if N.eqb e 110 then Some 10
  else if N.eqb e 114 then Some 13 else if N.eqb e 116 then Some 9 else None.

Definition combine_surrogates (hi lo : N) : N := 65536 + (hi - 55296) * 1024 + (lo - 56320).

Definition omap {A B} (f : A -> B) (o : option A) : option B :=
  match o with Some a => Some (f a) | None => None end.

(** Unescape.  Note the two bytes in front of the second half of a surrogate pair are NOT checked
    to be "\u" (decodeSingleUnicodeEscape "assumes the prefix"), the second half only has to be
    >= 0xDC00, and the first half may be any surrogate. *)
Fixpoint unescape (s : bytes) : option bytes :=
  match s with
  | [] => Some []
  | c :: t =>
    if negb (N.eqb c BSL) then omap (cons c) (unescape t)
    else match t with
    | [] => None
    | e :: t1 =>
      if N.eqb e 117 then
        match t1 with
        | a :: b :: c2 :: d :: t2 =>
          match hex4 a b c2 d with
          | None => None
          | Some r =>
            if negb (is_surrogate r) then omap (app (utf8_encode r)) (unescape t2)
            else match t2 with
            | _ :: _ :: a' :: b' :: c' :: d' :: t3 =>
              match hex4 a' b' c' d' with
              | None => None
              | Some r2 =>
                if N.ltb r2 56320 then None
                else omap (app (utf8_encode (combine_surrogates r r2))) (unescape t3)
              end
            | _ => None
            end
          end
        | _ => None
        end
      else match basic_escape e with
           | Some x => omap (cons x) (unescape t1)
           | None => None
           end
    end
  end.

(** * JSONToPlainStringMap *)

Inductive rres :=
| ROk (log : flatmap)      (* assignments result[key] = value in document order *)
| RErr
| RFuel.

(** Naming of the leaves.  Current code (after "fix: JSONToPlainStringMap keeps keys whose first
    segment is empty"): the recursion carries [prefix] = dotted path of the enclosing object
    FOLLOWED by a dot ("" for the document); a member is named prefix ++ key and a nested object
    is read with prefix (name ++ ".").
    [old = true] is the reader before that fix: it carried the parent's name and inserted the dot
    only when that name was not empty, so {"":{"b":..}} was read as "b".  Kept for the regression
    witness C20_write_read_leading_dot_refuted. *)
Definition join_key (parent key : bytes) : bytes :=
  match parent with [] => key | _ :: _ => parent ++ DOT :: key end.

Definition key_of (old : bool) (parent key : bytes) : bytes :=
  if old then join_key parent key else parent ++ key.
Definition child_of (old : bool) (name : bytes) : bytes :=
  if old then name else name ++ [DOT].

Definition is_digit_or_minus (c : byte) : bool := (N.leb 48 c && N.leb c 57) || N.eqb c 45.

Definition LIT_TRUE : bytes := [116; 114; 117; 101].
Definition LIT_FALSE : bytes := [102; 97; 108; 115; 101].
Definition LIT_NULL : bytes := [110; 117; 108; 108].

(** The text after the opening quote of a member name: stringEnd, Unescape (when the name
    contains a backslash; the identity otherwise), nextToken, ':' — returns the decoded name and
    the text at the first token of the value. *)
Definition read_key (t : bytes) : option (bytes * bytes) :=
  match str_end false t with
  | None => None
  | Some (rawkey, t1) =>
    match unescape rawkey with
    | None => None
    | Some key =>
      match skipws t1 with
      | [] => None
      | c2 :: t2 => if N.eqb c2 COLON then Some (key, skipws t2) else None
      end
    end
  end.

(** Step 4 of ObjectEach after a value: closing brace, or comma and the next token. *)
Definition after_value (loop : bytes -> flatmap -> rres) (acc : flatmap) (rest : bytes) : rres :=
  match skipws rest with
  | [] => RErr
  | d :: r =>
    if N.eqb d RBRACE then ROk acc
    else if N.eqb d COMMA then
      match skipws r with
      | [] => RErr
      | x :: r' => loop (x :: r') acc
      end
    else RErr
  end.

(** Get(data[offset:]) = nextToken + getType, then the callback of jsonToPlainStringMap.
    [cur] = text at the first token of the value ([] = nextToken returned -1), [each] = the
    recursive jsonToPlainStringMap already applied to the nested object's prefix, [cont] = what
    follows the value. *)
Definition value_step (each : bytes -> flatmap -> rres) (cont : flatmap -> bytes -> rres)
           (nk : bytes) (cur : bytes) (acc : flatmap) : rres :=
  match cur with
  | [] => RErr
  | v :: t3 =>
    if N.eqb v QUOTE then
      match str_end false t3 with
      | None => RErr
      | Some (raw, t4) =>
        match unescape raw with
        | None => RErr
        | Some s => cont (acc ++ [(nk, s)]) t4
        end
      end
    else if N.eqb v LBRACK then
      match block_end LBRACK RBRACK cur with
      | None => RErr
      | Some (_, t4) => cont acc t4
      end
    else if N.eqb v LBRACE then
      match block_end LBRACE RBRACE cur with
      | None => RErr
      | Some (blk, t4) =>
        match each blk acc with
        | ROk acc' => cont acc' t4
        | e => e
        end
      end
    else
      let (tok, t4) := token_end cur in
      if N.eqb v 116 || N.eqb v 102 then
        if bytes_eqb tok LIT_TRUE || bytes_eqb tok LIT_FALSE then cont acc t4 else RErr
      else if N.eqb v 117 || N.eqb v 110 then
        if bytes_eqb tok LIT_NULL then cont acc t4 else RErr
      else if is_digit_or_minus v then cont (acc ++ [(nk, tok)]) t4
      else RErr
  end.

(** [obj_each] = jsonToPlainStringMap(parent, result, data) = ObjectEach(data, callback);
    [obj_loop] = the "for offset < len(data)" loop of ObjectEach with cur = data[offset:]. *)
Fixpoint obj_each (old : bool) (fuel : nat) (parent data : bytes) (acc : flatmap) {struct fuel} : rres :=
  match fuel with
  | O => RFuel
  | S f =>
    match skipws data with
    | [] => RErr
    | c :: t =>
      if negb (N.eqb c LBRACE) then RErr
      else match skipws t with
           | [] => RErr
           | c1 :: t1 => if N.eqb c1 RBRACE then ROk acc else obj_loop old f parent (c1 :: t1) acc
           end
    end
  end
with obj_loop (old : bool) (fuel : nat) (parent cur : bytes) (acc : flatmap) {struct fuel} : rres :=
  match fuel with
  | O => RFuel
  | S f =>
    match cur with
    | [] => RErr
    | c :: t =>
      if N.eqb c RBRACE then ROk acc
      else if negb (N.eqb c QUOTE) then RErr
      else
        match read_key t with
        | None => RErr
        | Some (key, cur3) =>
          let nk := key_of old parent key in
          value_step (obj_each old f (child_of old nk)) (after_value (obj_loop old f parent)) nk cur3 acc
        end
    end
  end.

Definition read_json (data : bytes) : rres := obj_each false (S (length data)) [] data [].
(** the reader before the fix of the empty-parent naming *)
Definition read_json_old (data : bytes) : rres := obj_each true (S (length data)) [] data [].

(** * formatStringJSON *)

Definition hexdigit (n : N) : byte := if N.ltb n 10 then 48 + n else 87 + n.

Definition escape_byte (c : byte) : bytes :=
  if N.eqb c 34 || N.eqb c 92 then [92; c]
  else if N.eqb c 10 then [92; 110]
  else if N.eqb c 13 then [92; 114]
  else if N.eqb c 9 then [92; 116]
  else if N.ltb c 32 then [92; 117; 48; 48; hexdigit (c / 16); hexdigit (c mod 16)]
  else [c].

Definition escape (s : bytes) : bytes := flat_map escape_byte s.

Definition fmt_string (s : bytes) : bytes := QUOTE :: escape s ++ [QUOTE].

(** * PlainStringMapToJSON / PlainStringMapToFormattedJSON *)

Fixpoint index_of (x : byte) (s : bytes) : option nat :=
  match s with
  | [] => None
  | c :: t => if N.eqb c x then Some O else omap S (index_of x t)
  end.

(** sort.Strings on the keys (values travel with their key) *)
Fixpoint insert_kv (k : bytes) (v : bytes) (l : flatmap) : flatmap :=
  match l with
  | [] => [(k, v)]
  | (k', v') :: l' => if bytes_ltb k k' then (k, v) :: l else (k', v') :: insert_kv k v l'
  end.
Fixpoint sort_kv (l : flatmap) : flatmap :=
  match l with
  | [] => []
  | (k, v) :: l' => insert_kv k v (sort_kv l')
  end.

(** plainStringMapToJSON(prefix, i, keys, map) / plainStringMapToFormattedJSON(..., "  ", spaces)
    with [l] = the entries from index i on; returns (json, entries not consumed).  [first] = "json
    is still empty".  [fm] selects the formatted variant.  None = out of fuel. *)
Fixpoint emit_loop (fm : bool) (fuel : nat) (prefix spaces : bytes) (first : bool) (l : flatmap)
  : option (bytes * flatmap) :=
  match fuel with
  | O => None
  | S f =>
    match l with
    | [] => Some ([], [])
    | (k, v) :: l' =>
      if negb (has_prefix k prefix) then Some ([], l)
      else
        let diff := skipn (length prefix) k in
        let comma := if first then [] else [COMMA] in
        let nl := if fm then 10 :: spaces else [] in
        let colon := if fm then [COLON; 32] else [COLON] in
        match index_of DOT diff with
        | Some d =>
          match emit_loop fm f (firstn (length prefix + d + 1) k) (spaces ++ [32; 32]) true l with
          | None => None
          | Some (pre, l1) =>
            match emit_loop fm f prefix spaces false l1 with
            | None => None
            | Some (more, l2) =>
              Some (comma ++ nl ++ fmt_string (firstn d diff) ++ colon ++ [LBRACE] ++ pre ++ nl
                      ++ [RBRACE] ++ more, l2)
            end
          end
        | None =>
          match emit_loop fm f prefix spaces false l' with
          | None => None
          | Some (more, l2) => Some (comma ++ nl ++ fmt_string diff ++ colon ++ fmt_string v ++ more, l2)
          end
        end
    end
  end.

Definition weight (l : flatmap) : nat := fold_right (fun kv n => (S (length (fst kv)) + n)%nat) O l.

Definition emit_sorted (fm : bool) (s : flatmap) : option bytes :=
  match emit_loop fm (S (weight s)) [] [32; 32] true s with
  | Some (j, _) => Some (LBRACE :: j ++ (if fm then [10] else []) ++ [RBRACE])
  | None => None
  end.

Definition emit (fm : bool) (m : flatmap) : option bytes := emit_sorted fm (sort_kv m).

(** * Documents of the subset, as syntax trees with their whitespace *)

(** how one character of a string literal is written *)
Inductive jchar :=
| Raw (b : byte)                                   (* any byte except quote and backslash *)
| Esc (e : byte)                                   (* backslash followed by one of: quote backslash / b f n r t *)
| EscU (a b c d : byte)                            (* \uXXXX, not a surrogate *)
| EscPair (a b c d a' b' c' d' : byte).            (* \uD8xx..\uDBxx \uDCxx..\uDFxx *)

Definition jchar_ok (c : jchar) : bool :=
  match c with
  | Raw b => negb (N.eqb b QUOTE) && negb (N.eqb b BSL)
  | Esc e => match basic_escape e with Some _ => true | None => false end
  | EscU a b c d => match hex4 a b c d with Some r => negb (is_surrogate r) | None => false end
  | EscPair a b c d a' b' c' d' =>
    match hex4 a b c d, hex4 a' b' c' d' with
    | Some hi, Some lo => N.leb 55296 hi && N.leb hi 56319 && N.leb 56320 lo && N.leb lo 57343
    | _, _ => false
    end
  end.

(** RFC 8259 additionally forbids raw control characters *)
Definition jchar_strict (c : jchar) : bool :=
  jchar_ok c && match c with Raw b => N.leb 32 b | _ => true end.

Definition render_char (c : jchar) : bytes :=
  match c with
  | Raw b => [b]
  | Esc e => [BSL; e]
  | EscU a b c d => [BSL; 117; a; b; c; d]
  | EscPair a b c d a' b' c' d' => [BSL; 117; a; b; c; d; BSL; 117; a'; b'; c'; d']
  end.

(** the bytes a standard decoder yields for the character (UTF-8) *)
Definition decode_char (c : jchar) : bytes :=
  match c with
  | Raw b => [b]
  | Esc e => match basic_escape e with Some x => [x] | None => [] end
  | EscU a b c d => match hex4 a b c d with Some r => utf8_encode r | None => [] end
  | EscPair a b c d a' b' c' d' =>
    match hex4 a b c d, hex4 a' b' c' d' with
    | Some hi, Some lo => utf8_encode (combine_surrogates hi lo)
    | _, _ => []
    end
  end.

Definition render_chars (s : list jchar) : bytes := flat_map render_char s.
Definition decode (s : list jchar) : bytes := flat_map decode_char s.
Definition render_str (s : list jchar) : bytes := QUOTE :: render_chars s ++ [QUOTE].

Inductive jv :=
| JStr (s : list jchar)
| JNum (t : bytes)
| JTrue | JFalse | JNull
| JArr (e : elems) (wend : bytes)                   (* [ e1 , e2 ... wend ] *)
| JObj (m : members) (wend : bytes)                 (* { m1 , m2 ... wend } *)
with elems :=
| ENil
| ECons (w : bytes) (v : jv) (w' : bytes) (e : elems)
with members :=
| MNil
| MCons (w1 : bytes) (k : list jchar) (w2 w3 : bytes) (v : jv) (w4 : bytes) (m : members).
     (* w1 "key" w2 : w3 value w4 *)

Fixpoint render (v : jv) : bytes :=
  match v with
  | JStr s => render_str s
  | JNum t => t
  | JTrue => LIT_TRUE
  | JFalse => LIT_FALSE
  | JNull => LIT_NULL
  | JArr e wend => LBRACK :: render_elems e ++ wend ++ [RBRACK]
  | JObj m wend => LBRACE :: render_members m ++ wend ++ [RBRACE]
  end
with render_elems (e : elems) : bytes :=
  match e with
  | ENil => []
  | ECons w v w' e' =>
    w ++ render v ++ w' ++ match e' with ENil => [] | ECons _ _ _ _ => COMMA :: render_elems e' end
  end
with render_members (m : members) : bytes :=
  match m with
  | MNil => []
  | MCons w1 k w2 w3 v w4 m' =>
    w1 ++ render_str k ++ w2 ++ COLON :: w3 ++ render v ++ w4
       ++ match m' with MNil => [] | MCons _ _ _ _ _ _ _ => COMMA :: render_members m' end
  end.

Definition all_ws (w : bytes) : bool := forallb is_ws w.

Definition is_numchar (c : byte) : bool :=
  (N.leb 48 c && N.leb c 57) || N.eqb c 45 || N.eqb c 43 || N.eqb c 46 || N.eqb c 101 || N.eqb c 69.

(** number tokens: start with a digit or '-', consist of digits + - . e E (a superset of the
    JSON number grammar; the reader returns the literal text) *)
Definition num_ok (t : bytes) : bool :=
  match t with
  | [] => false
  | c :: _ => is_digit_or_minus c && forallb is_numchar t
  end.

(** [strict] = true: only what RFC 8259 allows inside string literals *)
Fixpoint jv_ok (strict : bool) (v : jv) : bool :=
  match v with
  | JStr s => forallb (if strict then jchar_strict else jchar_ok) s
  | JNum t => num_ok t
  | JTrue | JFalse | JNull => true
  | JArr e wend => elems_ok strict e && all_ws wend
  | JObj m wend => members_ok strict m && all_ws wend
  end
with elems_ok (strict : bool) (e : elems) : bool :=
  match e with
  | ENil => true
  | ECons w v w' e' => all_ws w && jv_ok strict v && all_ws w' && elems_ok strict e'
  end
with members_ok (strict : bool) (m : members) : bool :=
  match m with
  | MNil => true
  | MCons w1 k w2 w3 v w4 m' =>
    all_ws w1 && forallb (if strict then jchar_strict else jchar_ok) k && all_ws w2 && all_ws w3
    && jv_ok strict v && all_ws w4 && members_ok strict m'
  end.

(** the string / number leaves of a document with their dotted paths (keys decoded) and decoded
    values, in document order; every other kind of value contributes nothing.  [parent] is the
    prefix (current naming) or the parent's name ([old]). *)
Fixpoint leaves_v (old : bool) (key : bytes) (v : jv) : flatmap :=
  match v with
  | JStr s => [(key, decode s)]
  | JNum t => [(key, t)]
  | JObj m _ => leaves_m old (child_of old key) m
  | _ => []
  end
with leaves_m (old : bool) (parent : bytes) (m : members) : flatmap :=
  match m with
  | MNil => []
  | MCons _ k _ _ v _ m' => leaves_v old (key_of old parent (decode k)) v ++ leaves_m old parent m'
  end.

(** the leaves of a whole document: member names joined with "." along the path *)
Definition doc_leaves (m : members) : flatmap := leaves_m false [] m.

(** the first dot-separated segment of the key is empty *)
Definition starts_dot (k : bytes) : bool := match k with c :: _ => N.eqb c DOT | [] => false end.
