(** Named locks with holders that WAIT FOR OTHER HOLDERS inside their critical section (C15, the
    dimension "all hold durations" taken to its limit).  Definitions only; proofs are in
    Proofs/C15Nested.v.  Model/Locks.v is unchanged: this is the same system with one more guard.

    What the Go code does (app/modules/pipelinem/pipservices/runner/runner.go runGo): the runner
    takes the task's locks, runs the body, then waits for the task's scope
    ([childCtx.Scope().Wait()]) and only then runs the deferred [Unlock].  A [pip:run] inside the
    body submits a sub-task on that very scope, and the sub-task takes its own lock map through
    the same SharedMutex.  So the parent's hold lasts until the sub-task has finished.

    [deps] lists for every holder the holders whose completion it awaits before it leaves its
    critical section (its sub-tasks, and theirs).  [stepN] is [step] with the step out of the
    critical section enabled only when all of them have finished. *)
From GC Require Import Common.Base Model.Locks.
Local Open Scope nat_scope.

Definition finished_at (s : state) (j : nat) : bool :=
  match nth_error (ths s) j with Some t => final_thread t | None => true end.

Definition gate_open (deps : list (list nat)) (i : nat) (s : state) : bool :=
  forallb (finished_at s) (nth i deps []).

Definition stepN (deps : list (list nat)) (i : nat) (s : state) : option state :=
  match nth_error (ths s) i with
  | Some (TIn _) => if gate_open deps i s then step i s else None
  | _ => step i s
  end.

Fixpoint runN (deps : list (list nat)) (sched : list nat) (s : state) : state :=
  match sched with
  | [] => s
  | i :: r => runN deps r (match stepN deps i s with Some s' => s' | None => s end)
  end.

Definition stuckN (deps : list (list nat)) (s : state) : bool :=
  negb (existsb (fun i => match stepN deps i s with Some _ => true | None => false end)
                (seq 0 (length (ths s)))).

(** The discipline under which waiting for sub-tasks is safe:
    sub-tasks are created after their parent ([deps_forward]), a holder awaits the sub-tasks of
    its sub-tasks too ([deps_closed]: the parent's scope is done only when theirs are), and every
    name a sub-task asks for lies ABOVE every name of the holder that awaits it ([deps_above]:
    the global lock order continues through the nesting). *)
Definition deps_forward (deps : list (list nat)) : Prop :=
  forall i j, In j (nth i deps []) -> i < j.
Definition deps_closed (deps : list (list nat)) : Prop :=
  forall i j k, In j (nth i deps []) -> In k (nth j deps []) -> In k (nth i deps []).
Definition deps_above (maps : list (list req)) (deps : list (list nat)) : Prop :=
  forall i j mi mj x y m1 m2,
    In j (nth i deps []) -> nth_error maps i = Some mi -> nth_error maps j = Some mj ->
    In (x, m1) mi -> In (y, m2) mj -> x < y.

(** Executable forms for concrete systems. *)
Definition deps_forwardb (deps : list (list nat)) : bool :=
  forallb (fun i => forallb (fun j => Nat.ltb i j) (nth i deps [])) (seq 0 (length deps)).
Definition deps_closedb (deps : list (list nat)) : bool :=
  forallb (fun i => forallb (fun j => forallb (fun k => existsb (Nat.eqb k) (nth i deps []))
                                              (nth j deps [])) (nth i deps []))
          (seq 0 (length deps)).
Definition deps_aboveb (maps : list (list req)) (deps : list (list nat)) : bool :=
  forallb (fun i => forallb (fun j =>
      forallb (fun p => forallb (fun q => Nat.ltb (fst p) (fst q)) (nth j maps [])) (nth i maps []))
    (nth i deps [])) (seq 0 (length deps)).
