(** Model of the template providers goathtml/ghprovider and goattext/gtprovider (C19).

    Abstraction of html/template and text/template (modelled, not verified; validated by the
    harness on every run): a template set is a finite map definition name -> body id; Parse of a
    file adds/overrides the file's definitions (a file that defines a name twice, an empty file or
    a malformed file is an error); Clone copies; html/template additionally has an "executed" flag
    per template object: Execute sets it, Clone/Parse of an executed object is an error.

    The model is parametrised by a [flavour] so that the same definitions describe
    - the html provider as it is now            ([html_now]),
    - the text provider as it is now            ([text_now]),
    - the html provider before the F29 fix      ([html_F29]: cached base/layout handed out uncloned),
    - the providers before the F25 fix          ([html_F25]/[text_F25]: unlocked fast-path read). *)
From GC Require Import Common.Base.

(* ------------------------------------------------------------------------------------------ *)
(** * Template sets *)

Definition name := bytes.
(** Definitions, NEWEST FIRST: [lookup] returns the first match, so consing overrides. *)
Definition defs := list (name * N).

Fixpoint lookup (n : name) (d : defs) : option N :=
  match d with
  | [] => None
  | (k, b) :: d' => if bytes_eqb k n then Some b else lookup n d'
  end.

Definition mem (n : name) (l : list name) : bool := existsb (bytes_eqb n) l.

Fixpoint has_dup (l : list name) : bool :=
  match l with
  | [] => false
  | x :: l' => mem x l' || has_dup l'
  end.

(** A template file: [None] = empty or malformed file (Load reports an error); [Some f] = the
    definitions of the file in textual order (top-level text is the definition of the root name
    "baseTemplate").  Two definitions of one name in ONE file are a parse error. *)
Definition fdefs := list (name * N).
Definition tfile := option fdefs.

Definition parse_file (f : tfile) (d : defs) : option defs :=
  match f with
  | None => None
  | Some l => if has_dup (map fst l) then None else Some (rev l ++ d)
  end.

(** Load the files one after the other into the same template; the first error aborts. *)
Fixpoint parse_files (fl : list tfile) (d : defs) : option defs :=
  match fl with
  | [] => Some d
  | f :: fl' => match parse_file f d with
                | None => None
                | Some d' => parse_files fl' d'
                end
  end.

(* ------------------------------------------------------------------------------------------ *)
(** * File system: the three directories in LISTING order (fsloop.WalkFS) *)

Inductive node :=
| NFile (nm : bytes) (c : tfile)
| NDir (nm : bytes) (ch : list node).

(** WalkFS: depth-first in listing order, a sub-directory is walked completely at its position;
    the providers' callback loads a file iff its path has the extension. *)
Fixpoint walk_node (ext : bytes) (n : node) : list tfile :=
  match n with
  | NFile nm c => if has_suffix nm ext then [c] else []
  | NDir _ ch => flat_map (walk_node ext) ch
  end.
Definition walk (ext : bytes) (ch : list node) : list tfile := flat_map (walk_node ext) ch.

Record tfs := {
  f_ext : bytes;
  f_helpers : option (list node);            (* None: the helpers directory does not exist *)
  f_layouts : list (bytes * list node);      (* layout directory name -> children *)
  f_views : list (bytes * list node)         (* view directory name -> children *)
}.

Fixpoint assoc {A} (k : bytes) (l : list (bytes * A)) : option A :=
  match l with
  | [] => None
  | (k', a) :: l' => if bytes_eqb k' k then Some a else assoc k l'
  end.

Definition dir_files (ext : bytes) (d : option (list node)) : list tfile :=
  match d with None => [] | Some ch => walk ext ch end.

Definition helper_files (fs : tfs) := dir_files (f_ext fs) (f_helpers fs).
Definition layout_files (fs : tfs) (nm : bytes) := dir_files (f_ext fs) (assoc nm (f_layouts fs)).
Definition view_files (fs : tfs) (v : bytes) := dir_files (f_ext fs) (assoc v (f_views fs)).

(* ------------------------------------------------------------------------------------------ *)
(** * What a provider is supposed to return (pure functions of the file set) *)

Definition DEFAULT : bytes := [100;101;102;97;117;108;116].   (* "default" *)
Definition COLON : N := 58.
Definition defname (l : bytes) : bytes := match l with [] => DEFAULT | _ => l end.

Definition base_spec (fs : tfs) : option defs := parse_files (helper_files fs) [].
Definition layout_spec (fs : tfs) (nm : bytes) : option defs :=
  match base_spec fs with
  | None => None
  | Some b => parse_files (layout_files fs nm) b
  end.
Definition view_spec (fs : tfs) (nm v : bytes) : option defs :=
  match layout_spec fs nm with
  | None => None
  | Some l => parse_files (view_files fs v) l
  end.

(* ------------------------------------------------------------------------------------------ *)
(** * Provider state: template objects with identity, and the three caches *)

Record flavour := {
  html : bool;         (* html/template: executed flag matters; html-style handling of missing dirs *)
  clone_out : bool;    (* cached provider hands out CLONES of its base/layout (F29 fix)           *)
  locked_fast : bool;  (* fast-path cache read under RLock (F25 fix)                              *)
  inj_key : bool       (* views cache key is unambiguous (fix 7035bfe); false: layout ++ ":" ++ view *)
}.
Definition html_now := {| html := true; clone_out := true; locked_fast := true; inj_key := true |}.
Definition text_now := {| html := false; clone_out := false; locked_fast := true; inj_key := true |}.
Definition html_F29 := {| html := true; clone_out := false; locked_fast := true; inj_key := true |}.
Definition html_F25 := {| html := true; clone_out := true; locked_fast := false; inj_key := true |}.
Definition text_F25 := {| html := false; clone_out := false; locked_fast := false; inj_key := true |}.
Definition html_oldkey := {| html := true; clone_out := true; locked_fast := true; inj_key := false |}.
Definition text_oldkey := {| html := false; clone_out := false; locked_fast := true; inj_key := false |}.

(** Key of the views cache.  The code now uses len(layout) ++ ":" ++ layout ++ ":" ++ view, which
    determines the pair; it is modelled by the pair itself ([KPair]).  Before 7035bfe the key was
    the string layout ++ ":" ++ view ([KStr]), ambiguous for names containing ':'. *)
Inductive vkey := KStr (k : bytes) | KPair (l v : bytes).
Definition vkey_eqb (a b : vkey) : bool :=
  match a, b with
  | KStr x, KStr y => bytes_eqb x y
  | KPair l v, KPair l' v' => bytes_eqb l l' && bytes_eqb v v'
  | _, _ => false
  end.
Fixpoint vassoc {A} (k : vkey) (l : list (vkey * A)) : option A :=
  match l with
  | [] => None
  | (k', a) :: l' => if vkey_eqb k' k then Some a else vassoc k l'
  end.

Record tobj := { o_defs : defs; o_exec : bool }.

Record pstate := {
  heap : list tobj;                 (* object id = index *)
  c_base : option nat;              (* provider.baseTemplate *)
  c_lay : list (bytes * nat);       (* provider.layouts, key = layout name after defaulting *)
  c_view : list (vkey * nat)        (* provider.views *)
}.
Definition pinit : pstate := {| heap := []; c_base := None; c_lay := []; c_view := [] |}.

Definition with_heap (h : list tobj) (p : pstate) :=
  {| heap := h; c_base := c_base p; c_lay := c_lay p; c_view := c_view p |}.
Definition set_base (i : nat) (p : pstate) :=
  {| heap := heap p; c_base := Some i; c_lay := c_lay p; c_view := c_view p |}.
Definition set_lay (k : bytes) (i : nat) (p : pstate) :=
  {| heap := heap p; c_base := c_base p; c_lay := (k, i) :: c_lay p; c_view := c_view p |}.
Definition set_view (k : vkey) (i : nat) (p : pstate) :=
  {| heap := heap p; c_base := c_base p; c_lay := c_lay p; c_view := (k, i) :: c_view p |}.

Definition alloc (d : defs) (p : pstate) : pstate * nat :=
  (with_heap (heap p ++ [{| o_defs := d; o_exec := false |}]) p, length (heap p)).

(** Clone [src] and load [files] into the clone.  html/template refuses to clone an executed
    template.  ([files = []] is a plain Clone.) *)
Definition derive (fl : flavour) (src : nat) (files : list tfile) (p : pstate) : pstate * res nat :=
  match nth_error (heap p) src with
  | None => (p, Panic)
  | Some o =>
    if html fl && o_exec o then (p, Err)
    else match parse_files files (o_defs o) with
         | None => (p, Err)
         | Some d => let (p', i) := alloc d p in (p', Ok i)
         end
  end.

Definition cache_if (c : bool) (f : pstate -> pstate) (p : pstate) : pstate := if c then f p else p.

(** provider.base() after the cache miss (under baseMutex.Lock). *)
Definition build_base (fl : flavour) (c : bool) (fs : tfs) (p : pstate) : pstate * res nat :=
  match f_helpers fs with
  | None =>
    let (p1, i) := alloc [] p in
    (* html: returned without being cached; text: cached *)
    (cache_if (c && negb (html fl)) (set_base i) p1, Ok i)
  | Some ch =>
    match parse_files (walk (f_ext fs) ch) [] with
    | None => (p, Err)
    | Some d => let (p1, i) := alloc d p in (cache_if c (set_base i) p1, Ok i)
    end
  end.

(** provider.layout(name) after the miss, given the base object [b] it obtained. *)
Definition build_layout (fl : flavour) (c : bool) (fs : tfs) (nm : bytes) (b : nat) (p : pstate)
  : pstate * res nat :=
  match assoc nm (f_layouts fs) with
  | None =>
    if html fl then derive fl b [] p                       (* clone of base, NOT cached *)
    else (cache_if c (set_lay nm b) p, Ok b)               (* the base object itself, cached *)
  | Some ch =>
    match derive fl b (walk (f_ext fs) ch) p with
    | (p1, Ok i) => (cache_if c (set_lay nm i) p1, Ok i)
    | r => r
    end
  end.

(** provider.view(layout, view, key) after the miss, given the layout object [ly]. *)
Definition build_view (fl : flavour) (c : bool) (fs : tfs) (key : vkey) (v : bytes) (ly : nat) (p : pstate)
  : pstate * res nat :=
  match assoc v (f_views fs) with
  | None =>
    if html fl then
      match derive fl ly [] p with
      | (p1, Ok i) => (cache_if c (set_view key i) p1, Ok i)   (* clone of the layout, cached *)
      | r => r
      end
    else (cache_if c (set_view key ly) p, Ok ly)               (* the layout object itself, cached *)
  | Some ch =>
    match derive fl ly (walk (f_ext fs) ch) p with
    | (p1, Ok i) => (cache_if c (set_view key i) p1, Ok i)
    | r => r
    end
  end.

(** Sequential composition of "fast-path read; on miss lock, re-check, build". *)
Definition get_base (fl : flavour) (c : bool) (fs : tfs) (p : pstate) : pstate * res nat :=
  match c_base p with
  | Some i => (p, Ok i)
  | None => build_base fl c fs p
  end.

(** [nm] is the layout name after defaulting. *)
Definition get_layout (fl : flavour) (c : bool) (fs : tfs) (nm : bytes) (p : pstate) : pstate * res nat :=
  match assoc nm (c_lay p) with
  | Some i => (p, Ok i)
  | None =>
    match get_base fl c fs p with
    | (p1, Ok b) => build_layout fl c fs nm b p1
    | r => r
    end
  end.

Definition view_key (fl : flavour) (nm v : bytes) : vkey :=
  if inj_key fl then KPair nm v else KStr (nm ++ COLON :: v).

Definition get_view (fl : flavour) (c : bool) (fs : tfs) (l v : bytes) (p : pstate) : pstate * res nat :=
  let nm := defname l in
  match v with
  | [] => (p, Err)
  | _ =>
    match vassoc (view_key fl nm v) (c_view p) with
    | Some i => (p, Ok i)
    | None =>
      match get_layout fl c fs nm p with
      | (p1, Ok ly) => build_view fl c fs (view_key fl nm v) v ly p1
      | r => r
      end
    end
  end.

(** ghprovider.handOut: a cached provider gives the caller a clone of its base/layout. *)
Definition handout (fl : flavour) (c : bool) (r : pstate * res nat) : pstate * res nat :=
  if c && clone_out fl then
    match r with
    | (p, Ok i) => derive fl i [] p
    | _ => r
    end
  else r.

Definition req_base fl c fs p := handout fl c (get_base fl c fs p).
Definition req_layout fl c fs l p := handout fl c (get_layout fl c fs (defname l) p).
Definition req_view fl c fs l v p := get_view fl c fs l v p.

(* ------------------------------------------------------------------------------------------ *)
(** * Request sequences *)

Inductive req :=
| RBase
| RLayout (l : bytes)
| RView (l v : bytes)
| RExec (r : nat).        (* the caller executes the template it got as result number r *)

Inductive obs :=
| OTmpl (d : defs)        (* a template; its definitions *)
| OErr
| OPanic
| OSkip.                  (* Execute of something that is not a template *)

Record sstate := {
  sp : pstate;
  sres : list (option nat);     (* per request: the object handed to the caller *)
  sobs : list obs               (* per request: the observable *)
}.
Definition sinit : sstate := {| sp := pinit; sres := []; sobs := [] |}.

Fixpoint mark_exec (i : nat) (h : list tobj) : list tobj :=
  match h with
  | [] => []
  | o :: h' => match i with
               | O => {| o_defs := o_defs o; o_exec := true |} :: h'
               | S i' => o :: mark_exec i' h'
               end
  end.
Definition set_exec (i : nat) (p : pstate) : pstate := with_heap (mark_exec i (heap p)) p.

Definition obs_of (p : pstate) (r : res nat) : obs :=
  match r with
  | Ok i => match nth_error (heap p) i with Some o => OTmpl (o_defs o) | None => OPanic end
  | Err => OErr
  | Panic => OPanic
  end.
Definition id_of (r : res nat) : option nat := match r with Ok i => Some i | _ => None end.

Definition record (s : sstate) (pr : pstate * res nat) : sstate :=
  let (p, r) := pr in
  {| sp := p; sres := sres s ++ [id_of r]; sobs := sobs s ++ [obs_of p r] |}.

Definition step_req (fl : flavour) (c : bool) (fs : tfs) (s : sstate) (q : req) : sstate :=
  match q with
  | RBase => record s (req_base fl c fs (sp s))
  | RLayout l => record s (req_layout fl c fs l (sp s))
  | RView l v => record s (req_view fl c fs l v (sp s))
  | RExec k =>
    match nth_error (sres s) k with
    | Some (Some i) =>
      {| sp := set_exec i (sp s); sres := sres s ++ [Some i]; sobs := sobs s ++ [obs_of (sp s) (Ok i)] |}
    | _ => {| sp := sp s; sres := sres s ++ [None]; sobs := sobs s ++ [OSkip] |}
    end
  end.

Definition run (fl : flavour) (c : bool) (fs : tfs) (qs : list req) : sstate :=
  fold_left (step_req fl c fs) qs sinit.
Definition run_obs fl c fs qs : list obs := sobs (run fl c fs qs).

(** The specification of a request sequence: every answer is a pure function of the file set. *)
Definition of_opt (o : option defs) : obs := match o with Some d => OTmpl d | None => OErr end.
Definition spec_req (fs : tfs) (prev : list obs) (q : req) : obs :=
  match q with
  | RBase => of_opt (base_spec fs)
  | RLayout l => of_opt (layout_spec fs (defname l))
  | RView l v => match v with [] => OErr | _ => of_opt (view_spec fs (defname l) v) end
  | RExec k => match nth_error prev k with Some (OTmpl d) => OTmpl d | _ => OSkip end
  end.
Definition spec_run (fs : tfs) (qs : list req) : list obs :=
  fold_left (fun prev q => prev ++ [spec_req fs prev q]) qs [].

(** Only for the pre-7035bfe key (layout ++ ":" ++ view, flavours with [inj_key = false]):
    layout names in View requests contain no ':'. *)
Definition nocolon (l : bytes) : bool := negb (existsb (N.eqb COLON) l).
Definition req_ok (q : req) : bool :=
  match q with RView l _ => nocolon l | _ => true end.

(** Vocabulary of the theorems. *)

(** The flavours the positive theorems are about: an html provider hands out clones and the
    views cache key is unambiguous. *)
Definition good (fl : flavour) : Prop :=
  (html fl = true -> clone_out fl = true) /\ inj_key fl = true.
(** weaker: the pre-7035bfe key is fine as long as layout names contain no ':' *)
Definition good_clone (fl : flavour) : Prop := html fl = true -> clone_out fl = true.

Definition pure_req (q : req) : bool := match q with RExec _ => false | _ => true end.

(** All definition names occurring in the (parsable) files of a list of files. *)
Definition file_names (f : tfile) : list name := match f with Some l => map fst l | None => [] end.
Definition files_names (fl : list tfile) : list name := flat_map file_names fl.

(** The definitions of a directory on their own (walk order, newest first); None: a bad file. *)
Definition dir_defs (files : list tfile) : option defs := parse_files files [].

Definition absent (n : name) (o : obs) : Prop :=
  match o with OTmpl d => lookup n d = None | _ => True end.

(** [n] is defined in the files of view [v1] and in no other directory of the file set. *)
Definition only_in_view (fs : tfs) (n : name) (v1 : bytes) : Prop :=
  In n (files_names (view_files fs v1)) /\
  ~ In n (files_names (helper_files fs)) /\
  (forall nm, ~ In n (files_names (layout_files fs nm))) /\
  (forall v, v <> v1 -> ~ In n (files_names (view_files fs v))).

(* ------------------------------------------------------------------------------------------ *)
(** * Concurrent first use *)

(** A thread serves one request.  It walks through the nested "cache-get" protocols of the code:
      RLock; read cache; RUnlock; on miss: Lock; re-check; (call the level below); build+store; Unlock
    one shared-memory access or lock operation per step.  A mutex is modelled by its set of
    holders, which is determined by the program counters: a thread holds the write lock of a
    level's mutex from after [PLock] until it has executed [PUnlock], the read lock from after
    [PRLock] until it has executed [PRUnlock]. *)
Inductive level := LvB | LvL (nm : bytes) | LvV (nm v : bytes).   (* nm: after defaulting *)

Inductive phase :=
| PRLock                    (* about to RLock *)
| PRead                     (* holds R; about to read the cache        (READ access)  *)
| PReadU                    (* pre-F25: about to read the cache WITHOUT any lock (READ access) *)
| PRUnlock (hit : option nat)   (* holds R; about to RUnlock *)
| PLock                     (* about to Lock *)
| PRecheck                  (* holds W; about to re-read the cache     (READ access)  *)
| PCall                     (* holds W; waiting for the level below (a frame above this one) *)
| PBuild (sub : nat)        (* holds W; about to build and store       (WRITE access) *)
| PUnlock (r : res nat).    (* holds W; about to Unlock and return r *)

Definition frame := (level * phase)%type.

Inductive creq := CBase | CLayout (l : bytes) | CView (l v : bytes).

Inductive thread :=
| TRun (q : creq) (stack : list frame)      (* innermost frame first *)
| THand (q : creq) (r : res nat)            (* about to hand out (clone when cached, html) *)
| TDone (q : creq) (r : res nat).

Record cstate := { cp : pstate; cthr : list thread }.

Definition lock_of (lv : level) : nat := match lv with LvB => 0 | LvL _ => 1 | LvV _ _ => 2 end%nat.

Definition phaseW (ph : phase) : bool :=
  match ph with PRecheck | PCall | PBuild _ | PUnlock _ => true | _ => false end.
Definition phaseR (ph : phase) : bool :=
  match ph with PRead | PRUnlock _ => true | _ => false end.

Definition stack_of (t : thread) : list frame := match t with TRun _ st => st | _ => [] end.
Definition holdsW (lk : nat) (t : thread) : bool :=
  existsb (fun f : frame => Nat.eqb (lock_of (fst f)) lk && phaseW (snd f)) (stack_of t).
Definition holdsR (lk : nat) (t : thread) : bool :=
  existsb (fun f : frame => Nat.eqb (lock_of (fst f)) lk && phaseR (snd f)) (stack_of t).

Definition start (fl : flavour) : phase := if locked_fast fl then PRLock else PReadU.

Definition cache_read (fl : flavour) (lv : level) (p : pstate) : option nat :=
  match lv with
  | LvB => c_base p
  | LvL nm => assoc nm (c_lay p)
  | LvV nm v => vassoc (view_key fl nm v) (c_view p)
  end.

Definition build (fl : flavour) (c : bool) (fs : tfs) (lv : level) (sub : nat) (p : pstate) :=
  match lv with
  | LvB => build_base fl c fs p
  | LvL nm => build_layout fl c fs nm sub p
  | LvV nm v => build_view fl c fs (view_key fl nm v) v sub p
  end.

(** Give [r] to the caller of the finished innermost frame. *)
Definition ret (q : creq) (r : res nat) (rest : list frame) : thread :=
  match rest with
  | [] => match q with CView _ _ => TDone q r | _ => THand q r end
  | (lv, PCall) :: rest' =>
    match r with
    | Ok i => TRun q ((lv, PBuild i) :: rest')
    | _ => TRun q ((lv, PUnlock r) :: rest')
    end
  | _ :: _ => TRun q rest      (* unreachable: every frame below the innermost one is at PCall *)
  end.

Inductive lock_act := ANone | ARLock (lk : nat) | ALock (lk : nat).

(** One step of a thread, and the lock it has to acquire for it. *)
Definition tstep (fl : flavour) (c : bool) (fs : tfs) (p : pstate) (t : thread)
  : option (pstate * thread * lock_act) :=
  match t with
  | TDone _ _ => None
  | THand q r => let (p', r') := handout fl c (p, r) in Some (p', TDone q r', ANone)
  | TRun q [] => None
  | TRun q ((lv, ph) :: rest) =>
    match ph with
    | PRLock => Some (p, TRun q ((lv, PRead) :: rest), ARLock (lock_of lv))
    | PRead => Some (p, TRun q ((lv, PRUnlock (cache_read fl lv p)) :: rest), ANone)
    | PReadU =>
      match cache_read fl lv p with
      | Some i => Some (p, ret q (Ok i) rest, ANone)
      | None => Some (p, TRun q ((lv, PLock) :: rest), ANone)
      end
    | PRUnlock (Some i) => Some (p, ret q (Ok i) rest, ANone)
    | PRUnlock None => Some (p, TRun q ((lv, PLock) :: rest), ANone)
    | PLock => Some (p, TRun q ((lv, PRecheck) :: rest), ALock (lock_of lv))
    | PRecheck =>
      match cache_read fl lv p with
      | Some i => Some (p, TRun q ((lv, PUnlock (Ok i)) :: rest), ANone)
      | None =>
        match lv with
        | LvB => Some (p, TRun q ((lv, PBuild 0) :: rest), ANone)
        | LvL _ => Some (p, TRun q ((LvB, start fl) :: (lv, PCall) :: rest), ANone)
        | LvV nm _ => Some (p, TRun q ((LvL nm, start fl) :: (lv, PCall) :: rest), ANone)
        end
      end
    | PCall => None
    | PBuild sub => let (p', r) := build fl c fs lv sub p in
                    Some (p', TRun q ((lv, PUnlock r) :: rest), ANone)
    | PUnlock r => Some (p, ret q r rest, ANone)
    end
  end.

Fixpoint others_ok (chk : thread -> bool) (t : nat) (l : list thread) : bool :=
  match l with
  | [] => true
  | x :: l' => match t with
               | O => forallb chk l'
               | S t' => chk x && others_ok chk t' l'
               end
  end.

Fixpoint set_nth {A} (n : nat) (a : A) (l : list A) : list A :=
  match l with
  | [] => []
  | x :: l' => match n with O => a :: l' | S n' => x :: set_nth n' a l' end
  end.

(** A step of thread [t]; [None] when the thread is finished or blocked on a mutex. *)
Definition cstep (fl : flavour) (c : bool) (fs : tfs) (s : cstate) (t : nat) : option cstate :=
  match nth_error (cthr s) t with
  | None => None
  | Some th =>
    match tstep fl c fs (cp s) th with
    | None => None
    | Some (p', th', a) =>
      let enabled :=
        match a with
        | ANone => true
        | ARLock lk => others_ok (fun o => negb (holdsW lk o)) t (cthr s)
        | ALock lk => others_ok (fun o => negb (holdsW lk o) && negb (holdsR lk o)) t (cthr s)
        end in
      if enabled then Some {| cp := p'; cthr := set_nth t th' (cthr s) |} else None
    end
  end.

Definition crun_step fl c fs (s : cstate) (t : nat) : cstate :=
  match cstep fl c fs s t with Some s' => s' | None => s end.
Definition crun fl c fs (sched : list nat) (s : cstate) : cstate :=
  fold_left (crun_step fl c fs) sched s.

Definition thread_init (fl : flavour) (q : creq) : thread :=
  match q with
  | CBase => TRun q [(LvB, start fl)]
  | CLayout l => TRun q [(LvL (defname l), start fl)]
  | CView l v => match v with
                 | [] => TDone q Err
                 | _ => TRun q [(LvV (defname l) v, start fl)]
                 end
  end.
Definition cinit (fl : flavour) (qs : list creq) : cstate :=
  {| cp := pinit; cthr := map (thread_init fl) qs |}.

(** Shared-memory accesses: the next step of the thread reads / writes the cache guarded by [lk]. *)
Definition top (t : thread) : option frame := match stack_of t with f :: _ => Some f | [] => None end.
Definition at_read (lk : nat) (t : thread) : bool :=
  match top t with
  | Some (lv, (PRead | PReadU | PRecheck)) => Nat.eqb (lock_of lv) lk
  | _ => false
  end.
Definition at_write (lk : nat) (t : thread) : bool :=
  match top t with
  | Some (lv, PBuild _) => Nat.eqb (lock_of lv) lk
  | _ => false
  end.

(** A data race: one thread is about to write a cache while another one is about to read or
    write the same cache. *)
Fixpoint race_in (lk : nat) (l : list thread) : bool :=
  match l with
  | [] => false
  | x :: l' =>
    (at_write lk x && existsb (fun o => at_read lk o || at_write lk o) l')
    || ((at_read lk x || at_write lk x) && existsb (at_write lk) l')
    || race_in lk l'
  end.
Definition raceb (s : cstate) : bool :=
  race_in 0 (cthr s) || race_in 1 (cthr s) || race_in 2 (cthr s).

Definition creq_spec (fs : tfs) (q : creq) : obs :=
  match q with
  | CBase => of_opt (base_spec fs)
  | CLayout l => of_opt (layout_spec fs (defname l))
  | CView l v => match v with [] => OErr | _ => of_opt (view_spec fs (defname l) v) end
  end.
Definition req_of (th : thread) : creq := match th with TRun q _ | THand q _ | TDone q _ => q end.
Definition creq_ok (q : creq) : bool := match q with CView l _ => nocolon l | _ => true end.
Definition all_done (s : cstate) : bool :=
  forallb (fun t => match t with TDone _ _ => true | _ => false end) (cthr s).

(* ------------------------------------------------------------------------------------------ *)
(** * Vocabulary of deadlock freedom and termination *)

(** The lock operation a running thread performs next (none for every other kind of step). *)
Definition act_of (lv : level) (ph : phase) : lock_act :=
  match ph with
  | PRLock => ARLock (lock_of lv)
  | PLock => ALock (lock_of lv)
  | _ => ANone
  end.
Definition next_act (t : thread) : lock_act :=
  match top t with Some (lv, ph) => act_of lv ph | None => ANone end.

(** The next step of the thread is Lock() on mutex [lk]: it is, or is about to become, a pending
    writer. *)
Definition wantsW (lk : nat) (t : thread) : bool :=
  match top t with
  | Some (lv, PLock) => Nat.eqb (lock_of lv) lk
  | _ => false
  end.

(** Writer preference of sync.RWMutex: a Lock() that has been called and is waiting for the
    readers to drain blocks every NEW RLock().  Which of the threads standing at [PLock] have
    already called Lock() is not determined by the program counters, so it is a parameter
    [pend : thread index -> bool]: RLock by thread [t] is refused when another thread [i] with
    [pend i] stands at [PLock] of that mutex.  [pend = fun _ => false] is [cstep];
    [pend = fun _ => true] is the most restrictive reading. *)
Fixpoint pend_ok (pend : nat -> bool) (lk : nat) (t : nat) (i : nat) (l : list thread) : bool :=
  match l with
  | [] => true
  | x :: l' => (Nat.eqb i t || negb (pend i && wantsW lk x)) && pend_ok pend lk t (S i) l'
  end.

Definition cstep_wp (pend : nat -> bool) (fl : flavour) (c : bool) (fs : tfs) (s : cstate) (t : nat)
  : option cstate :=
  match nth_error (cthr s) t with
  | None => None
  | Some th =>
    match tstep fl c fs (cp s) th with
    | None => None
    | Some (p', th', a) =>
      let enabled :=
        match a with
        | ANone => true
        | ARLock lk => others_ok (fun o => negb (holdsW lk o)) t (cthr s) && pend_ok pend lk t 0 (cthr s)
        | ALock lk => others_ok (fun o => negb (holdsW lk o) && negb (holdsR lk o)) t (cthr s)
        end in
      if enabled then Some {| cp := p'; cthr := set_nth t th' (cthr s) |} else None
    end
  end.

Definition crun_wp_step pend fl c fs (s : cstate) (t : nat) : cstate :=
  match cstep_wp pend fl c fs s t with Some s' => s' | None => s end.
Definition crun_wp pend fl c fs (sched : list nat) (s : cstate) : cstate :=
  fold_left (crun_wp_step pend fl c fs) sched s.

(** Number of steps of a schedule that were actually taken (not skipped). *)
Fixpoint csteps (fl : flavour) (c : bool) (fs : tfs) (sched : list nat) (s : cstate) : nat :=
  match sched with
  | [] => O
  | t :: sched' =>
    match cstep fl c fs s t with
    | Some s' => S (csteps fl c fs sched' s')
    | None => csteps fl c fs sched' s
    end
  end.

(** Termination measure: an upper bound of the number of steps a thread can still take.  A
    protocol instance at the level guarded by mutex [n] takes at most 7 steps of its own plus the
    instance of the level below, 7 * (n + 1) in all. *)
Definition phase_msr (n : nat) (ph : phase) : nat :=
  match ph with
  | PRLock => 7 + 7 * n
  | PRead => 6 + 7 * n
  | PReadU => 5 + 7 * n
  | PRUnlock _ => 5 + 7 * n
  | PLock => 4 + 7 * n
  | PRecheck => 3 + 7 * n
  | PCall => 2
  | PBuild _ => 2
  | PUnlock _ => 1
  end%nat.
Definition frame_msr (f : frame) : nat := phase_msr (lock_of (fst f)) (snd f).
Fixpoint stack_msr (st : list frame) : nat :=
  match st with [] => O | f :: st' => (frame_msr f + stack_msr st')%nat end.
Definition thread_msr (t : thread) : nat :=
  match t with
  | TRun _ st => S (stack_msr st)
  | THand _ _ => 1%nat
  | TDone _ _ => O
  end.
Fixpoint total_msr (l : list thread) : nat :=
  match l with [] => O | t :: l' => (thread_msr t + total_msr l')%nat end.

(** What the finished threads hold, in thread order ([OPanic] for a thread that has not finished). *)
Definition answers (s : cstate) : list obs :=
  map (fun t => match t with TDone _ r => obs_of (cp s) r | _ => OPanic end) (cthr s).
