(** Model of varutil.ReadArguments / SplitArguments (varutil/arguments.go) and of
    argscope.SeparateArgs / InjectArgs (app/scope/argscope).

    The Go function reads ONE byte at a time from an io.Reader; the model is the same
    byte-at-a-time state machine, folded structurally over the input (so it is total by
    construction and needs no fuel).  [Panic] is returned at the only place where the Go code
    indexes a slice without a guard (args[len(args)-1] on an empty slice).

    [quirk_bsl_clears_sep] reproduces the code before the repair "fix: ReadArguments no longer
    panics ..." (the backslash branch also cleared isSeparated); the current tree is
    [quirk := false].

    Heredocs follow the repair F40: the text starts on the line behind the opening one (the value
    is seeded with the newline that ended it, so the very next line may already be the marker
    line and the text may be EMPTY); it ends where the value has the suffix NL+marker AND the next
    byte is a blank, a tab or a newline (that byte is not part of the heredoc: the Go code hands
    it back to its main loop, the model applies the main-mode step to it in place), or where the
    input ends right behind NL+marker.  The scanner before F40 (terminator = the first place
    where the value has the suffix NL+marker, whatever follows) is kept as [step_hd_old] /
    [read_args_hd_old] for the regression witnesses.
    Definitions only — proofs are in Proofs/Args.v. *)
From GC Require Import Common.Base.

Definition NL : byte := 10.
Definition TAB : byte := 9.
Definition SP : byte := 32.
Definition QUOTE : byte := 34.
Definition BSL : byte := 92.
Definition LT : byte := 60.
Definition EQS : byte := 61.
Definition USCORE : byte := 95.

Definition is_blank (c : byte) : bool := N.eqb c SP || N.eqb c TAB.
Definition is_marker_char (c : byte) : bool :=
  (N.leb 97 c && N.leb c 122) || (N.leb 65 c && N.leb c 90) || N.eqb c USCORE.

(** strings.Trim(s, " \t") *)
Fixpoint trim_left (s : bytes) : bytes :=
  match s with
  | c :: s' => if is_blank c then trim_left s' else s
  | [] => []
  end.
Definition trim (s : bytes) : bytes := rev (trim_left (rev (trim_left s))).

Inductive mode :=
| Main
| InQuote
| HereMarker (base marker : bytes)            (* reading the terminator word after "=<<" *)
| HereData (base eofseq value : bytes).       (* reading the body; eofseq = NL :: marker;
                                                 value starts as [NL] (F40) *)

(** [args] is kept newest-first; the head is Go's args[len(args)-1]. *)
Record st := mkSt { s_args : list bytes; s_esc : bool; s_sep : bool; s_mode : mode }.

Definition init_st : st := mkSt [] false true Main.

Inductive step_res :=
| Cont (s : st)
| Return (args : list bytes)   (* newline ended the command: (args, eof=false, nil) *)
| Fail                         (* the Go code returns an error *)
| Crash.                       (* the Go code panics *)

(** TrimPrefix(value, NL) *)
Definition strip_nl (v : bytes) : bytes :=
  match v with c :: v' => if N.eqb c NL then v' else v | [] => [] end.
(** The argument a finished heredoc leaves: [v] is the value still ending in the terminator. *)
Definition here_value (base eofseq v : bytes) : bytes :=
  base ++ trim (strip_nl (firstn (length v - length eofseq) v)).

Definition set_cur (s : st) (cur : bytes) (rest : list bytes) (esc sep : bool) (m : mode) : st :=
  mkSt (cur :: rest) esc sep m.

Definition step (quirk : bool) (s : st) (c : byte) : step_res :=
  match s_mode s with
  | Main =>
    if N.eqb c NL then
      if s_esc s then Cont (mkSt (s_args s) false (s_sep s) Main)
      else Return (rev (s_args s))
    else if is_blank c then Cont (mkSt (s_args s) false true Main)
    else if negb (s_esc s) && N.eqb c BSL then
      Cont (mkSt (s_args s) true (if quirk then false else s_sep s) Main)
    else
      let args' := if s_sep s then [] :: s_args s else s_args s in
      match args' with
      | [] => Crash
      | cur :: rest =>
        if negb (s_esc s) && N.eqb c QUOTE then
          Cont (mkSt args' (s_esc s) (s_sep s) InQuote)
        else if negb (s_esc s) && N.eqb c LT && has_suffix cur [EQS; LT] then
          Cont (mkSt args' (s_esc s) (s_sep s) (HereMarker (removelast cur) []))
        else Cont (mkSt ((cur ++ [c]) :: rest) false false Main)
      end
  | InQuote =>
    match s_args s with
    | [] => Crash (* unreachable: InQuote is entered with a current argument *)
    | cur :: rest =>
      if negb (s_esc s) && N.eqb c QUOTE then Cont (mkSt (s_args s) false false Main)
      else if N.eqb c BSL then Cont (mkSt (s_args s) true (s_sep s) InQuote)
      else Cont (mkSt ((cur ++ [c]) :: rest) false (s_sep s) InQuote)
    end
  | HereMarker base m =>
    if N.eqb c NL then
      match m with
      | [] => Fail
      | _ => Cont (mkSt (s_args s) (s_esc s) (s_sep s) (HereData base (NL :: m) [NL]))
      end
    else if is_marker_char c then Cont (mkSt (s_args s) (s_esc s) (s_sep s) (HereMarker base (m ++ [c])))
    else if is_blank c then Cont s
    else Fail
  | HereData base eofseq v =>
    if has_suffix v eofseq && (is_blank c || N.eqb c NL) then
      match s_args s with
      | [] => Crash (* unreachable *)
      | _ :: rest =>
        (* the heredoc is complete; [c] is processed by the main loop with
           isEscaped = false, isSeparated = false *)
        let args' := here_value base eofseq v :: rest in
        if N.eqb c NL then Return (rev args') else Cont (mkSt args' false true Main)
      end
    else Cont (mkSt (s_args s) (s_esc s) (s_sep s) (HereData base eofseq (v ++ [c])))
  end.

(** Result of one ReadArguments call: [ROk args eof rest] — [rest] is what is left unread in the
    reader (so the next call continues there). *)
Inductive read_res :=
| ROk (args : list bytes) (eof : bool) (rest : bytes)
| RErr
| RPanic.

Fixpoint run (quirk : bool) (s : st) (input : bytes) : read_res :=
  match input with
  | [] =>
    match s_mode s with
    | Main => ROk (rev (s_args s)) true []
    | HereData base eofseq v =>
      (* the input ends right behind the marker: the command is complete *)
      if has_suffix v eofseq then
        match s_args s with
        | [] => RPanic (* unreachable *)
        | _ :: rest => ROk (rev (here_value base eofseq v :: rest)) true []
        end
      else RErr
    | _ => RErr
    end
  | c :: input' =>
    match step quirk s c with
    | Cont s' => run quirk s' input'
    | Return args => ROk args false input'
    | Fail => RErr
    | Crash => RPanic
    end
  end.

(** The current tree. *)
Definition read_args (input : bytes) : read_res := run false init_st input.
(** The tree before the F22 repair. *)
Definition read_args_old (input : bytes) : read_res := run true init_st input.

(** Reading several commands from one reader: call read_args until EOF / error; the list of
    per-call results.  Fuel = number of calls allowed (each call consumes at least one byte
    unless it returns eof). *)
Fixpoint read_all (fuel : nat) (input : bytes) : list read_res :=
  match fuel with
  | O => []
  | S f =>
    match read_args input with
    | ROk a false rest => ROk a false [] :: read_all f rest
    | r => [r]
    end
  end.

(** ** The heredoc scanner before the repair F40 (regression witnesses only): the value starts
    empty, the text ends at the FIRST place where the value has the suffix NL+marker whatever
    follows, and an input that ends inside the heredoc is an error. *)
Definition step_hd_old (s : st) (c : byte) : step_res :=
  match s_mode s with
  | HereMarker base m =>
    if N.eqb c NL then
      match m with
      | [] => Fail
      | _ => Cont (mkSt (s_args s) (s_esc s) (s_sep s) (HereData base (NL :: m) []))
      end
    else step false s c
  | HereData base eofseq v =>
    let v' := v ++ [c] in
    if has_suffix v' eofseq then
      match s_args s with
      | [] => Crash
      | _ :: rest =>
        let value := firstn (length v' - length eofseq) v' in
        Cont (mkSt ((base ++ trim value) :: rest) (s_esc s) (s_sep s) Main)
      end
    else Cont (mkSt (s_args s) (s_esc s) (s_sep s) (HereData base eofseq v'))
  | _ => step false s c
  end.

Fixpoint run_hd_old (s : st) (input : bytes) : read_res :=
  match input with
  | [] =>
    match s_mode s with
    | Main => ROk (rev (s_args s)) true []
    | _ => RErr
    end
  | c :: input' =>
    match step_hd_old s c with
    | Cont s' => run_hd_old s' input'
    | Return args => ROk args false input'
    | Fail => RErr
    | Crash => RPanic
    end
  end.
Definition read_args_hd_old (input : bytes) : read_res := run_hd_old init_st input.
Fixpoint read_all_hd_old (fuel : nat) (input : bytes) : list read_res :=
  match fuel with
  | O => []
  | S f =>
    match read_args_hd_old input with
    | ROk a false rest => ROk a false [] :: read_all_hd_old f rest
    | r => [r]
    end
  end.

(** ** Reference quoting function (the same function is implemented in the Go harness). *)
Definition quote_byte (c : byte) : bytes :=
  if N.eqb c QUOTE then [BSL; QUOTE]
  else if N.eqb c BSL then [QUOTE; BSL; BSL; QUOTE]   (* close, "\\" outside quotes, reopen *)
  else [c].
Definition quote1 (a : bytes) : bytes := QUOTE :: flat_map quote_byte a ++ [QUOTE].
Fixpoint join_sp (l : list bytes) : bytes :=
  match l with
  | [] => []
  | [a] => a
  | a :: l' => a ++ SP :: join_sp l'
  end.
Definition quote (args : list bytes) : bytes := join_sp (map quote1 args).

(** ** argscope.SeparateArgs / InjectArgs *)
Definition DASH : byte := 45.
Definition is_sep_arg (a : bytes) : bool := bytes_eqb a [DASH; DASH].

Fixpoint separate_args (all : list bytes) : list bytes * list bytes :=
  match all with
  | [] => ([], [])
  | a :: l => if is_sep_arg a then ([], l)
              else let (x, y) := separate_args l in (a :: x, y)
  end.

Inductive key := KPos (n : nat) | KName (k : bytes).

Definition trim_dash (a : bytes) : bytes :=
  match a with c :: a' => if N.eqb c DASH then a' else a | [] => [] end.

Fixpoint split_eq (a : bytes) : option (bytes * bytes) :=
  match a with
  | [] => None
  | c :: a' => if N.eqb c EQS then Some ([], a')
               else match split_eq a' with
                    | Some (k, v) => Some (c :: k, v)
                    | None => None
                    end
  end.

(** The SetValue calls made by InjectArgs for the arguments before "--", in order. *)
Fixpoint inject_from (i : nat) (args : list bytes) : list (key * bytes) :=
  match args with
  | [] => []
  | a :: l =>
    match split_eq (trim_dash (trim_dash a)) with
    | Some (k, v) =>
      (* strings.Contains(arg,"=") is tested on the untrimmed arg; trimming removes only '-' *)
      (KName k, v) :: inject_from i l
    | None => (KPos i, a) :: inject_from (S i) l
    end
  end.
Definition inject_args (all : list bytes) : list (key * bytes) * list bytes :=
  let (args, sep) := separate_args all in (inject_from 0 args, sep).
