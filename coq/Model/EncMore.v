(** Additions to Model/Enc.v used by the second group of C05 theorems (Proofs/EncMore.v):
    histories of operations of several encrypted filespaces over one base, one byte of a stored
    value replaced, and one more premise about the AEAD (H6).  Definitions only; nothing of
    Model/Enc.v is changed. *)
From GC Require Import Common.Base Model.Enc.

(** One byte of a byte string replaced (index i counted from 0; i >= length: b is appended). *)
Definition set_nth (i : nat) (b : byte) (l : bytes) : bytes := firstn i l ++ b :: skipn (S i) l.

(** H6 (distance): two sealed messages under one key and one nonce never differ in exactly one
    byte.  For AES-GCM this is not a probabilistic fact: seal k n p = ct ++ tag with
    tag = GHASH_H(ct) xor E_k(J0) and ct a bijective image of p.  A change inside the tag alone
    leaves ct, hence the expected tag, as it was; a change of one byte of ct changes GHASH by
    d * H^j for a non-zero d, which is non-zero for every hash subkey H <> 0 (H = E_k(0) = 0 for
    one key in 2^128). *)
Definition aead_dist2 {key} (seal : key -> nonce -> bytes -> bytes) : Prop :=
  forall k n p p' i b, (i < length (seal k n p))%nat -> b <> nth i (seal k n p) 0 ->
    set_nth i b (seal k n p) <> seal k n p'.

Section Hist.
  Variable key : Type.
  Variable seal : key -> nonce -> bytes -> bytes.
  Variable open : key -> nonce -> bytes -> option bytes.
  Variable hash : bytes -> key.
  Variable hostid : bytes.
  Variable nsop nsres : Type.
  Variable base_ns : nsop -> (path -> option bytes) -> nsres * (path -> option bytes).

  (** One operation on the shared base.  Every write and every read names the cipher and the
      settings of the encrypted filespace it goes through, so a history may mix any number of
      filespaces (and child views) over one base; ENs is any name-space operation of the base. *)
  Inductive eop :=
  | EWrite (c : cipher) (s : settings) (n : nonce) (p : path) (w : wreq)
  | ERead (rp : rpath) (c : cipher) (s : settings) (p : path)
  | ENs (op : nsop).

  Definition estep (st : fsst) (o : eop) : fsst :=
    match o with
    | EWrite c s n p w => fs_write key seal hash hostid c s n st p w
    | ERead rp c s p => snd (fs_read key open hash hostid rp c s st p)
    | ENs op => snd (fs_ns nsop nsres base_ns op st)
    end.
  Definition erun (h : list eop) (st : fsst) : fsst := fold_left estep h st.

  (** What every read of a history answered, in order. *)
  Fixpoint etrace (h : list eop) (st : fsst) : list (res bytes) :=
    match h with
    | [] => []
    | o :: h' =>
      match o with
      | ERead rp c s p => [fst (fs_read key open hash hostid rp c s st p)]
      | _ => []
      end ++ etrace h' (estep st o)
    end.

  (** The operation leaves the stored bytes at path p alone: a write elsewhere, any read, a
      name-space operation whose effect on the base does not reach p. *)
  Definition quiet (p : path) (o : eop) : Prop :=
    match o with
    | EWrite _ _ _ q _ => q <> p
    | ERead _ _ _ _ => True
    | ENs op => forall f, snd (base_ns op f) p = f p
    end.
End Hist.

(** Settings that differ in the secret or in the salt (or both). *)
Definition other_secret_or_salt (s1 s2 : settings) : Prop := secret s1 <> secret s2 \/ salt s1 <> salt s2.
