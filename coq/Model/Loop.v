(** Model of filesystem/fsloop (loop.go, producer.go, consumer.go), workers/jobsync (Pool, Lifecycle)
    as they are in /repo now (after "fix: fsloop consumer reads the close step before testing
    the queues for emptiness").  Definitions only; proofs are in Proofs/Loop.v.

    A system is a state plus thread identifiers plus an executable
      step : tid -> state -> option state        (None = the thread is blocked or has finished)
    Every Go statement that touches memory shared between goroutines is ONE step:
      channel send (disabled while the bounded queue is full; a send on a closed channel sets
      [panicked]), len(ch), non-blocking receive (select/default), Lifecycle.Step(), IsKilled(),
      Lifecycle.Error (append+Kill under the mutex), Pool.Add / Pool.Done, WaitGroup.Wait
      (enabled only at counter 0), NextStep, close(ch).
    Purely local statements (filter evaluation, loop bookkeeping, return from a call) are either
    merged with the next shared access or are steps of their own; more interleaving points than the
    hardware has is sound for "for all schedules" statements.

    Threads:  TP i  the i-th producer goroutine ever started (0 = the one started by Run),
              TC i  the i-th consumer goroutine,
              TK    the completion goroutine of Run (Wait; NextStep(StepClose); close; close),
              TW    the caller of Loop.Wait(),
              TX    the environment: scope Kill/Error event or the 2 min deadline (sets killed).

    What is abstracted: ReadDir / filters / callbacks are functions of the path (a listing error is
    [rderr p], a callback error is [cberr it]); names "." and ".." never occur in a listing (memfs
    and diskfs do not return them; the Go code skips them); Consumers/Producents are the effective
    limits (Run replaces 0 and > NumCPU by NumCPU before creating the pools). *)
From GC Require Import Common.Base.

Definition name := bytes.
Definition path := bytes.
Definition SLASH : byte := 47.

Inductive tree :=
| File (n : name)
| Dir (n : name) (ch : list tree).

Inductive item :=
| IDir (p : path)     (* argument of an OnDir call *)
| IFile (p : path).   (* argument of an OnFile call *)

Inductive err :=
| ELs (p : path)      (* ReadDir(p) failed *)
| ECb (it : item).    (* the callback on [it] returned an error *)

(** Order of the two reads of the consumer's exit test.  The tree before e5b87a5 was
    EmptyThenClosed (F16); the current tree is ClosedThenEmpty. *)
Inductive exit_test := EmptyThenClosed | ClosedThenEmpty.

Record config := mkCfg {
  ffilter : path -> bool;      (* LoopData.FileFilter (nil = fun _ => true) *)
  dfilter : path -> bool;      (* LoopData.DirFilter, used only when has_dfilter *)
  has_dfilter : bool;          (* DirFilter != nil (this also moves the producer's kill test) *)
  on_dir : bool;               (* OnDir != nil *)
  on_file : bool;              (* OnFile != nil *)
  rderr : path -> bool;        (* ReadDir(p) returns an error *)
  cberr : item -> bool;        (* the callback on this item returns an error *)
  pmax : nat;                  (* producer pool limit *)
  cmax : nat;                  (* consumer pool limit = number of consumer goroutines *)
  dcap : nat;                  (* capacity of dirChan  (ChanSize = 1000 in the code) *)
  fcap : nat;                  (* capacity of fileChan *)
  xt : exit_test
}.

(** ---------- the selected set *)

Section Sel.
  Variable cfg : config.

  Definition daccept (p : path) : bool := negb (has_dfilter cfg) || dfilter cfg p.
  Definition faccept (p : path) : bool := on_file cfg && ffilter cfg p.

  Fixpoint sel (base : path) (t : tree) : list item :=
    match t with
    | File n => if faccept (base ++ n) then [IFile (base ++ n)] else []
    | Dir n ch =>
      if daccept (base ++ n) then
        (if on_dir cfg then [IDir (base ++ n)] else []) ++
        (fix go (l : list tree) : list item :=
           match l with
           | [] => []
           | t' :: l' => sel ((base ++ n) ++ [SLASH]) t' ++ go l'
           end) ch
      else []
    end.

  Definition sel_list (base : path) (l : list tree) : list item := flat_map (sel base) l.
End Sel.

(** ---------- thread-local states *)

Definition frame := (path * list tree)%type.   (* one processList activation: base path, entries not yet started *)

Inductive ppc :=
| PE                            (* top of the for loop of processList *)
| PA (p : path) (ch : list tree)  (* processDir(p): about to call pool.Add(1) *)
| PR                            (* processDir returned false to processList *)
| PK.                           (* the IsKilled test at the end of an iteration *)

Inductive pstate :=
| PStart (base : path) (ch : list tree)   (* Producer.Loop: about to ReadDir(base); [ch] = what it will return *)
| PRun (pc : ppc) (stk : list frame)      (* stack of processList activations (inline recursion) *)
| PFin                                    (* the deferred pool.Done() *)
| PExit.

Inductive cstate :=
| C1                  (* IsKilled? *)
| C2                  (* Lifecycle.Step() == StepClose *)
| C3 (cl : bool)      (* len(dirChan) == 0 ?   cl = value of isClosed (ClosedThenEmpty) *)
| C4 (cl : bool)      (* len(fileChan) == 0 ? *)
| C5 (cl : bool)      (* both seen empty: if isClosed return *)
| C6                  (* runtime.Gosched() *)
| C7                  (* len(dirChan) != 0 ? *)
| C8                  (* select { case <-dirChan ; default } *)
| C10                 (* len(fileChan) != 0 ? *)
| C11                 (* select { case <-fileChan ; default } *)
| CRun (it : item)    (* the callback on [it] is running *)
| CErr (it : item)    (* the callback returned an error: about to call lifecycle.Error *)
| CFin                (* the deferred pool.Done() *)
| CExit.

Inductive kpc := K1 | K2 | K3 | K4 | KEnd.

Inductive tid := TP (i : nat) | TC (i : nat) | TK | TW | TX.

Record state := mkS {
  prods : list pstate;  pcount : nat;          (* producer goroutines; producerPool.counter *)
  cons : list cstate;   ccount : nat;          (* consumer goroutines; consumerPool.counter *)
  dq : list path;       fq : list path;        (* dirChan, fileChan (head = oldest) *)
  closed : bool;                               (* lifecycle.step == StepClose *)
  dclosed : bool;       fclosed : bool;        (* close(dirChan), close(fileChan) done *)
  killed : bool;        errs : list err;       (* lifecycle: ctx cancelled; errors (newest first) *)
  comp : kpc;                                  (* completion goroutine *)
  waited : bool;                               (* Loop.Wait() has returned *)
  log : list item;                             (* history: callbacks begun (newest first) *)
  ended : list item;                           (* history: callbacks returned (newest first) *)
  lfail : list path;                           (* history: failed listings *)
  panicked : bool                              (* send on a closed channel *)
}.

Definition set_prods s v := mkS v (pcount s) (cons s) (ccount s) (dq s) (fq s) (closed s) (dclosed s) (fclosed s) (killed s) (errs s) (comp s) (waited s) (log s) (ended s) (lfail s) (panicked s).
Definition set_pcount s v := mkS (prods s) v (cons s) (ccount s) (dq s) (fq s) (closed s) (dclosed s) (fclosed s) (killed s) (errs s) (comp s) (waited s) (log s) (ended s) (lfail s) (panicked s).
Definition set_cons s v := mkS (prods s) (pcount s) v (ccount s) (dq s) (fq s) (closed s) (dclosed s) (fclosed s) (killed s) (errs s) (comp s) (waited s) (log s) (ended s) (lfail s) (panicked s).
Definition set_ccount s v := mkS (prods s) (pcount s) (cons s) v (dq s) (fq s) (closed s) (dclosed s) (fclosed s) (killed s) (errs s) (comp s) (waited s) (log s) (ended s) (lfail s) (panicked s).
Definition set_dq s v := mkS (prods s) (pcount s) (cons s) (ccount s) v (fq s) (closed s) (dclosed s) (fclosed s) (killed s) (errs s) (comp s) (waited s) (log s) (ended s) (lfail s) (panicked s).
Definition set_fq s v := mkS (prods s) (pcount s) (cons s) (ccount s) (dq s) v (closed s) (dclosed s) (fclosed s) (killed s) (errs s) (comp s) (waited s) (log s) (ended s) (lfail s) (panicked s).
Definition set_closed s v := mkS (prods s) (pcount s) (cons s) (ccount s) (dq s) (fq s) v (dclosed s) (fclosed s) (killed s) (errs s) (comp s) (waited s) (log s) (ended s) (lfail s) (panicked s).
Definition set_dclosed s v := mkS (prods s) (pcount s) (cons s) (ccount s) (dq s) (fq s) (closed s) v (fclosed s) (killed s) (errs s) (comp s) (waited s) (log s) (ended s) (lfail s) (panicked s).
Definition set_fclosed s v := mkS (prods s) (pcount s) (cons s) (ccount s) (dq s) (fq s) (closed s) (dclosed s) v (killed s) (errs s) (comp s) (waited s) (log s) (ended s) (lfail s) (panicked s).
Definition set_killed s v := mkS (prods s) (pcount s) (cons s) (ccount s) (dq s) (fq s) (closed s) (dclosed s) (fclosed s) v (errs s) (comp s) (waited s) (log s) (ended s) (lfail s) (panicked s).
Definition set_errs s v := mkS (prods s) (pcount s) (cons s) (ccount s) (dq s) (fq s) (closed s) (dclosed s) (fclosed s) (killed s) v (comp s) (waited s) (log s) (ended s) (lfail s) (panicked s).
Definition set_comp s v := mkS (prods s) (pcount s) (cons s) (ccount s) (dq s) (fq s) (closed s) (dclosed s) (fclosed s) (killed s) (errs s) v (waited s) (log s) (ended s) (lfail s) (panicked s).
Definition set_waited s v := mkS (prods s) (pcount s) (cons s) (ccount s) (dq s) (fq s) (closed s) (dclosed s) (fclosed s) (killed s) (errs s) (comp s) v (log s) (ended s) (lfail s) (panicked s).
Definition set_log s v := mkS (prods s) (pcount s) (cons s) (ccount s) (dq s) (fq s) (closed s) (dclosed s) (fclosed s) (killed s) (errs s) (comp s) (waited s) v (ended s) (lfail s) (panicked s).
Definition set_ended s v := mkS (prods s) (pcount s) (cons s) (ccount s) (dq s) (fq s) (closed s) (dclosed s) (fclosed s) (killed s) (errs s) (comp s) (waited s) (log s) v (lfail s) (panicked s).
Definition set_lfail s v := mkS (prods s) (pcount s) (cons s) (ccount s) (dq s) (fq s) (closed s) (dclosed s) (fclosed s) (killed s) (errs s) (comp s) (waited s) (log s) (ended s) v (panicked s).
Definition set_panicked s v := mkS (prods s) (pcount s) (cons s) (ccount s) (dq s) (fq s) (closed s) (dclosed s) (fclosed s) (killed s) (errs s) (comp s) (waited s) (log s) (ended s) (lfail s) v.

(** replace the i-th element *)
Fixpoint upd {A} (i : nat) (x : A) (l : list A) : list A :=
  match l, i with
  | [], _ => []
  | _ :: l', O => x :: l'
  | y :: l', S i' => y :: upd i' x l'
  end.

(** lifecycle.Error(e): append under the mutex and, strict mode being always on, Kill *)
Definition raise (e : err) (s : state) : state := set_killed (set_errs s (e :: errs s)) true.

Section Step.
  Variable cfg : config.

  Definition setp (i : nat) (p : pstate) (s : state) : state := set_prods s (upd i p (prods s)).
  Definition setc (i : nat) (c : cstate) (s : state) : state := set_cons s (upd i c (cons s)).

  (** processList returned: to Producer.Loop (stack empty: the goroutine ends) or to the inline
      branch of processDir, which ignores the result and returns false to the caller's loop *)
  Definition ret (stk : list frame) : pstate :=
    match stk with [] => PFin | _ => PRun PR stk end.

  (** ch <- p : one step; disabled while the queue is full; panics on a closed channel *)
  Definition send_d (p : path) (s : state) : option state :=
    if dclosed s then Some (set_panicked s true)
    else if Nat.ltb (length (dq s)) (dcap cfg) then Some (set_dq s (dq s ++ [p])) else None.
  Definition send_f (p : path) (s : state) : option state :=
    if fclosed s then Some (set_panicked s true)
    else if Nat.ltb (length (fq s)) (fcap cfg) then Some (set_fq s (fq s ++ [p])) else None.

  Definition pstep (i : nat) (p : pstate) (s : state) : option state :=
    match p with
    | PStart base ch =>
      (* readDir, err := ReadDir(path); if err != nil { lifecycle.Error(err); return } *)
      if rderr cfg base then Some (setp i PFin (raise (ELs base) (set_lfail s (base :: lfail s))))
      else Some (setp i (PRun PE [(base, ch)]) s)
    | PRun PE [] => Some (setp i PFin s)
    | PRun PE ((base, []) :: stk) => Some (setp i (ret stk) s)           (* loop finished: return false *)
    | PRun PE ((base, File n :: rest) :: stk) =>
      let p := base ++ n in
      if faccept cfg p then
        match send_f p s with                                              (* fileChan <- nodePath *)
        | Some s' => Some (setp i (PRun PK ((base, rest) :: stk)) s')
        | None => None
        end
      else Some (setp i (PRun PE ((base, rest) :: stk)) s)                 (* continue *)
    | PRun PE ((base, Dir n ch :: rest) :: stk) =>
      let p := base ++ n in
      if daccept cfg p then
        if on_dir cfg then
          match send_d p s with                                            (* dirChan <- nodePath *)
          | Some s' => Some (setp i (PRun (PA p ch) ((base, rest) :: stk)) s')
          | None => None
          end
        else Some (setp i (PRun (PA p ch) ((base, rest) :: stk)) s)
      else Some (setp i (PRun PE ((base, rest) :: stk)) s)                 (* continue *)
    | PRun (PA p ch) stk =>
      if Nat.ltb (pcount s) (pmax cfg) then
        (* pool.Add(1) == 1: go newProducer.Loop() with path p+"/" *)
        Some (set_pcount (set_prods s (upd i (PRun PR stk) (prods s) ++ [PStart (p ++ [SLASH]) ch])) (S (pcount s)))
      else if rderr cfg p then
        (* pool.Add(1) == 0, ReadDir(p) failed: lifecycle.Error; processDir returns true, so the
           calling processList returns true *)
        Some (setp i (ret (tl stk)) (raise (ELs p) (set_lfail s (p :: lfail s))))
      else Some (setp i (PRun PE ((p ++ [SLASH], ch) :: stk)) s)           (* inline recursion *)
    | PRun PR stk =>
      (* with a DirFilter the directory branch ends in "continue" and skips the kill test *)
      Some (setp i (PRun (if has_dfilter cfg then PE else PK) stk) s)
    | PRun PK stk =>
      if killed s then Some (setp i (ret (tl stk)) s) else Some (setp i (PRun PE stk) s)
    | PFin => Some (set_pcount (setp i PExit s) (pred (pcount s)))       (* pool.Done() *)
    | PExit => None
    end.

  Definition after (it : item) : cstate := match it with IDir _ => C10 | IFile _ => C1 end.

  Definition cstep (i : nat) (c : cstate) (s : state) : option state :=
    match c with
    | C1 => if killed s then Some (setc i CFin s)
            else Some (setc i (match xt cfg with ClosedThenEmpty => C2 | EmptyThenClosed => C3 false end) s)
    | C2 => match xt cfg with
            | ClosedThenEmpty => Some (setc i (C3 (closed s)) s)
            | EmptyThenClosed => Some (setc i (if closed s then CFin else C6) s)
            end
    | C3 cl => Some (setc i (match dq s with [] => C4 cl | _ => C7 end) s)
    | C4 cl => Some (setc i (match fq s with
                              | [] => match xt cfg with ClosedThenEmpty => C5 cl | EmptyThenClosed => C2 end
                              | _ => C7 end) s)
    | C5 cl => Some (setc i (if cl then CFin else C6) s)
    | C6 => Some (setc i C1 s)
    | C7 => Some (setc i (match dq s with [] => C10 | _ => C8 end) s)
    | C8 => match dq s with
            | [] => Some (setc i C1 s)          (* default, or closed and drained (!more): continue *)
            | p :: q => Some (setc i (CRun (IDir p)) (set_log (set_dq s q) (IDir p :: log s)))
            end
    | C10 => Some (setc i (match fq s with [] => C1 | _ => C11 end) s)
    | C11 => match fq s with
             | [] => Some (setc i C1 s)
             | p :: q => Some (setc i (CRun (IFile p)) (set_log (set_fq s q) (IFile p :: log s)))
             end
    | CRun it => Some (setc i (if cberr cfg it then CErr it else after it) (set_ended s (it :: ended s)))
    | CErr it => Some (setc i (after it) (raise (ECb it) s))
    | CFin => Some (set_ccount (setc i CExit s) (pred (ccount s)))       (* pool.Done() *)
    | CExit => None
    end.

  Definition kstep (s : state) : option state :=
    match comp s with
    | K1 => if Nat.eqb (pcount s) 0 then Some (set_comp s K2) else None   (* producerPool.Wait() *)
    | K2 => Some (set_comp (set_closed s true) K3)                        (* NextStep(StepClose) *)
    | K3 => Some (set_comp (set_dclosed s true) K4)                       (* close(dirChan) *)
    | K4 => Some (set_comp (set_fclosed s true) KEnd)                     (* close(fileChan) *)
    | KEnd => None
    end.

  Definition step (t : tid) (s : state) : option state :=
    match t with
    | TP i => match nth_error (prods s) i with Some p => pstep i p s | None => None end
    | TC i => match nth_error (cons s) i with Some c => cstep i c s | None => None end
    | TK => kstep s
    | TW => if waited s then None
            else if Nat.eqb (ccount s) 0 then Some (set_waited s true) else None   (* consumerPool.Wait() *)
    | TX => Some (set_killed s true)
    end.

  Definition exec (s : state) (t : tid) : state :=
    match step t s with Some s' => s' | None => s end.

  (** run a schedule; disabled steps are skipped *)
  Definition run (sched : list tid) (s : state) : state := fold_left exec sched s.

  (** state right after Loop.Run(base) returned: root producer reserved and started, cmax consumers
      reserved and started, completion goroutine started *)
  Definition init (base : path) (root : list tree) : state :=
    mkS [PStart base root] 1 (repeat C1 (cmax cfg)) (cmax cfg) [] [] false false false false [] K1 false [] [] [] false.

  Definition is_run (c : cstate) : bool := match c with CRun _ => true | _ => false end.
  Definition c_exited (c : cstate) : bool := match c with CExit => true | _ => false end.
  Definition p_exited (p : pstate) : bool := match p with PExit => true | _ => false end.
  Definition running (s : state) : nat := length (filter is_run (cons s)).
  Definition all_exited (s : state) : bool := forallb c_exited (cons s).
End Step.

(** ---------- executable helpers used by the correspondence check *)

Definition item_eqb (a b : item) : bool :=
  match a, b with
  | IDir p, IDir q => bytes_eqb p q
  | IFile p, IFile q => bytes_eqb p q
  | _, _ => false
  end.

Fixpoint remove1 (x : item) (l : list item) : option (list item) :=
  match l with
  | [] => None
  | y :: l' => if item_eqb x y then Some l'
               else match remove1 x l' with Some r => Some (y :: r) | None => None end
  end.

(** multiset equality *)
Fixpoint perm_b (a b : list item) : bool :=
  match a with
  | [] => match b with [] => true | _ => false end
  | x :: a' => match remove1 x b with Some b' => perm_b a' b' | None => false end
  end.

Fixpoint mem_path (p : path) (l : list path) : bool :=
  match l with [] => false | q :: l' => bytes_eqb p q || mem_path p l' end.


(** well-formed listings: no name contains "/" and sibling names are distinct (any real file tree) *)
Definition tname (t : tree) : name := match t with File n => n | Dir n _ => n end.
Definition good_name (n : name) : bool := negb (existsb (N.eqb SLASH) n).
Fixpoint uniq (l : list name) : bool :=
  match l with [] => true | n :: l' => negb (mem_path n l') && uniq l' end.
Fixpoint wf_tree (t : tree) : bool :=
  match t with
  | File n => good_name n
  | Dir n ch =>
    good_name n &&
    (fix go (l : list tree) : bool := match l with [] => true | t' :: l' => wf_tree t' && go l' end) ch &&
    uniq (map tname ch)
  end.
Definition wf_list (l : list tree) : bool := forallb wf_tree l && uniq (map tname l).
