(** Model of the pipeline runner (runner.Run / runGo / waitForTasks), the task manager
    (TaskManager.Create / Wait, Task.Close / Wait) and the read-execute loop (termexec.RunLoop /
    RunCommand) of goatcore, as an OPEN concurrent system: a schedule is a list of labels; the
    label [LCreate] is a submission issued by any thread outside the runner (the harness submitter,
    the pip:try goroutine), [LTask n] is the next atomic action of the runner goroutine of task [n],
    [LAbort n] is the read-execute loop of [n] noticing that its context is done, [LFailCtx c] is an
    error appended to context [c] from outside.  Definitions only. *)
From GC Require Import Common.Base.
Local Open Scope nat_scope.

Definition name := N.
Definition ctxid := N.

(** A body is a list of commands; [CSpawn] is a nested submission ([pip:run] inside a body). *)
Inductive cmd :=
| COk
| CFail
| CSpawn (nm : name) (waits : list name) (body : list cmd).

Record subm := { s_name : name; s_waits : list name; s_body : list cmd }.

(** Where a running task is inside command [pc]. [PSpawned c]: the pip:run command created task [c]
    and RunCommand is closing the command scope, which waits for [c]'s scope (so for [c] to finish)
    unless [c] was created as an orphan (its context was already done: scope.NewChild, F20). *)
Inductive phase := PBefore | PIn | PSpawned (c : name) | PRejected.

Inductive status :=
| Waiting (i : nat)            (* waitForTasks: about to wait for wait name number i *)
| Running (pc : nat) (ph : phase)
| Closing                      (* body over / aborted / wait failed: deferred Close calls pending *)
| Finished (ok : bool)         (* Task.Close did wg.Done; ok = the context had no error then *)
| Zombie.                      (* only with register_before_validate: registered, never runs *)

Record task := {
  t_name : name; t_waits : list name; t_body : list cmd; t_ctx : ctxid;
  t_parent : option name; t_orphan : bool; t_height : nat;
  t_idx : nat;                   (* number of registered tasks when this one was created *)
  t_st : status }.

Inductive event :=
| ESubmitted (n : name) (accepted : bool)
| EBodyBegin (n : name) (ws : list name)      (* ws = the wait list of n *)
| ECmdBegin (n : name) (i : nat)
| ECmdEnd (n : name) (i : nat) (ok : bool)    (* ok = RunCommand returned nil *)
| EFinished (n : name) (ok : bool).

(** [log]: newest event first. [counter]: TaskManager.wg. [mroot]: context of the manager's root scope. *)
Record state := {
  tasks : list task; failed : list ctxid; log : list event; counter : nat; mroot : ctxid }.

Definition init (root : ctxid) : state :=
  {| tasks := []; failed := []; log := []; counter := 0; mroot := root |}.

Definition ctx_failed (c : ctxid) (s : state) : bool := existsb (N.eqb c) (failed s).

Definition find_task (n : name) (ts : list task) : option task :=
  find (fun t => N.eqb (t_name t) n) ts.

Definition registered (n : name) (ts : list task) : bool :=
  existsb (fun t => N.eqb (t_name t) n) ts.

Definition set_status (st : status) (t : task) : task :=
  {| t_name := t_name t; t_waits := t_waits t; t_body := t_body t; t_ctx := t_ctx t;
     t_parent := t_parent t; t_orphan := t_orphan t; t_height := t_height t; t_idx := t_idx t; t_st := st |}.

Definition upd (n : name) (st : status) (ts : list task) : list task :=
  map (fun t => if N.eqb (t_name t) n then set_status st t else t) ts.

Definition is_finished (st : status) : bool :=
  match st with Finished _ => true | _ => false end.

(** State transformers. *)
Definition with_tasks (ts : list task) (s : state) : state :=
  {| tasks := ts; failed := failed s; log := log s; counter := counter s; mroot := mroot s |}.
Definition set_st (n : name) (st : status) (s : state) : state := with_tasks (upd n st (tasks s)) s.
Definition emit (e : event) (s : state) : state :=
  {| tasks := tasks s; failed := failed s; log := e :: log s; counter := counter s; mroot := mroot s |}.
Definition fail_ctx (c : ctxid) (s : state) : state :=
  if ctx_failed c s then s else
  {| tasks := tasks s; failed := c :: failed s; log := log s; counter := counter s; mroot := mroot s |}.
Definition with_counter (k : nat) (s : state) : state :=
  {| tasks := tasks s; failed := failed s; log := log s; counter := k; mroot := mroot s |}.

(** validWaitList: every name must be registered and differ from the new task; the recursion
    through the registered tasks' own wait lists fails when a chain has more than 100 links. *)
Definition valid_waits (self : name) (ws : list name) (ts : list task) : bool :=
  forallb (fun w => negb (N.eqb w self) && registered w ts) ws.

Definition height_of (ws : list name) (ts : list task) : nat :=
  match ws with
  | [] => 0
  | _ => S (fold_right (fun w m => Nat.max m (match find_task w ts with Some t => t_height t | None => 0 end)) 0 ws)
  end.

(** TaskManager.Create — one atomic step (it runs under tasksMU).  [q] = register_before_validate
    (the code before fix F21: a rejected submission stays registered and never finishes). *)
Definition create (q : bool) (sb : subm) (c : ctxid) (parent : option name) (s : state) : state * bool :=
  let n := s_name sb in
  if registered n (tasks s) then (emit (ESubmitted n false) s, false)
  else
    let h := height_of (s_waits sb) (tasks s) in
    let ok := valid_waits n (s_waits sb) (tasks s) && Nat.leb h 100 && negb (ctx_failed (mroot s) s) in
    let mk st := {| t_name := n; t_waits := s_waits sb; t_body := s_body sb; t_ctx := c;
                    t_parent := parent; t_orphan := ctx_failed c s; t_height := h;
                    t_idx := length (tasks s); t_st := st |} in
    if ok then
      (emit (ESubmitted n true) (with_counter (S (counter s)) (with_tasks (tasks s ++ [mk (Waiting 0)]) s)), true)
    else if q then (emit (ESubmitted n false) (with_tasks (tasks s ++ [mk Zombie]) s), false)
    else (emit (ESubmitted n false) s, false).

Inductive label :=
| LCreate (sb : subm) (c : ctxid)
| LTask (n : name)
| LAbort (n : name)
| LFailCtx (c : ctxid).

(** The next atomic action of the runner goroutine of task [t]. None = blocked / nothing to do. *)
Definition task_step (q : bool) (t : task) (s : state) : option state :=
  let n := t_name t in
  match t_st t with
  | Waiting i =>
    match nth_error (t_waits t) i with
    | None => Some (emit (EBodyBegin n (t_waits t)) (set_st n (Running 0 PBefore) s))
    | Some u =>
      match find_task u (tasks s) with
      | None => Some (set_st n Closing (fail_ctx (t_ctx t) s))   (* Get fails: "Unknow task" *)
      | Some tu =>
        if is_finished (t_st tu) then
          if ctx_failed (t_ctx tu) s then Some (set_st n Closing (fail_ctx (t_ctx t) s))
          else Some (set_st n (Waiting (S i)) s)
        else None
      end
    end
  | Running pc PBefore =>
    match nth_error (t_body t) pc with
    | None => Some (set_st n Closing s)
    | Some _ => Some (emit (ECmdBegin n pc) (set_st n (Running pc PIn) s))
    end
  | Running pc PIn =>
    match nth_error (t_body t) pc with
    | None => None
    | Some COk =>
      if ctx_failed (t_ctx t) s then Some (emit (ECmdEnd n pc false) (set_st n Closing s))
      else Some (emit (ECmdEnd n pc true) (set_st n (Running (S pc) PBefore) s))
    | Some CFail => Some (emit (ECmdEnd n pc false) (set_st n Closing (fail_ctx (t_ctx t) s)))
    | Some (CSpawn nm ws b) =>
      let (s1, acc) := create q {| s_name := nm; s_waits := ws; s_body := b |} (t_ctx t) (Some n) s in
      Some (set_st n (Running pc (if acc then PSpawned nm else PRejected)) s1)
    end
  | Running pc (PSpawned c) =>
    match find_task c (tasks s) with
    | None => None
    | Some tc =>
      if is_finished (t_st tc) || t_orphan tc then
        if ctx_failed (t_ctx t) s then Some (emit (ECmdEnd n pc false) (set_st n Closing s))
        else Some (emit (ECmdEnd n pc true) (set_st n (Running (S pc) PBefore) s))
      else None
    end
  | Running pc PRejected => Some (emit (ECmdEnd n pc false) (set_st n Closing (fail_ctx (t_ctx t) s)))
  | Closing =>
    let ok := negb (ctx_failed (t_ctx t) s) in
    Some (emit (EFinished n ok) (with_counter (pred (counter s)) (set_st n (Finished ok) s)))
  | Finished _ => None
  | Zombie => None
  end.

Definition step (q : bool) (l : label) (s : state) : option state :=
  match l with
  | LCreate sb c => Some (fst (create q sb c None s))
  | LTask n => match find_task n (tasks s) with Some t => task_step q t s | None => None end
  | LAbort n =>
    match find_task n (tasks s) with
    | Some t => match t_st t with
                | Running pc PBefore => if ctx_failed (t_ctx t) s then Some (set_st n Closing s) else None
                | _ => None
                end
    | None => None
    end
  | LFailCtx c => Some (fail_ctx c s)
  end.

Definition step_skip (q : bool) (s : state) (l : label) : state :=
  match step q l s with Some s' => s' | None => s end.

(** [run q sched s]: apply a schedule, skipping disabled steps. *)
Definition run (q : bool) (sched : list label) (s : state) : state := fold_left (step_skip q) sched s.

(** TaskManager.Wait: wg.Wait, then task.Wait for every registered task; error iff some task's
    scope has an error.  None = blocked. *)
Definition all_finished (s : state) : bool := forallb (fun t => is_finished (t_st t)) (tasks s).
Definition task_has_errors (s : state) (t : task) : bool := ctx_failed (t_ctx t) s.
Definition mgr_wait (s : state) : option bool :=
  if Nat.eqb (counter s) 0 && all_finished s then Some (existsb (task_has_errors s) (tasks s)) else None.

(** Remaining work (termination measure). *)
Fixpoint cmd_cost (c : cmd) : nat :=
  match c with
  | COk | CFail => 2
  | CSpawn _ ws b => 4 + (length ws + 2 + (fix cost (l : list cmd) : nat :=
                                             match l with [] => 0 | x :: r => cmd_cost x + cost r end) b + 2)
  end.
Fixpoint body_cost (l : list cmd) : nat := match l with [] => 0 | x :: r => cmd_cost x + body_cost r end.
Definition subm_cost (ws : list name) (b : list cmd) : nat := length ws + 2 + body_cost b + 2.

Definition task_work (t : task) : nat :=
  match t_st t with
  | Waiting i => (length (t_waits t) - i) + 2 + body_cost (t_body t) + 2
  | Running pc PBefore => body_cost (skipn pc (t_body t)) + 3
  | Running pc PIn => body_cost (skipn pc (t_body t)) + 2
  | Running pc _ => body_cost (skipn (S pc) (t_body t)) + 4
  | Closing => 1
  | Finished _ => 0
  | Zombie => 0
  end.
Definition work_l (ts : list task) : nat := fold_right (fun t m => task_work t + m) 0 ts.
Definition work (s : state) : nat := work_l (tasks s).

(** Histories: [hist P l] — every event [e] of the newest-first log [l] satisfies [P e older]. *)
Fixpoint hist (P : event -> list event -> Prop) (l : list event) : Prop :=
  match l with [] => True | e :: b => P e b /\ hist P b end.
