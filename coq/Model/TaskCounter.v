(** TaskCounter.v — the mutex/cond task counter of app/scope/taskcounter.go.  Definitions only.

    [Scope.v] uses the counter at the granularity 'Wait can return iff the counter is 0' ([s_wg],
    the steps [KWait] and [IWait]).  This file is the finer model that justifies that granularity:
    the lazily created condition variable, the notify list, the re-test loop.  Convention of
    DESIGN section 3: a region protected by tc.mu in which nothing blocks is one step; the only
    blocking call inside such a region is cond.Wait, which splits Wait() in two regions:

      Add(d):   Lock; counter += d; if counter < 0 { counter -= d; panic };
                if counter == 0 && cond != nil { cond.Broadcast() }; Unlock          one step
      Wait():   Lock; if cond == nil { cond = NewCond(&mu) };
                test counter != 0 ... either Unlock and return, or cond.Wait
                (put on the notify list and unlock: one action of sync.Cond)          one step
      woken:    cond.Wait re-locks; the for loop tests again ... return or sleep again    one step

    sync.Mutex and sync.Cond have their documented semantics (trusted base): Broadcast wakes every
    goroutine on the notify list; the ticket of cond.Wait is taken before the mutex is released and
    every Broadcast of this code is made with the mutex held.  The tie to the code is by reading
    (above) and, dynamically, the wait-recheck family of the C11 harness. *)
From GC Require Import Common.Base.
From Coq Require Import ZArith.
Local Open Scope nat_scope.

Inductive tpc :=
| TIdle      (* not inside Wait *)
| TParked    (* inside cond.Wait: on the notify list, asleep *)
| TWoken.    (* notified, about to re-lock and test again *)

Inductive tcall := KAdd (d : Z) | KWait.
Inductive tobs := TOAdd (ok : bool) | TOWait.   (* Add returned / panicked; Wait returned *)

Record tthread := { tt_pc : tpc; tt_todo : list tcall; tt_out : list tobs }.
Record tstate := { tc_counter : Z; tc_cond : bool; tc_ths : list tthread }.

Definition tinit (progs : list (list tcall)) : tstate :=
  {| tc_counter := 0; tc_cond := false;
     tc_ths := map (fun p => {| tt_pc := TIdle; tt_todo := p; tt_out := [] |}) progs |}.

Fixpoint tupd {A} (n : nat) (x : A) (l : list A) : list A :=
  match l with
  | [] => []
  | y :: l' => match n with O => x :: l' | S n' => y :: tupd n' x l' end
  end.

Definition wake (th : tthread) : tthread :=
  match tt_pc th with
  | TParked => {| tt_pc := TWoken; tt_todo := tt_todo th; tt_out := tt_out th |}
  | _ => th
  end.

(** the loop test of Wait, made with the mutex held *)
Definition wait_test (c : Z) (todo : list tcall) (out : list tobs) : tthread :=
  if Z.eqb c 0 then {| tt_pc := TIdle; tt_todo := todo; tt_out := out ++ [TOWait] |}
  else {| tt_pc := TParked; tt_todo := todo; tt_out := out |}.

Definition tstep (n : nat) (st : tstate) : option tstate :=
  let c := tc_counter st in
  match nth_error (tc_ths st) n with
  | None => None
  | Some th =>
    match tt_pc th with
    | TIdle =>
      match tt_todo th with
      | [] => None
      | KAdd d :: r =>
        let c' := (c + d)%Z in
        if Z.ltb c' 0 then
          Some {| tc_counter := c; tc_cond := tc_cond st;
                  tc_ths := tupd n {| tt_pc := TIdle; tt_todo := r; tt_out := tt_out th ++ [TOAdd false] |}
                                 (tc_ths st) |}
        else
          Some {| tc_counter := c'; tc_cond := tc_cond st;
                  tc_ths := tupd n {| tt_pc := TIdle; tt_todo := r; tt_out := tt_out th ++ [TOAdd true] |}
                                 (if Z.eqb c' 0 && tc_cond st then map wake (tc_ths st) else tc_ths st) |}
      | KWait :: r =>
        Some {| tc_counter := c; tc_cond := true;
                tc_ths := tupd n (wait_test c r (tt_out th)) (tc_ths st) |}
      end
    | TParked => None
    | TWoken =>
      Some {| tc_counter := c; tc_cond := tc_cond st;
              tc_ths := tupd n (wait_test c (tt_todo th) (tt_out th)) (tc_ths st) |}
    end
  end.

Definition tstep_or_skip (st : tstate) (n : nat) : tstate :=
  match tstep n st with Some st' => st' | None => st end.
Definition trun (sched : list nat) (st : tstate) : tstate := fold_left tstep_or_skip sched st.

(** program counter of thread m (TIdle beyond the table) *)
Definition pcl (ths : list tthread) (m : nat) : tpc :=
  match nth_error ths m with Some th => tt_pc th | None => TIdle end.
Definition waits_of (ths : list tthread) (m : nat) : nat :=
  match nth_error ths m with
  | Some th => length (filter (fun o => match o with TOWait => true | _ => false end) (tt_out th))
  | None => 0
  end.
