(** Model of pip:try (pipc/try.go, after fix b825941) on top of the runner model.  The body is an
    ordinary task created on a SEPARATED scope whose context [tb_sep] is fresh; a goroutine waits
    for that scope (the body task and everything registered on it), reads its error, then submits
    the handlers: finally, then fail | success — EACH ON A SCOPE OF ITS OWN (contexts [tb_cfin],
    [tb_cfail], [tb_csucc]); when it is done submitting (or a submission was rejected: that error is
    appended to the surrounding scope at once and nothing more is submitted) it waits for every
    submitted handler scope in order and appends a failed handler's error to the surrounding
    scope (context [tb_par]); only then it releases the registration ([hold]) that keeps the
    surrounding scope open.  After fix 3f81e38 the errors (of a rejected submission and of the failed
    handler scopes) are COLLECTED ([pend]) and appended to the surrounding scope in ONE final step,
    when every started handler has finished.  Modes: [MFixed] = the current code; [MEarly] = b825941
    (a rejected submission is appended at once, a handler's error right after that handler's Wait);
    [MShared] = before b825941 (handlers directly on the surrounding scope, same context for all).
    Definitions only. *)
From GC Require Import Common.Base Model.Runner.
Local Open Scope nat_scope.

Record tryblock := {
  tb_body : subm;                 (* name "…:body"; its wait list is empty in pip:try *)
  tb_finally : option subm;
  tb_fail : option subm;
  tb_success : option subm;
  tb_sep : ctxid;                 (* fresh context of the separated scope *)
  tb_par : ctxid;                 (* context of the surrounding scope *)
  tb_cfin : ctxid; tb_cfail : ctxid; tb_csucc : ctxid }.   (* fresh contexts of the handler scopes *)

Inductive tmode := MFixed | MEarly | MShared.
Definition early (m : tmode) : bool := match m with MFixed => false | _ => true end.

Inductive tpc :=
| TStart
| TWaitBody
| TFinally (catch : bool)         (* catch = the separated scope had an error *)
| TFail (catch : bool)
| TSuccess (catch : bool)
| TCollect (rest : list (name * ctxid))   (* deferred: handler scopes still to be waited for *)
| TDone.

(** [subd]: the handler scopes submitted so far (the goroutine's [handlers] slice);
    [coll]: ghost — the handlers whose scope has been waited for already. *)
Record tstate := { rs : state; pc : tpc; hold : bool; catched : option bool;
                   subd : list (name * ctxid); coll : list name;
                   pend : bool }.    (* the goroutine's [failures] slice is not empty *)

Definition tinit (tb : tryblock) : tstate :=
  {| rs := init (tb_par tb); pc := TStart; hold := false; catched := None; subd := []; coll := []; pend := false |}.

Definition mk (s : state) (p : tpc) (h : bool) (c : option bool) (l : list (name * ctxid)) (g : list name)
           (pd : bool) : tstate :=
  {| rs := s; pc := p; hold := h; catched := c; subd := l; coll := g; pend := pd |}.

Definition hctx (m : tmode) (tb : tryblock) (c : ctxid) : ctxid :=
  match m with MShared => tb_par tb | _ => c end.

(** Submission of one handler: accepted -> remembered, go on with [next]; rejected -> the error is
    appended to the surrounding scope and the goroutine goes to its deferred block. *)
Definition submit_handler (shared : tmode) (tb : tryblock) (h : subm) (c : ctxid)
           (next : list (name * ctxid) -> tpc) (t : tstate) : tstate :=
  let (s1, acc) := create false h (hctx shared tb c) None (rs t) in
  let l := subd t ++ [(s_name h, hctx shared tb c)] in
  if acc then mk s1 (next l) (hold t) (catched t) l (coll t) (pend t)
  else if early shared
       then mk (fail_ctx (tb_par tb) s1) (TCollect (subd t)) (hold t) (catched t) (subd t) (coll t) (pend t)
       else mk s1 (TCollect (subd t)) (hold t) (catched t) (subd t) (coll t) true.

Definition goto (p : tpc) (t : tstate) : tstate := mk (rs t) p (hold t) (catched t) (subd t) (coll t) (pend t).

Definition try_step (shared : tmode) (tb : tryblock) (t : tstate) : option tstate :=
  match pc t with
  | TStart =>
    if ctx_failed (tb_par tb) (rs t) then Some (mk (rs t) TDone false None (subd t) (coll t) (pend t))   (* AddTasks: ErrDoned *)
    else
      let (s1, acc) := create false (tb_body tb) (tb_sep tb) None (rs t) in
      if acc then Some (mk s1 TWaitBody true None (subd t) (coll t) (pend t))
      else Some (mk s1 TDone false None (subd t) (coll t) (pend t))
  | TWaitBody =>
    match find_task (s_name (tb_body tb)) (tasks (rs t)) with
    | Some b => if is_finished (t_st b)
                then let c := ctx_failed (tb_sep tb) (rs t) in
                     Some (mk (rs t) (TFinally c) (hold t) (Some c) (subd t) (coll t) (pend t))
                else None
    | None => None
    end
  | TFinally c =>
    match tb_finally tb with
    | Some h => Some (submit_handler shared tb h (tb_cfin tb) (fun _ => TFail c) t)
    | None => Some (goto (TFail c) t)
    end
  | TFail c =>
    match tb_fail tb with
    | Some h => if c then Some (submit_handler shared tb h (tb_cfail tb) (fun _ => TSuccess c) t)
                else Some (goto (TSuccess c) t)
    | None => Some (goto (TSuccess c) t)
    end
  | TSuccess c =>
    match tb_success tb with
    | Some h => if c then Some (goto (TCollect (subd t)) t)
                else Some (submit_handler shared tb h (tb_csucc tb) TCollect t)
    | None => Some (goto (TCollect (subd t)) t)
    end
  | TCollect [] =>
    let s1 := if pend t && negb (early shared) then fail_ctx (tb_par tb) (rs t) else rs t in
    Some (mk s1 TDone false (catched t) (subd t) (coll t) (pend t))
  | TCollect ((hn, hc) :: rest) =>
    match find_task hn (tasks (rs t)) with
    | Some x => if is_finished (t_st x)
                then let f := ctx_failed hc (rs t) in
                     let s1 := if f && early shared then fail_ctx (tb_par tb) (rs t) else rs t in
                     Some (mk s1 (TCollect rest) (hold t) (catched t) (subd t) (coll t ++ [hn]) (pend t || f))
                else None
    | None => None
    end
  | TDone => None
  end.

(** Labels of the closed try system: runner goroutines (no outside submissions, no outside
    errors) and the pip:try thread. *)
Inductive tlabel := TLTask (n : name) | TLAbort (n : name) | TLTry.

Definition with_rs (s : state) (t : tstate) : tstate := mk s (pc t) (hold t) (catched t) (subd t) (coll t) (pend t).

Definition tstep (shared : tmode) (tb : tryblock) (l : tlabel) (t : tstate) : option tstate :=
  match l with
  | TLTask n => match step false (LTask n) (rs t) with Some s => Some (with_rs s t) | None => None end
  | TLAbort n => match step false (LAbort n) (rs t) with Some s => Some (with_rs s t) | None => None end
  | TLTry => try_step shared tb t
  end.

Definition tstep_skip (shared : tmode) (tb : tryblock) (t : tstate) (l : tlabel) : tstate :=
  match tstep shared tb l t with Some t' => t' | None => t end.
Definition trun (shared : tmode) (tb : tryblock) (sched : list tlabel) (t : tstate) : tstate :=
  fold_left (tstep_skip shared tb) sched t.

(** Final: the goroutine returned and every registered task finished. *)
Definition tfinal (t : tstate) : bool :=
  match pc t with TDone => all_finished (rs t) | _ => false end.
