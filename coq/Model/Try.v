(** Model of pip:try (pipc/try.go) on top of the runner model.  The body is an ordinary task
    created on a SEPARATED scope whose context [tb_sep] is fresh; a goroutine waits for that scope
    (the body task and everything registered on it), reads its error, then submits the handlers
    into the surrounding scope (context [tb_par]): finally, then fail | success.  The surrounding
    scope is held open by one registration ([hold]) until the goroutine returns.  A rejected handler
    submission appends the error to the surrounding scope and ends the goroutine.  Definitions only. *)
From GC Require Import Common.Base Model.Runner.
Local Open Scope nat_scope.

Record tryblock := {
  tb_body : subm;                 (* name "…:body"; its wait list is empty in pip:try *)
  tb_finally : option subm;
  tb_fail : option subm;
  tb_success : option subm;
  tb_sep : ctxid;                 (* fresh context of the separated scope *)
  tb_par : ctxid }.               (* context of the surrounding scope *)

Inductive tpc :=
| TStart
| TWaitBody
| TFinally (catch : bool)         (* catch = the separated scope had an error *)
| TFail (catch : bool)
| TSuccess (catch : bool)
| TRelease
| TDone.

Record tstate := { rs : state; pc : tpc; hold : bool; catched : option bool }.

Definition tinit (tb : tryblock) : tstate :=
  {| rs := init (tb_par tb); pc := TStart; hold := false; catched := None |}.

Definition mk (s : state) (p : tpc) (h : bool) (c : option bool) : tstate :=
  {| rs := s; pc := p; hold := h; catched := c |}.

(** Submission of one handler by the goroutine: accepted -> go on with [next]; rejected -> the
    error is appended to the surrounding scope and the goroutine returns. *)
Definition submit_handler (tb : tryblock) (h : subm) (next : tpc) (t : tstate) : tstate :=
  let (s1, acc) := create false h (tb_par tb) None (rs t) in
  if acc then mk s1 next (hold t) (catched t)
  else mk (fail_ctx (tb_par tb) s1) TRelease (hold t) (catched t).

Definition try_step (tb : tryblock) (t : tstate) : option tstate :=
  match pc t with
  | TStart =>
    if ctx_failed (tb_par tb) (rs t) then Some (mk (rs t) TDone false None)   (* AddTasks: ErrDoned *)
    else
      let (s1, acc) := create false (tb_body tb) (tb_sep tb) None (rs t) in
      if acc then Some (mk s1 TWaitBody true None) else Some (mk s1 TDone false None)
  | TWaitBody =>
    match find_task (s_name (tb_body tb)) (tasks (rs t)) with
    | Some b => if is_finished (t_st b)
                then let c := ctx_failed (tb_sep tb) (rs t) in Some (mk (rs t) (TFinally c) (hold t) (Some c))
                else None
    | None => None
    end
  | TFinally c =>
    match tb_finally tb with
    | Some h => Some (submit_handler tb h (TFail c) t)
    | None => Some (mk (rs t) (TFail c) (hold t) (catched t))
    end
  | TFail c =>
    match tb_fail tb with
    | Some h => if c then Some (submit_handler tb h (TSuccess c) t)
                else Some (mk (rs t) (TSuccess c) (hold t) (catched t))
    | None => Some (mk (rs t) (TSuccess c) (hold t) (catched t))
    end
  | TSuccess c =>
    match tb_success tb with
    | Some h => if c then Some (mk (rs t) TRelease (hold t) (catched t))
                else Some (submit_handler tb h TRelease t)
    | None => Some (mk (rs t) TRelease (hold t) (catched t))
    end
  | TRelease => Some (mk (rs t) TDone false (catched t))
  | TDone => None
  end.

(** Labels of the closed try system: runner goroutines (no outside submissions, no outside
    errors) and the pip:try thread. *)
Inductive tlabel := TLTask (n : name) | TLAbort (n : name) | TLTry.

Definition tstep (tb : tryblock) (l : tlabel) (t : tstate) : option tstate :=
  match l with
  | TLTask n => match step false (LTask n) (rs t) with
                | Some s => Some (mk s (pc t) (hold t) (catched t)) | None => None end
  | TLAbort n => match step false (LAbort n) (rs t) with
                 | Some s => Some (mk s (pc t) (hold t) (catched t)) | None => None end
  | TLTry => try_step tb t
  end.

Definition tstep_skip (tb : tryblock) (t : tstate) (l : tlabel) : tstate :=
  match tstep tb l t with Some t' => t' | None => t end.
Definition trun (tb : tryblock) (sched : list tlabel) (t : tstate) : tstate :=
  fold_left (tstep_skip tb) sched t.

(** Final: the goroutine returned and every registered task finished. *)
Definition tfinal (t : tstate) : bool :=
  match pc t with TDone => all_finished (rs t) | _ => false end.

(** RunCommand's Close of the pip:try command scope can return: the hold is released and every
    task registered in the surrounding scope finished. *)
Definition caller_returns (tb : tryblock) (t : tstate) : bool :=
  negb (hold t) && match pc t with TStart => false | _ => true end
  && forallb (fun x => negb (N.eqb (t_ctx x) (tb_par tb)) || is_finished (t_st x)) (tasks (rs t)).

Definition handler_name (o : option subm) : option name :=
  match o with Some h => Some (s_name h) | None => None end.
