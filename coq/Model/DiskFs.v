(** The disk filespace (filesystem/filespace/diskfs + filesystem/disk) over the plain tree of
    Model/Fs.v, written from the Go code and the fragment of POSIX / Go [os] behaviour it relies on.

    Every diskfs method reduces its argument(s) with varutil.ReduceAbsPath, prefixes the host
    directory of the filespace ([fs.path], which ends in `/`) and calls one [os]/[ioutil]/[disk]
    function.  A child filespace (Filespace(p)) is a NEW diskfs whose host directory is
    [fs.path ++ reduced p ++ `/`]: an operation of the child on argument [s] therefore acts on the
    parent's tree at [b ++ r] (b = reduced base, r = reduce s).  [d_step b] is that step function;
    the root filespace is [d_step []].  The only place where child and "parent at b ++ r" differ
    is r = [] : the host path then ends in `/`, so nothing can be created there as a FILE
    (O_CREATE on `dir/` fails) — the [r = []] cases below.

    What the tree model cannot represent: the host directory of the ROOT filespace itself being
    removed (Remove("") on an empty root, RemoveAll("")).  The model keeps the (implicit) root; the
    harness re-creates the host directory after such a step.  Both are outside [pre].

    Definitions only; proofs in Proofs/DiskFs.v. *)
From Coq Require Import Permutation.
From GC Require Import Common.Base Model.Paths Model.Fs.

(** ** Name order (ioutil.ReadDir and filepath.Walk sort by name, bytewise) *)
Fixpoint name_leb (a b : name) : bool :=
  match a, b with
  | [], _ => true
  | _ :: _, [] => false
  | x :: a', y :: b' => if N.ltb x y then true else if N.eqb x y then name_leb a' b' else false
  end.

Fixpoint insert_name (x : name) (l : list name) : list name :=
  match l with
  | [] => [x]
  | y :: l' => if name_leb x y then x :: l else y :: insert_name x l'
  end.

Definition sort_names (l : list name) : list name := fold_right insert_name [] l.

Definition is_nil {A} (l : list A) : bool := match l with [] => true | _ => false end.

(** ** os.Remove: a file, or an EMPTY directory.  On [[]] (the root of the root filespace) this
    succeeds exactly when the tree is empty; the tree stays [[]]. *)
Definition d_remove (t : fs) (p : path) : fs * out :=
  match lookup t p with
  | None => (t, RErr)
  | Some (F _) => (delete_subtree t p, RUnit)
  | Some D => if has_children t p then (t, RErr) else (delete_subtree t p, RUnit)
  end.

(** ** os.RemoveAll: nil when the path does not exist, ENOTDIR when a file is on the way. *)
Definition d_remove_all (t : fs) (p : path) : fs * out :=
  match lookup t p with
  | Some _ => (delete_subtree t p, RUnit)
  | None => if existsb (is_file_at t) (prefixes p) then (t, RErr) else (t, RUnit)
  end.

(** ** diskfs.WriteFile: disk.MkdirAll(filepath.Dir(full)) then ioutil.WriteFile(full).
    r = []: Dir(`…/b/`) = `…/b`, so the base directory is (re)created and the write fails EISDIR. *)
Definition d_write_file (t : fs) (b r : path) (data : bytes) : fs * out :=
  match r with
  | [] => match mkdir_all t b with Some t1 => (t1, RErr) | None => (t, RErr) end
  | _ => upd t (write_at t (b ++ r) data)
  end.

(** ** diskfs.Writer: os.OpenFile(O_WRONLY|O_CREATE|O_TRUNC) — the parent must exist and be a
    directory; then the chunks are written and the handle closed. *)
Definition d_writer (t : fs) (b r : path) (data : bytes) : fs * out :=
  match r with
  | [] => (t, RErr)
  | _ => if is_dir_at t (removelast (b ++ r)) then upd t (write_at t (b ++ r) data) else (t, RErr)
  end.

(** ** os.File.Read: a zero-length buffer returns (0, nil); otherwise up to len(buf) bytes, and
    (0, EOF) only by the call AFTER the one that reached the end. *)
Fixpoint disk_read_seq (data : bytes) (bufs : list nat) : list (bytes * bool) :=
  match bufs with
  | [] => []
  | O :: bufs' => ([], false) :: disk_read_seq data bufs'
  | n :: bufs' =>
    match data with
    | [] => [([], true)]
    | _ => (firstn n data, false) :: disk_read_seq (skipn n data) bufs'
    end
  end.

(** diskfs.Reader = os.OpenFile(O_RDONLY): a DIRECTORY opens fine; its first non-empty Read fails
    (EISDIR), which the session reports as an error. *)
Definition d_reader (t : fs) (p : path) (bufs : list nat) : out :=
  match lookup t p with
  | Some (F d) => RChunks (disk_read_seq d bufs)
  | Some D => if forallb (Nat.eqb 0) bufs then RChunks (map (fun _ => ([], false)) bufs) else RErr
  | None => RErr
  end.

(** ** disk.CopyFile(src, dst): os.Open(src) (succeeds on a directory), os.Create(dst) (parent must
    be a directory, dst not a directory; creates or TRUNCATES), io.Copy (fails when src is a
    directory — the destination has been created/emptied by then), Close.
    [d_root]: the destination is the filespace's own root (host path ends in `/`). *)
Definition d_copy_file (t : fs) (s d : path) (d_root : bool) : fs * out :=
  match lookup t s with
  | None => (t, RErr)
  | Some e =>
    if d_root || negb (is_dir_at t (removelast d)) || is_dir_at t d then (t, RErr) else
    match e with
    | D => (fst (upd t (write_at t d [])), RErr)
    | F data => upd t (write_at t d (if path_eqb s d then [] else data))
    end
  end.

(** ** filepath.Walk of disk.CopyDirectory into an EXISTING destination directory (merge).
    The walk is lazy: the node is lstat'ed when visited, a directory's (sorted) listing is read
    after its callback ran, and the callbacks write into the tree being walked (which matters when
    the destination is an ancestor of the source).  The first failing callback aborts the walk,
    leaving what was copied so far.  [fuel] bounds the depth (copies never deepen the source). *)
Fixpoint dwalk (fuel : nat) (t : fs) (s d rel : path) : fs * bool :=
  match fuel with
  | O => (t, false)
  | S n =>
    match lookup t (s ++ rel) with
    | None => (t, false)
    | Some (F _) =>
      let r := d_copy_file t (s ++ rel) (d ++ rel) false in
      (fst r, match snd r with RUnit => true | _ => false end)
    | Some D =>
      match mkdir_all t (d ++ rel) with
      | None => (t, false)
      | Some t1 =>
        fold_left (fun (acc : fs * bool) (nm : name) => if snd acc then dwalk n (fst acc) s d (rel ++ [nm]) else acc)
                  (sort_names (map fst (children t1 (s ++ rel)))) (t1, true)
      end
    end
  end.

(** ** disk.CopyDirectory(src, dst) as repaired (5f9025b): stat src (must be a directory); dst equal
    to or inside src is refused before anything is created; then the walk: MkdirAll(dst/rel) for
    directories (creates the missing parents of dst), CopyFile for files.
    - dst absent: the walk is a deep copy below freshly created directories — the same tree
      function as memfs ([copy_at]); nothing is created when a file is on the way of dst's parents;
    - dst a file: the first MkdirAll fails, nothing changed;
    - dst a directory: merge by [dwalk]. *)
Definition d_copy_dir (t : fs) (s d : path) : fs * out :=
  match lookup t s with
  | Some D =>
    if is_prefix s d then (t, RErr) else
    match lookup t d with
    | None => upd t (copy_at CDirOnly t s d)
    | Some (F _) => (t, RErr)
    | Some D => let r := dwalk (S (length t)) t s d [] in (fst r, if snd r then RUnit else RErr)
    end
  | _ => (t, RErr)
  end.

(** disk.Copy: IsDir(src) ? CopyDirectory : CopyFile *)
Definition d_copy (t : fs) (s d : path) (d_root : bool) : fs * out :=
  if is_dir_at t s then d_copy_dir t s d else d_copy_file t s d d_root.

(** ** One step of a disk filespace whose host directory is the node [b] of the tree. *)
Definition d_step (b : path) (t : fs) (o : op) : fs * out :=
  match o with
  | OCopy s d =>
    match reduce s, reduce d with
    | Some sr, Some dr => d_copy t (b ++ sr) (b ++ dr) (is_nil dr)
    | _, _ => (t, RErr)
    end
  | OCopyDir s d =>
    match reduce s, reduce d with
    | Some sr, Some dr => d_copy_dir t (b ++ sr) (b ++ dr)
    | _, _ => (t, RErr)
    end
  | OCopyFile s d =>
    match reduce s, reduce d with
    | Some sr, Some dr => d_copy_file t (b ++ sr) (b ++ dr) (is_nil dr)
    | _, _ => (t, RErr)
    end
  | OReadDir s =>
    match reduce s with
    | Some r => if is_dir_at t (b ++ r) then (t, RList (children t (b ++ r))) else (t, RErr)
    | None => (t, RErr)
    end
  | OIsExist s =>
    match reduce s with Some r => (t, RBool (exists_at t (b ++ r))) | None => (t, RBool false) end
  | OIsFile s =>
    match reduce s with Some r => (t, RBool (is_file_at t (b ++ r))) | None => (t, RBool false) end
  | OIsDir s =>
    match reduce s with Some r => (t, RBool (is_dir_at t (b ++ r))) | None => (t, RBool false) end
  | OMkdirAll s =>
    match reduce s with Some r => upd t (mkdir_all t (b ++ r)) | None => (t, RErr) end
  | OReadFile s =>
    match reduce s with
    | Some r => match lookup t (b ++ r) with Some (F d) => (t, RData d) | _ => (t, RErr) end
    | None => (t, RErr)
    end
  | OWriteFile s data =>
    match reduce s with Some r => d_write_file t b r data | None => (t, RErr) end
  | OFilespace s =>
    match reduce s with
    | Some r => if is_dir_at t (b ++ r) then (t, RUnit) else (t, RErr)
    | None => (t, RErr)
    end
  | OReader s bufs =>
    match reduce s with Some r => (t, d_reader t (b ++ r) bufs) | None => (t, RErr) end
  | OWriter s chunks =>
    match reduce s with Some r => d_writer t b r (concat chunks) | None => (t, RErr) end
  | ORemove s =>
    match reduce s with Some r => d_remove t (b ++ r) | None => (t, RErr) end
  | ORemoveAll s =>
    match reduce s with Some r => d_remove_all t (b ++ r) | None => (t, RErr) end
  | OLstat s =>
    match reduce s with
    | Some r =>
      match lookup t (b ++ r) with
      | Some D => (t, RStat true 0)
      | Some (F d) => (t, RStat false (N.of_nat (length d)))
      | None => (t, RErr)
      end
    | None => (t, RErr)
    end
  end.

Definition disk_step (t : fs) (o : op) : fs * out := d_step [] t o.

(** A child of the disk root created by Filespace(base) while [reduce base = Some b] was a
    directory. *)
Definition disk_view_step (b : path) (t : fs) (o : op) : fs * out := d_step b t o.

(** ** "The preconditions are met" — the WEAKEST conditions under which the two backends are
    proved to agree (so the theorem covers more than the property asks): operations on which the
    backends agree unconditionally (all queries, ReadDir, ReadFile, Lstat, MkdirAll, WriteFile, and
    everything with a climbing argument — both fail) need nothing.
    - Reader: the addressed node is not a directory (disk opens directories);
    - Writer: the destination parent exists and is a directory (memfs would create it);
    - Remove / RemoveAll: the path does not normalise to the filespace's own root; RemoveAll
      additionally addresses an existing node (disk: nil on a missing one);
    - Filespace: the addressed node is an existing directory;
    - CopyFile (and Copy of a file): source is a file, destination is not the root, is absent, and
      its parent exists and is a directory;
    - CopyDirectory (and Copy of a directory): source is a directory, destination is not the root,
      is absent and is not inside (or equal to) the source.
    [prop_pre_at] below is the property's own, stronger wording; it implies [pre_at]. *)
Definition pre_copy_file (t : fs) (s d : path) (d_root : bool) : bool :=
  is_file_at t s && negb d_root && negb (exists_at t d) && is_dir_at t (removelast d).

Definition pre_copy_dir (t : fs) (s d : path) (d_root : bool) : bool :=
  is_dir_at t s && negb d_root && negb (exists_at t d) && negb (is_prefix s d).

Definition pre_at (b : path) (t : fs) (o : op) : bool :=
  match o with
  | OCopy s d =>
    match reduce s, reduce d with
    | Some sr, Some dr =>
      pre_copy_file t (b ++ sr) (b ++ dr) (is_nil dr) || pre_copy_dir t (b ++ sr) (b ++ dr) (is_nil dr)
    | _, _ => true
    end
  | OCopyDir s d =>
    match reduce s, reduce d with
    | Some sr, Some dr => pre_copy_dir t (b ++ sr) (b ++ dr) (is_nil dr)
    | _, _ => true
    end
  | OCopyFile s d =>
    match reduce s, reduce d with
    | Some sr, Some dr => pre_copy_file t (b ++ sr) (b ++ dr) (is_nil dr)
    | _, _ => true
    end
  | OReader s _ => match reduce s with Some r => negb (is_dir_at t (b ++ r)) | None => true end
  | OWriter s _ =>
    match reduce s with
    | Some [] => true
    | Some r => is_dir_at t (removelast (b ++ r))
    | None => true
    end
  | ORemove s => match reduce s with Some [] => false | _ => true end
  | ORemoveAll s =>
    match reduce s with Some [] => false | Some r => exists_at t (b ++ r) | None => true end
  | OFilespace s => match reduce s with Some r => is_dir_at t (b ++ r) | None => true end
  | _ => true
  end.

Definition pre (t : fs) (o : op) : bool := pre_at [] t o.

(** The property's wording, literally: no argument climbs; read-type operations, Remove/RemoveAll
    and copy sources address an existing node of the right kind; the destination parent of Writer
    and of the copies exists and is a directory; the destination of a copy is absent and not
    inside the source; no mutated path normalises to the root. *)
Definition prop_pre_at (b : path) (t : fs) (o : op) : bool :=
  let parent_ok r := negb (is_nil r) && is_dir_at t (removelast (b ++ r)) in
  let dst_ok sr dr := parent_ok dr && negb (exists_at t (b ++ dr)) && negb (is_prefix (b ++ sr) (b ++ dr)) in
  match o with
  | OCopy s d =>
    match reduce s, reduce d with
    | Some sr, Some dr => exists_at t (b ++ sr) && dst_ok sr dr
    | _, _ => false
    end
  | OCopyDir s d =>
    match reduce s, reduce d with
    | Some sr, Some dr => is_dir_at t (b ++ sr) && dst_ok sr dr
    | _, _ => false
    end
  | OCopyFile s d =>
    match reduce s, reduce d with
    | Some sr, Some dr => is_file_at t (b ++ sr) && dst_ok sr dr
    | _, _ => false
    end
  | OReadDir s | OFilespace s => match reduce s with Some r => is_dir_at t (b ++ r) | None => false end
  | OReadFile s | OReader s _ => match reduce s with Some r => is_file_at t (b ++ r) | None => false end
  | OLstat s => match reduce s with Some r => exists_at t (b ++ r) | None => false end
  | OIsExist s | OIsFile s | OIsDir s => match reduce s with Some _ => true | None => false end
  | OMkdirAll s | OWriteFile s _ => match reduce s with Some r => negb (is_nil r) | None => false end
  | OWriter s _ => match reduce s with Some r => parent_ok r | None => false end
  | ORemove s | ORemoveAll s =>
    match reduce s with Some r => negb (is_nil r) && exists_at t (b ++ r) | None => false end
  end.

(** ** Equivalence of outputs: listings as multisets (stated with [Permutation] in the proofs via
    this boolean-free relation), Lstat size only for files, reader sessions by the bytes delivered
    (io.Reader lets EOF come with the last bytes or with the next call). *)
Definition chunks_data (l : list (bytes * bool)) : bytes := concat (map fst l).

Definition out_equiv (a b : out) : Prop :=
  match a, b with
  | RUnit, RUnit => True
  | RErr, RErr => True
  | RBool x, RBool y => x = y
  | RData x, RData y => x = y
  | RList x, RList y => Permutation x y
  | RStat d1 s1, RStat d2 s2 => d1 = d2 /\ (d1 = false -> s1 = s2)
  | RChunks x, RChunks y => chunks_data x = chunks_data y
  | _, _ => False
  end.

(** Trees are compared by what every path answers. *)
Definition tree_equiv (t1 t2 : fs) : Prop := forall q, lookup t1 q = lookup t2 q.

(** Histories: both backends start from the same tree; [pre] is evaluated in the current state
    of the disk side (the two sides are equivalent at that point). *)
Fixpoint run_both (td tm : fs) (h : list op) : fs * fs * list (out * out) :=
  match h with
  | [] => (td, tm, [])
  | o :: h' =>
    let rd := disk_step td o in
    let rm := mem_step tm o in
    let '(td', tm', outs) := run_both (fst rd) (fst rm) h' in
    (td', tm', (snd rd, snd rm) :: outs)
  end.

Fixpoint pre_hist (td : fs) (h : list op) : bool :=
  match h with
  | [] => true
  | o :: h' => pre td o && pre_hist (fst (disk_step td o)) h'
  end.
