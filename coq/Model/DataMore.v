(** Definitions used by the additional C13 theorems (Props/C13.v, second part).  Nothing here changes
    Model/Data.v: these are specification-side functions over the same chains, histories and
    concurrent states.  Definitions only; proofs are in Proofs/DataMore.v. *)
From GC Require Import Common.Base Model.Data.

(** ** Histories *)

Definition sop_level (o : sop) : nat :=
  match o with
  | SSet j _ _ | SGet j _ | SKeys j | SLSet j _ _ | SLGet j _ | SLKeys j => j
  end.

(** the value most recently stored under key [k] in scope [l] by a history, if the history stores
    there at all (plain SetValue and SetValue through a locker alike) *)
Definition writes_to (l : nat) (k : N) (o : sop) : option N :=
  match o with
  | SSet j k' v | SLSet j k' v => if Nat.eqb j l && N.eqb k' k then Some v else None
  | _ => None
  end.
Fixpoint last_set (l : nat) (k : N) (ops : list sop) : option N :=
  match ops with
  | [] => None
  | o :: r => match last_set l k r with
              | Some v => Some v
              | None => writes_to l k o
              end
  end.

(** the own binding of scope [l] for [k] after the history: the last store, else what the scope was
    created with; a scope that does not exist has none *)
Definition bound_after (st0 : chain) (ops : list sop) (l : nat) (k : N) : option N :=
  match nth_error st0 l with
  | None => None
  | Some m => match last_set l k ops with Some v => Some v | None => lookup k m end
  end.

(** the first binding found in [n] scopes starting at scope [j] and walking towards the root *)
Fixpoint first_bound (f : nat -> option N) (j n : nat) : N :=
  match n with
  | O => 0
  | S n' => match f j with Some v => v | None => first_bound f (S j) n' end
  end.

(** operations on scope [i] or one of its ancestors *)
Definition on_or_above (i : nat) (o : sop) : bool := Nat.leb i (sop_level o).

(** ** Concurrent model *)

(** replace the map of scope [j] *)
Fixpoint put_level (st : chain) (j : nat) (m : dmap) : chain :=
  match st, j with
  | [], _ => []
  | _ :: r, O => m :: r
  | x :: r, S j' => x :: put_level r j' m
  end.
Definition with_level (s : cstate) (j : nat) (m : dmap) : cstate :=
  mkC (put_level (maps s) j m) (own s) (ths s).

(** a goroutine doing [c] locked increments one after the other (the harness's counter goroutine) *)
Definition counter_loop (j : nat) (k : N) (c : nat) : list op := concat (repeat (counter_prog j k) c).

(** an operation that cannot change what scope [j] answers for key [k]: every read, lock and
    commit, every store under another key, and plain stores of [k] into proper descendants of [j] *)
Definition quiet_op (j : nat) (k : N) (o : op) : bool :=
  match o with
  | OWrite l k' _ | OWriteAdd l k' _ | OInitPlain l k' _ => negb (N.eqb k' k) || Nat.ltb l j
  | OLWrite k' _ | OLAdd k' _ | OLInit k' _ => negb (N.eqb k' k)
  | _ => true
  end.
Definition quiet (j : nat) (k : N) (p : list op) : bool := forallb (quiet_op j k) p.

(** counters (goroutine [i] does [nth i cs] locked increments) among arbitrary other goroutines *)
Definition mixed_sys (st : chain) (j : nat) (k : N) (cs : list nat) (others : list (list op)) : cstate :=
  init st (map (counter_loop j k) cs ++ others).

(** get-or-create callers among arbitrary other goroutines *)
Definition goc_mixed_sys (st : chain) (j : nat) (k : N) (vs : list N) (others : list (list op)) : cstate :=
  init st (map (goc_prog j k) vs ++ others).

(** locked increments of [k] a thread has not performed yet *)
Definition is_add (k : N) (o : op) : bool :=
  match o with OLAdd k' _ => N.eqb k' k | _ => false end.
Definition adds_left (k : N) (t : thread) : nat := length (filter (is_add k) (prog t)).

(** ** Lock order.  [upward_from h p]: a program that, started holding [h], takes lockers one at a
    time, commits each, uses a locker only while it holds one, and while it holds the locker of
    scope [j] goes through the mutex of no scope at or below [j] (the walk of a read towards the
    root is the only thing it does elsewhere). *)
Fixpoint upward_from (h : option nat) (p : list op) : bool :=
  match p with
  | [] => match h with None => true | Some _ => false end
  | o :: r =>
      match o, h with
      | ORead l _, None | OWrite l _ _, None | OWriteAdd l _ _, None | OInitPlain l _ _, None =>
          upward_from h r
      | ORead l _, Some j | OWrite l _ _, Some j | OWriteAdd l _ _, Some j | OInitPlain l _ _, Some j =>
          Nat.ltb j l && upward_from h r
      | OLock l, None => upward_from (Some l) r
      | OLock _, Some _ => false
      | OLRead _, Some _ | OLWrite _ _, Some _ | OLAdd _ _, Some _ | OLInit _ _, Some _ => upward_from h r
      | OCommit, Some _ => upward_from None r
      | _, None => false
      end
  end.
Definition upward (p : list op) : bool := upward_from None p.
