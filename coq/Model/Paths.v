(** Path normalisation as goatcore does it (varutil/paths.go):
    [reduce] = varutil.ReduceAbsPath (split on '/', drop `` and `.`, `..` pops, error when
    there is nothing to pop), [go_clean]/[clean_path] = path.Clean / varutil.CleanPath (used by
    fscache and fshelper.SubFS for their base string).  Definitions only. *)
From GC Require Import Common.Base.

Definition SLASH : byte := 47.
Definition DOT : byte := 46.

Definition name := bytes.
Definition path := list name.

(** strings.Split(s, `/`): always at least one element. *)
Fixpoint split_slash (s : bytes) : list bytes :=
  match s with
  | [] => [[]]
  | c :: s' =>
    if N.eqb c SLASH then [] :: split_slash s'
    else match split_slash s' with
         | h :: t => (c :: h) :: t
         | [] => [[c]]
         end
  end.

Definition is_dot (v : bytes) : bool := bytes_eqb v [DOT].
Definition is_dotdot (v : bytes) : bool := bytes_eqb v [DOT; DOT].
Definition is_empty (v : bytes) : bool := match v with [] => true | _ => false end.

(** The loop of ReduceAbsPath over the split components; [acc] is the result stack, newest
    first. *)
Fixpoint reduce_comps (acc : list name) (l : list bytes) : option path :=
  match l with
  | [] => Some (rev acc)
  | v :: l' =>
    if is_empty v || is_dot v then reduce_comps acc l'
    else if is_dotdot v then
      match acc with
      | [] => None
      | _ :: acc' => reduce_comps acc' l'
      end
    else reduce_comps (v :: acc) l'
  end.

(** ReduceAbsPath, returning the component list ([Some []] is the Go result ``). *)
Definition reduce (s : bytes) : option path := reduce_comps [] (split_slash s).

(** strings.Join(p, `/`) *)
Fixpoint join (p : path) : bytes :=
  match p with
  | [] => []
  | [a] => a
  | a :: p' => a ++ SLASH :: join p'
  end.

(** A name that can be stored in a tree: non-empty, no '/', not `.` and not `..`. *)
Definition no_slash (n : bytes) : bool := forallb (fun c => negb (N.eqb c SLASH)) n.
Definition good_name (n : bytes) : bool :=
  negb (is_empty n) && no_slash n && negb (is_dot n) && negb (is_dotdot n).
Definition good_path (p : path) : bool := forallb good_name p.

Fixpoint path_eqb (a b : path) : bool :=
  match a, b with
  | [], [] => true
  | x :: a', y :: b' => bytes_eqb x y && path_eqb a' b'
  | _, _ => false
  end.

(** [is_prefix p q]: p is a (not necessarily proper) prefix of q. *)
Fixpoint is_prefix (p q : path) : bool :=
  match p, q with
  | [], _ => true
  | x :: p', y :: q' => bytes_eqb x y && is_prefix p' q'
  | _ :: _, [] => false
  end.

(** ** path.Clean (Go standard library), lexical: used by varutil.CleanPath. *)
(* Rooted paths clamp `..` at the root; unrooted ones keep leading `..` elements. *)
Fixpoint clean_comps (rooted : bool) (acc : list name) (l : list bytes) : list name :=
  match l with
  | [] => rev acc
  | v :: l' =>
    if is_empty v || is_dot v then clean_comps rooted acc l'
    else if is_dotdot v then
      match acc with
      | [] => if rooted then clean_comps rooted [] l' else clean_comps rooted [v] l'
      | top :: acc' =>
        if is_dotdot top then clean_comps rooted (v :: acc) l'   (* only when unrooted *)
        else clean_comps rooted acc' l'
      end
    else clean_comps rooted (v :: acc) l'
  end.

Definition go_clean (s : bytes) : bytes :=
  match s with
  | [] => [DOT]
  | c :: _ =>
    let rooted := N.eqb c SLASH in
    let comps := clean_comps rooted [] (split_slash s) in
    if rooted then SLASH :: join comps
    else match comps with [] => [DOT] | _ => join comps end
  end.

(** varutil.CleanPath: path.Clean then strip ONE leading '/'. *)
Definition clean_path (s : bytes) : bytes :=
  match go_clean s with
  | c :: r => if N.eqb c SLASH then r else c :: r
  | [] => []
  end.
