(** C18 — models of
      (a) the two start-up script builders
            dcmd.InitSequence            (app/modules/ocm/ocservices/dcmd/helpers.go)
            sshsb SSHSandbox.initSequence + newEOFTag
                                         (app/modules/pipelinem/pipservices/sandboxes/sshsb/sandbox.go)
          as byte-string functions of (environment association list IN THE ORDER THE GO MAP
          ITERATION PRODUCED, terminator tag, entrypoint / SSH certificate);
      (b) envs.Environments: the name pattern ^[a-zA-Z]+([_a-zA-Z]+)?$ and Set / SetAll;
      (c) a mini-sh: an evaluator for exactly the script shape the builders produce, with the POSIX
          here-document rules (quoted delimiter: literal body; unquoted: $name ${name} $(..) `..`
          and backslash escapes interpreted) and "command substitution strips all trailing newlines".
    /bin/sh itself is MODELLED, not verified: the mini-sh is validated against the real /bin/sh by
    the correspondence run (Corr/C18.v, harness/c18.go).
    Definitions only; proofs are in Proofs/Shell.v. *)
From GC Require Import Common.Base.

Definition NL : byte := 10.
Definition SQ : byte := 39.       (* ' *)
Definition DQ : byte := 34.       (* double quote *)
Definition LPAR : byte := 40.
Definition RPAR : byte := 41.
Definition DOLLAR : byte := 36.
Definition BQ : byte := 96.       (* ` *)
Definition BSL : byte := 92.
Definition EQS : byte := 61.
Definition LBRACE : byte := 123.
Definition RBRACE : byte := 125.
Definition USCORE : byte := 95.

Definition HEADER : bytes := [10;115;101;116;32;45;101;10;115;101;116;32;43;120;10]. (* "\nset -e\nset +x\n" *)
Definition CAT_OPEN : bytes := [36;40;99;97;116;32;60;60].                            (* "$(cat <<" *)
Definition EXPORT_SP : bytes := [101;120;112;111;114;116;32].                         (* "export " *)
Definition SET : bytes := [115;101;116].                                              (* "set" *)
Definition SET_SP : bytes := [115;101;116;32].                                        (* "set " *)
Definition MKDIR_SSH : bytes := [109;107;100;105;114;32;45;112;32;126;47;46;115;115;104;10]. (* "mkdir -p ~/.ssh\n" *)
Definition CAT_HERE : bytes := [99;97;116;32;60;60].                                  (* "cat <<" *)
Definition TO_PUB : bytes := [32;62;62;32;126;47;46;115;115;104;47;105;100;95;114;115;97;46;112;117;98;32;10]. (* " >> ~/.ssh/id_rsa.pub \n" *)
Definition CHMOD_PUB : bytes := [99;104;109;111;100;32;52;48;48;32;126;47;46;115;115;104;47;105;100;95;114;115;97;46;112;117;98;10]. (* "chmod 400 ~/.ssh/id_rsa.pub\n" *)
Definition TO_SEC : bytes := [32;62;62;32;126;47;46;115;115;104;47;105;100;95;114;115;97;32;10]. (* " >> ~/.ssh/id_rsa \n" *)
Definition CHMOD_SEC : bytes := [99;104;109;111;100;32;52;48;48;32;126;47;46;115;115;104;47;105;100;95;114;115;97;10]. (* "chmod 400 ~/.ssh/id_rsa\n" *)
Definition EOF3 : bytes := [69;79;70].                                                (* "EOF" *)
Definition ECHO_SP : bytes := [101;99;104;111;32].                                    (* "echo " *)
Definition COLON_GT : bytes := [58;32;62;32].                                         (* ": > " *)
Definition CANARY : bytes := [99;97;110;97;114;121].                                  (* "canary" *)

(** ** Character classes *)
Definition is_upper (c : byte) : bool := (65 <=? c) && (c <=? 90).
Definition is_lower (c : byte) : bool := (97 <=? c) && (c <=? 122).
Definition is_letter (c : byte) : bool := is_upper c || is_lower c.
Definition is_digit (c : byte) : bool := (48 <=? c) && (c <=? 57).
Definition is_letter_us (c : byte) : bool := is_letter c || (c =? USCORE).
Definition is_name_char (c : byte) : bool := is_letter_us c || is_digit c.

(** ** (b) Environment names and the Environments store *)

(** The pattern ^[a-zA-Z]+([_a-zA-Z]+)?$ evaluated left to right: one letter, the greedy rest of
    [a-zA-Z]+, then the optional group [_a-zA-Z]+ has to consume everything up to the end of the
    text (Go's [$] without the m flag matches only at the very end). *)
Fixpoint skip_letters (k : bytes) : bytes :=
  match k with
  | c :: r => if is_letter c then skip_letters r else k
  | [] => []
  end.
Definition valid_key (k : bytes) : bool :=
  match k with
  | c :: r => is_letter c && forallb is_letter_us (skip_letters r)
  | [] => false
  end.

(** A shell Name (a letter or underscore, then letters, digits, underscores): what makes K=... an assignment word. *)
Definition is_name (k : bytes) : bool :=
  match k with
  | c :: r => is_letter_us c && forallb is_name_char r
  | [] => false
  end.

Definition env := list (bytes * bytes).

Fixpoint lookup (k : bytes) (m : env) : option bytes :=
  match m with
  | [] => None
  | (k', v) :: m' => if bytes_eqb k k' then Some v else lookup k m'
  end.
Fixpoint remove_key (k : bytes) (m : env) : env :=
  match m with
  | [] => []
  | (k', v) :: m' => if bytes_eqb k k' then remove_key k m' else (k', v) :: remove_key k m'
  end.
Definition put (k v : bytes) (m : env) : env := (k, v) :: remove_key k m.
Definition put_all (kvs : env) (m : env) : env := fold_left (fun m kv => put (fst kv) (snd kv) m) kvs m.

(** Environments.Set / SetAll (SetAll validates every key before inserting any). *)
Definition env_set (m : env) (k v : bytes) : res env :=
  if valid_key k then Ok (put k v m) else Err.
Definition env_set_all (m : env) (kvs : env) : res env :=
  if forallb (fun kv => valid_key (fst kv)) kvs then Ok (put_all kvs m) else Err.

(** ** (a) The script builders *)

(** key + "=$(cat <<'" + tag + "'\n" + value + "\n" + tag + "\n)\n" + "export " + key + "\n"
    ([quoted = false] is the sshsb code before the F24 repair: no quotes around the delimiter). *)
Definition delim_word (quoted : bool) (tag : bytes) : bytes :=
  if quoted then SQ :: tag ++ [SQ] else tag.
Definition env_block (quoted : bool) (tag : bytes) (kv : bytes * bytes) : bytes :=
  fst kv ++ EQS :: CAT_OPEN ++ delim_word quoted tag ++ NL :: snd kv ++ NL :: tag ++ NL :: RPAR :: NL
         :: EXPORT_SP ++ fst kv ++ [NL].
Definition env_section (quoted : bool) (tag : bytes) (e : env) : bytes := flat_map (env_block quoted tag) e.

(** sshsb: header, environment section, entrypoint line. *)
Definition ssh_script (e : env) (tag entry : bytes) : bytes :=
  HEADER ++ env_section true tag e ++ entry ++ [NL].
Definition ssh_script_old (e : env) (tag entry : bytes) : bytes :=
  HEADER ++ env_section false tag e ++ entry ++ [NL].

(** strings.Contains *)
Fixpoint contains (s t : bytes) : bool :=
  has_prefix s t || match s with [] => false | _ :: s' => contains s' t end.

(** newEOFTag: redraw until no value contains the tag.  [draws] is the sequence of strings the
    random source delivers; [None] = the loop is still running when the draws are used up. *)
Definition collides (tag : bytes) (e : env) : bool := existsb (fun kv => contains (snd kv) tag) e.
Fixpoint new_eof_tag (draws : list bytes) (e : env) : option bytes :=
  match draws with
  | [] => None
  | t :: ds => if collides t e then new_eof_tag ds e else Some t
  end.
Definition tag_fresh (tag : bytes) (e : env) : bool := negb (collides tag e).

(** What a draw looks like: "EOF" + RandString(10, upper-case letters). *)
Fixpoint strip_prefix (p l : bytes) : option bytes :=
  match p, l with
  | [], _ => Some l
  | x :: p', y :: l' => if x =? y then strip_prefix p' l' else None
  | _ :: _, [] => None
  end.
Definition go_tag (t : bytes) : bool :=
  match strip_prefix EOF3 t with
  | Some r => Nat.eqb (length r) 10 && forallb is_upper r
  | None => false
  end.

(** dcmd: header, environment section, then the SSH-certificate block (two UNQUOTED
    here-documents appending to ~/.ssh — a neighbouring defect, modelled only as bytes). *)
Definition is_nil (b : bytes) : bool := match b with [] => true | _ => false end.
Definition cert_tail (tag pub sec : bytes) : res bytes :=
  if is_nil pub && is_nil sec then Ok []
  else if is_nil pub then Err
  else if is_nil sec then Err
  else Ok (MKDIR_SSH ++ CAT_HERE ++ tag ++ TO_PUB ++ pub ++ NL :: tag ++ NL :: CHMOD_PUB
           ++ CAT_HERE ++ tag ++ TO_SEC ++ sec ++ NL :: tag ++ NL :: CHMOD_SEC).
Definition dcmd_script (e : env) (tag pub sec : bytes) : res bytes :=
  match cert_tail tag pub sec with
  | Ok t => Ok (HEADER ++ env_section true tag e ++ t)
  | Err => Err
  | Panic => Panic
  end.
(** InitSequence(nil) *)
Definition dcmd_script_nil : bytes := HEADER.

(** ** (c) mini-sh *)

(** Lines: "a\nb\n" is ["a"; "b"; ""] — the last element is the unterminated rest. *)
Fixpoint split_lines (s : bytes) : list bytes :=
  match s with
  | [] => [[]]
  | c :: s' =>
    if c =? NL then [] :: split_lines s'
    else match split_lines s' with
         | l :: ls => (c :: l) :: ls
         | [] => [[c]]
         end
  end.
Definition join_nl (ls : list bytes) : bytes := flat_map (fun l => l ++ [NL]) ls.

(** Command substitution removes ALL trailing newlines. *)
Fixpoint drop_nl (s : bytes) : bytes :=
  match s with
  | c :: s' => if c =? NL then drop_nl s' else s
  | [] => []
  end.
Definition strip_nl (s : bytes) : bytes := rev (drop_nl (rev s)).

Inductive effect :=
| Exec (cmd : bytes)    (* a command run because a VALUE was interpreted: $(..)/`..` inside an
                           unquoted body, or a line executed inside K=$( .. ) after the body ended early *)
| Cmd (line : bytes).   (* a top-level command line of the script that the mini-sh does not interpret *)

Record shst := mkSh { sh_store : env; sh_exported : list bytes; sh_effects : list effect }.

Definition add_effect (e : effect) (s : shst) : shst := mkSh (sh_store s) (sh_exported s) (sh_effects s ++ [e]).
Definition add_effects (es : list effect) (s : shst) : shst := mkSh (sh_store s) (sh_exported s) (sh_effects s ++ es).
Definition add_export (k : bytes) (s : shst) : shst := mkSh (sh_store s) (k :: sh_exported s) (sh_effects s).
Definition bind (k v : bytes) (s : shst) : shst := mkSh (put k v (sh_store s)) (sh_exported s) (sh_effects s).

Inductive failure := FAbort | FUnsup.
(** FAbort: the shell reports a syntax error.  FUnsup: outside the fragment the mini-sh models
    (it makes no claim; the correspondence run counts these). *)

Inductive mode :=
| Top
| InHere (k tag : bytes) (quoted : bool) (acc : list bytes)   (* body lines so far, newest first *)
| AfterHere (k body : bytes)                                   (* body closed; waiting for the ")" line *)
| Dead (f : failure).

(** *** Assignment line  K=$(cat <<'TAG'   or   K=$(cat <<TAG *)
Fixpoint split_at (c : byte) (s : bytes) : option (bytes * bytes) :=
  match s with
  | [] => None
  | x :: s' => if x =? c then Some ([], s')
               else match split_at c s' with
                    | Some (a, b) => Some (x :: a, b)
                    | None => None
                    end
  end.
Definition tag_ok (t : bytes) : bool := negb (is_nil t) && forallb is_name_char t.
Definition parse_delim (w : bytes) : option (bytes * bool) :=
  match w with
  | [] => None
  | c :: r =>
    if c =? SQ then
      let t := removelast r in
      if (last r 0 =? SQ) && tag_ok t then Some (t, true) else None
    else if tag_ok w then Some (w, false) else None
  end.
Definition parse_assign (line : bytes) : option (bytes * bytes * bool) :=
  match split_at EQS line with
  | Some (k, r) =>
    if is_name k then
      match strip_prefix CAT_OPEN r with
      | Some w => match parse_delim w with
                  | Some (t, q) => Some (k, t, q)
                  | None => None
                  end
      | None => None
      end
    else None
  | None => None
  end.

(** *** Expansion of one line of an UNQUOTED here-document body *)
Fixpoint take_name (s : bytes) : bytes * bytes :=
  match s with
  | c :: s' => if is_name_char c then let (n, r) := take_name s' in (c :: n, r) else ([], s)
  | [] => ([], [])
  end.
Definition lookup_or_empty (k : bytes) (m : env) : bytes :=
  match lookup k m with Some v => v | None => [] end.
Definition is_special_param (c : byte) : bool :=
  (c =? 42) || (c =? 64) || (c =? 35) || (c =? 63) || (c =? 45) || (c =? 36) || (c =? 33).  (* * @ # ? - $ ! *)

(** The commands the mini-sh can account for inside $(..) / `..`:
      ""            nothing runs
      echo W        prints W          (W: letters, digits, _)
      : > W         creates a file, prints nothing
      W             an unknown utility (W contains an upper-case letter or is aaa..): not found,
                    prints nothing on stdout
    result: (effects, stdout with trailing newlines removed); None = not modelled. *)
Definition all_a (w : bytes) : bool := forallb (fun c => c =? 97) w.
Definition word_ok (w : bytes) : bool := negb (is_nil w) && forallb is_name_char w.
Definition cmd_class (body : bytes) : option (list effect * bytes) :=
  if is_nil body then Some ([], [])
  else match strip_prefix ECHO_SP body with
       | Some w => if word_ok w then Some ([Exec body], w) else None
       | None =>
         match strip_prefix COLON_GT body with
         | Some w => if word_ok w then Some ([Exec body], []) else None
         | None => if word_ok body && (existsb is_upper body || all_a body) then Some ([Exec body], []) else None
         end
       end.

Definition ex_cons (c : byte) (r : option (bytes * list effect)) : option (bytes * list effect) :=
  match r with Some (o, e) => Some (c :: o, e) | None => None end.
Definition ex_app (pre : bytes) (es : list effect) (r : option (bytes * list effect)) : option (bytes * list effect) :=
  match r with Some (o, e) => Some (pre ++ o, es ++ e) | None => None end.

(** [None] = not modelled (unterminated construct, trailing backslash = line continuation,
    positional/special parameters, nested or quoted command text, ${..} operators). *)
Fixpoint expand (fuel : nat) (st : env) (s : bytes) : option (bytes * list effect) :=
  match fuel with
  | O => None
  | S f =>
    match s with
    | [] => Some ([], [])
    | c :: r =>
      if c =? BSL then
        match r with
        | [] => None
        | d :: r' =>
          if (d =? DOLLAR) || (d =? BQ) || (d =? BSL) then ex_cons d (expand f st r')
          else ex_cons BSL (ex_cons d (expand f st r'))
        end
      else if c =? BQ then
        match split_at BQ r with
        | Some (body, r') =>
          match cmd_class body with
          | Some (es, out) => ex_app out es (expand f st r')
          | None => None
          end
        | None => None
        end
      else if c =? DOLLAR then
        match r with
        | [] => Some ([DOLLAR], [])
        | d :: r' =>
          if d =? LPAR then
            match split_at RPAR r' with
            | Some (body, r2) =>
              match cmd_class body with
              | Some (es, out) => ex_app out es (expand f st r2)
              | None => None
              end
            | None => None
            end
          else if d =? LBRACE then
            let (n, r2) := take_name r' in
            match r2 with
            | e :: r3 => if (e =? RBRACE) && is_name n then ex_app (lookup_or_empty n st) [] (expand f st r3) else None
            | [] => None
            end
          else if is_letter_us d then
            let (n, r2) := take_name r in ex_app (lookup_or_empty n st) [] (expand f st r2)
          else if is_digit d || is_special_param d then None
          else ex_cons DOLLAR (expand f st r)
        end
      else ex_cons c (expand f st r)
    end
  end.

Fixpoint expand_lines (st : env) (ls : list bytes) : option (bytes * list effect) :=
  match ls with
  | [] => Some ([], [])
  | l :: ls' =>
    match expand (S (length l)) st l with
    | Some (o, e) => ex_app (o ++ [NL]) e (expand_lines st ls')
    | None => None
    end
  end.

(** Body of a here-document: quoted delimiter = the lines as they are. *)
Definition heredoc_body (quoted : bool) (st : env) (ls : list bytes) : option (bytes * list effect) :=
  if quoted then Some (join_nl ls, []) else expand_lines st ls.

(** *** The line machine *)
Definition step_top (s : shst) (line : bytes) : mode * shst :=
  if is_nil line then (Top, s)
  else match parse_assign line with
       | Some (k, tag, q) => (InHere k tag q [], s)
       | None =>
         if bytes_eqb line SET || has_prefix line SET_SP then (Top, s)   (* set -e / set +x: options are not modelled *)
         else match strip_prefix EXPORT_SP line with
              | Some k => if is_name k then (Top, add_export k s) else (Top, add_effect (Cmd line) s)
              | None => (Top, add_effect (Cmd line) s)
              end
       end.

Definition step (ms : mode * shst) (line : bytes) : mode * shst :=
  let (m, s) := ms in
  match m with
  | Top => step_top s line
  | InHere k tag q acc =>
    if bytes_eqb line tag then
      match heredoc_body q (sh_store s) (rev acc) with
      | Some (body, es) => (AfterHere k body, add_effects es s)
      | None => (Dead FUnsup, s)
      end
    else (InHere k tag q (line :: acc), s)
  | AfterHere k body =>
    if bytes_eqb line [RPAR] then (Top, bind k (strip_nl body) s)
    else (AfterHere k body, add_effect (Exec line) s)   (* a command inside K=$( .. ): break-out *)
  | Dead f => (Dead f, s)
  end.

Definition run_lines (ls : list bytes) (ms : mode * shst) : mode * shst := fold_left step ls ms.

Inductive outcome := Done (s : shst) | Abort | Unsup.
Definition finish (ms : mode * shst) : outcome :=
  match fst ms with
  | Top => Done (snd ms)
  | Dead FUnsup => Unsup
  | _ => Abort          (* end of input inside K=$( .. *)
  end.

(** Feed [script] to the shell whose state is [s]. *)
Definition sh_run (s : shst) (script : bytes) : outcome := finish (run_lines (split_lines script) (Top, s)).

(** The state in which everything after the environment section runs, if the values arrive verbatim. *)
Definition after_env (e : env) (s : shst) : shst :=
  fold_left (fun s kv => add_export (fst kv) (bind (fst kv) (strip_nl (snd kv)) s)) e s.

(** Hypotheses of the theorems, as boolean functions. *)
Definition no_tag_line (tag v : bytes) : bool := forallb (fun l => negb (bytes_eqb l tag)) (split_lines v).
Definition no_nul (v : bytes) : bool := forallb (fun c => negb (c =? 0)) v.
Definition is_exec (e : effect) : bool := match e with Exec _ => true | Cmd _ => false end.
