(** C06, reference side: the operations of a cache history applied DIRECTLY to a plain tree (the
    tree-level operations of Model/Fs.v, with the cache's policy where the Filespace contract
    leaves a corner open: a recursive remove of a missing path is nothing to do, a copy onto an
    existing destination merges directories and overwrites files), and histories in which a
    Commit may fail any number of times, at any position, leaving ANY intermediate remote.
    Definitions only; the theorems are in Proofs/C06More.v. *)
From GC Require Import Common.Base Model.Paths Model.Fs Model.Cache.

Definition keep (t : fs) (r : option fs) : fs := match r with Some t' => t' | None => t end.

(** Copy on a plain tree: a file is written at the destination; a directory is created at the
    destination and every node below the source (as it was before the copy) is re-created
    below it. *)
Definition direct_copy (t : fs) (src dst : path) : fs :=
  match lookup t src with
  | Some (F data) => keep t (write_at t dst data)
  | Some D =>
    match mkdir_all t dst with
    | Some t1 => keep t (materialise t1 (subtree_moved t src dst))
    | None => t
    end
  | None => t
  end.

(** One (successful) mutating operation applied directly to a plain tree; reads and view
    creation leave the tree alone. *)
Definition direct_step (t : fs) (o : op) : fs :=
  match o with
  | OWriteFile s data => match cnorm s with Some p => keep t (write_at t p data) | None => t end
  | OWriter s chunks => match cnorm s with Some p => keep t (write_at t p (concat chunks)) | None => t end
  | OMkdirAll s => match cnorm s with Some p => keep t (mkdir_all t p) | None => t end
  | ORemove s => match cnorm s with Some p => keep t (remove_at t p) | None => t end
  | ORemoveAll s => match cnorm s with Some p => keep t (remove_all_at t p) | None => t end
  | OCopy s d | OCopyDir s d | OCopyFile s d =>
    match cnorm s, cnorm d with Some sp, Some dp => direct_copy t sp dp | _, _ => t end
  | _ => t
  end.

Definition direct_run (t : fs) (l : list op) : fs := fold_left direct_step l t.

(** The same four effects as functions on lookup tables (what a tree answers for every path). *)
Definition write_fn (f : path -> option entry) (p : path) (d : bytes) (q : path) : option entry :=
  if path_eqb q p then Some (F d) else if is_prefix q p then Some D else f q.
Definition mkdir_fn (f : path -> option entry) (p : path) (q : path) : option entry :=
  if is_prefix q p then Some D else f q.
Definition remove_fn (f : path -> option entry) (p : path) (q : path) : option entry :=
  if is_prefix p q then None else f q.
Definition copy_fn (f : path -> option entry) (src dst : path) (q : path) : option entry :=
  if is_prefix q dst then Some D
  else if is_prefix dst q then
    match f (src ++ skipn (length dst) q) with Some e => Some e | None => f q end
  else f q.

(** ** Histories with failing Commits
    [HFault rp]: a Commit during which the remote failed and which left the remote as [rp];
    buffer and tombstones are kept (the code returns the error before clearing anything). *)
Inductive hev :=
| HOp (o : op)
| HCommit
| HFault (rp : fs).

Definition hev_step (c : cache) (h : hev) : cache :=
  match h with
  | HOp o => fst (cache_step c (COp o))
  | HCommit => fst (cache_step c CCommit)
  | HFault rp => mkCache (cB c) rp (cT c)
  end.

Definition hrun (c : cache) (hs : list hev) : cache := fold_left hev_step hs c.

Definition is_unit (o : out) : bool := match o with RUnit => true | _ => false end.

(** The operations of a history that the cache reported as successful, in order. *)
Fixpoint succ_ops (c : cache) (hs : list hev) : list op :=
  match hs with
  | [] => []
  | h :: hs' =>
    let rest := succ_ops (hev_step c h) hs' in
    match h with
    | HOp o => if is_unit (snd (cache_step c (COp o))) then o :: rest else rest
    | _ => rest
    end
  end.

(** A copy whose source is a directory of the view. *)
Definition dircopy_src (c : cache) (o : op) : bool :=
  match o with
  | OCopy s _ | OCopyDir s _ => match cnorm s with Some sp => v_dir c sp | None => false end
  | _ => false
  end.

(** Executable validity of a history: every failed Commit left a remote that [partial_ok]
    accepts (the predicate the correspondence check evaluates on every observed failure), and no
    directory copy stopped half way. *)
Definition hev_ok (c : cache) (h : hev) : bool :=
  match h with
  | HOp o => negb (dircopy_src c o) || is_unit (snd (cache_step c (COp o)))
  | HCommit => true
  | HFault rp => partial_ok c rp
  end.

Fixpoint hist_ok (c : cache) (hs : list hev) : bool :=
  match hs with
  | [] => true
  | h :: hs' => hev_ok c h && hist_ok (hev_step c h) hs'
  end.
