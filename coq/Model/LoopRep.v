(** C08: what the CALLER of a loop is told, as an executable relation.

    After Wait() a caller holds two things: the callbacks that were made (it made them) and
    Loop.Errors().  [rep_ok nrep failed obs sel] is the property's reading of that pair against the
    selected set [sel]:

      - an EMPTY error list ([nrep] = 0) is the statement "every selected node was visited exactly
        once": the callbacks are the selected set as a multiset, and no callback or listing failure
        was returned to the loop ([failed] = false);
      - a non-empty list makes no promise about how far the walk got: the callbacks lie within the
        selected set as a multiset (nothing repeated, nothing unselected).

    Which entries the list has, their order and their texts are not looked at. *)
From GC Require Import Common.Base Model.Loop.

(** a within b, as multisets *)
Fixpoint within_b (a b : list item) : bool :=
  match a with
  | [] => true
  | x :: a' => match remove1 x b with Some b' => within_b a' b' | None => false end
  end.

Definition rep_ok (nrep : nat) (failed : bool) (obs sel : list item) : bool :=
  match nrep with
  | O => negb failed && perm_b obs sel
  | S _ => within_b obs sel
  end.
