(** The plain tree-of-named-nodes model and the in-memory filespace (memfs) step function.

    A file system is an insertion-ordered association list from *reduced* paths (component
    lists) to entries; the root [[]] is an implicit directory.  The order of the list is the
    creation order, which is what memfs listings show.  All 16 Filespace operations take RAW
    byte-string paths, exactly as the Go API does; normalisation is [Paths.reduce]
    (varutil.ReduceAbsPath), applied where filesystem/filespace/memfs applies it.

    Definitions only; proofs are in Proofs/Fs.v. *)
From GC Require Import Common.Base Model.Paths.

Inductive entry := F (data : bytes) | D.
Definition fs := list (path * entry).

Fixpoint assoc (t : fs) (p : path) : option entry :=
  match t with
  | [] => None
  | (q, e) :: t' => if path_eqb q p then Some e else assoc t' p
  end.

(** The root is always a directory. *)
Definition lookup (t : fs) (p : path) : option entry :=
  match p with [] => Some D | _ => assoc t p end.

Definition is_dir_at (t : fs) (p : path) : bool :=
  match lookup t p with Some D => true | _ => false end.
Definition is_file_at (t : fs) (p : path) : bool :=
  match lookup t p with Some (F _) => true | _ => false end.
Definition exists_at (t : fs) (p : path) : bool :=
  match lookup t p with Some _ => true | None => false end.

(** Direct children of [p], in creation order: (name, is_dir). *)
Fixpoint children (t : fs) (p : path) : list (name * bool) :=
  match t with
  | [] => []
  | (q, e) :: t' =>
    let rest := children t' p in
    if is_prefix p q && Nat.eqb (length q) (S (length p)) then
      (last q [], match e with D => true | F _ => false end) :: rest
    else rest
  end.

Definition has_children (t : fs) (p : path) : bool :=
  existsb (fun qe => is_prefix p (fst qe) && negb (Nat.eqb (length (fst qe)) (length p))) t.

(** Go outcome of a call that returns only an error. *)
Inductive out :=
| RUnit                                   (* nil error *)
| RErr                                    (* non-nil error *)
| RBool (b : bool)
| RData (d : bytes)
| RList (l : list (name * bool))
| RStat (isdir : bool) (size : N)         (* size only meaningful for files *)
| RChunks (l : list (bytes * bool)).      (* successive Read results: (data, eof) *)

(** ** Tree-level operations on reduced paths *)

(** All prefixes of [p] of length 1..length p, shortest first. *)
Fixpoint prefixes_from (pre : path) (p : path) : list path :=
  match p with
  | [] => []
  | n :: p' => (pre ++ [n]) :: prefixes_from (pre ++ [n]) p'
  end.
Definition prefixes (p : path) : list path := prefixes_from [] p.

(** mkdirAllNodes: walk down creating missing directories; error at the first component that
    exists and is a file.  (Everything before that component already existed, so an error never
    leaves new directories behind.) *)
Fixpoint mkdir_chain (t : fs) (l : list path) : option fs :=
  match l with
  | [] => Some t
  | q :: l' =>
    match lookup t q with
    | Some D => mkdir_chain t l'
    | Some (F _) => None
    | None => mkdir_chain (t ++ [(q, D)]) l'
    end
  end.
Definition mkdir_all (t : fs) (p : path) : option fs := mkdir_chain t (prefixes p).

Fixpoint replace_entry (t : fs) (p : path) (e : entry) : fs :=
  match t with
  | [] => []
  | (q, e0) :: t' => if path_eqb q p then (q, e) :: t' else (q, e0) :: replace_entry t' p e
  end.

(** WriteFile / Writer+Close on a reduced, non-root path. *)
Definition write_at (t : fs) (p : path) (data : bytes) : option fs :=
  match mkdir_all t (removelast p) with
  | None => None
  | Some t1 =>
    match lookup t1 p with
    | None => Some (t1 ++ [(p, F data)])
    | Some (F _) => Some (replace_entry t1 p (F data))
    | Some D => None
    end
  end.

Definition delete_subtree (t : fs) (p : path) : fs :=
  filter (fun qe => negb (is_prefix p (fst qe))) t.

Definition remove_at (t : fs) (p : path) : option fs :=
  if negb (is_dir_at t (removelast p)) then None else
  match lookup t p with
  | None => None
  | Some (F _) => Some (delete_subtree t p)
  | Some D => if has_children t p then None else Some (delete_subtree t p)
  end.

Definition remove_all_at (t : fs) (p : path) : option fs :=
  if negb (is_dir_at t (removelast p)) then None else
  match lookup t p with
  | None => None
  | Some _ => Some (delete_subtree t p)
  end.

(** The entries strictly below [src], re-rooted at [dst], in creation order. *)
Definition subtree_moved (t : fs) (src dst : path) : fs :=
  flat_map (fun qe =>
    if is_prefix src (fst qe) && negb (Nat.eqb (length (fst qe)) (length src))
    then [(dst ++ skipn (length src) (fst qe), snd qe)] else []) t.

Inductive copy_kind := CAny | CDirOnly | CFileOnly.

(** Copy / CopyDirectory / CopyFile on reduced paths ([dst] non-root).  Order as in memfs:
    look the source up and check its kind; create the destination's parents; take the deep copy
    (AFTER the parents exist — this matters when the source contains them); add it, failing
    when the destination name is already taken. *)
Definition copy_at (k : copy_kind) (t : fs) (src dst : path) : option fs :=
  match lookup t src with
  | None => None
  | Some e =>
    let kind_ok := match k, e with
                   | CAny, _ => true | CDirOnly, D => true | CFileOnly, F _ => true
                   | _, _ => false end in
    if negb kind_ok then None else
    match mkdir_all t (removelast dst) with
    | None => None
    | Some t1 =>
      match lookup t1 dst with
      | Some _ => None
      | None =>
        match e with
        | F data => Some (t1 ++ [(dst, F data)])
        | D => Some (t1 ++ (dst, D) :: subtree_moved t1 src dst)
        end
      end
    end
  end.

(** Successive Read calls on a reader with the given buffer sizes, until EOF is reported or
    the sizes run out (memfs FileHandler.Read: copies min(len buf, remaining), reports EOF in
    the same call that reaches the end). *)
Fixpoint read_seq (data : bytes) (bufs : list nat) : list (bytes * bool) :=
  match bufs with
  | [] => []
  | n :: bufs' =>
    let chunk := firstn n data in
    let rest := skipn n data in
    match rest with
    | [] => [(chunk, true)]
    | _ => (chunk, false) :: read_seq rest bufs'
    end
  end.

(** ** The 16 operations with raw path arguments *)
Inductive op :=
| OCopy (src dst : bytes)
| OCopyDir (src dst : bytes)
| OCopyFile (src dst : bytes)
| OReadDir (p : bytes)
| OIsExist (p : bytes)
| OIsFile (p : bytes)
| OIsDir (p : bytes)
| OMkdirAll (p : bytes)
| OReadFile (p : bytes)
| OWriteFile (p : bytes) (data : bytes)
| OFilespace (p : bytes)                          (* create a child view: only the creation result *)
| OReader (p : bytes) (bufs : list nat)           (* open, Read with these buffer sizes, Close *)
| OWriter (p : bytes) (chunks : list bytes)       (* open, Write each chunk, Close *)
| ORemove (p : bytes)
| ORemoveAll (p : bytes)
| OLstat (p : bytes).

(** reduceNodePath: reduce, and reject the root. *)
Definition reduce_node (s : bytes) : option path :=
  match reduce s with
  | Some [] => None
  | r => r
  end.

Definition upd (t : fs) (r : option fs) : fs * out :=
  match r with Some t' => (t', RUnit) | None => (t, RErr) end.

(** memfs root filespace: one step.  Errors never change the tree. *)
Definition mem_step (t : fs) (o : op) : fs * out :=
  match o with
  | OCopy s d =>
    match reduce s, reduce_node d with
    | Some sp, Some dp => upd t (copy_at CAny t sp dp)
    | _, _ => (t, RErr)
    end
  | OCopyDir s d =>
    match reduce s, reduce_node d with
    | Some sp, Some dp => upd t (copy_at CDirOnly t sp dp)
    | _, _ => (t, RErr)
    end
  | OCopyFile s d =>
    match reduce_node s, reduce_node d with
    | Some sp, Some dp => upd t (copy_at CFileOnly t sp dp)
    | _, _ => (t, RErr)
    end
  | OReadDir s =>
    match reduce s with
    | Some p => if is_dir_at t p then (t, RList (children t p)) else (t, RErr)
    | None => (t, RErr)
    end
  | OIsExist s =>
    match reduce s with Some p => (t, RBool (exists_at t p)) | None => (t, RBool false) end
  | OIsFile s =>
    match reduce_node s with Some p => (t, RBool (is_file_at t p)) | None => (t, RBool false) end
  | OIsDir s =>
    match reduce s with Some p => (t, RBool (is_dir_at t p)) | None => (t, RBool false) end
  | OMkdirAll s =>
    match reduce s with Some p => upd t (mkdir_all t p) | None => (t, RErr) end
  | OReadFile s =>
    match reduce_node s with
    | Some p => match lookup t p with Some (F d) => (t, RData d) | _ => (t, RErr) end
    | None => (t, RErr)
    end
  | OWriteFile s data =>
    match reduce_node s with Some p => upd t (write_at t p data) | None => (t, RErr) end
  | OFilespace s =>
    match reduce s with Some _ => (t, RUnit) | None => (t, RErr) end
  | OReader s bufs =>
    match reduce_node s with
    | Some p => match lookup t p with Some (F d) => (t, RChunks (read_seq d bufs)) | _ => (t, RErr) end
    | None => (t, RErr)
    end
  | OWriter s chunks =>
    match reduce_node s with Some p => upd t (write_at t p (concat chunks)) | None => (t, RErr) end
  | ORemove s =>
    match reduce_node s with Some p => upd t (remove_at t p) | None => (t, RErr) end
  | ORemoveAll s =>
    match reduce_node s with Some p => upd t (remove_all_at t p) | None => (t, RErr) end
  | OLstat s =>
    match reduce s with
    | Some p =>
      match lookup t p with
      | Some D => (t, RStat true 0)
      | Some (F d) => (t, RStat false (N.of_nat (length d)))
      | None => (t, RErr)
      end
    | None => (t, RErr)
    end
  end.

(** ** Child views (memfs/wraper.go).  A view holds the string [base] = join(reduced base) ++ `/`.
    Each method reduces its argument (rejecting the view's own root where a node name is
    required), CONCATENATES base and the reduced argument, and calls the root filespace with
    that string, which reduces it again. *)

Definition view_base (comps : path) : bytes := join comps ++ [SLASH].

Definition wrap (base : bytes) (r : path) : bytes := base ++ join r.

Definition needs_name (o : op) : bool :=
  match o with
  | OIsFile _ | OReadFile _ | OWriteFile _ _ | OReader _ _ | OWriter _ _
  | ORemove _ | ORemoveAll _ => true
  | _ => false
  end.

(** The default answer of a method whose own argument check fails. *)
Definition fail_out (o : op) : out :=
  match o with
  | OIsExist _ | OIsFile _ | OIsDir _ => RBool false
  | _ => RErr
  end.

Definition view_step (base : bytes) (t : fs) (o : op) : fs * out :=
  let one (s : bytes) (name_needed : bool) (k : bytes -> op) :=
    match (if name_needed then reduce_node s else reduce s) with
    | Some r => mem_step t (k (wrap base r))
    | None => (t, fail_out o)
    end in
  let two (s d : bytes) (src_name_needed : bool) (k : bytes -> bytes -> op) :=
    match (if src_name_needed then reduce_node s else reduce s), reduce_node d with
    | Some sr, Some dr => mem_step t (k (wrap base sr) (wrap base dr))
    | _, _ => (t, RErr)
    end in
  match o with
  | OCopy s d => two s d false OCopy
  | OCopyDir s d => two s d false OCopyDir
  | OCopyFile s d => two s d true OCopyFile
  | OReadDir s => one s false OReadDir
  | OIsExist s => one s false OIsExist
  | OIsFile s => one s true OIsFile
  | OIsDir s => one s false OIsDir
  | OMkdirAll s => one s false OMkdirAll
  | OReadFile s => one s true OReadFile
  | OWriteFile s data => one s true (fun x => OWriteFile x data)
  | OFilespace s => one s false OFilespace
  | OReader s bufs => one s true (fun x => OReader x bufs)
  | OWriter s chunks => one s true (fun x => OWriter x chunks)
  | ORemove s => one s true ORemove
  | ORemoveAll s => one s true ORemoveAll
  | OLstat s => one s false OLstat
  end.

(** Creating a view of a view: NewFilespaceWrapper(root, base ++ reduced arg), i.e. the new base
    string is join(reduce(base ++ join r)) ++ `/`.  [None] = creation failed. *)
Definition sub_view (base : option bytes) (s : bytes) : option bytes :=
  match reduce s with
  | None => None
  | Some r =>
    let full := match base with None => join r | Some b => wrap b r end in
    match reduce full with
    | Some comps => Some (view_base comps)
    | None => None
    end
  end.

(** A history step: an operation issued on the root ([[]]) or on a view reached by nesting
    Filespace(b1).Filespace(b2)…; if some view in the chain cannot be created the step is a
    no-op reporting an error. *)
Fixpoint resolve_view (base : option bytes) (chain : list bytes) : option (option bytes) :=
  match chain with
  | [] => Some base
  | b :: chain' =>
    match sub_view base b with
    | None => None
    | Some nb => resolve_view (Some nb) chain'
    end
  end.

Definition hist_step (t : fs) (vo : list bytes * op) : fs * out :=
  match resolve_view None (fst vo) with
  | None => (t, RErr)
  | Some None => mem_step t (snd vo)
  | Some (Some b) => view_step b t (snd vo)
  end.

Definition run_hist (t : fs) (h : list (list bytes * op)) : fs := fold_left (fun t vo => fst (hist_step t vo)) h t.

(** ** Well-formedness of a tree *)
Definition all_keys (t : fs) : list path := map fst t.

Fixpoint nodup_paths (l : list path) : bool :=
  match l with
  | [] => true
  | p :: l' => negb (existsb (path_eqb p) l') && nodup_paths l'
  end.

Definition parents_ok (t : fs) : bool :=
  forallb (fun qe => match fst qe with
                     | [] => false
                     | q => is_dir_at t (removelast q)
                     end) t.

Definition wf (t : fs) : bool :=
  nodup_paths (all_keys t) && parents_ok t && forallb (fun qe => good_path (fst qe)) t.
