(** Model of goatcore's encrypted filespace (filesystem/filespace/encryptfs and its two ciphers
    cipherfs/aesgcm256cfs, cipherfs/extcfs) as the code is NOW (after fix commits 6fa4bcf, f112ba8).

    The cryptographic primitives are section variables:
      seal k n p   = cipher.AEAD.Seal(nil, n, p, nil) of AES-256-GCM  (ciphertext ++ 16-byte tag)
      open k n c   = cipher.AEAD.Open(nil, n, c, nil)                 (None = authentication failed)
      hash m       = SHA3-256(m)   (aesgcm256cfs/helpers.go hash256)
      hostid       = idutil.HostID()  -- ALWAYS "" in the current tree (the named result of HostID
                     shadows the package variable), so HostOnly is a no-op today; kept as a
                     parameter so that the model survives a repair of that function.
    What is assumed about them is stated as named predicates at the end of this file and appears
    as explicit premises of the theorems in Props/C05.v.  Definitions only; proofs in Proofs/Enc.v. *)
From GC Require Import Common.Base.
From Coq Require Import ZArith.

Definition nonce := bytes.
Definition path := bytes.

Inductive cipher := Raw (* aesgcm256cfs.Cipher *) | Tagged (* extcfs.Cipher, default AESGCM256CFS *).
Inductive rpath := RFile (* ReadFile *) | RStream (* Reader + read all + Close *).
(** A write request: WriteFile(path, d) or Writer(path); Write(chunk) ...; Close(). *)
Inductive wreq := WriteFile (d : bytes) | WriteStream (chunks : list bytes).
Definition wreq_data (w : wreq) : bytes :=
  match w with WriteFile d => d | WriteStream chunks => concat chunks end.

(** encryptfs.Settings without the Cipher field. *)
Record settings := { secret : bytes; salt : bytes; hostonly : bool }.

Definition NONCE_SIZE : nat := 12.   (* gcm.NonceSize() *)
Definition TAG_SIZE : nat := 4.      (* extcfs cipher key: uint32 *)
Definition OVERHEAD : nat := 16.     (* gcm.Overhead() *)

(** Go slice expressions d[:n] and d[n:] : run-time panic when n > len(d). *)
Definition slice_to (n : nat) (d : bytes) : res bytes :=
  if Nat.leb n (length d) then Ok (firstn n d) else Panic.
Definition slice_from (n : nat) (d : bytes) : res bytes :=
  if Nat.leb n (length d) then Ok (skipn n d) else Panic.

(** binary.LittleEndian.Uint32(b): the bounds check b[3] panics on fewer than 4 bytes. *)
Definition le32 (b : bytes) : res N :=
  match b with
  | b0 :: b1 :: b2 :: b3 :: _ => Ok (b0 + 256 * b1 + 65536 * b2 + 16777216 * b3)
  | _ => Panic
  end.
(** CipherKey.ToBinary *)
Definition le32_bytes (v : N) : bytes :=
  [v mod 256; (v / 256) mod 256; (v / 65536) mod 256; (v / 16777216) mod 256].
Definition AESGCM256CFS : N := 0.
Definition cipher_tag : bytes := le32_bytes AESGCM256CFS.
(** extcfs.AllCiphers: the only registered cipher id. *)
Definition known_cipher (id : N) : bool := N.eqb id AESGCM256CFS.

(** Bytes in front of the nonce. *)
Definition header (c : cipher) : bytes := match c with Raw => [] | Tagged => cipher_tag end.

(** The base reader handed to DecryptReader: pending bytes, whether the stream ends with an I/O
    error instead of io.EOF, whether Close reports an error, and how often Close was called. *)
Record stream := { s_data : bytes; s_fail : bool; s_close_err : bool; s_closes : nat }.
Definition mkstream (d : bytes) : stream :=
  {| s_data := d; s_fail := false; s_close_err := false; s_closes := 0 |}.
(** io.ReadFull(stream, buf[0:n]) : Some = n bytes delivered; None = EOF / ErrUnexpectedEOF / I/O error. *)
Definition read_full (n : nat) (st : stream) : option bytes * stream :=
  if Nat.ltb (length (s_data st)) n
  then (None, {| s_data := []; s_fail := s_fail st; s_close_err := s_close_err st; s_closes := s_closes st |})
  else (Some (firstn n (s_data st)),
        {| s_data := skipn n (s_data st); s_fail := s_fail st; s_close_err := s_close_err st; s_closes := s_closes st |}).
(** ioutil.ReadAll(stream) *)
Definition read_all (st : stream) : option bytes * stream :=
  let st' := {| s_data := []; s_fail := s_fail st; s_close_err := s_close_err st; s_closes := s_closes st |} in
  if s_fail st then (None, st') else (Some (s_data st), st').
(** stream.Close() : true = no error.  The call is counted whatever it returns. *)
Definition close (st : stream) : bool * stream :=
  (negb (s_close_err st),
   {| s_data := s_data st; s_fail := s_fail st; s_close_err := s_close_err st; s_closes := S (s_closes st) |}).
(** Handles still open: the one Reader() opened minus the Close calls made. *)
Definition open_handles (st : stream) : Z := (1 - Z.of_nat (s_closes st))%Z.

(** The base writer handed to EncryptWriter: bytes pushed so far; the encrypting writer's buffer. *)
Record wstate := { w_out : bytes; w_buf : bytes }.

Section Enc.
  Variable key : Type.
  Variable seal : key -> nonce -> bytes -> bytes.
  Variable open : key -> nonce -> bytes -> option bytes.
  Variable hash : bytes -> key.
  Variable hostid : bytes.

  (** NewEncryptFS: fs.hash = Secret ++ (HostOnly ? HostID() : "") ++ Salt  -- no separators. *)
  Definition keymat (s : settings) : bytes :=
    secret s ++ (if hostonly s then hostid else []) ++ salt s.

  (** aesgcm256cfs.Cipher.Encrypt with the random nonce made explicit: gcm.Seal(nonce, nonce, data, nil). *)
  Definition raw_encrypt (km : bytes) (n : nonce) (p : bytes) : bytes := n ++ seal (hash km) n p.

  (** aesgcm256cfs.Cipher.Decrypt: length guard, then data[:12], data[12:], gcm.Open. *)
  Definition raw_decrypt (km : bytes) (d : bytes) : res bytes :=
    if Nat.ltb (length d) NONCE_SIZE then Err else
    match slice_to NONCE_SIZE d, slice_from NONCE_SIZE d with
    | Ok n, Ok c => match open (hash km) n c with Some p => Ok p | None => Err end
    | _, _ => Panic
    end.

  (** extcfs.Cipher.Encrypt / Decrypt *)
  Definition ext_encrypt (km : bytes) (n : nonce) (p : bytes) : bytes := cipher_tag ++ raw_encrypt km n p.
  Definition ext_decrypt (km : bytes) (d : bytes) : res bytes :=
    if Nat.ltb (length d) TAG_SIZE then Err else
    match slice_to TAG_SIZE d with
    | Ok t =>
      match le32 t with
      | Ok id =>
        if known_cipher id
        then match slice_from TAG_SIZE d with Ok r => raw_decrypt km r | _ => Panic end
        else Err
      | _ => Panic
      end
    | _ => Panic
    end.

  Definition encrypt (c : cipher) : bytes -> nonce -> bytes -> bytes :=
    match c with Raw => raw_encrypt | Tagged => ext_encrypt end.
  Definition decrypt (c : cipher) : bytes -> bytes -> res bytes :=
    match c with Raw => raw_decrypt | Tagged => ext_decrypt end.

  (** The nonce field of a stored value (what Decrypt passes to gcm.Open). *)
  Definition nonce_field (c : cipher) (s : bytes) : nonce :=
    firstn NONCE_SIZE (skipn (length (header c)) s).
  Definition sealed_field (c : cipher) (s : bytes) : bytes :=
    skipn NONCE_SIZE (skipn (length (header c)) s).

  (** Stream writer.  extcfs.EncryptWriter writes the tag at once; aesgcm newWriter buffers every
      Write; Close seals the buffer as ONE message, writes it and closes the base writer.
      Result of the whole session = the bytes the base writer received. *)
  Definition writer_open (c : cipher) : wstate := {| w_out := header c; w_buf := [] |}.
  Definition writer_write (st : wstate) (p : bytes) : wstate :=
    {| w_out := w_out st; w_buf := w_buf st ++ p |}.
  Definition writer_close (km : bytes) (n : nonce) (st : wstate) : bytes :=
    w_out st ++ raw_encrypt km n (w_buf st).
  Definition stream_write (c : cipher) (km : bytes) (n : nonce) (chunks : list bytes) : bytes :=
    writer_close km n (fold_left writer_write chunks (writer_open c)).

  (** Bytes that reach the base filespace for a write request. *)
  Definition store (c : cipher) (km : bytes) (n : nonce) (w : wreq) : bytes :=
    match w with
    | WriteFile d => encrypt c km n d
    | WriteStream chunks => stream_write c km n chunks
    end.

  (** aesgcm256cfs newReader: ReadAll (on error: Close, error); Close (error -> error); Decrypt. *)
  Definition raw_reader (km : bytes) (st : stream) : res bytes * stream :=
    match read_all st with
    | (None, st1) => (Err, snd (close st1))
    | (Some buf, st1) =>
      match close st1 with
      | (false, st2) => (Err, st2)
      | (true, st2) => (raw_decrypt km buf, st2)
      end
    end.
  (** extcfs DecryptReader: ReadFull 4 bytes (error: Close, error); NewCipherKey; map lookup
      (unknown: Close, error); hand the rest of the stream to the selected cipher. *)
  Definition ext_reader (km : bytes) (st : stream) : res bytes * stream :=
    match read_full TAG_SIZE st with
    | (None, st1) => (Err, snd (close st1))
    | (Some t, st1) =>
      match le32 t with
      | Ok id => if known_cipher id then raw_reader km st1 else (Err, snd (close st1))
      | _ => (Panic, st1)
      end
    end.
  (** Cipher.DecryptReader followed by reading the returned in-memory reader to its end and closing it. *)
  Definition decrypt_reader (c : cipher) : bytes -> stream -> res bytes * stream :=
    match c with Raw => raw_reader | Tagged => ext_reader end.

  (** Read of a stored byte string through either path (no I/O fault in the base). *)
  Definition read_stored (rp : rpath) (c : cipher) (km : bytes) (s : bytes) : res bytes :=
    match rp with
    | RFile => decrypt c km s
    | RStream => fst (decrypt_reader c km (mkstream s))
    end.

  (** The filespace level.  The base filespace is a map from path to content plus a counter of the
      reader handles currently open on it; everything else about it is opaque. *)
  Record fsst := { files : path -> option bytes; handles : nat }.
  Definition upd (f : path -> option bytes) (p : path) (d : bytes) : path -> option bytes :=
    fun q => if bytes_eqb q p then Some d else f q.

  (** EncryptFS.WriteFile / EncryptFS.Writer...Close *)
  Definition fs_write (c : cipher) (s : settings) (n : nonce) (st : fsst) (p : path) (w : wreq) : fsst :=
    {| files := upd (files st) p (store c (keymat s) n w); handles := handles st |}.
  (** EncryptFS.ReadFile / EncryptFS.Reader...ReadAll...Close.  A missing file is the base's error. *)
  Definition fs_read (rp : rpath) (c : cipher) (s : settings) (st : fsst) (p : path) : res bytes * fsst :=
    match files st p with
    | None => (Err, st)
    | Some d =>
      match rp with
      | RFile => (decrypt c (keymat s) d, st)
      | RStream =>
        let (r, sm) := decrypt_reader c (keymat s) (mkstream d) in
        (r, {| files := files st; handles := handles st + 1 - s_closes sm |})
      end
    end.

  (** Name-space operations (Copy, CopyDirectory, CopyFile, ReadDir, IsExist, IsFile, IsDir,
      MkdirAll, Remove, RemoveAll, Lstat): EncryptFS hands the arguments to the base unchanged. *)
  Variable nsop nsres : Type.
  Variable base_ns : nsop -> (path -> option bytes) -> nsres * (path -> option bytes).
  Definition fs_ns (op : nsop) (st : fsst) : nsres * fsst :=
    let (r, f) := base_ns op (files st) in (r, {| files := f; handles := handles st |}).
End Enc.

(** What is assumed about AES-256-GCM (crypto/aes + cipher.NewGCM).  These are premises of the
    theorems, never global declarations. *)
(* H1: Open inverts Seal. *)
Definition aead_correct {key} (seal : key -> nonce -> bytes -> bytes) (open : key -> nonce -> bytes -> option bytes) : Prop :=
  forall k n p, open k n (seal k n p) = Some p.
(* H2 (ideal integrity): Open accepts nothing but Seal outputs of the same key and nonce. *)
Definition aead_ideal {key} (seal : key -> nonce -> bytes -> bytes) (open : key -> nonce -> bytes -> option bytes) : Prop :=
  forall k n c p, open k n c = Some p -> c = seal k n p.
(* H4: Seal appends a 16-byte tag. *)
Definition aead_len {key} (seal : key -> nonce -> bytes -> bytes) : Prop :=
  forall k n p, length (seal k n p) = (length p + OVERHEAD)%nat.
(* H5 (separation): a sealed message opens only under its own key and its own nonce
   (nonces of the standard size; crypto/cipher's GCM refuses any other nonce length). *)
Definition aead_separated {key} (seal : key -> nonce -> bytes -> bytes) (open : key -> nonce -> bytes -> option bytes) : Prop :=
  forall k n p k' n' p', length n = NONCE_SIZE -> length n' = NONCE_SIZE ->
    open k' n' (seal k n p) = Some p' -> k' = k /\ n' = n.
(* "c is a sealed message under k, n" -- used to say what a forgery would be. *)
Definition sealed_under {key} (seal : key -> nonce -> bytes -> bytes) (k : key) (n : nonce) (c : bytes) : Prop :=
  exists p, c = seal k n p.

(** A toy AEAD over keys in N that satisfies H1, H2, H4, H5 (proved in Proofs/Enc.v): shows the
    premises are jointly satisfiable and gives the [Example]s something to compute with. *)
Definition pad12 (n : nonce) : bytes := firstn 12 (n ++ repeat 0 12).
Definition toy_mac (k : N) (n : nonce) (p : bytes) : bytes :=
  k :: pad12 n ++ [fold_left N.add p 0; N.of_nat (length p); 7].
Definition toy_seal (k : N) (n : nonce) (p : bytes) : bytes := p ++ toy_mac k n p.
Definition toy_open (k : N) (n : nonce) (c : bytes) : option bytes :=
  let p := firstn (length c - 16) c in
  if Nat.leb 16 (length c) && bytes_eqb c (toy_seal k n p) then Some p else None.
Definition toy_hash (m : bytes) : N := fold_left (fun a b => 257 * a + b + 1) m 0.
