(** Streams: writer sessions, reader sessions, Go's io.Copy loop and fshelper.StreamCopy /
    Copier.copyFile under a fault plan.  Definitions only; proofs are in Proofs/Stream.v.

    Code modelled (as it is in /repo now):
      memfs/file_handler.go  newFileWriteHandler (data := [] at open), Write (append), Read
                             (copy min(len p, remaining); io.EOF in the call that reaches the end)
      diskfs/filespace.go    Writer = O_WRONLY|O_CREATE|O_TRUNC (no parent creation), Reader = *os.File
                             (data calls return (n, nil); a further call returns (0, io.EOF);
                             a zero-length buffer returns (0, nil))
      aesgcm256cfs reader    whole plaintext in memory, EOF when the remainder becomes empty (eager)
      fshelper/main.go       StreamCopy; fshelper/copier.go copyFile (same statement sequence)
      io.Copy                the generic loop of io.copyBuffer (buffer 32 KiB = parameter [B]):
                             Read; if n > 0 Write (error or short write aborts); EOF ends the loop;
                             any other Read error aborts. *)
From GC Require Import Common.Base Model.Paths Model.Fs.

(** ** Writer sessions *)

(** What Writer() does with the previous content.  [Truncate] is the current memfs (after f5ca759)
    and diskfs (after d1df29a); [Append] is memfs before the fix (F05), [OverwriteInPlace] is
    diskfs before the fix (F06: O_WRONLY|O_CREATE without O_TRUNC). *)
Inductive wpolicy := Truncate | Append | OverwriteInPlace.

(** A writer handle: the file content and the write offset. *)
Definition wstate := (bytes * nat)%type.

Definition w_open (pol : wpolicy) (old : option bytes) : wstate :=
  let o := match old with Some b => b | None => [] end in
  match pol with
  | Truncate => ([], O)
  | Append => (o, length o)
  | OverwriteInPlace => (o, O)
  end.

(** Write(chunk) at the current offset (pwrite semantics: bytes beyond the chunk are kept). *)
Definition w_write (st : wstate) (chunk : bytes) : wstate :=
  let (c, pos) := st in
  (firstn pos c ++ chunk ++ skipn (pos + length chunk) c, (pos + length chunk)%nat).

(** open, Write each chunk, Close: the content of the file afterwards. *)
Definition writer_result (pol : wpolicy) (old : option bytes) (chunks : list bytes) : bytes :=
  fst (fold_left w_write chunks (w_open pol old)).

(** ** Reader sessions *)

(** [EofEager]: EOF is reported by the call that reaches the end (memfs, decrypting reader);
    this is [Fs.read_seq].  [EofLazy]: os.File — EOF is reported by the first call made at the
    end with a non-empty buffer and carries no data; a zero-length buffer never reports EOF. *)
Inductive eof_style := EofEager | EofLazy.

Fixpoint read_lazy (data : bytes) (bufs : list nat) : list (bytes * bool) :=
  match bufs with
  | [] => []
  | n :: bufs' =>
    match n with
    | O => ([], false) :: read_lazy data bufs'
    | S _ =>
      match data with
      | [] => [([], true)]
      | _ => (firstn n data, false) :: read_lazy (skipn n data) bufs'
      end
    end
  end.

(** Successive Read calls with the given buffer sizes, until EOF is reported or the sizes run out. *)
Definition read_calls (st : eof_style) (data : bytes) (bufs : list nat) : list (bytes * bool) :=
  match st with EofEager => read_seq data bufs | EofLazy => read_lazy data bufs end.

(** One Read call with a buffer of size [n] on the remaining bytes [rest]: (data, eof). *)
Definition read_one (st : eof_style) (rest : bytes) (n : nat) : bytes * bool :=
  match st with
  | EofEager => (firstn n rest, match skipn n rest with [] => true | _ => false end)
  | EofLazy => match n, rest with
               | O, _ => ([], false)
               | _, [] => ([], true)
               | _, _ => (firstn n rest, false)
               end
  end.

Definition chunks_concat (l : list (bytes * bool)) : bytes := concat (map fst l).
Definition saw_eof (l : list (bytes * bool)) : bool := existsb snd l.

(** ** Fault plans *)

(** The k-th call (0-based, counted over the whole copy) of the named primitive fails. *)
Inductive fault :=
| FReader (k : nat)     (* source.Reader(path) *)
| FWriter (k : nat)     (* destination.Writer(path) *)
| FRead (k : nat)       (* Read on a source handle *)
| FWrite (k : nat)      (* Write on a destination handle *)
| FCloseW (k : nat)     (* Close of a destination handle *)
| FCloseR (k : nat)     (* Close of a source handle *)
| FMkdir (k : nat)      (* destination.MkdirAll *)
| FReadDir (k : nat).   (* source.ReadDir (made by the walk) *)

(** A plan says for every primitive call whether it fails: no fault, one fault, or any set. *)
Definition plan := fault -> bool.
Definition no_fault : plan := fun _ => false.

Definition fault_eqb (a b : fault) : bool :=
  match a, b with
  | FReader x, FReader y | FWriter x, FWriter y | FRead x, FRead y | FWrite x, FWrite y
  | FCloseW x, FCloseW y | FCloseR x, FCloseR y | FMkdir x, FMkdir y | FReadDir x, FReadDir y => Nat.eqb x y
  | _, _ => false
  end.
Definition single (f : fault) : plan := fun g => fault_eqb f g.
Definition plan_of (o : option fault) : plan := match o with Some f => single f | None => no_fault end.

(** Call counters threaded through a copy. *)
Record ctr := mkCtr { n_reader : nat; n_writer : nat; n_read : nat; n_write : nat;
                      n_closew : nat; n_closer : nat; n_mkdir : nat }.
Definition ctr0 : ctr := mkCtr 0 0 0 0 0 0 0.

Inductive cres := COk | CErr | CFuel.   (* CFuel never comes out of [io_copy]: Proofs.Stream.io_copy_fuel *)

(** ** io.Copy *)

(** [rest]: bytes the reader has not delivered yet; [acc]: bytes the writer accepted so far;
    [kr], [kw]: Read / Write calls made so far.  A failing Write accepts nothing. *)
Fixpoint io_copy_loop (fuel : nat) (pl : plan) (st : eof_style) (B : nat)
         (rest acc : bytes) (kr kw : nat) : cres * bytes * nat * nat :=
  match fuel with
  | O => (CFuel, acc, kr, kw)
  | S fuel' =>
    if pl (FRead kr) then (CErr, acc, S kr, kw) else
    let (chunk, eof) := read_one st rest B in
    let rest' := skipn (length chunk) rest in
    match chunk with
    | [] => if eof then (COk, acc, S kr, kw) else io_copy_loop fuel' pl st B rest' acc (S kr) kw
    | _ =>
      if pl (FWrite kw) then (CErr, acc, S kr, S kw) else
      if eof then (COk, acc ++ chunk, S kr, S kw)
      else io_copy_loop fuel' pl st B rest' (acc ++ chunk) (S kr) (S kw)
    end
  end.

(** io.Copy(writer, reader) on a fresh reader over [data] and a writer that accepted nothing yet. *)
Definition io_copy (pl : plan) (st : eof_style) (B : nat) (data : bytes) (kr kw : nat) :=
  io_copy_loop (S (length data)) pl st B data [] kr kw.

(** ** Backends, as far as streams can tell them apart *)
Record backend := mkBackend {
  b_eof : eof_style;        (* how the source's reader reports EOF *)
  b_mkparents : bool        (* destination.Writer creates missing parent directories (memfs, cache,
                               encrypted over memfs: true; diskfs, encrypted over diskfs: false) *)
}.

(** destination.Writer(p): the file exists and is empty from this moment on. *)
Definition writer_open (mkpar : bool) (t : fs) (p : path) : option fs :=
  if mkpar || is_dir_at t (removelast p) then write_at t p [] else None.

(** ** fshelper.StreamCopy(src, dst, path) / Copier.copyFile on reduced non-root paths.
    Returns the result class, the destination tree and the counters.  The statement order is the
    code's: Reader, Writer, io.Copy, writer.Close, reader.Close; every error is returned. *)
Definition stream_copy_at (pl : plan) (st : eof_style) (mkpar : bool) (B : nat)
           (src dst : fs) (ps pd : path) (c : ctr) : cres * fs * ctr :=
  let c1 := mkCtr (S (n_reader c)) (n_writer c) (n_read c) (n_write c) (n_closew c) (n_closer c) (n_mkdir c) in
  if pl (FReader (n_reader c)) then (CErr, dst, c1) else
  match lookup src ps with
  | Some (F data) =>
    let c2 := mkCtr (n_reader c1) (S (n_writer c)) (n_read c) (n_write c) (n_closew c) (n_closer c) (n_mkdir c) in
    if pl (FWriter (n_writer c)) then (CErr, dst, c2) else
    match writer_open mkpar dst pd with
    | None => (CErr, dst, c2)
    | Some d1 =>
      match io_copy pl st B data (n_read c) (n_write c) with
      | (r, acc, kr, kw) =>
        let d2 := match write_at d1 pd acc with Some d => d | None => d1 end in
        let c3 := mkCtr (n_reader c2) (n_writer c2) kr kw (n_closew c) (n_closer c) (n_mkdir c) in
        match r with
        | COk =>
          let c4 := mkCtr (n_reader c3) (n_writer c3) kr kw (S (n_closew c)) (n_closer c) (n_mkdir c) in
          if pl (FCloseW (n_closew c)) then (CErr, d2, c4) else
          let c5 := mkCtr (n_reader c3) (n_writer c3) kr kw (S (n_closew c)) (S (n_closer c)) (n_mkdir c) in
          if pl (FCloseR (n_closer c)) then (CErr, d2, c5) else (COk, d2, c5)
        | r' => (r', d2, c3)
        end
      end
    end
  | _ => (CErr, dst, c1)
  end.

(** The same on raw path strings, as the Go API takes them (both sides reduce the argument and
    refuse the root). *)
Definition stream_copy (pl : plan) (st : eof_style) (mkpar : bool) (B : nat)
           (src dst : fs) (s : bytes) (c : ctr) : cres * fs * ctr :=
  match reduce_node s with
  | Some p => stream_copy_at pl st mkpar B src dst p p c
  | None => (CErr, dst, c)
  end.

(** Copier{SrcFS, SrcPath, DestFS, DestPath}.copyFile *)
Definition copier_file (pl : plan) (st : eof_style) (mkpar : bool) (B : nat)
           (src dst : fs) (s d : bytes) (c : ctr) : cres * fs * ctr :=
  match reduce_node s, reduce_node d with
  | Some ps, Some pd => stream_copy_at pl st mkpar B src dst ps pd c
  | _, _ => (CErr, dst, c)
  end.
