(** The REFERENCE of property C07: a plain tree (Model/Fs.v) to which the operations issued
    through the cache are applied directly - "the remote with the pending operations already
    applied".  It is a specification, not a model of code: nothing here mentions a buffer, a
    tombstone or a remote.  The policy is the cache's (the one the Go reference tree of the
    harness uses too): arguments are normalised with [cnorm]; MkdirAll of the root succeeds;
    the recursive remove of a missing path succeeds and changes nothing; a directory copy
    merges into an existing destination (directories are joined, files overwritten), stops at
    the first entry it cannot create and refuses a destination at or below the source; Commit
    and a failed Commit do not change the tree.  Proofs/C07More.v shows that every step of the
    cache model answers as this tree does.  Definitions only. *)
From GC Require Import Common.Base Model.Paths Model.Fs Model.Views Model.Cache Model.ViewsCache.

Definition ref_mkdir (t : fs) (p : path) : fs * out := upd t (mkdir_all t p).
Definition ref_write (t : fs) (p : path) (data : bytes) : fs * out := upd t (write_at t p data).

Definition ref_remove (t : fs) (p : path) : fs * out :=
  match p with [] => (t, RErr) | _ => upd t (remove_at t p) end.

Definition ref_remove_all (t : fs) (p : path) : fs * out :=
  match p with [] => (t, RErr) | _ => (delete_subtree t p, RUnit) end.

Fixpoint ref_copy_entries (t : fs) (dst : path) (l : fs) : fs * out :=
  match l with
  | [] => (t, RUnit)
  | (rel, e) :: l' =>
    let (t1, r1) := match e with
                    | D => ref_mkdir t (dst ++ rel)
                    | F data =>
                      match ref_mkdir t (dst ++ removelast rel) with
                      | (t0, RUnit) => ref_write t0 (dst ++ rel) data
                      | x => x
                      end
                    end in
    match r1 with
    | RUnit => ref_copy_entries t1 dst l'
    | _ => (t1, RErr)
    end
  end.

Definition ref_copy (t : fs) (src dst : path) : fs * out :=
  match src with
  | [] => (t, RErr)
  | _ =>
    if is_prefix src dst then (t, RErr)
    else
      match lookup t src with
      | Some (F data) => ref_write t dst data
      | Some D =>
        match ref_mkdir t dst with
        | (t1, RUnit) => ref_copy_entries t1 dst (subtree_moved t src [])
        | x => x
        end
      | None => (t, RErr)
      end
  end.

Definition ref_on1 (t : fs) (s : bytes) (dflt : out) (k : path -> fs * out) : fs * out :=
  match cnorm s with Some p => k p | None => (t, dflt) end.

Definition ref_step (t : fs) (co : cop) : fs * out :=
  match co with
  | CCommit => (t, RUnit)
  | CCommitFault => (t, RErr)
  | COp o =>
    match o with
    | OCopy s d =>
      match cnorm s, cnorm d with Some sp, Some dp => ref_copy t sp dp | _, _ => (t, RErr) end
    | OCopyDir s d =>
      match cnorm s, cnorm d with
      | Some sp, Some dp => if is_dir_at t sp then ref_copy t sp dp else (t, RErr)
      | _, _ => (t, RErr)
      end
    | OCopyFile s d =>
      match cnorm s, cnorm d with
      | Some sp, Some dp => if is_file_at t sp then ref_copy t sp dp else (t, RErr)
      | _, _ => (t, RErr)
      end
    | OReadDir s => ref_on1 t s RErr (fun p => (t, if is_dir_at t p then RList (children t p) else RErr))
    | OIsExist s => ref_on1 t s (RBool false) (fun p => (t, RBool (exists_at t p)))
    | OIsFile s => ref_on1 t s (RBool false) (fun p => (t, RBool (is_file_at t p)))
    | OIsDir s => ref_on1 t s (RBool false) (fun p => (t, RBool (is_dir_at t p)))
    | OMkdirAll s => ref_on1 t s RErr (ref_mkdir t)
    | OReadFile s => ref_on1 t s RErr (fun p => (t, match lookup t p with Some (F d) => RData d | _ => RErr end))
    | OWriteFile s data => ref_on1 t s RErr (fun p => ref_write t p data)
    | OFilespace _ => (t, RUnit)
    | OReader s bufs =>
      ref_on1 t s RErr (fun p => (t, match lookup t p with Some (F d) => RChunks (read_seq d bufs) | _ => RErr end))
    | OWriter s chunks => ref_on1 t s RErr (fun p => ref_write t p (concat chunks))
    | ORemove s => ref_on1 t s RErr (ref_remove t)
    | ORemoveAll s => ref_on1 t s RUnit (ref_remove_all t)
    | OLstat s =>
      ref_on1 t s RErr (fun p => (t, match lookup t p with
                                     | Some D => RStat true 0
                                     | Some (F d) => RStat false (N.of_nat (length d))
                                     | None => RErr
                                     end))
    end
  end.

(** The same tree addressed through a child view with base string [base] (fshelper.SubFS): the
    view reduces the argument, prepends its base and hands the string on, exactly as in
    Model/ViewsCache.v; where the string lands is [sub_cache_arg] (Proofs/CacheFrame.v). *)
Definition ref_vstep (t : fs) (v : vcop) : fs * out :=
  match v with
  | VDirect co => ref_step t co
  | VSub base o =>
    match o with
    | OFilespace p => (t, match reduce p with Some _ => RUnit | None => RErr end)
    | _ =>
      match map_args (fun nn s => transform1 nn (LSub base) s) o with
      | Some o' => ref_step t (COp o')
      | None => (t, fail_out o)
      end
    end
  end.

(** All outputs of a history, in order. *)
Fixpoint cache_outs (c : cache) (l : list vcop) : list out :=
  match l with
  | [] => []
  | v :: l' => snd (vcache_step c v) :: cache_outs (fst (vcache_step c v)) l'
  end.
