(** Histories over BOTH backends in which every operation is issued on the root filespace or on a
    child filespace (proof audit of C02; definitions only, proofs in Proofs/DiskHist.v).

    Two ways of naming the filespace an operation goes through:

    - by its reduced base path [b] ([] = the root): a HELD view.  A disk child is a diskfs whose
      host directory is the node [b] ([d_step b], Model/DiskFs.v); a memfs child view holds the
      string [view_base b] ([view_step (view_base b)], Model/Fs.v).  Nothing is re-resolved when
      the view is used, so a held view may outlive its directory (that is outside the
      preconditions: [pre_held] asks for the base to be a directory when the view is used);

    - by the chain of Filespace(...) calls that makes it, made afresh for the step, exactly as
      [hist_step] does for memfs.  On disk every link of the chain must address an existing
      directory at that moment ([d_step]'s OFilespace case); memfs hands out views of anything.

    And the re-rooting of a tree at a directory [b] ([sub b t]): the tree a filespace rooted at
    [b] sees, used to compare a child of one backend with the ROOT of the other. *)
From GC Require Import Common.Base Model.Paths Model.Fs Model.DiskFs.

(** ** Held views, named by their reduced base *)
Definition mem_at (b : path) (t : fs) (o : op) : fs * out :=
  match b with
  | [] => mem_step t o
  | _ => view_step (view_base b) t o
  end.

Definition pre_held (t : fs) (bo : path * op) : bool :=
  good_path (fst bo) && is_dir_at t (fst bo) && pre_at (fst bo) t (snd bo).

Fixpoint run_both_at (td tm : fs) (h : list (path * op)) : fs * fs * list (out * out) :=
  match h with
  | [] => (td, tm, [])
  | bo :: h' =>
    let rd := d_step (fst bo) td (snd bo) in
    let rm := mem_at (fst bo) tm (snd bo) in
    let '(td', tm', outs) := run_both_at (fst rd) (fst rm) h' in
    (td', tm', (snd rd, snd rm) :: outs)
  end.

Fixpoint pre_hist_at (td : fs) (h : list (path * op)) : bool :=
  match h with
  | [] => true
  | bo :: h' => pre_held td bo && pre_hist_at (fst (d_step (fst bo) td (snd bo))) h'
  end.

(** ** Views made afresh by a chain of Filespace calls *)
Fixpoint d_resolve (t : fs) (b : path) (chain : list bytes) : option path :=
  match chain with
  | [] => Some b
  | s :: chain' =>
    match reduce s with
    | Some r => if is_dir_at t (b ++ r) then d_resolve t (b ++ r) chain' else None
    | None => None
    end
  end.

Definition disk_hist_step (t : fs) (vo : list bytes * op) : fs * out :=
  match d_resolve t [] (fst vo) with
  | None => (t, RErr)
  | Some b => d_step b t (snd vo)
  end.

(** the preconditions of a step through a chain: every Filespace call of the chain meets ITS
    precondition (it addresses an existing directory), and the operation meets [pre_at] there. *)
Definition pre_chain (t : fs) (vo : list bytes * op) : bool :=
  match d_resolve t [] (fst vo) with
  | None => false
  | Some b => pre_at b t (snd vo)
  end.

(** … in the property's own wording ([prop_pre_at], Model/DiskFs.v) *)
Definition prop_pre_chain (t : fs) (vo : list bytes * op) : bool :=
  match d_resolve t [] (fst vo) with
  | None => false
  | Some b => prop_pre_at b t (snd vo)
  end.

Fixpoint run_both_v (td tm : fs) (h : list (list bytes * op)) : fs * fs * list (out * out) :=
  match h with
  | [] => (td, tm, [])
  | vo :: h' =>
    let rd := disk_hist_step td vo in
    let rm := hist_step tm vo in
    let '(td', tm', outs) := run_both_v (fst rd) (fst rm) h' in
    (td', tm', (snd rd, snd rm) :: outs)
  end.

Fixpoint pre_vhist (td : fs) (h : list (list bytes * op)) : bool :=
  match h with
  | [] => true
  | vo :: h' => pre_chain td vo && pre_vhist (fst (disk_hist_step td vo)) h'
  end.

Fixpoint prop_pre_vhist (td : fs) (h : list (list bytes * op)) : bool :=
  match h with
  | [] => true
  | vo :: h' => prop_pre_chain td vo && prop_pre_vhist (fst (disk_hist_step td vo)) h'
  end.

(** ** The tree seen from the directory [b]: the entries strictly below [b], re-rooted *)
Definition sub (b : path) (t : fs) : fs := subtree_moved t b [].

(** A child of one backend against the ROOT of the other, each on its own tree: the disk child
    with host directory [b] of [td] and a memfs root ([run_child_disk]); the memfs child view
    with base [b] of [tm] and a disk root ([run_child_mem]).  The outputs are (disk, memfs). *)
Fixpoint run_child_disk (b : path) (td tm : fs) (h : list op) : fs * fs * list (out * out) :=
  match h with
  | [] => (td, tm, [])
  | o :: h' =>
    let rd := d_step b td o in
    let rm := mem_step tm o in
    let '(td', tm', outs) := run_child_disk b (fst rd) (fst rm) h' in
    (td', tm', (snd rd, snd rm) :: outs)
  end.

Fixpoint run_child_mem (b : path) (td tm : fs) (h : list op) : fs * fs * list (out * out) :=
  match h with
  | [] => (td, tm, [])
  | o :: h' =>
    let rd := disk_step td o in
    let rm := view_step (view_base b) tm o in
    let '(td', tm', outs) := run_child_mem b (fst rd) (fst rm) h' in
    (td', tm', (snd rd, snd rm) :: outs)
  end.

(** the preconditions of a history issued on the filespace rooted at [b], which has to stay a
    directory; evaluated along the disk child ([pre_hist_in]) or along the memfs view
    ([pre_hist_mview]) *)
Fixpoint pre_hist_in (b : path) (t : fs) (h : list op) : bool :=
  match h with
  | [] => true
  | o :: h' => is_dir_at t b && pre_at b t o && pre_hist_in b (fst (d_step b t o)) h'
  end.

Fixpoint pre_hist_mview (b : path) (t : fs) (h : list op) : bool :=
  match h with
  | [] => true
  | o :: h' => is_dir_at t b && pre_at b t o && pre_hist_mview b (fst (view_step (view_base b) t o)) h'
  end.

(** ** Each backend on its own, WITHOUT preconditions (for the frame over histories) *)
Definition run_disk_at (t : fs) (h : list (path * op)) : fs :=
  fold_left (fun t bo => fst (d_step (fst bo) t (snd bo))) h t.
Definition run_mem_at (t : fs) (h : list (path * op)) : fs :=
  fold_left (fun t bo => fst (mem_at (fst bo) t (snd bo))) h t.
