(** Model of goatcore's dependency provider (app/dependency/provider.go, as repaired by the
    F17/F18 fix commits).  Definitions only.

    Names are [N].  The four definition tables are functions [name -> option _]; [keys] is the
    Go slice (order of first accepted definition).  Factories are first-order programs: a list of
    dependencies (each required or optional) resolved in order through the provider, then fail /
    return nil / return a fresh instance.  Instances are tokens: who produced them (name, kind of
    definition, payload id of the definition call) and, for factory products, the construction
    number (value of the per-name run counter when the factory ran).

    Not modelled: nil values passed to Set/SetDefault, AddInjectors (extra injectors), struct
    fields that cannot be set, NewStaticProvider (autoclean = false). *)
From GC Require Import Common.Base.

Definition name := N.

Inductive kind := KInst | KFac | KDef | KDFac.   (* Set | AddFactory | SetDefault | AddDefaultFactory *)

Record token := mkTok { t_name : name; t_kind : kind; t_id : N; t_num : N }.

(** A factory: dependencies in resolution order ([true] = optional, tag "?name"). *)
Record prog := mkProg { deps : list (name * bool); fails : bool; returns_nil : bool }.

Record state := mkSt {
  inst  : name -> option token;          (* d.instances *)
  fac   : name -> option (N * prog);     (* d.factories  (payload id, program) *)
  dfac  : name -> option (N * prog);     (* d.defaultFactories *)
  dinst : name -> option token;          (* d.defaultInstances *)
  keys  : list name;                     (* d.keys *)
  blocked : bool;                        (* d.blocked *)
  stack : list name;                     (* d.callstack, innermost first *)
  runs  : name -> N;                     (* invocation counter of the factories of a name *)
  wire  : name -> list (option token)    (* ghost: what the dependencies of n's product resolved to
                                            when it was built (the fields of the instance) *)
}.

Definition init : state :=
  mkSt (fun _ => None) (fun _ => None) (fun _ => None) (fun _ => None) [] false [] (fun _ => 0) (fun _ => []).

Definition upd {A} (f : name -> A) (n : name) (a : A) : name -> A :=
  fun m => if N.eqb m n then a else f m.

Fixpoint mem (n : name) (l : list name) : bool :=
  match l with [] => false | x :: l' => N.eqb n x || mem n l' end.

Definition isSome {A} (o : option A) : bool := match o with Some _ => true | None => false end.

Definition add_key (n : name) (ks : list name) : list name :=
  if mem n ks then ks else ks ++ [n].

(** ** Definition calls (before the freeze).  [true] = nil error returned. *)

Definition set_ (s : state) (n : name) (v : N) : state * bool :=
  if blocked s then (s, false) else
  if isSome (inst s n) then (s, false) else
  if isSome (fac s n) then (s, false) else
  (mkSt (upd (inst s) n (Some (mkTok n KInst v 0))) (fac s) (dfac s) (dinst s)
        (add_key n (keys s)) (blocked s) (stack s) (runs s) (wire s), true).

Definition set_default (s : state) (n : name) (v : N) : state * bool :=
  if blocked s then (s, false) else
  if isSome (dinst s n) then (s, false) else
  if isSome (dfac s n) then (s, false) else
  (mkSt (inst s) (fac s) (dfac s) (upd (dinst s) n (Some (mkTok n KDef v 0)))
        (add_key n (keys s)) (blocked s) (stack s) (runs s) (wire s), true).

Definition add_factory (s : state) (n : name) (id : N) (p : prog) : state * bool :=
  if blocked s then (s, false) else
  if isSome (fac s n) then (s, false) else
  (* clean(name): delete factories[name] (absent) and defaultFactories[name] *)
  (mkSt (inst s) (upd (fac s) n (Some (id, p))) (upd (dfac s) n None) (dinst s)
        (add_key n (keys s)) (blocked s) (stack s) (runs s) (wire s), true).

Definition add_default_factory (s : state) (n : name) (id : N) (p : prog) : state * bool :=
  if blocked s then (s, false) else
  if isSome (dfac s n) then (s, false) else
  if isSome (fac s n) then (s, true) else          (* silently ignored, nil returned *)
  (mkSt (inst s) (fac s) (upd (dfac s) n (Some (id, p))) (dinst s)
        (add_key n (keys s)) (blocked s) (stack s) (runs s) (wire s), true).

(** ** Block: fold the default instances in, freeze. *)
Definition block (s : state) : state :=
  if blocked s then s else
  let moved n := isSome (dinst s n) && negb (isSome (fac s n)) && negb (isSome (inst s n)) in
  mkSt (fun n => if moved n then dinst s n else inst s n)
       (fac s)
       (fun n => if moved n then None else dfac s n)
       (fun _ => None)
       (keys s) true (stack s) (runs s) (wire s).

(** ** Get *)
Inductive gres := GOk (t : token) | GErr | GFuel.
Inductive rres := ROk | RErr | RFuel.

(** Resolve a list of tagged dependencies in order through [g] (= the provider's Get):
    a required failure stops, an optional one is skipped.  Returns what each processed
    dependency yielded ([None] = left untouched). *)
Fixpoint run_deps (g : state -> name -> state * gres) (s : state) (ds : list (name * bool))
  : state * list (option token) * rres :=
  match ds with
  | [] => (s, [], ROk)
  | (d, opt) :: ds' =>
    let (s1, r) := g s d in
    match r with
    | GOk t => let '(s2, l, rr) := run_deps g s1 ds' in (s2, Some t :: l, rr)
    | GErr => if opt then let '(s2, l, rr) := run_deps g s1 ds' in (s2, None :: l, rr)
              else (s1, [], RErr)
    | GFuel => (s1, [], RFuel)
    end
  end.

Definition push (n : name) (s : state) : state :=
  mkSt (inst s) (fac s) (dfac s) (dinst s) (keys s) (blocked s) (n :: stack s)
       (upd (runs s) n (N.succ (runs s n))) (wire s).

Definition pop (s : state) : state :=
  mkSt (inst s) (fac s) (dfac s) (dinst s) (keys s) (blocked s) (tl (stack s)) (runs s) (wire s).

(** success of the explicit factory: clean(name) then cache *)
Definition store_fac (n : name) (t : token) (w : list (option token)) (s : state) : state :=
  mkSt (upd (inst s) n (Some t)) (upd (fac s) n None) (upd (dfac s) n None) (dinst s)
       (keys s) (blocked s) (stack s) (runs s) (upd (wire s) n w).

(** success of the default factory: delete(defaultFactories, name) then cache *)
Definition store_dfac (n : name) (t : token) (w : list (option token)) (s : state) : state :=
  mkSt (upd (inst s) n (Some t)) (fac s) (upd (dfac s) n None) (dinst s)
       (keys s) (blocked s) (stack s) (runs s) (upd (wire s) n w).

(** d.call(name, factory) for a first-order factory: push (and count the invocation), resolve the
    dependencies, pop on every exit, then fail / nil / fresh instance. *)
Definition call (g : state -> name -> state * gres) (s : state) (n : name) (k : kind) (id : N) (p : prog)
  : state * gres :=
  let s1 := push n s in
  let '(s2, w, r) := run_deps g s1 (deps p) in
  let s3 := pop s2 in
  match r with
  | RFuel => (s3, GFuel)
  | RErr => (s3, GErr)
  | ROk => if fails p || returns_nil p then (s3, GErr)
           else let t := mkTok n k id (runs s1 n) in
                (match k with KFac => store_fac n t w s3 | _ => store_dfac n t w s3 end, GOk t)
  end.

Fixpoint get (fuel : nat) (s0 : state) (n : name) : state * gres :=
  match fuel with
  | O => (s0, GFuel)
  | S f =>
    let s := block s0 in
    if mem n (stack s) then (s, GErr) else
    match inst s n with
    | Some t => (s, GOk t)
    | None =>
      match fac s n with
      | Some (id, p) => call (get f) s n KFac id p
      | None =>
        match dfac s n with
        | Some (id, p) => call (get f) s n KDFac id p
        | None => (s, GErr)
        end
      end
    end
  end.

(** Fuel of a top-level request: every nested factory call pushes a new key. *)
Definition fuel_of (s : state) : nat := S (length (keys s)).

Definition Get (s : state) (n : name) : state * gres := get (fuel_of s) s n.

(** InjectTo on a struct whose tagged fields are [fs] (declaration order). *)
Definition Inject (s : state) (fs : list (name * bool)) : state * list (option token) * rres :=
  run_deps (get (fuel_of s)) s fs.

(** ** Programs: definition calls and requests, freely mixed. *)
Inductive op :=
| OSet (n : name) (v : N)
| OSetDefault (n : name) (v : N)
| OAddFactory (n : name) (id : N) (p : prog)
| OAddDefaultFactory (n : name) (id : N) (p : prog)
| OGet (n : name)
| OInject (fs : list (name * bool)).

Inductive out :=
| UDef (ok : bool)
| UGet (r : gres)
| UInject (filled : list (option token)) (r : rres).

Definition step (s : state) (o : op) : state * out :=
  match o with
  | OSet n v => let (s', b) := set_ s n v in (s', UDef b)
  | OSetDefault n v => let (s', b) := set_default s n v in (s', UDef b)
  | OAddFactory n id p => let (s', b) := add_factory s n id p in (s', UDef b)
  | OAddDefaultFactory n id p => let (s', b) := add_default_factory s n id p in (s', UDef b)
  | OGet n => let (s', r) := Get s n in (s', UGet r)
  | OInject fs => let '(s', l, r) := Inject s fs in (s', UInject l r)
  end.

Definition run (ops : list op) (s : state) : state :=
  fold_left (fun s o => fst (step s o)) ops s.

(** run with the full observation trace: per op its result, the run counters of the names in
    [pool] and Keys(). *)
Fixpoint run_obs (pool : list name) (ops : list op) (s : state)
  : list (out * list N * list name) :=
  match ops with
  | [] => []
  | o :: ops' =>
    let (s', u) := step s o in
    (u, map (runs s') pool, keys s') :: run_obs pool ops' s'
  end.

(** ghost observation: after each op, the wiring of the instance a successful Get returned *)
Fixpoint run_wire (ops : list op) (s : state) : list (list (option token)) :=
  match ops with
  | [] => []
  | o :: ops' =>
    let (s', u) := step s o in
    match o, u with
    | OGet n, UGet (GOk _) => wire s' n
    | _, _ => []
    end :: run_wire ops' s'
  end.

Definition is_def (o : op) : bool :=
  match o with OGet _ | OInject _ => false | _ => true end.

(** ** Specification: memo-free depth-first resolution over a definition set. *)

Inductive edef := EVal (t : token) | EFac (k : kind) (id : N) (p : prog).

(** The effective definition of a name: explicit instance > explicit factory > default instance
    > default factory. *)
Definition eff (s : state) (n : name) : option edef :=
  match inst s n with
  | Some t => Some (EVal t)
  | None =>
    match fac s n with
    | Some (id, p) => Some (EFac KFac id p)
    | None =>
      match dinst s n with
      | Some t => Some (EVal t)
      | None =>
        match dfac s n with
        | Some (id, p) => Some (EFac KDFac id p)
        | None => None
        end
      end
    end
  end.

Definition defs := name -> option edef.

(** [Good D vis n]: the memo-free DFS from [n] with visiting set [vis] succeeds.  Optional
    dependencies do not influence success. *)
Inductive Good (D : defs) : list name -> name -> Prop :=
| Good_val : forall vis n t, mem n vis = false -> D n = Some (EVal t) -> Good D vis n
| Good_fac : forall vis n k id p, mem n vis = false -> D n = Some (EFac k id p) ->
    fails p = false -> returns_nil p = false ->
    (forall d, In (d, false) (deps p) -> Good D (n :: vis) d) ->
    Good D vis n.

(** executable version *)
Fixpoint resolveb (fuel : nat) (D : defs) (vis : list name) (n : name) : bool :=
  match fuel with
  | O => false
  | S f =>
    if mem n vis then false else
    match D n with
    | None => false
    | Some (EVal _) => true
    | Some (EFac _ _ p) =>
      negb (fails p) && negb (returns_nil p) &&
      forallb (fun d => snd d || resolveb f D (n :: vis) (fst d)) (deps p)
    end
  end.

(** who would produce the instance *)
Definition source (D : defs) (n : name) : option (name * kind * N) :=
  match D n with
  | Some (EVal t) => Some (t_name t, t_kind t, t_id t)
  | Some (EFac k id _) => Some (n, k, id)
  | None => None
  end.

Definition tok_source (t : token) : name * kind * N := (t_name t, t_kind t, t_id t).

(** dependency edges of the definition set *)
Definition edge (D : defs) (a b : name) : Prop :=
  exists k id p o, D a = Some (EFac k id p) /\ In (b, o) (deps p).
Definition req_edge (D : defs) (a b : name) : Prop :=
  exists k id p, D a = Some (EFac k id p) /\ In (b, false) (deps p).

Definition explicit_kind (k : kind) : bool := match k with KInst | KFac => true | _ => false end.

Definition is_ok (r : gres) : bool := match r with GOk _ => true | _ => false end.
