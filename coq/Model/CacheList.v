(** What a listing ENTRY of the cache says (C07, the "list" clause at full strength).

    [v_read_dir] of Model/Cache.v keeps of every os.FileInfo that fscache.Cache.ReadDir returns
    only the name and IsDir().  An entry also DESCRIBES its node: Size() is what Lstat answers and
    the length of what a read returns.  Here the listing is modelled with that description:
    [None] for a directory, [Some n] for a file of [n] bytes (times and modes are not part of the
    property).  The merge is the one of Cache.ReadDir: the remote's entries that are neither
    shadowed by a buffered entry OF THE SAME NAME nor removed, then the buffer's entries - so for a
    name present on both sides it is the BUFFER's entry that describes the node.
    Definitions only. *)
From GC Require Import Common.Base Model.Paths Model.Fs Model.Cache.

Definition info := option N.

Definition info_of (e : entry) : info :=
  match e with D => None | F d => Some (N.of_nat (length d)) end.

Definition info_is_dir (i : info) : bool := match i with None => true | Some _ => false end.

(** Direct children of [p] with what their FileInfo says, in creation order (memfs Dir.getNodes:
    the nodes themselves). *)
Fixpoint children_info (t : fs) (p : path) : list (name * info) :=
  match t with
  | [] => []
  | (q, e) :: t' =>
    let rest := children_info t' p in
    if is_prefix p q && Nat.eqb (length q) (S (length p)) then (last q [], info_of e) :: rest
    else rest
  end.

(** Cache.ReadDir with the entries' descriptions. *)
Definition v_read_dir_info (c : cache) (p : path) : option (list (name * info)) :=
  let r := if masked (cT c) p then None
           else if is_dir_at (cR c) p then Some (children_info (cR c) p) else None in
  let b := if is_dir_at (cB c) p then Some (children_info (cB c) p) else None in
  match r, b with
  | None, None => None
  | _, _ =>
    let rl := match r with Some l => l | None => [] end in
    let bl := match b with Some l => l | None => [] end in
    Some (filter (fun e => negb (existsb (fun be => bytes_eqb (fst be) (fst e)) bl)
                           && negb (masked (cT c) (p ++ [fst e]))) rl ++ bl)
  end.

(** Forgetting the sizes gives the listing of Model/Cache.v. *)
Definition forget_info (ni : name * info) : name * bool := (fst ni, info_is_dir (snd ni)).

(** What Lstat answers for a node that a listing entry describes as [i]. *)
Definition stat_of_info (i : info) : out :=
  match i with None => RStat true 0 | Some n => RStat false n end.
