(** Progress measure and explicit finishing schedules for the fsloop model (Model/Loop.v).
    Definitions only; the proofs are in Proofs/LoopLive.v.

    [work s] counts what is still to be done in state [s]: entries not yet looked at by a
    producer (every file 5, every directory 13 + its entries), 3 per open processList frame,
    the producer's program counter, 3 per queued path, the consumer's program counter (2 while it is
    anywhere in the polling part of its loop, 4/3 while a callback runs / reports its error, 1 before
    pool.Done, 0 after), the steps left to the completion goroutine, 1 for the caller of Wait and 1
    while the lifecycle is not killed.  The constants are the smallest ones for which every step
    that is not a polling step makes [work] strictly smaller. *)
From GC Require Import Common.Base Model.Loop.
Close Scope N_scope.
Open Scope nat_scope.

Fixpoint tsz (t : tree) : nat :=
  match t with
  | File _ => 5
  | Dir _ ch => 13 + (fix go (l : list tree) : nat := match l with [] => 0 | t' :: l' => tsz t' + go l' end) ch
  end.

Fixpoint lsz (l : list tree) : nat := match l with [] => 0 | t :: l' => tsz t + lsz l' end.

Definition fw (f : frame) : nat := 3 + lsz (snd f).
Fixpoint stkw (stk : list frame) : nat := match stk with [] => 0 | f :: stk' => fw f + stkw stk' end.

Definition pcw (pc : ppc) : nat :=
  match pc with PE => 0 | PK => 1 | PR => 2 | PA _ ch => 9 + lsz ch end.

Definition pw (p : pstate) : nat :=
  match p with
  | PStart _ ch => 6 + lsz ch
  | PRun pc stk => 2 + pcw pc + stkw stk
  | PFin => 1
  | PExit => 0
  end.

Definition cw (c : cstate) : nat :=
  match c with CRun _ => 4 | CErr _ => 3 | CFin => 1 | CExit => 0 | _ => 2 end.

Definition kw (k : kpc) : nat :=
  match k with K1 => 4 | K2 => 3 | K3 => 2 | K4 => 1 | KEnd => 0 end.

Fixpoint sum_by {A} (f : A -> nat) (l : list A) : nat :=
  match l with [] => 0 | x :: l' => f x + sum_by f l' end.

Definition work (s : state) : nat :=
  sum_by pw (prods s) + sum_by cw (cons s) + 3 * (length (dq s) + length (fq s))
  + kw (comp s) + (if waited s then 0 else 1) + (if killed s then 0 else 1).

(** ---------- the polling part of the consumer loop

    [cnext x de fe cl k c]: where a consumer at [c] goes by a step that changes nothing but its own
    program counter, given the exit-test order [x], "dirChan is empty" [de], "fileChan is empty" [fe],
    "close announced" [cl] and "killed" [k]; [None] when the step at [c] does something else (starts
    or ends a callback, reports an error, leaves the loop, pool.Done).  [CExit] has no step. *)
Definition isnil {A} (l : list A) : bool := match l with [] => true | _ => false end.

Definition cnext (x : exit_test) (de fe cl k : bool) (c : cstate) : option cstate :=
  match c with
  | C1 => if k then None else Some (match x with ClosedThenEmpty => C2 | EmptyThenClosed => C3 false end)
  | C2 => match x with
          | ClosedThenEmpty => Some (C3 cl)
          | EmptyThenClosed => if cl then None else Some C6
          end
  | C3 b => Some (if de then C4 b else C7)
  | C4 b => Some (if fe then match x with ClosedThenEmpty => C5 b | EmptyThenClosed => C2 end else C7)
  | C5 b => if b then None else Some C6
  | C6 => Some C1
  | C7 => Some (if de then C10 else C8)
  | C8 => if de then Some C1 else None
  | C10 => Some (if fe then C1 else C11)
  | C11 => if fe then Some C1 else None
  | CRun _ | CErr _ | CFin => None
  | CExit => Some CExit
  end.

Definition cnext_of (cfg : config) (s : state) : cstate -> option cstate :=
  cnext (xt cfg) (isnil (dq s)) (isnil (fq s)) (closed s) (killed s).

(** within [n] steps of its own the consumer does a step that is not a polling step *)
Fixpoint creach (nx : cstate -> option cstate) (n : nat) (c : cstate) : bool :=
  match n with
  | O => false
  | S n' => match nx c with None => true | Some c' => creach nx n' c' end
  end.

(** something is there for the consumers to act on: a queued path, the close announcement or a kill *)
Definition hot (s : state) : bool :=
  negb (isnil (dq s)) || negb (isnil (fq s)) || closed s || killed s.

(** ---------- schedules in which everybody gets a turn *)

Definition tid_eqb (a b : tid) : bool :=
  match a, b with
  | TP i, TP j => Nat.eqb i j
  | TC i, TC j => Nat.eqb i j
  | TK, TK => true
  | TW, TW => true
  | TX, TX => true
  | _, _ => false
  end.

Fixpoint count_tid (t : tid) (l : list tid) : nat :=
  match l with [] => 0 | u :: l' => (if tid_eqb t u then 1 else 0) + count_tid t l' end.

Definition mem_tid (t : tid) (l : list tid) : bool := existsb (tid_eqb t) l.

(** number of steps of its own after which a consumer is certain to have left the polling part
    when there is something to act on *)
Definition POLL : nat := 9.

(** a stretch of a schedule in which the first [P] producers, the completion goroutine and the
    caller of Wait are scheduled at least once and every consumer at least POLL times; kills may
    occur anywhere *)
Definition complete (cfg : config) (P : nat) (seg : list tid) : bool :=
  forallb (fun i => mem_tid (TP i) seg) (seq 0 P) && mem_tid TK seg && mem_tid TW seg &&
  forallb (fun i => Nat.leb POLL (count_tid (TC i) seg)) (seq 0 (cmax cfg)).

(** one round of the round-robin schedule: every producer slot below [P] once, every consumer POLL
    times, the completion goroutine, the caller of Wait *)
Definition rr_block (cfg : config) (P : nat) : list tid :=
  map TP (seq 0 P) ++ concat (repeat (map TC (seq 0 (cmax cfg))) POLL) ++ [TK; TW].

Definition rr (cfg : config) (P n : nat) : list tid := concat (repeat (rr_block cfg P) n).

(** the round-robin continuation computed from a state: as many producer slots as there can ever
    be ([work] bounds the producers still to be started), [work s] rounds *)
Definition rr_from (cfg : config) (s : state) : list tid :=
  rr cfg (length (prods s) + work s) (work s).

Definition all_pexited (s : state) : bool := forallb p_exited (prods s).

(** the walk has ended completely: producers, completion goroutine, consumers, Wait *)
Definition finished (s : state) : bool :=
  all_pexited s && (match comp s with KEnd => true | _ => false end) && all_exited s && waited s.

(** ---------- the witness for the producer leak after a kill (C08_kill_leak_refuted)

    Two files, fileChan of capacity 1, one producer, one consumer, no error anywhere.  The producer
    lists the directory, queues the first file and passes its kill test; then the lifecycle is
    killed (scope Kill/Error event or the deadline); the consumer sees the kill and leaves without
    taking anything; Wait returns.  The producer is now at "fileChan <- second file" with the queue
    full and nobody left to empty it. *)
Definition kl_cfg : config :=
  mkCfg (fun _ => true) (fun _ => true) false true true (fun _ => false) (fun _ => false) 1 1 1 1 ClosedThenEmpty.
Definition kl_base : path := [46%N; 47%N].
Definition kl_root : list tree := [File [97%N]; File [98%N]].
Definition kl_sched : list tid := [TP 0; TP 0; TP 0; TX; TC 0; TC 0; TW].
