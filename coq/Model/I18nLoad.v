(** Model of i18n/fsi18loader.Load as a CLIENT of the fsloop model (Model/Loop.v, property C08):

      loop := fsloop.NewLoop(&LoopData{Filespace: fs,
                FileFilter: HasSuffix(subPath, ".json"),
                OnFile: ReadFile; JSONToPlainStringMap; i18.Set(tmap)}, scope)
      loop.Run(basePath); loop.Wait(); return ToError(loop.Errors())

    No DirFilter, no OnDir.  The loop configuration [load_cfg] is the one Load builds; the
    callback fails exactly when ReadFile or the reader fails.  A run of Load is a schedule of
    the C08 system; the store is what the Set calls of the callbacks that have returned leave,
    taken in the order in which they held the mutex of I18Mem (Set holds it for its whole loop,
    so the calls are totally ordered; that order is some permutation of [ended]).

    Also here: the nested map a standard decoder builds from a document of the subset
    ([doc_tree]), used to state the reader against [flatten].

    Definitions only - proofs are in Proofs/C20More.v. *)
From GC Require Import Common.Base Model.PlainMap Model.Json Model.I18n Model.Loop.

(** * the decoded nested map of a document: string and number leaves, every other kind of value
    dropped (an object keeps its place even when nothing is left in it) *)
Fixpoint tree_members (m : members) : children :=
  match m with
  | MNil => []
  | MCons _ k _ _ v _ m' =>
    match v with
    | JStr s => [(decode k, Leaf (decode s))]
    | JNum t => [(decode k, Leaf t)]
    | JObj m2 _ => [(decode k, Obj (tree_members m2))]
    | _ => []
    end ++ tree_members m'
  end.

Definition doc_tree (m : members) : children := tree_members m.

(** * the loader on the fsloop model *)

Section Load.
  Variable content : path -> option bytes.     (* fs.ReadFile(subPath); None = it returns an error *)
  Variable lserr : path -> bool.               (* fs.ReadDir(path) returns an error *)

  (** the map an OnFile callback passes to I18Mem.Set; None = the callback returns an error *)
  Definition item_log (it : item) : option flatmap :=
    match it with
    | IFile p => match content p with
                 | Some d => file_log (p, d)
                 | None => None
                 end
    | IDir _ => None                           (* OnDir is nil: never called *)
    end.

  Definition cb_fails (it : item) : bool :=
    match it with
    | IFile _ => match item_log it with Some _ => false | None => true end
    | IDir _ => false
    end.

  Definition json_name (p : path) : bool := has_suffix p JSON_SUFFIX.

  (** the LoopData of Load; pool limits and queue capacities are arguments *)
  Definition load_cfg (pmax cmax dcap fcap : nat) : config :=
    mkCfg json_name (fun _ => true) false false true lserr cb_fails pmax cmax dcap fcap ClosedThenEmpty.

  (** the Set calls of the callbacks [order], in that order; a failed callback makes none *)
  Fixpoint run_sets (order : list item) (store : flatmap) : flatmap :=
    match order with
    | [] => store
    | it :: r => run_sets r (match item_log it with Some log => i18_set store log | None => store end)
    end.

  (** all files of a tree with their paths, as the producers build them *)
  Fixpoint tree_files (base : path) (t : tree) : list path :=
    match t with
    | File n => [base ++ n]
    | Dir n ch =>
      (fix go (l : list tree) : list path :=
         match l with
         | [] => []
         | t' :: l' => tree_files ((base ++ n) ++ [SLASH]) t' ++ go l'
         end) ch
    end.
  Definition list_files (base : path) (l : list tree) : list path := flat_map (tree_files base) l.

  (** the files Load selects: every file of the tree, at any depth, whose path ends in ".json" *)
  Definition json_files (base : path) (root : list tree) : list path :=
    filter json_name (list_files base root).

  (** file [p] gives key [k] the value [v] *)
  Definition gives (p : path) (k v : bytes) : Prop :=
    exists log, item_log (IFile p) = Some log /\ lookup_last k log = Some v.

  (** what the property asks of the store after a load of the tree [root] at [base]:
      every selected file was read and parsed; NOTHING but entries of selected files is
      translatable; every key of every selected file is translatable - to the value the file
      gives it whenever all selected files that define the key agree (no other file defines it:
      the special case of pairwise disjoint key sets). *)
  Definition loaded (base : path) (root : list tree) (store : flatmap) : Prop :=
    let sel := json_files base root in
    (forall p, In p sel -> exists d log, content p = Some d /\ read_json d = ROk log) /\
    (forall k v, translate k store = Some v -> exists p, In p sel /\ gives p k v) /\
    (forall p k v, In p sel -> gives p k v ->
       (exists v', translate k store = Some v') /\
       ((forall q v', In q sel -> gives q k v' -> v' = v) -> translate k store = Some v)).
End Load.

(** * I18Mem.Set statement by statement

      func (i18 *I18Mem) Set(values map[string]string) {
          i18.muTranlsates.Lock(); defer i18.muTranlsates.Unlock()
          for key, value := range values { i18.translates[key] = value } }

    Thread i is a consumer goroutine with the maps its callbacks still have to Set ([todo], in
    the order it will run them).  One step = Lock (enabled when the mutex is free), ONE
    assignment translates[key] = value, or Unlock.  [hist] is a history variable: the maps whose
    Set call has taken the mutex, in that order.  [locked = true] is the code; [locked = false]
    is the same code without the mutex, kept only for the witness C20_set_unlocked_refuted. *)
Inductive setpc :=
| SOut (todo : list flatmap)                    (* outside Set *)
| SIn (rest : flatmap) (todo : list flatmap).   (* in the range loop; [rest] = entries still to assign *)

Record mstate := mkM { mu : bool; tr : flatmap; thr : list setpc; hist : list flatmap }.

Definition mstep (locked : bool) (i : nat) (s : mstate) : option mstate :=
  match nth_error (thr s) i with
  | Some (SOut []) => None
  | Some (SOut (l :: todo)) =>
    if locked && mu s then None
    else Some (mkM true (tr s) (upd i (SIn l todo) (thr s)) (hist s ++ [l]))
  | Some (SIn [] todo) => Some (mkM false (tr s) (upd i (SOut todo) (thr s)) (hist s))
  | Some (SIn (kv :: rest) todo) => Some (mkM (mu s) (tr s ++ [kv]) (upd i (SIn rest todo) (thr s)) (hist s))
  | None => None
  end.

Definition mexec (locked : bool) (s : mstate) (i : nat) : mstate :=
  match mstep locked i s with Some s' => s' | None => s end.
Definition mrun (locked : bool) (sched : list nat) (s : mstate) : mstate := fold_left (mexec locked) sched s.
Definition minit (todos : list (list flatmap)) : mstate := mkM false [] (map SOut todos) [].
Definition mdone (s : mstate) : bool :=
  forallb (fun t => match t with SOut [] => true | _ => false end) (thr s).
