(** View stacks that contain write-back caches (fscache.Cache), at PATH level.

    Model/Views.v already gives the cache layer its path transformer ([LCache]: the argument
    goes through varutil.CleanPath, i.e. path.Clean with one leading slash stripped - it is
    NOT reduced, so a climbing argument is clamped or passed on, never rejected by the cache
    itself).  This file adds the constructor for it, so that the stacks the harness builds with
    fscache.NewMemCache in them have a model too.  Definitions only. *)
From GC Require Import Common.Base Model.Paths Model.Fs Model.Views.

Inductive cctor :=
| CK (k : ctor)      (* Filespace(p) / NewSubFS / NewReadonlyFS / NewEncryptFS, as in Model/Views.v *)
| CKCache.           (* fscache.NewMemCache(fs) *)

(** Does the next layer that looks at the path string clean it (a cache), rather than reduce
    it?  Read-only and encrypted layers pass the string on untouched. *)
Fixpoint cache_next (c : chain) : bool :=
  match c with
  | LCache :: _ => true
  | LRO :: c' | LEnc :: c' => cache_next c'
  | _ => false
  end.

Fixpoint cbuild (c : chain) (ks : list cctor) : option chain :=
  match ks with
  | [] => Some c
  | CK k :: ks' =>
    match build c [k] with
    | Some c' => cbuild c' ks'
    | None => None
    end
  | CKCache :: ks' => cbuild (LCache :: c) ks'
  end.
