(** View stacks that contain write-back caches (fscache.Cache), at PATH level.

    Model/Views.v already gives the cache layer its path transformer ([LCache]: the argument
    goes through varutil.CleanPath, i.e. path.Clean with one leading slash stripped - it is
    NOT reduced, so a climbing argument is clamped or passed on, never rejected by the cache
    itself).  This file adds the constructor for it, so that the stacks the harness builds with
    fscache.NewMemCache in them have a model too.  Definitions only. *)
From GC Require Import Common.Base Model.Paths Model.Fs Model.Views Model.Cache.

Inductive cctor :=
| CK (k : ctor)      (* Filespace(p) / NewSubFS / NewReadonlyFS / NewEncryptFS, as in Model/Views.v *)
| CKCache.           (* fscache.NewMemCache(fs) *)

(** Does the next layer that looks at the path string clean it (a cache), rather than reduce
    it?  Read-only and encrypted layers pass the string on untouched. *)
Fixpoint cache_next (c : chain) : bool :=
  match c with
  | LCache :: _ => true
  | LRO :: c' | LEnc :: c' => cache_next c'
  | _ => false
  end.

Fixpoint cbuild (c : chain) (ks : list cctor) : option chain :=
  match ks with
  | [] => Some c
  | CK k :: ks' =>
    match build c [k] with
    | Some c' => cbuild c' ks'
    | None => None
    end
  | CKCache :: ks' => cbuild (LCache :: c) ks'
  end.

(** ** Operations through a child view OF A CACHE: Cache.Filespace(p) = fshelper.NewSubFS(cache, p),
    i.e. the stack [LSub base :: LCache :: below] with the cache's own state (Model/Cache.v)
    under the sub-path layer.  Every method of fshelper.SubFS reduces its argument(s) (answering
    an error / false itself when that fails), prepends the base STRING and calls the same method
    of the cache; SubFS.Filespace only builds another SubFS value. *)
Definition sub_cache_step (base : bytes) (c : cache) (o : op) : cache * out :=
  match o with
  | OFilespace p => (c, match reduce p with Some _ => RUnit | None => RErr end)
  | _ =>
    match map_args (fun nn s => transform1 nn (LSub base) s) o with
    | Some o' => cache_step c (COp o')
    | None => (c, fail_out o)
    end
  end.

(** A history issued partly on the cache itself ([None]) and partly through child views of it
    ([Some base], base strings as SubFS holds them), with Commits in between. *)
Inductive vcop :=
| VDirect (co : cop)
| VSub (base : bytes) (o : op).

Definition vcache_step (c : cache) (v : vcop) : cache * out :=
  match v with
  | VDirect co => cache_step c co
  | VSub base o => sub_cache_step base c o
  end.

Definition run_vcache (c : cache) (l : list vcop) : cache :=
  fold_left (fun c v => fst (vcache_step c v)) l c.
