(** Interleaving model of the in-memory filespace (filesystem/filespace/memfs) under concurrent
    use, as the code is in /repo now (after 8463491 "memfs removal is atomic with its emptiness
    test and creators retry on a removed directory" and 288e3e2 "memfs Writer locks a new file's data
    before the file becomes visible").  Definitions only; proofs are in
    Proofs/MemConc.v.

    Shared state: a HEAP of directory objects and file objects with identity (index in the heap;
    the root directory is object 0).  Identity matters: a goroutine can hold a *Dir that has
    meanwhile been unlinked from its parent (detached subtree).
      directory object = child list (name -> reference, creation order) + [removed] flag
                         + holder of the embedded RWMutex L (WriteFile/Writer only)
      file object      = data + holder of dataMU (an open Reader/Writer handle keeps it until Close)
    Dir.mu is not a field: every region protected by mu in which nothing blocks is ONE step.

    System = state + thread ids + executable  step : tid -> state -> option state
    (None = the thread is blocked or has finished); run skips disabled steps.
    Steps (see /verif/notes/memrace.md):
      start of a call                       local, no shared access (so that a thread can be parked
                                            at a yield point that precedes its first shared access)
      getNodeByPathNodes                    one read step per path component (no lock coupling)
      Dir.mkdir                             step 1: read-locked getDir; step 2: write-locked
                                            look-again / errDirRemoved / create+insert
      mkdirAllNodes                         the loop over Dir.mkdir; errDirRemoved -> restart at root
      WriteFile / Writer                    mkdirAllNodes; [memfs.create.gap]; Lock L + getNode (one
                                            step, enabled when L is free); then addNode | setData
                                            (enabled when the file's dataMU is free) | error, Unlock L
      Writer handle                         dataMU.Lock + truncate (under L; for a NEW file before it
                                            is inserted, same step), one step per Write,
                                            Close releases dataMU
      Reader handle                         open takes dataMU; Close releases it (the session's
                                            Read calls see the content unchanged: it holds the lock)
      ReadFile / ReadDir                    resolve, then one step (getData blocks on a held dataMU)
      Remove / RemoveAll                    resolve parent; [memfs.remove.gap]; removeNodeByName =
                                            ONE step: find, emptiness test when emptyOnly, mark
                                            removed, unlink
      Copy / CopyDirectory / CopyFile       resolve src; mkdirAllNodes of dst's parents; snapshot
                                            (ONE step here; see below); [memfs.create.gap];
                                            addNode, errDirRemoved -> mkdirAllNodes again, same snapshot
    Stream sessions are single operations (open; Write*; Close by the same thread before its next
    call), so a thread never starts another operation while it holds a handle.

    Deliberate simplifications, all stated where they matter:
    - the snapshot of a copied DIRECTORY is one atomic step.  The code (copyDir) takes a chain of
      read locks down the source, directory by directory, and each file's dataMU in turn: a
      sub-directory that the copier has not reached yet can still be changed, so the real
      snapshot is NOT atomic with respect to writers below the source.  Nothing proved here
      depends on the atomicity except that the copy is a tree of whole values.
    - paths are reduced component lists (normalisation is C01's subject);
    - Lstat/IsFile/IsDir/Filespace views are not modelled (IsExist stands for the lookups);
    - [atomic_remove = false] gives the code BEFORE 8463491: Remove tests emptiness in a step of
      its own, nothing is marked removed, so an insertion into an unlinked directory succeeds. *)
From GC Require Import Common.Base Model.Paths Model.Fs.

Inductive ref := RDir (d : nat) | RFile (f : nat).

Record dirobj := mkDir { d_ch : list (name * ref); d_removed : bool; d_L : option nat }.
Record fileobj := mkFile { f_data : bytes; f_holder : option nat }.
Record shared := mkSh { dirs : list dirobj; files : list fileobj }.

Definition ROOT : nat := 0%nat.

(** ** Heap primitives *)
Fixpoint list_upd {A} (l : list A) (i : nat) (f : A -> A) : list A :=
  match l, i with
  | [], _ => []
  | x :: l', O => f x :: l'
  | x :: l', S i' => x :: list_upd l' i' f
  end.

Definition upd_dir (s : shared) (d : nat) (f : dirobj -> dirobj) : shared :=
  mkSh (list_upd (dirs s) d f) (files s).
Definition upd_file (s : shared) (i : nat) (f : fileobj -> fileobj) : shared :=
  mkSh (dirs s) (list_upd (files s) i f).
Definition alloc_dir (s : shared) (o : dirobj) : shared * nat :=
  (mkSh (dirs s ++ [o]) (files s), length (dirs s)).
Definition alloc_file (s : shared) (o : fileobj) : shared * nat :=
  (mkSh (dirs s) (files s ++ [o]), length (files s)).

Definition set_ch (ch : list (name * ref)) (o : dirobj) := mkDir ch (d_removed o) (d_L o).
Definition set_removed (o : dirobj) := mkDir (d_ch o) true (d_L o).
Definition set_L (h : option nat) (o : dirobj) := mkDir (d_ch o) (d_removed o) h.
Definition set_data (v : bytes) (o : fileobj) := mkFile v (f_holder o).
Definition set_holder (h : option nat) (o : fileobj) := mkFile (f_data o) h.

Definition lookup_ch (ch : list (name * ref)) (n : name) : option ref :=
  match find (fun e => bytes_eqb (fst e) n) ch with
  | Some e => Some (snd e)
  | None => None
  end.

(** removeNodeByName deletes the first entry of that name. *)
Fixpoint unlink_ch (ch : list (name * ref)) (n : name) : list (name * ref) :=
  match ch with
  | [] => []
  | e :: ch' => if bytes_eqb (fst e) n then ch' else e :: unlink_ch ch' n
  end.

Definition is_dir_ref (r : ref) : bool := match r with RDir _ => true | RFile _ => false end.

(** ** Operations of a thread's program (paths are reduced component lists) *)
Inductive cop :=
| CWrite (p : path) (data : bytes)            (* WriteFile *)
| CWriter (p : path) (chunks : list bytes)    (* Writer; Write each chunk; Close *)
| CMkdir (p : path)                           (* MkdirAll *)
| CRead (p : path)                            (* ReadFile *)
| CReader (p : path)                          (* Reader; read everything; Close *)
| CList (p : path)                            (* ReadDir *)
| CExist (p : path)                           (* IsExist *)
| CRemove (p : path) (all : bool)             (* Remove (all=false) / RemoveAll (all=true) *)
| CCopy (k : copy_kind) (src dst : path).     (* Copy / CopyDirectory / CopyFile *)

Inductive cres :=
| QOk | QErr | QData (v : bytes) | QList (l : list (name * bool)) | QBool (b : bool).

(** what to do with the node a path resolved to *)
Inductive ares :=
| ARead | AReader | AList | AExist
| ARemove (nm : name) (all : bool)
| ACopy (k : copy_kind) (dp : path) (nm : name).

(** what to do with the directory mkdirAllNodes returned *)
Inductive amk :=
| MDone
| MWrite (nm : name) (data : bytes)
| MWriter (nm : name) (chunks : list bytes)
| MSnap (src : ref) (nm : name)
| MAdd (snap : ref) (nm : name).

Inductive wk := WData (data : bytes) | WStream (chunks : list bytes).

(** program counters; the references they carry are the goroutine's local variables *)
Inductive pcs :=
| PIdle
| PRes (cur : ref) (rest : path) (a : ares)                   (* about to getNode(hd rest) in cur *)
| PReadData (f : nat)
| PListDir (d : nat)
| PReaderOpen (f : nat)
| PReaderClose (f : nat)                                      (* holds dataMU of f *)
| PRemGap (d : nat) (nm : name) (all : bool)                  (* memfs.remove.gap (current code) *)
| PRemOld (d : nat) (nm : name)                               (* memfs.remove.gap (code before 8463491) *)
| PMk (full : path) (cur : nat) (rest : path) (second : bool) (a : amk) (* memfs.mkdir.gap when second=false *)
| PLockL (full : path) (d : nat) (nm : name) (w : wk)         (* memfs.create.gap *)
| PInL (full : path) (d : nat) (nm : name) (found : option ref) (w : wk)  (* holds L of d *)
| PWriterAcq (d : nat) (f : nat) (chunks : list bytes)        (* holds L of d, wants dataMU of f *)
| PWriting (f : nat) (chunks : list bytes)                    (* holds dataMU of f *)
| PSnap (full : path) (d : nat) (src : ref) (nm : name)
| PAdd (full : path) (d : nat) (snap : ref) (nm : name)       (* memfs.create.gap *)
| PPanic.                                                     (* nil dereference: a dangling reference *)

Record local := mkLocal { prog : list cop; pc : pcs; log : list (cop * cres) }.
Record state := mkSt { sh : shared; ths : list local }.

Inductive next := NPc (p : pcs) | NRet (r : cres).

Fixpoint split_last (p : path) : option (path * name) :=
  match p with
  | [] => None
  | [n] => Some ([], n)
  | n :: p' => match split_last p' with Some (dp, l) => Some (n :: dp, l) | None => None end
  end.

Definition after_mk (full : path) (d : nat) (a : amk) : next :=
  match a with
  | MDone => NRet QOk
  | MWrite nm data => NPc (PLockL full d nm (WData data))
  | MWriter nm chunks => NPc (PLockL full d nm (WStream chunks))
  | MSnap src nm => NPc (PSnap full d src nm)
  | MAdd snap nm => NPc (PAdd full d snap nm)
  end.
Definition goto_mk (full : path) (cur : nat) (rest : path) (a : amk) : next :=
  match rest with [] => after_mk full cur a | _ => NPc (PMk full cur rest false a) end.

Definition after_res (r : ref) (a : ares) : next :=
  match a, r with
  | ARead, RFile f => NPc (PReadData f)
  | ARead, RDir _ => NRet QErr
  | AReader, RFile f => NPc (PReaderOpen f)
  | AReader, RDir _ => NRet QErr
  | AList, RDir d => NPc (PListDir d)
  | AList, RFile _ => NRet QErr
  | AExist, _ => NRet (QBool true)
  | ARemove nm all, RDir d => NPc (PRemGap d nm all)
  | ARemove _ _, RFile _ => NRet QErr
  | ACopy k dp nm, _ =>
    match k, r with
    | CDirOnly, RFile _ => NRet QErr
    | CFileOnly, RDir _ => NRet QErr
    | _, _ => goto_mk dp ROOT dp (MSnap r nm)
    end
  end.
Definition goto_res (cur : ref) (rest : path) (a : ares) : next :=
  match rest with [] => after_res cur a | _ => NPc (PRes cur rest a) end.
Definition res_fail (a : ares) : cres := match a with AExist => QBool false | _ => QErr end.

(** reduceNodePath rejects the root where a node name is required. *)
Definition start (o : cop) : next :=
  match o with
  | CWrite p data =>
    match split_last p with Some (dp, nm) => goto_mk dp ROOT dp (MWrite nm data) | None => NRet QErr end
  | CWriter p chunks =>
    match split_last p with Some (dp, nm) => goto_mk dp ROOT dp (MWriter nm chunks) | None => NRet QErr end
  | CMkdir p => goto_mk p ROOT p MDone
  | CRead p => match p with [] => NRet QErr | _ => goto_res (RDir ROOT) p ARead end
  | CReader p => match p with [] => NRet QErr | _ => goto_res (RDir ROOT) p AReader end
  | CList p => goto_res (RDir ROOT) p AList
  | CExist p => goto_res (RDir ROOT) p AExist
  | CRemove p all =>
    match split_last p with Some (dp, nm) => goto_res (RDir ROOT) dp (ARemove nm all) | None => NRet QErr end
  | CCopy k src dst =>
    match split_last dst with
    | Some (dp, nm) =>
      match k, src with
      | CFileOnly, [] => NRet QErr
      | _, _ => goto_res (RDir ROOT) src (ACopy k dp nm)
      end
    | None => NRet QErr
    end
  end.

(** ** Deep copy (copyNode): fresh objects for the whole subtree; [None] = a file of the subtree
    is held by an open handle (the copier blocks) or a reference dangles or the fuel ran out
    (fuel = number of directory objects + 2 bounds the depth of an acyclic heap). *)
Fixpoint copy_ref (n : nat) (s : shared) (r : ref) : option (shared * ref) :=
  match n with
  | O => None
  | S n' =>
    match r with
    | RFile f =>
      match nth_error (files s) f with
      | Some fo =>
        match f_holder fo with
        | None => let (s', i) := alloc_file s (mkFile (f_data fo) None) in Some (s', RFile i)
        | Some _ => None
        end
      | None => None
      end
    | RDir d =>
      match nth_error (dirs s) d with
      | Some o =>
        match fold_left (fun (acc : option (shared * list (name * ref))) (e : name * ref) =>
                           match acc with
                           | None => None
                           | Some (s1, out) =>
                             match copy_ref n' s1 (snd e) with
                             | Some (s2, r') => Some (s2, out ++ [(fst e, r')])
                             | None => None
                             end
                           end) (d_ch o) (Some (s, [])) with
        | Some (s', ch') => let (s'', i) := alloc_dir s' (mkDir ch' false None) in Some (s'', RDir i)
        | None => None
        end
      | None => None
      end
    end
  end.
Definition copy_fuel (s : shared) : nat := S (S (length (dirs s))).

(** ** Code flavours.  [atomic_remove = false]: the code before 8463491 (F28).  [lock_first =
    false]: the code before 288e3e2 — Writer on a NEW file inserted the empty file and took its
    data lock in a later step; now the write handler (data lock taken) is created BEFORE
    dir.addNode, so the file is never visible unlocked and empty. *)
Record flavour := mkFl { atomic_remove : bool; lock_first : bool }.
Definition cur : flavour := mkFl true true.
Definition before_288e3e2 : flavour := mkFl true false.
Definition before_8463491 : flavour := mkFl false false.

(** ** One step of thread [t] at program counter [p] (not PIdle) in flavour [ar]. *)
Definition release_L (s : shared) (d : nat) : shared := upd_dir s d (set_L None).

Definition step_pc (ar : flavour) (t : nat) (s : shared) (p : pcs) : option (shared * next) :=
  match p with
  | PIdle => None
  | PPanic => None
  | PRes cur rest a =>
    match rest with
    | [] => Some (s, after_res cur a)
    | n :: rest' =>
      match cur with
      | RFile _ => Some (s, NRet (res_fail a))
      | RDir d =>
        match nth_error (dirs s) d with
        | None => Some (s, NPc PPanic)
        | Some o =>
          match lookup_ch (d_ch o) n with
          | None => Some (s, NRet (res_fail a))
          | Some r => Some (s, goto_res r rest' a)
          end
        end
      end
    end
  | PReadData f =>
    match nth_error (files s) f with
    | None => Some (s, NPc PPanic)
    | Some fo => match f_holder fo with None => Some (s, NRet (QData (f_data fo))) | Some _ => None end
    end
  | PListDir d =>
    match nth_error (dirs s) d with
    | None => Some (s, NPc PPanic)
    | Some o => Some (s, NRet (QList (map (fun e => (fst e, is_dir_ref (snd e))) (d_ch o))))
    end
  | PReaderOpen f =>
    match nth_error (files s) f with
    | None => Some (s, NPc PPanic)
    | Some fo =>
      match f_holder fo with
      | None => Some (upd_file s f (set_holder (Some t)), NPc (PReaderClose f))
      | Some _ => None
      end
    end
  | PReaderClose f =>
    match nth_error (files s) f with
    | None => Some (s, NPc PPanic)
    | Some fo => Some (upd_file s f (set_holder None), NRet (QData (f_data fo)))
    end
  | PRemGap d nm all =>
    match nth_error (dirs s) d with
    | None => Some (s, NPc PPanic)
    | Some o =>
      match lookup_ch (d_ch o) nm with
      | None => Some (s, NRet QErr)
      | Some (RFile _) => Some (upd_dir s d (set_ch (unlink_ch (d_ch o) nm)), NRet QOk)
      | Some (RDir c) =>
        match nth_error (dirs s) c with
        | None => Some (s, NPc PPanic)
        | Some co =>
          if negb all && negb (match d_ch co with [] => true | _ => false end) then Some (s, NRet QErr)
          else if atomic_remove ar then
            Some (upd_dir (upd_dir s c set_removed) d (set_ch (unlink_ch (d_ch o) nm)), NRet QOk)
          else if all then Some (upd_dir s d (set_ch (unlink_ch (d_ch o) nm)), NRet QOk)
          else Some (s, NPc (PRemOld d nm))
        end
      end
    end
  | PRemOld d nm =>
    match nth_error (dirs s) d with
    | None => Some (s, NPc PPanic)
    | Some o =>
      match lookup_ch (d_ch o) nm with
      | None => Some (s, NRet QErr)
      | Some _ => Some (upd_dir s d (set_ch (unlink_ch (d_ch o) nm)), NRet QOk)
      end
    end
  | PMk full cur rest second a =>
    match rest with
    | [] => Some (s, after_mk full cur a)
    | n :: rest' =>
      match nth_error (dirs s) cur with
      | None => Some (s, NPc PPanic)
      | Some o =>
        match lookup_ch (d_ch o) n with
        | Some (RDir c) => Some (s, goto_mk full c rest' a)
        | Some (RFile _) =>
          if second then Some (s, NRet QErr) else Some (s, NPc (PMk full cur rest true a))
        | None =>
          if negb second then Some (s, NPc (PMk full cur rest true a))
          else if d_removed o then Some (s, goto_mk full ROOT full a)
          else let (s1, c) := alloc_dir s (mkDir [] false None) in
               Some (upd_dir s1 cur (set_ch (d_ch o ++ [(n, RDir c)])), goto_mk full c rest' a)
        end
      end
    end
  | PLockL full d nm w =>
    match nth_error (dirs s) d with
    | None => Some (s, NPc PPanic)
    | Some o =>
      match d_L o with
      | Some _ => None
      | None => Some (upd_dir s d (set_L (Some t)), NPc (PInL full d nm (lookup_ch (d_ch o) nm) w))
      end
    end
  | PInL full d nm found w =>
    match nth_error (dirs s) d with
    | None => Some (s, NPc PPanic)
    | Some o =>
      match found with
      | Some (RDir _) => Some (release_L s d, NRet QErr)
      | Some (RFile f) =>
        match nth_error (files s) f with
        | None => Some (s, NPc PPanic)
        | Some fo =>
          match f_holder fo with
          | Some _ => None
          | None =>
            match w with
            | WData data => Some (release_L (upd_file s f (set_data data)) d, NRet QOk)
            | WStream chunks =>
              Some (release_L (upd_file s f (fun _ => mkFile [] (Some t))) d, NPc (PWriting f chunks))
            end
          end
        end
      | None =>
        if d_removed o then
          Some (release_L s d,
                goto_mk full ROOT full (match w with WData data => MWrite nm data | WStream c => MWriter nm c end))
        else match lookup_ch (d_ch o) nm with
             | Some _ => Some (release_L s d, NRet QErr)
             | None =>
               match w with
               | WData data =>
                 let (s1, f) := alloc_file s (mkFile data None) in
                 Some (release_L (upd_dir s1 d (set_ch (d_ch o ++ [(nm, RFile f)]))) d, NRet QOk)
               | WStream chunks =>
                 if lock_first ar then
                   (* newFileWriteHandler(file) before dir.addNode(file): inserted already locked *)
                   let (s1, f) := alloc_file s (mkFile [] (Some t)) in
                   Some (release_L (upd_dir s1 d (set_ch (d_ch o ++ [(nm, RFile f)]))) d, NPc (PWriting f chunks))
                 else
                   let (s1, f) := alloc_file s (mkFile [] None) in
                   Some (upd_dir s1 d (set_ch (d_ch o ++ [(nm, RFile f)])), NPc (PWriterAcq d f chunks))
               end
             end
      end
    end
  | PWriterAcq d f chunks =>
    match nth_error (files s) f with
    | None => Some (s, NPc PPanic)
    | Some fo =>
      match f_holder fo with
      | Some _ => None
      | None => Some (release_L (upd_file s f (fun _ => mkFile [] (Some t))) d, NPc (PWriting f chunks))
      end
    end
  | PWriting f chunks =>
    match nth_error (files s) f with
    | None => Some (s, NPc PPanic)
    | Some fo =>
      match chunks with
      | c :: rest => Some (upd_file s f (set_data (f_data fo ++ c)), NPc (PWriting f rest))
      | [] => Some (upd_file s f (set_holder None), NRet QOk)
      end
    end
  | PSnap full d src nm =>
    match copy_ref (copy_fuel s) s src with
    | None => None
    | Some (s', r) => Some (s', NPc (PAdd full d r nm))
    end
  | PAdd full d snap nm =>
    match nth_error (dirs s) d with
    | None => Some (s, NPc PPanic)
    | Some o =>
      if d_removed o then Some (s, goto_mk full ROOT full (MAdd snap nm))
      else match lookup_ch (d_ch o) nm with
           | Some _ => Some (s, NRet QErr)
           | None => Some (upd_dir s d (set_ch (d_ch o ++ [(nm, snap)])), NRet QOk)
           end
    end
  end.

Definition finish (l : local) (r : cres) : local :=
  match prog l with
  | o :: rest => mkLocal rest PIdle (log l ++ [(o, r)])
  | [] => mkLocal [] PIdle (log l)
  end.
Definition apply_next (l : local) (n : next) : local :=
  match n with NPc p => mkLocal (prog l) p (log l) | NRet r => finish l r end.

Definition step_local (ar : flavour) (t : nat) (s : shared) (l : local) : option (shared * local) :=
  match pc l with
  | PIdle => match prog l with
             | [] => None
             | o :: _ => Some (s, apply_next l (start o))
             end
  | p => match step_pc ar t s p with
         | Some (s', n) => Some (s', apply_next l n)
         | None => None
         end
  end.

Definition step (ar : flavour) (t : nat) (st : state) : option state :=
  match nth_error (ths st) t with
  | None => None
  | Some l =>
    match step_local ar t (sh st) l with
    | Some (s', l') => Some (mkSt s' (list_upd (ths st) t (fun _ => l')))
    | None => None
    end
  end.

Definition step_or_stay (ar : flavour) (st : state) (t : nat) : state :=
  match step ar t st with Some st' => st' | None => st end.
Definition run (ar : flavour) (sched : list nat) (st : state) : state :=
  fold_left (step_or_stay ar) sched st.

Definition is_idle (p : pcs) : bool := match p with PIdle => true | _ => false end.
Definition done (l : local) : bool := match prog l with [] => is_idle (pc l) | _ => false end.
Definition final (st : state) : bool := forallb done (ths st).
Definition holds_handle (p : pcs) : bool :=
  match p with PReaderClose _ | PWriting _ _ => true | _ => false end.

(** ** Initial states: an empty filespace, or any quiescent heap accepted by [good_shared]. *)
Definition empty_shared : shared := mkSh [mkDir [] false None] [].
Definition boot (s : shared) (progs : list (list cop)) : state :=
  mkSt s (map (fun p => mkLocal p PIdle []) progs).

Fixpoint nodup_names (l : list name) : bool :=
  match l with
  | [] => true
  | n :: l' => negb (existsb (bytes_eqb n) l') && nodup_names l'
  end.
Definition ref_in (s : shared) (r : ref) : bool :=
  match r with RDir d => Nat.ltb d (length (dirs s)) | RFile f => Nat.ltb f (length (files s)) end.
Definition dir_ok (s : shared) (o : dirobj) : bool :=
  nodup_names (map fst (d_ch o)) && forallb good_name (map fst (d_ch o)) && forallb (ref_in s) (map snd (d_ch o)).
Definition good_shared (s : shared) : bool :=
  Nat.ltb 0 (length (dirs s)) &&
  forallb (dir_ok s) (dirs s) &&
  forallb (fun o => match d_L o with None => true | Some _ => false end) (dirs s) &&
  forallb (fun o => match f_holder o with None => true | Some _ => false end) (files s).

(** ** The abstract tree: everything reachable from the root, as Model/Fs.v's [fs]. *)
Fixpoint abs_from (n : nat) (s : shared) (d : nat) (pre : path) : fs :=
  match n with
  | O => []
  | S n' =>
    match nth_error (dirs s) d with
    | None => []
    | Some o =>
      flat_map (fun e =>
        match snd e with
        | RFile f => match nth_error (files s) f with
                     | Some fo => [(pre ++ [fst e], F (f_data fo))]
                     | None => []
                     end
        | RDir c => (pre ++ [fst e], D) :: abs_from n' s c (pre ++ [fst e])
        end) (d_ch o)
    end
  end.
Definition abs (s : shared) : fs := abs_from (S (length (dirs s))) s ROOT [].

(** Resolution of a path in the heap (no fuel: recursion on the path). *)
Fixpoint walk (s : shared) (cur : ref) (p : path) : option ref :=
  match p with
  | [] => Some cur
  | n :: p' =>
    match cur with
    | RFile _ => None
    | RDir d =>
      match nth_error (dirs s) d with
      | None => None
      | Some o => match lookup_ch (d_ch o) n with Some r => walk s r p' | None => None end
      end
    end
  end.
Definition walk_root (s : shared) (p : path) : option ref := walk s (RDir ROOT) p.

(** ** Values *)
(** In the flavours before 288e3e2 the empty value belongs to every Writer session (creation
    window); in the current flavour it does not. *)
Definition op_vals (fl : flavour) (o : cop) : list bytes :=
  match o with
  | CWrite _ data => [data]
  | CWriter _ chunks => if lock_first fl then [concat chunks] else [concat chunks; []]
  | _ => []
  end.
Definition vals_of (fl : flavour) (st : state) : list bytes :=
  map f_data (files (sh st)) ++ flat_map (fun l => flat_map (op_vals fl) (prog l)) (ths st).

Definition is_remove (o : cop) : bool := match o with CRemove _ _ => true | _ => false end.
Definition is_mkdir_or_query (o : cop) : bool :=
  match o with CMkdir _ | CList _ | CExist _ | CRemove _ _ => true | _ => false end.

Definition results_of (st : state) (t : nat) : list (cop * cres) :=
  match nth_error (ths st) t with Some l => log l | None => [] end.

(** ** Exhaustive exploration of ALL schedules of a (small) configuration: [explore n P st] is
    true iff every maximal interleaving from [st] reaches, within [n] steps, a state in which no
    thread has an enabled step, and that state satisfies [P].  (Proofs/MemConc.v: explore_sound.) *)
Fixpoint explore (ar : flavour) (n : nat) (P : state -> bool) (st : state) : bool :=
  if forallb (fun t => match step ar t st with None => true | Some _ => false end) (seq 0 (length (ths st)))
  then P st
  else match n with
       | O => false
       | S n' => forallb (fun t => match step ar t st with
                                   | None => true
                                   | Some st' => explore ar n' P st'
                                   end) (seq 0 (length (ths st)))
       end.

(** ** Sequential reference (Model/Fs.v) for one operation on a reduced path *)
Definition seq_apply (t : fs) (o : cop) : fs * bool :=
  let r (x : option fs) := match x with Some t' => (t', true) | None => (t, false) end in
  match o with
  | CWrite p data => match p with [] => (t, false) | _ => r (write_at t p data) end
  | CWriter p chunks => match p with [] => (t, false) | _ => r (write_at t p (concat chunks)) end
  | CMkdir p => r (mkdir_all t p)
  | CRemove p all => match p with [] => (t, false) | _ => r (if all then remove_all_at t p else remove_at t p) end
  | CCopy k src dst =>
    match dst, k, src with
    | [], _, _ => (t, false)
    | _, CFileOnly, [] => (t, false)
    | _, _, _ => r (copy_at k t src dst)
    end
  | _ => (t, true)
  end.

Definition entry_same (a b : entry) : bool :=
  match a, b with D, D => true | F x, F y => bytes_eqb x y | _, _ => false end.
Definition tree_sub (a b : fs) : bool :=
  forallb (fun pe => match assoc b (fst pe) with Some e => entry_same e (snd pe) | None => false end) a.
Definition same_tree (a b : fs) : bool :=
  tree_sub a b && tree_sub b a && Nat.eqb (length a) (length b).

Definition res_ok (r : cres) : bool := match r with QErr => false | _ => true end.

(** Apply the operations in the given order; every one must have the recorded success class. *)
Fixpoint seq_run (t : fs) (l : list (cop * bool)) : option fs :=
  match l with
  | [] => Some t
  | (o, ok) :: l' =>
    let (t', ok') := seq_apply t o in
    if Bool.eqb ok ok' then seq_run t' l' else None
  end.

(** Two-thread scenario: thread 0 runs [a], thread 1 runs [b] (one operation each).  The outcome
    (both results and the final abstract tree) is explained by the order a;b or by b;a. *)
Definition two_explained (t0 : fs) (a b : cop) (st : state) : bool :=
  match results_of st 0, results_of st 1 with
  | [(_, ra)], [(_, rb)] =>
    let fin := abs (sh st) in
    (match seq_run t0 [(a, res_ok ra); (b, res_ok rb)] with Some t => same_tree t fin | None => false end)
    || (match seq_run t0 [(b, res_ok rb); (a, res_ok ra)] with Some t => same_tree t fin | None => false end)
  | _, _ => false
  end.

Definition both_ok (st : state) : bool :=
  match results_of st 0, results_of st 1 with
  | [(_, ra)], [(_, rb)] => res_ok ra && res_ok rb
  | _, _ => false
  end.

Definition all_ok (st : state) : bool :=
  forallb (fun l => forallb (fun e => res_ok (snd e)) (log l)) (ths st) && final st.

(** Set-up of a scenario: run one thread alone to the end on the empty filespace. *)
Fixpoint run_alone (ar : flavour) (n : nat) (st : state) : state :=
  match n with
  | O => st
  | S n' => match step ar 0 st with Some st' => run_alone ar n' st' | None => st end
  end.
Definition setup (ops : list cop) : shared :=
  sh (run_alone cur (40 * S (length ops)) (boot empty_shared [ops])).

Definition nm (c : N) : name := [c].
Definition nD := nm 100. Definition nE := nm 101. Definition nX := nm 120. Definition nY := nm 121.
Definition nS := nm 115. Definition nZ := nm 122. Definition nA := nm 97. Definition nT := nm 116.

Record scenario := mkSc { sc_setup : list cop; sc_rem : cop; sc_cre : cop }.
Definition sc_init (sc : scenario) : state := boot (setup (sc_setup sc)) [[sc_rem sc]; [sc_cre sc]].

(** The F28 scenarios: a directory d that EXISTS before the race (empty / holding a
    sub-directory e / holding a file z, at the root or below a), a source file s and a source
    directory t; one thread removes d (Remove or RemoveAll, or RemoveAll of its parent), the other
    creates a node below d. *)
Definition f28_setups_root : list (list cop) :=
  [ [CMkdir [nD]; CWrite [nS] [1;2;3]; CWrite [nT; nS] [4]];
    [CMkdir [nD; nE]; CWrite [nS] [1;2;3]; CWrite [nT; nS] [4]];
    [CWrite [nD; nZ] [9]; CWrite [nS] [1;2;3]; CMkdir [nT]] ].
Definition f28_removers_root : list cop := [CRemove [nD] false; CRemove [nD] true].
Definition f28_creators_root : list cop :=
  [CWrite [nD; nX] [5;6]; CMkdir [nD; nY]; CWriter [nD; nX] [[5];[6]]; CCopy CFileOnly [nS] [nD; nX];
   CCopy CAny [nS] [nD; nX]; CCopy CDirOnly [nT] [nD; nX]; CCopy CAny [nT] [nD; nX];
   CMkdir [nD; nE; nY]; CWrite [nD; nE; nX] [8]].
Definition f28_setups_a : list (list cop) := [ [CMkdir [nA; nD]; CWrite [nS] [7]] ].
Definition f28_removers_a : list cop := [CRemove [nA; nD] false; CRemove [nA; nD] true; CRemove [nA] true].
Definition f28_creators_a : list cop :=
  [CWrite [nA; nD; nX] [5]; CMkdir [nA; nD; nY]; CCopy CAny [nS] [nA; nD; nX]].

Definition cross (sus : list (list cop)) (rs cs : list cop) : list scenario :=
  flat_map (fun su => flat_map (fun r => map (fun c => mkSc su r c) cs) rs) sus.
Definition f28_scenarios : list scenario :=
  cross f28_setups_root f28_removers_root f28_creators_root ++
  cross f28_setups_a f28_removers_a f28_creators_a.

(** Why full linearizability is not claimed: when d does NOT exist before the race, MkdirAll's
    abandoned first attempt is visible to a concurrent Remove (mkdir -p is not atomic). *)
Definition sc_mkdir_p : scenario := mkSc [CWrite [nS] [7]] (CRemove [nD] false) (CMkdir [nD; nY]).

Definition sc_explained (sc : scenario) (st : state) : bool :=
  two_explained (abs (setup (sc_setup sc))) (sc_rem sc) (sc_cre sc) st.

(** ** Concurrent creations of one new node (C09_create_once): small configurations explored
    over ALL schedules.  Each predicate includes [final]: a state without an enabled step must
    be one in which every thread has finished (no deadlock). *)
Definition tree_is (st : state) (t : fs) : bool := same_tree (abs (sh st)) t.

Definition co_configs : list (state * (state -> bool)) :=
  [ (* three MkdirAll of overlapping new paths: all succeed, one node each *)
    (boot empty_shared [[CMkdir [nA; nD]]; [CMkdir [nA; nD]]; [CMkdir [nA]]],
     fun st => all_ok st && tree_is st [([nA], D); ([nA; nD], D)]);
    (* two WriteFile of the same new file (plus a lister): both succeed (the directory's outer
       lock serialises lookup-then-create), one node, holding one of the two values *)
    (boot empty_shared [[CWrite [nA; nX] [1]]; [CWrite [nA; nX] [2]]; [CList [nA]]],
     fun st => final st && both_ok st && (tree_is st [([nA], D); ([nA; nX], F [1])] || tree_is st [([nA], D); ([nA; nX], F [2])]));
    (* WriteFile and MkdirAll of the same new name: exactly one node; the loser reports an error *)
    (boot empty_shared [[CWrite [nA; nX] [1]]; [CMkdir [nA; nX]]],
     fun st => final st && negb (both_ok st) &&
               (tree_is st [([nA], D); ([nA; nX], F [1])] || tree_is st [([nA], D); ([nA; nX], D)]));
    (* Copy and WriteFile to the same new name: one node with one of the two values; WriteFile
       always succeeds or loses to the copy *)
    (boot (setup [CWrite [nS] [7]]) [[CCopy CAny [nS] [nA; nX]]; [CWrite [nA; nX] [3]]],
     fun st => final st &&
               (tree_is st [([nS], F [7]); ([nA], D); ([nA; nX], F [7])] || tree_is st [([nS], F [7]); ([nA], D); ([nA; nX], F [3])]));
    (* a Writer session, a Reader session and a WriteFile on one existing file: nobody blocks for
       ever, everybody succeeds, the file ends with a whole value *)
    (boot (setup [CWrite [nX] [9]]) [[CWriter [nX] [[1];[2]]]; [CReader [nX]]; [CWrite [nX] [3]]],
     fun st => all_ok st && (tree_is st [([nX], F [1;2])] || tree_is st [([nX], F [3])])) ].

(** ** Executable acceptor for recorded small histories (harness tie iii): the operations that
    succeeded, with begin/end sequence numbers; some order that respects real-time precedence
    (a ended before b began => a before b), applied sequentially with Model/Fs.v on the initial
    tree, every operation succeeding, gives the observed final tree. *)
Record hop := mkHop { h_op : cop; h_begin : N; h_end : N }.

Fixpoint picks {A} (l : list A) : list (A * list A) :=
  match l with
  | [] => []
  | x :: l' => (x, l') :: map (fun p => (fst p, x :: snd p)) (picks l')
  end.

Fixpoint search (n : nat) (t : fs) (todo : list hop) (fin : fs) : bool :=
  match todo with
  | [] => same_tree t fin
  | _ =>
    match n with
    | O => false
    | S n' =>
      existsb (fun p =>
        let h := fst p in let rest := snd p in
        (* h may come next only if no remaining operation ended before h began *)
        forallb (fun h' => negb (N.ltb (h_end h') (h_begin h))) rest &&
        (let (t', ok) := seq_apply t (h_op h) in ok && search n' t' rest fin)) (picks todo)
    end
  end.
Definition final_serialisable (t0 : fs) (succ : list hop) (fin : fs) : bool :=
  search (S (length succ)) t0 succ fin.

(** ** Tree-shaped heaps (executable check used as the hypothesis of the liveness theorems).
    [good_shared] does not exclude a cyclic heap, a directory linked twice, or a directory that
    carries the [removed] mark while it is still linked; none of these can be built through the
    memfs API (every heap reached from a tree-shaped one is tree-shaped), but on such a heap the
    deep copy runs out of fuel or MkdirAll restarts for ever.  [tree_shared s]: the child lists
    hold every directory object at most once over the whole heap, no link points to the root or
    to a removed directory, the root is not removed, and the computed heights decrease along
    every link (no cycle). *)
Definition drefs (ch : list (name * ref)) : list nat :=
  flat_map (fun e => match snd e with RDir c => [c] | RFile _ => [] end) ch.
Definition kids (s : shared) (d : nat) : list nat :=
  match nth_error (dirs s) d with Some o => drefs (d_ch o) | None => [] end.
Definition is_removed (s : shared) (d : nat) : bool :=
  match nth_error (dirs s) d with Some o => d_removed o | None => false end.
Definition nat_in (x : nat) (l : list nat) : bool := existsb (Nat.eqb x) l.
Fixpoint nodupb (l : list nat) : bool :=
  match l with [] => true | x :: l' => negb (nat_in x l') && nodupb l' end.
Fixpoint hgt (fuel : nat) (s : shared) (d : nat) : nat :=
  match fuel with
  | O => O
  | S f => S (list_max (map (hgt f s) (kids s d)))
  end.
Definition heights (s : shared) : list nat :=
  map (hgt (length (dirs s)) s) (seq 0 (length (dirs s))).
Definition tree_shared (s : shared) : bool :=
  let n := length (dirs s) in
  let hts := heights s in
  let rk x := nth x hts O in
  forallb (fun d =>
    nodupb (kids s d) &&
    forallb (fun c =>
      negb (Nat.eqb c ROOT) && negb (is_removed s c) && Nat.ltb (rk c) (rk d) &&
      forallb (fun d2 => Nat.eqb d d2 || negb (nat_in c (kids s d2))) (seq 0 n)) (kids s d)) (seq 0 n)
  && negb (is_removed s ROOT).

(** ** Nested use of a stream session.  The programs of this model close a Reader/Writer session
    before the same thread starts its next operation.  A goroutine that calls into memfs WHILE it
    holds a session is described here as two model threads with a dependency: [dep t = Some b]
    means "thread t does not Close its session before thread b has finished" (b runs the calls
    the goroutine makes while the session is open).  With [dep = fun _ => None] this is [step]. *)
Definition closing (p : pcs) : bool :=
  match p with PWriting _ [] | PReaderClose _ => true | _ => false end.
Definition thread_done (st : state) (t : nat) : bool :=
  match nth_error (ths st) t with Some l => done l | None => true end.
Definition step_nested (dep : nat -> option nat) (ar : flavour) (t : nat) (st : state) : option state :=
  match nth_error (ths st) t, dep t with
  | Some l, Some b => if closing (pc l) && negb (thread_done st b) then None else step ar t st
  | _, _ => step ar t st
  end.
Definition run_nested (dep : nat -> option nat) (ar : flavour) (sched : list nat) (st : state) : state :=
  fold_left (fun st t => match step_nested dep ar t st with Some st' => st' | None => st end) sched st.
