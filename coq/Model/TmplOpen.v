(** Open-system model of a template provider in use (C19): definitions only.

    [Model/Tmpl.v] has two closed scenarios: [run] (one caller, requests and Execute steps one
    after the other) and [crun] over [cinit] (a fixed set of goroutines, one request each, on a
    fresh provider, nobody executes anything).  The property speaks of a provider that is used
    by many goroutines from its first use on.  This file puts the SAME step functions ([cstep],
    [thread_init], [set_exec] of Tmpl.v, nothing is redefined) into an open system in which at any
    moment
      - a goroutine may call the provider       ([XSpawn q]: a new thread is added; a goroutine
        that asks again after it got an answer is a new thread that is added at that moment),
      - a thread may take its next step         ([XStep t], skipped when finished or blocked),
      - a caller may execute the template it got ([XExec t]: html/template marks the object as
        executed, after which it refuses Clone and Parse).
    Every run of [crun] over [cinit] is a run of this system ([crun_is_xrun] in
    Proofs/C19More.v): call all of them first, then step. *)
From GC Require Import Common.Base Model.Tmpl.

Inductive xact :=
| XSpawn (q : creq)
| XStep (t : nat)
| XExec (t : nat).

(** The caller of thread [t] executes what it was given (nothing happens when the thread has not
    returned yet or has returned an error). *)
Definition exec_of (s : cstate) (t : nat) : cstate :=
  match nth_error (cthr s) t with
  | Some (TDone _ (Ok i)) => {| cp := set_exec i (cp s); cthr := cthr s |}
  | _ => s
  end.

Definition spawn (fl : flavour) (s : cstate) (q : creq) : cstate :=
  {| cp := cp s; cthr := cthr s ++ [thread_init fl q] |}.

Definition xstep (fl : flavour) (c : bool) (fs : tfs) (s : cstate) (a : xact) : cstate :=
  match a with
  | XSpawn q => spawn fl s q
  | XStep t => crun_step fl c fs s t
  | XExec t => exec_of s t
  end.

Definition xrun (fl : flavour) (c : bool) (fs : tfs) (acts : list xact) (s : cstate) : cstate :=
  fold_left (xstep fl c fs) acts s.

(** A provider nobody has used yet. *)
Definition xinit : cstate := {| cp := pinit; cthr := [] |}.

(** The requests made in a run, in the order of the calls: thread number t serves the t-th. *)
Definition spawned (acts : list xact) : list creq :=
  flat_map (fun a => match a with XSpawn q => [q] | _ => [] end) acts.

Definition is_spawn (a : xact) : bool := match a with XSpawn _ => true | _ => false end.
Definition is_step_of (t : nat) (a : xact) : bool :=
  match a with XStep t' => Nat.eqb t' t | _ => false end.

(** A thread that carries a panic anywhere: as the result it is about to return from a level,
    about to hand out, or has returned. *)
Definition frame_panics (f : frame) : bool :=
  match snd f with PUnlock Panic => true | _ => false end.
Definition thread_panics (th : thread) : bool :=
  match th with
  | TRun _ st => existsb frame_panics st
  | THand _ Panic => true
  | TDone _ Panic => true
  | _ => false
  end.

(** Bounded fairness: a block of actions in which nobody new calls and every one of the [n]
    threads gets at least one turn (callers may execute what they have at any point). *)
Definition fair_block (n : nat) (b : list xact) : bool :=
  forallb (fun a => negb (is_spawn a)) b &&
  forallb (fun t => existsb (is_step_of t) b) (seq 0 n).

(** The directories a request names: the helpers, the directory of its layout, the directory of
    its view.  [same_dirs fs fs' q]: the two file sets hold the same template files (files with the
    extension, in walk order) in the directories named by [q]; they may differ in everything
    else - other views, other layouts, files without the extension, the extension itself. *)
Definition same_dirs (fs fs' : tfs) (q : creq) : Prop :=
  helper_files fs = helper_files fs' /\
  match q with
  | CBase => True
  | CLayout l => layout_files fs (defname l) = layout_files fs' (defname l)
  | CView l v => layout_files fs (defname l) = layout_files fs' (defname l) /\
                 view_files fs v = view_files fs' v
  end.

Definition creq_of (q : req) : option creq :=
  match q with
  | RBase => Some CBase
  | RLayout l => Some (CLayout l)
  | RView l v => Some (CView l v)
  | RExec _ => None
  end.
Definition same_dirs_req (fs fs' : tfs) (q : req) : Prop :=
  match creq_of q with Some cq => same_dirs fs fs' cq | None => True end.
