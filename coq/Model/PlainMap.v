(** Model of varutil/plainmap/rmap.go: RecursiveMapToPlainMap (flatten) and
    ToRecursiveMap / StringMapToRecursiveMap (unflatten).

    Go maps are unordered.  A map value together with the order in which one particular [range]
    loop visited it is an association list; every function below consumes such a list in the
    given order, so a theorem quantified over ALL lists covers every iteration order the Go
    runtime may choose.  Assignments [m[k] = v] are modelled exactly: for the nested tree by
    [set] (replace in place or append; keys stay unique), for flat results by appending to a
    log that is read with [lookup_last] (the last assignment wins).

    Definitions only — proofs are in Proofs/PlainMap.v. *)
From GC Require Import Common.Base.

Definition DOT : byte := 46.

(** Nested map: a value is either a leaf (anything that is not a map[string]interface{}; the
    harness uses strings) or a sub-map. *)
Inductive jt :=
| Leaf (v : bytes)
| Obj (l : list (bytes * jt)).

Definition children := list (bytes * jt).
Definition flatmap := list (bytes * bytes).

(** first / last binding of a key in an association list *)
Fixpoint lookup {V} (k : bytes) (l : list (bytes * V)) : option V :=
  match l with
  | [] => None
  | (k', v) :: l' => if bytes_eqb k k' then Some v else lookup k l'
  end.

Fixpoint lookup_last {V} (k : bytes) (l : list (bytes * V)) : option V :=
  match l with
  | [] => None
  | (k', v) :: l' =>
    match lookup_last k l' with
    | Some x => Some x
    | None => if bytes_eqb k k' then Some v else None
    end
  end.

(** node[k] = v on a Go map kept as a duplicate-free association list *)
Fixpoint set {V} (k : bytes) (v : V) (l : list (bytes * V)) : list (bytes * V) :=
  match l with
  | [] => [(k, v)]
  | (k', v') :: l' => if bytes_eqb k k' then (k, v) :: l' else (k', v') :: set k v l'
  end.

(** * RecursiveMapToPlainMap: depth-first, outkey = basekey + separator + key, separator is ""
    at the top level and "." below; only sub-maps are descended; the order of the result log is
    the visiting order. *)
Fixpoint flat_t (key : bytes) (t : jt) : flatmap :=
  match t with
  | Leaf v => [(key, v)]
  | Obj l => flat_map (fun kc => flat_t (key ++ DOT :: fst kc) (snd kc)) l
  end.

Definition flatten (l : children) : flatmap :=
  flat_map (fun kc => flat_t (fst kc) (snd kc)) l.

(** * strings.Split(s, ".") — never returns the empty list *)
Fixpoint split_dot (s : bytes) : list bytes :=
  match s with
  | [] => [[]]
  | c :: t =>
    if N.eqb c DOT then [] :: split_dot t
    else match split_dot t with
         | [] => [[c]]              (* unreachable *)
         | seg :: r => (c :: seg) :: r
         end
  end.

(** strings.Join(path, ".") *)
Fixpoint join_dot (p : list bytes) : bytes :=
  match p with
  | [] => []
  | [s] => s
  | s :: r => s ++ DOT :: join_dot r
  end.

(** toRecursiveMapCreateNode along path[:len-1] followed by node[path[len-1]] = value.
    [None] = the error "... is not a node" (a leaf stands where a sub-map is needed).  The final
    assignment silently replaces whatever is there, sub-map included — as the Go code does. *)
Fixpoint ins (path : list bytes) (v : bytes) (node : children) : option children :=
  match path with
  | [] => None                     (* unreachable: split_dot never returns [] *)
  | k :: rest =>
    match rest with
    | [] => Some (set k (Leaf v) node)
    | _ :: _ =>
      match lookup k node with
      | None => match ins rest v [] with
                | Some c => Some (set k (Obj c) node)
                | None => None
                end
      | Some (Obj c) => match ins rest v c with
                        | Some c' => Some (set k (Obj c') node)
                        | None => None
                        end
      | Some (Leaf _) => None
      end
    end
  end.

(** ToRecursiveMap / StringMapToRecursiveMap over the entries in iteration order. *)
Fixpoint unflatten_from (m : flatmap) (acc : children) : res children :=
  match m with
  | [] => Ok acc
  | (k, v) :: m' =>
    match k with
    | [] => Err                                       (* "empty key is no allowd" *)
    | _ :: _ => match ins (split_dot k) v acc with
                | Some acc' => unflatten_from m' acc'
                | None => Err
                end
    end
  end.

Definition unflatten (m : flatmap) : res children := unflatten_from m [].

(** * Vocabulary of the theorems *)

(** the leaf stored under a path of keys, if any *)
Fixpoint leafat_t (p : list bytes) (t : jt) : option bytes :=
  match p with
  | [] => match t with Leaf v => Some v | Obj _ => None end
  | k :: rest =>
    match t with
    | Leaf _ => None
    | Obj l => match lookup k l with Some c => leafat_t rest c | None => None end
    end
  end.
Definition leafat (p : list bytes) (node : children) : option bytes := leafat_t p (Obj node).

Definition dotfree (k : bytes) : bool := forallb (fun c => negb (N.eqb c DOT)) k.

Fixpoint nodup_keys {V} (l : list (bytes * V)) : bool :=
  match l with
  | [] => true
  | (k, _) :: l' => match lookup k l' with None => nodup_keys l' | Some _ => false end
  end.

(** well-formed nested map: keys dot-free, unique per object (what a Go map guarantees), and no
    empty sub-map anywhere *)
Fixpoint wf_t (t : jt) : bool :=
  match t with
  | Leaf _ => true
  | Obj l => negb (match l with [] => true | _ => false end) && nodup_keys l
             && forallb (fun kc => dotfree (fst kc) && wf_t (snd kc)) l
  end.

Definition wf_children (l : children) : bool :=
  nodup_keys l && forallb (fun kc => dotfree (fst kc) && wf_t (snd kc)) l.

Definition nonempty (k : bytes) : bool := match k with [] => false | _ => true end.

(** p is a prefix of q as lists of segments *)
Fixpoint path_prefix (p q : list bytes) : bool :=
  match p, q with
  | [], _ => true
  | a :: p', b :: q' => bytes_eqb a b && path_prefix p' q'
  | _ :: _, [] => false
  end.

Definition path_eqb (p q : list bytes) : bool := list_eqb bytes_eqb p q.
Definition proper_prefix (p q : list bytes) : bool := path_prefix p q && negb (path_eqb p q).

(** no path is a proper prefix of another one *)
Definition prefix_free (paths : list (list bytes)) : bool :=
  forallb (fun p => forallb (fun q => negb (proper_prefix p q)) paths) paths.

(** flat maps that are images of nested maps: keys non-empty and unique (a Go map), and no key's
    dotted path is a proper prefix of another key's path *)
Definition good_flat (m : flatmap) : bool :=
  forallb (fun kv => nonempty (fst kv)) m && nodup_keys m
  && prefix_free (map (fun kv => split_dot (fst kv)) m).

(** two flat maps (logs) denote the same Go map *)
Definition flat_equiv (a b : flatmap) : Prop := forall k, lookup_last k a = lookup_last k b.

(** * Canonical (sorted) forms used by the correspondence check *)
Fixpoint bytes_ltb (a b : bytes) : bool :=
  match a, b with
  | [], [] => false
  | [], _ :: _ => true
  | _ :: _, [] => false
  | x :: a', y :: b' => if N.ltb x y then true else if N.ltb y x then false else bytes_ltb a' b'
  end.

(** insert or replace in a list sorted by key *)
Fixpoint put_sorted {V} (k : bytes) (v : V) (l : list (bytes * V)) : list (bytes * V) :=
  match l with
  | [] => [(k, v)]
  | (k', v') :: l' =>
    if bytes_eqb k k' then (k, v) :: l'
    else if bytes_ltb k k' then (k, v) :: l
    else (k', v') :: put_sorted k v l'
  end.

(** the Go map denoted by a log, as a list sorted by key *)
Definition normalize {V} (log : list (bytes * V)) : list (bytes * V) :=
  fold_left (fun acc kv => put_sorted (fst kv) (snd kv) acc) log [].

Fixpoint canon_t (t : jt) : jt :=
  match t with
  | Leaf v => Leaf v
  | Obj l => Obj (normalize (map (fun kc => (fst kc, canon_t (snd kc))) l))
  end.
Definition canon (l : children) : children :=
  normalize (map (fun kc => (fst kc, canon_t (snd kc))) l).
