(** Tree copies: fshelper.Copy(srcfs, destfs, nil) and Copier.copyDirectory.  Definitions only;
    proofs are in Proofs/Copy.v.

    fshelper.Copy runs the fsloop walk (one producer, one consumer) over the source view and
      OnDir(x)  = destfs.MkdirAll(x)
      OnFile(x) = destfs.MkdirAll(path.Dir(x)) ; StreamCopy(srcfs, destfs, x)
    and returns an error iff the walk's error list is non-empty.  The walk delivers each selected
    node to its callback exactly once, in an order that depends on the schedule (C08: with an
    empty error list the callbacks are a permutation of the selected set).  Here a tree copy is
    therefore a fold over the CALLBACK LIST [cbs]; the theorems quantify over every list that is a
    permutation of the source entries.

    Source and destination are views: the source view is rooted at [s] inside the tree [src],
    the destination view at [d] inside [dst]; a callback argument x is a path relative to both
    (the Go strings "./a/b" reduce to [[a];[b]]: Proofs.Copy.reduce_dot_slash). *)
From GC Require Import Common.Base Model.Paths Model.Fs Model.Stream.

Inductive cb := CbDir (x : path) | CbFile (x : path).

Definition cb_path (c : cb) : path := match c with CbDir x | CbFile x => x end.

Definition cb_eqb (a b : cb) : bool :=
  match a, b with
  | CbDir x, CbDir y | CbFile x, CbFile y => path_eqb x y
  | _, _ => false
  end.

(** The entries strictly below [s], as paths relative to [s]. *)
Definition src_entries (src : fs) (s : path) : list (path * entry) := subtree_moved src s [].

Definition cb_of (xe : path * entry) : cb :=
  match snd xe with D => CbDir (fst xe) | F _ => CbFile (fst xe) end.

(** What the walk selects (no filter, both callbacks present): every node below the source root. *)
Definition cbs_of (src : fs) (s : path) : list cb := map cb_of (src_entries src s).

Definition bump_mkdir (c : ctr) : ctr :=
  mkCtr (n_reader c) (n_writer c) (n_read c) (n_write c) (n_closew c) (n_closer c) (S (n_mkdir c)).

(** destfs.MkdirAll(x) under the plan. *)
Definition mkdir_step (pl : plan) (dst : fs) (p : path) (c : ctr) : cres * fs * ctr :=
  if pl (FMkdir (n_mkdir c)) then (CErr, dst, bump_mkdir c) else
  match mkdir_all dst p with
  | Some t => (COk, t, bump_mkdir c)
  | None => (CErr, dst, bump_mkdir c)
  end.

Record copy_cfg := mkCopyCfg {
  cc_plan : plan;
  cc_eof : eof_style;      (* source reader *)
  cc_mkpar : bool;         (* destination Writer creates parents *)
  cc_buf : nat;            (* io.Copy buffer size *)
  cc_file_mkdir : bool     (* OnFile calls MkdirAll(path.Dir(x)) first: true in the code *)
}.

(** One callback. *)
Definition cb_step (k : copy_cfg) (src : fs) (s : path) (d : path) (dst : fs) (c : ctr) (x : cb)
  : cres * fs * ctr :=
  match x with
  | CbDir x => mkdir_step (cc_plan k) dst (d ++ x) c
  | CbFile x =>
    let copy t c' := stream_copy_at (cc_plan k) (cc_eof k) (cc_mkpar k) (cc_buf k) src t (s ++ x) (d ++ x) c' in
    if cc_file_mkdir k then
      match mkdir_step (cc_plan k) dst (d ++ removelast x) c with
      | (COk, t, c') => copy t c'
      | r => r
      end
    else copy dst c
  end.

(** The callbacks in the order the consumer made them.  The first error ends the copy with Err
    (the lifecycle is killed; what the remaining callbacks would have done is not claimed). *)
Fixpoint run_cbs (k : copy_cfg) (src : fs) (s d : path) (dst : fs) (c : ctr) (l : list cb)
  : cres * fs * ctr :=
  match l with
  | [] => (COk, dst, c)
  | x :: l' =>
    match cb_step k src s d dst c x with
    | (COk, t, c') => run_cbs k src s d t c' l'
    | r => r
    end
  end.

(** Number of ReadDir calls of the walk: the root plus every directory selected. *)
Definition n_readdirs (l : list cb) : nat :=
  S (length (filter (fun c => match c with CbDir _ => true | _ => false end) l)).

(** fshelper.Copy: a failing ReadDir puts an error into the walk's error list. *)
Definition tree_copy (k : copy_cfg) (src : fs) (s d : path) (dst : fs) (l : list cb) : cres * fs :=
  let '(r, t, _) := run_cbs k src s d dst ctr0 l in
  if existsb (fun i => cc_plan k (FReadDir i)) (seq 0 (n_readdirs l)) then (CErr, t) else (r, t).

(** Copier.copyDirectory on reduced paths: IsDir(SrcPath); DestFS.MkdirAll(DestPath); Copy(views). *)
Definition copier_dir (k : copy_cfg) (src : fs) (s d : path) (dst : fs) (l : list cb) : cres * fs :=
  if negb (is_dir_at src s) then (CErr, dst) else
  match mkdir_step (cc_plan k) dst d ctr0 with
  | (COk, t, c) =>
    let '(r, t', _) := run_cbs k src s d t c l in
    if existsb (fun i => cc_plan k (FReadDir i)) (seq 0 (n_readdirs l)) then (CErr, t') else (r, t')
  | (r, t, _) => (r, t)
  end.

(** No file/directory conflict between the source subtree and the destination: wherever the
    source has a node, the destination has nothing or a node of the same kind. *)
Definition same_kind (a b : entry) : bool :=
  match a, b with D, D => true | F _, F _ => true | _, _ => false end.

Definition no_conflict (src : fs) (s : path) (dst : fs) (d : path) : Prop :=
  forall x e e', x <> [] -> lookup src (s ++ x) = Some e -> lookup dst (d ++ x) = Some e' -> same_kind e e' = true.
