(** Model of the write-back cache filesystem/fscache/cache.go (as repaired): a buffer filespace
    [B] (an in-memory filespace), a remote filespace [R] (modelled as an in-memory filespace
    too), and the tombstone set [T] of paths removed since the last Commit.

    Every method cleans its argument with varutil.CleanPath and then hands that string to B
    and/or R, which reduce it; the model normalises once with [cnorm] = reduce ∘ clean_path and
    works on component paths with the tree-level operations of Model/Fs.v.  (The real tombstone
    set holds the cleaned STRINGS and isRemoved scans for '/'-boundary prefixes; for cleaned,
    non-climbing paths that is the component-prefix test used here.  The correspondence check
    is what ties this abstraction to the code.)  Definitions only. *)
From GC Require Import Common.Base Model.Paths Model.Fs.

Record cache := mkCache { cB : fs; cR : fs; cT : list path }.

Definition new_cache (remote : fs) : cache := mkCache [] remote [].

Definition cnorm (s : bytes) : option path := reduce (clean_path s).

(** isRemoved: the path or one of its ancestors is a tombstone. *)
Definition masked (T : list path) (p : path) : bool := existsb (fun t => is_prefix t p) T.

(** What is visible of the remote. *)
Definition vis (c : cache) (p : path) : option entry :=
  if masked (cT c) p then None else lookup (cR c) p.

(** The view: the buffer on top of the visible remote (srcFS: a path is read from the buffer when
    it is buffered or removed, otherwise from the remote). *)
Definition vlookup (c : cache) (p : path) : option entry :=
  match lookup (cB c) p with
  | Some e => Some e
  | None => vis c p
  end.

Definition v_exists (c : cache) (p : path) : bool := match vlookup c p with Some _ => true | None => false end.
Definition v_file (c : cache) (p : path) : bool := match vlookup c p with Some (F _) => true | _ => false end.
Definition v_dir (c : cache) (p : path) : bool := match vlookup c p with Some D => true | _ => false end.

(** ReadDir: remote entries that are neither shadowed by a buffer entry of that name nor
    removed, then the buffer entries; an error only when both sides fail. *)
Definition v_read_dir (c : cache) (p : path) : option (list (name * bool)) :=
  let r := if masked (cT c) p then None
           else if is_dir_at (cR c) p then Some (children (cR c) p) else None in
  let b := if is_dir_at (cB c) p then Some (children (cB c) p) else None in
  match r, b with
  | None, None => None
  | _, _ =>
    let rl := match r with Some l => l | None => [] end in
    let bl := match b with Some l => l | None => [] end in
    Some (filter (fun e => negb (existsb (fun be => bytes_eqb (fst be) (fst e)) bl)
                           && negb (masked (cT c) (p ++ [fst e]))) rl ++ bl)
  end.

(** All proper, non-empty prefixes of a path. *)
Definition proper_prefixes (p : path) : list path := removelast (prefixes p).

(** checkDest: no visible FILE among the proper ancestors, and the node itself is not of the
    other kind. *)
Definition check_dest (c : cache) (p : path) (want_dir : bool) : bool :=
  negb (existsb (v_file c) (proper_prefixes p)) &&
  (if want_dir then negb (v_file c p) else negb (v_dir c p)).

Definition set_B (c : cache) (b : fs) : cache := mkCache b (cR c) (cT c).
Definition add_T (c : cache) (p : path) : cache := mkCache (cB c) (cR c) (p :: cT c).

Definition updB (c : cache) (r : option fs) : cache * out :=
  match r with Some b => (set_B c b, RUnit) | None => (c, RErr) end.

Definition c_write (c : cache) (p : path) (data : bytes) : cache * out :=
  if check_dest c p false then updB c (write_at (cB c) p data) else (c, RErr).

Definition c_mkdir (c : cache) (p : path) : cache * out :=
  match p with
  | [] => (c, RUnit)
  | _ => if check_dest c p true then updB c (mkdir_all (cB c) p) else (c, RErr)
  end.

(** The flat tree seen through the cache: visible remote entries not shadowed by the buffer,
    then the buffer. *)
Definition cview (c : cache) : fs :=
  filter (fun qe => negb (masked (cT c) (fst qe)) &&
                    match lookup (cB c) (fst qe) with None => true | Some _ => false end) (cR c)
  ++ cB c.

(** Copier.Do with source and destination both the cache.  A file: Reader then Writer.  A
    directory: MkdirAll(dest), then every directory / file of the merged source view is
    re-created below dest through the cache's own checked MkdirAll / Writer (existing
    destination directories are merged, files overwritten).  A destination equal to or inside
    the source is refused. *)
Fixpoint copy_entries (c : cache) (dst : path) (l : fs) : cache * out :=
  match l with
  | [] => (c, RUnit)
  | (rel, e) :: l' =>
    let (c1, r1) := match e with
                    | D => c_mkdir c (dst ++ rel)
                    | F data =>
                      match c_mkdir c (dst ++ removelast rel) with
                      | (c0, RUnit) => c_write c0 (dst ++ rel) data
                      | x => x
                      end
                    end in
    match r1 with
    | RUnit => copy_entries c1 dst l'
    | _ => (c1, RErr)
    end
  end.

Definition c_copy (c : cache) (src dst : path) : cache * out :=
  match src with
  | [] => (c, RErr)                                   (* the root is never copied *)
  | _ =>
    if is_prefix src dst then (c, RErr)               (* onto or into itself *)
    else
      match vlookup c src with
      | Some (F data) => c_write c dst data
      | Some D =>
        match c_mkdir c dst with
        | (c1, RUnit) => copy_entries c1 dst (subtree_moved (cview c) src [])
        | x => x
        end
      | None => (c, RErr)
      end
  end.

(** Remove: refused for the root, for an invisible node and for a directory whose merged
    listing is not empty; otherwise the buffered node is removed and a tombstone recorded. *)
Definition c_remove (c : cache) (p : path) : cache * out :=
  match p with
  | [] => (c, RErr)
  | _ =>
    if negb (v_exists c p) then (c, RErr)
    else if v_dir c p && match v_read_dir c p with Some [] => false | _ => true end then (c, RErr)
    else if exists_at (cB c) p then
      match remove_at (cB c) p with
      | Some b => (add_T (set_B c b) p, RUnit)
      | None => (c, RErr)
      end
    else (add_T c p, RUnit)
  end.

Definition c_remove_all (c : cache) (p : path) : cache * out :=
  match p with
  | [] => (c, RErr)
  | _ =>
    if exists_at (cB c) p then
      match remove_all_at (cB c) p with
      | Some b => (add_T (set_B c b) p, RUnit)
      | None => (c, RErr)
      end
    else (add_T c p, RUnit)
  end.

(** Commit without fault: every tombstone that exists in the remote is removed recursively, then
    the whole buffer tree is materialised (directories made, files replaced); tombstones are
    cleared.  [None] = a remote call failed (a file/directory conflict). *)
Fixpoint apply_tombs (r : fs) (T : list path) : fs :=
  match T with
  | [] => r
  | t :: T' => apply_tombs (if exists_at r t then delete_subtree r t else r) T'
  end.

Fixpoint materialise (r : fs) (l : fs) : option fs :=
  match l with
  | [] => Some r
  | (p, e) :: l' =>
    match (match e with D => mkdir_all r p | F data => write_at r p data end) with
    | Some r' => materialise r' l'
    | None => None
    end
  end.

Definition c_commit (c : cache) : cache * out :=
  match materialise (apply_tombs (cR c) (cT c)) (cB c) with
  | None => (c, RErr)
  | Some r2 => (mkCache (cB c) r2 [], RUnit)
  end.

Inductive cop :=
| COp (o : op)
| CCommit
| CCommitFault.     (* a Commit during which the remote failed: reported, state kept for a retry *)

Definition on1 (c : cache) (s : bytes) (dflt : out) (k : path -> cache * out) : cache * out :=
  match cnorm s with Some p => k p | None => (c, dflt) end.

Definition cache_step (c : cache) (co : cop) : cache * out :=
  match co with
  | CCommit => c_commit c
  | CCommitFault => (c, RErr)
  | COp o =>
    match o with
    | OCopy s d =>
      match cnorm s, cnorm d with Some sp, Some dp => c_copy c sp dp | _, _ => (c, RErr) end
    | OCopyDir s d =>
      match cnorm s, cnorm d with
      | Some sp, Some dp => if v_dir c sp then c_copy c sp dp else (c, RErr)
      | _, _ => (c, RErr)
      end
    | OCopyFile s d =>
      match cnorm s, cnorm d with
      | Some sp, Some dp => if v_file c sp then c_copy c sp dp else (c, RErr)
      | _, _ => (c, RErr)
      end
    | OReadDir s => on1 c s RErr (fun p => (c, match v_read_dir c p with Some l => RList l | None => RErr end))
    | OIsExist s => on1 c s (RBool false) (fun p => (c, RBool (v_exists c p)))
    | OIsFile s => on1 c s (RBool false) (fun p => (c, RBool (v_file c p)))
    | OIsDir s => on1 c s (RBool false) (fun p => (c, RBool (v_dir c p)))
    | OMkdirAll s => on1 c s RErr (c_mkdir c)
    | OReadFile s => on1 c s RErr (fun p => (c, match vlookup c p with Some (F d) => RData d | _ => RErr end))
    | OWriteFile s data => on1 c s RErr (fun p => c_write c p data)
    | OFilespace _ => (c, RUnit)
    | OReader s bufs =>
      on1 c s RErr (fun p => (c, match vlookup c p with Some (F d) => RChunks (read_seq d bufs) | _ => RErr end))
    | OWriter s chunks => on1 c s RErr (fun p => c_write c p (concat chunks))
    | ORemove s => on1 c s RErr (c_remove c)
    | ORemoveAll s => on1 c s RUnit (c_remove_all c)   (* a climbing path: "nothing to remove" *)
    | OLstat s =>
      on1 c s RErr (fun p => (c, match vlookup c p with
                                 | Some D => RStat true 0
                                 | Some (F d) => RStat false (N.of_nat (length d))
                                 | None => RErr
                                 end))
    end
  end.

Definition run_cache (c : cache) (l : list cop) : cache := fold_left (fun c o => fst (cache_step c o)) l c.

(** ** Executable description of "a remote that a failed Commit may have left behind"
    (used by the correspondence check on every observed failure; Proofs/Cache.v shows that
    from any such remote a later Commit converges).  [r0] is the remote with all tombstones
    applied, [r] the observed remote with all tombstones applied: every path holds the buffer's
    entry, or still what [r0] holds, or - below a buffered directory - a directory created on the
    way, or - at a buffered file - a file with any content (a stream cut short). *)
Definition oentry_eqb (a b : option entry) : bool :=
  match a, b with
  | None, None => true
  | Some D, Some D => true
  | Some (F x), Some (F y) => bytes_eqb x y
  | _, _ => false
  end.

Definition g_ok (B r0 r : fs) (q : path) : bool :=
  match lookup B q with
  | Some e =>
    oentry_eqb (lookup r q) (Some e) || oentry_eqb (lookup r q) (lookup r0 q) ||
    match e with
    | D => oentry_eqb (lookup r q) (Some D)
    | F _ => match lookup r q with Some (F _) => true | _ => false end
    end
  | None => oentry_eqb (lookup r q) (lookup r0 q)
  end.

Definition partial_ok (c : cache) (rp : fs) : bool :=
  wf rp &&
  let r0 := apply_tombs (cR c) (cT c) in
  let r := apply_tombs rp (cT c) in
  forallb (g_ok (cB c) r0 r) (map fst r ++ map fst r0 ++ map fst (cB c)).
