(** Model of the write-back cache filesystem/fscache/cache.go (as repaired): a buffer filespace
    [B] (an in-memory filespace), a remote filespace [R] (modelled as an in-memory filespace
    too), and the tombstone set [T] of cleaned path STRINGS removed since the last Commit.
    Every method cleans its argument with varutil.CleanPath and then talks to B and/or R with
    that string; B and R normalise it themselves ([Fs.mem_step]).  Definitions only. *)
From GC Require Import Common.Base Model.Paths Model.Fs.

Record cache := mkCache { cB : fs; cR : fs; cT : list bytes }.

Definition new_cache (remote : fs) : cache := mkCache [] remote [].

(** isRemoved: the string or one of its prefixes ending at a '/' boundary is a tombstone. *)
Fixpoint boundary_prefixes_from (pre rest : bytes) : list bytes :=
  match rest with
  | [] => []
  | c :: rest' =>
    let pre' := pre ++ [c] in
    match rest' with
    | [] => [pre']
    | d :: _ => if N.eqb d SLASH then pre' :: boundary_prefixes_from pre' rest'
                else boundary_prefixes_from pre' rest'
    end
  end.
Definition boundary_prefixes (s : bytes) : list bytes := boundary_prefixes_from [] s.

Definition in_set (T : list bytes) (s : bytes) : bool := existsb (bytes_eqb s) T.
Definition is_removed (T : list bytes) (s : bytes) : bool := existsb (in_set T) (boundary_prefixes s).

Definition is_root_str (s : bytes) : bool := bytes_eqb s [DOT] || is_empty s.

(** Boolean answer of a memfs query. *)
Definition q_bool (t : fs) (o : op) : bool :=
  match snd (mem_step t o) with RBool b => b | _ => false end.

(** srcFS: where a (clean) path is read from — the buffer when it is buffered or removed. *)
Definition from_buffer (c : cache) (q : bytes) : bool :=
  q_bool (cB c) (OIsExist q) || is_removed (cT c) q.
Definition pick (c : cache) (q : bytes) : fs := if from_buffer c q then cB c else cR c.

Definition c_is_exist (c : cache) (s : bytes) : bool := let q := clean_path s in q_bool (pick c q) (OIsExist q).
Definition c_is_file (c : cache) (s : bytes) : bool := let q := clean_path s in q_bool (pick c q) (OIsFile q).
Definition c_is_dir (c : cache) (s : bytes) : bool := let q := clean_path s in q_bool (pick c q) (OIsDir q).

(** path.Join(dir, name) for a clean [dir]: "." and "" mean the root. *)
Definition join_name (dir name : bytes) : bytes :=
  if is_root_str dir then name else dir ++ SLASH :: name.

(** ReadDir: remote entries that are neither shadowed by a buffer entry nor removed, then the
    buffer entries; an error only when both sides fail. *)
Definition c_read_dir (c : cache) (s : bytes) : out :=
  let q := clean_path s in
  let r := if is_removed (cT c) q then RErr else snd (mem_step (cR c) (OReadDir q)) in
  let b := snd (mem_step (cB c) (OReadDir q)) in
  match r, b with
  | RErr, RErr => RErr
  | _, _ =>
    let rl := match r with RList l => l | _ => [] end in
    let bl := match b with RList l => l | _ => [] end in
    RList (filter (fun e => negb (existsb (fun be => bytes_eqb (fst be) (fst e)) bl)
                            && negb (is_removed (cT c) (join_name q (fst e)))) rl ++ bl)
  end.

(** checkDest: no visible FILE among the proper ancestors (string prefixes at '/' boundaries),
    and the node itself is not of the other kind. *)
Fixpoint proper_boundary_prefixes (l : list bytes) : list bytes := removelast l.
Definition check_dest (c : cache) (dest : bytes) (is_dir : bool) : bool :=
  negb (existsb (c_is_file c) (proper_boundary_prefixes (boundary_prefixes dest))) &&
  (if is_dir then negb (c_is_file c dest) else negb (c_is_dir c dest)).

Definition set_B (c : cache) (b : fs) : cache := mkCache b (cR c) (cT c).
Definition add_T (c : cache) (q : bytes) : cache := mkCache (cB c) (cR c) (q :: cT c).

Definition upd_B (c : cache) (o : op) : cache * out :=
  let (b, r) := mem_step (cB c) o in (set_B c b, r).

(** The flat tree seen through the cache: visible remote entries not shadowed by the buffer,
    then the buffer. *)
Definition comp_removed (T : list bytes) (p : path) : bool := is_removed T (join p).
Definition cview (c : cache) : fs :=
  filter (fun qe => negb (comp_removed (cT c) (fst qe)) &&
                    match lookup (cB c) (fst qe) with None => true | Some _ => false end) (cR c)
  ++ cB c.

(** Copier.Do with source and destination both the cache.  A file: Reader then Writer.  A
    directory: MkdirAll(dest) and then every directory / file of the merged source view is
    re-created below dest through the cache's own checked MkdirAll / Writer (existing
    destination directories are merged, files overwritten).  A destination equal to or inside
    the source is refused. *)
Definition c_write (c : cache) (dest : bytes) (data : bytes) : cache * out :=
  let q := clean_path dest in
  if check_dest c q false then upd_B c (OWriteFile q data) else (c, RErr).

Definition c_mkdir (c : cache) (dest : bytes) : cache * out :=
  let q := clean_path dest in
  if is_root_str q then (c, RUnit)
  else if check_dest c q true then upd_B c (OMkdirAll q) else (c, RErr).

Fixpoint copy_entries (c : cache) (dst : bytes) (l : fs) : cache * out :=
  match l with
  | [] => (c, RUnit)
  | (rel, e) :: l' =>
    let target := dst ++ SLASH :: join rel in
    let (c1, r1) := match e with
                    | D => c_mkdir c target
                    | F data =>
                      match c_mkdir c (dst ++ SLASH :: join (removelast rel)) with
                      | (c0, RUnit) => c_write c0 target data
                      | x => x
                      end
                    end in
    match r1 with
    | RUnit => copy_entries c1 dst l'
    | _ => (c1, RErr)
    end
  end.

Definition c_copy (c : cache) (s d : bytes) : cache * out :=
  let src := clean_path s in
  let dst := clean_path d in
  (* a node is never copied onto or into itself *)
  if bytes_eqb src dst || is_root_str src || has_prefix dst (src ++ [SLASH]) then (c, RErr) else
  if c_is_file c src then
    match snd (mem_step (pick c src) (OReadFile src)) with
    | RData data => c_write c dst data
    | _ => (c, RErr)
    end
  else if negb (c_is_dir c src) then (c, RErr)
  else
    match reduce src with
    | None => (c, RErr)
    | Some sp =>
      match c_mkdir c dst with
      | (c1, RUnit) => copy_entries c1 dst (subtree_moved (cview c) sp [])
      | x => x
      end
    end.

(** Remove: refused for the root, for an invisible node and for a directory whose merged
    listing is not empty; otherwise the buffered node is removed and a tombstone recorded. *)
Definition c_remove (c : cache) (s : bytes) : cache * out :=
  let q := clean_path s in
  if is_root_str q then (c, RErr)
  else if negb (c_is_exist c q) then (c, RErr)
  else if c_is_dir c q &&
          match c_read_dir c q with RList [] => false | _ => true end then (c, RErr)
  else if q_bool (cB c) (OIsExist q) then
    match mem_step (cB c) (ORemove q) with
    | (b, RUnit) => (add_T (set_B c b) q, RUnit)
    | _ => (c, RErr)
    end
  else (add_T c q, RUnit).

Definition c_remove_all (c : cache) (s : bytes) : cache * out :=
  let q := clean_path s in
  if is_root_str q then (c, RErr)
  else if q_bool (cB c) (OIsExist q) then
    match mem_step (cB c) (ORemoveAll q) with
    | (b, RUnit) => (add_T (set_B c b) q, RUnit)
    | _ => (c, RErr)
    end
  else (add_T c q, RUnit).

(** Commit without fault: every tombstone that exists in the remote is removed recursively, then
    the whole buffer tree is materialised (directories made, files replaced); tombstones are
    cleared.  [None] = some remote call failed (does not happen for a remote that is a plain
    tree unless a file/directory conflict exists). *)
Fixpoint apply_tombs (r : fs) (T : list bytes) : option fs :=
  match T with
  | [] => Some r
  | t :: T' =>
    if q_bool r (OIsExist t) then
      match mem_step r (ORemoveAll t) with
      | (r', RUnit) => apply_tombs r' T'
      | _ => None
      end
    else apply_tombs r T'
  end.

Fixpoint materialise (r : fs) (l : fs) : option fs :=
  match l with
  | [] => Some r
  | (p, e) :: l' =>
    match (match e with
           | D => mem_step r (OMkdirAll (join p))
           | F data => mem_step r (OWriter (join p) [data])
           end) with
    | (r', RUnit) => materialise r' l'
    | _ => None
    end
  end.

Definition c_commit (c : cache) : cache * out :=
  match apply_tombs (cR c) (cT c) with
  | None => (c, RErr)
  | Some r1 =>
    match materialise r1 (cB c) with
    | None => (c, RErr)
    | Some r2 => (mkCache (cB c) r2 [], RUnit)
    end
  end.

Inductive cop :=
| COp (o : op)
| CCommit
| CCommitFault.     (* a Commit during which the remote failed: reported, state kept for a retry *)

Definition query (c : cache) (o : op) (q : bytes) : cache * out :=
  (c, snd (mem_step (pick c q) o)).

Definition cache_step (c : cache) (co : cop) : cache * out :=
  match co with
  | CCommit => c_commit c
  | CCommitFault => (c, RErr)
  | COp o =>
    match o with
    | OCopy s d => c_copy c s d
    | OCopyDir s d => if c_is_dir c s then c_copy c s d else (c, RErr)
    | OCopyFile s d => if c_is_file c s then c_copy c s d else (c, RErr)
    | OReadDir s => (c, c_read_dir c s)
    | OIsExist s => (c, RBool (c_is_exist c s))
    | OIsFile s => (c, RBool (c_is_file c s))
    | OIsDir s => (c, RBool (c_is_dir c s))
    | OMkdirAll s => c_mkdir c s
    | OReadFile s => let q := clean_path s in query c (OReadFile q) q
    | OWriteFile s data => c_write c s data
    | OFilespace _ => (c, RUnit)
    | OReader s bufs => let q := clean_path s in query c (OReader q bufs) q
    | OWriter s chunks => c_write c s (concat chunks)
    | ORemove s => c_remove c s
    | ORemoveAll s => c_remove_all c s
    | OLstat s => let q := clean_path s in query c (OLstat q) q
    end
  end.

Definition run_cache (c : cache) (l : list cop) : cache := fold_left (fun c o => fst (cache_step c o)) l c.
