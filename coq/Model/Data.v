(** Model of the data scopes of goatcore (app/scope/datascope/{data.go,child.go,locker.go}).

    What the Go code does (read from /repo HEAD):
    - [DataScope] (root) and [DataChildScope] own a Go map and a [sync.RWMutex].
      [SetValue] writes the OWN map under the write lock.  [Value] reads the own map under the
      read lock; the child, when the key is ABSENT from its own map (a key stored with a nil
      value is present), releases its lock and calls [parent.Value(key)] — i.e. it reads the
      parent's CURRENT value, level by level, each level under that level's own read lock.
      [Keys] returns the keys of the OWN map only (in Go's map order; compared as a set).
    - [LockData] takes the scope's WRITE lock and returns a locker that holds the scope's own map,
      the scope's [Unlock] and (child) the parent.  The locker's [SetValue]/[Value]/[Keys] act
      directly on that map (they only take the locker's private mutex, irrelevant for one user);
      the locker's [Value] falls back to [parent.Value].  [Commit] calls the stored [Unlock].
    - get-or-create in tasks.Unit.FromScope, envs.Unit.Envs, waits.WaitManager.ForScope:
      [locker := scp.LockData(); v := locker.Value(key); if v == nil { v = new; locker.SetValue(key, v) };
      locker.Commit(); return v] — the check is made UNDER the lock in all three.

    Values are [N] with [0] standing for Go's nil.  A chain is a list of maps, innermost child
    first; scope [j] of a chain is level [j], its ancestors are the levels [> j].
    Definitions only; proofs are in Proofs/Data.v. *)
From GC Require Import Common.Base.
From GC Require Model.Locks.

Definition dmap := list (N * N).

Fixpoint lookup (k : N) (m : dmap) : option N :=
  match m with
  | [] => None
  | (k', v) :: r => if N.eqb k k' then Some v else lookup k r
  end.

Fixpoint dset (k v : N) (m : dmap) : dmap :=
  match m with
  | [] => [(k, v)]
  | (k', v') :: r => if N.eqb k k' then (k, v) :: r else (k', v') :: dset k v r
  end.

Definition chain := list dmap.

(** [Value]: first binding walking up; nil when nobody has the key. *)
Fixpoint value (c : chain) (k : N) : N :=
  match c with
  | [] => 0
  | m :: ps => match lookup k m with Some v => v | None => value ps k end
  end.
Definition value_at (st : chain) (j : nat) (k : N) : N := value (skipn j st) k.

Fixpoint set_at (st : chain) (j : nat) (k v : N) : chain :=
  match st, j with
  | [], _ => []
  | m :: r, O => dset k v m :: r
  | m :: r, S j' => m :: set_at r j' k v
  end.
Definition keys_at (st : chain) (j : nat) : list N := map fst (nth j st []).

(** ** Sequential histories (correspondence) *)
Inductive sop :=
| SSet (j : nat) (k v : N)        (* scope j .SetValue(k, v) *)
| SGet (j : nat) (k : N)          (* scope j .Value(k) *)
| SKeys (j : nat)                 (* scope j .Keys() *)
| SLSet (j : nat) (k v : N)       (* l := scope j .LockData(); l.SetValue(k, v); l.Commit() *)
| SLGet (j : nat) (k : N)
| SLKeys (j : nat).
Inductive sobs := SNone | SVal (v : N) | SKeyset (l : list N).

Definition sexec (st : chain) (o : sop) : chain * sobs :=
  match o with
  | SSet j k v | SLSet j k v => (set_at st j k v, SNone)
  | SGet j k | SLGet j k => (st, SVal (value_at st j k))
  | SKeys j | SLKeys j => (st, SKeyset (keys_at st j))
  end.
Fixpoint sexec_all (st : chain) (ops : list sop) : chain * list sobs :=
  match ops with
  | [] => (st, [])
  | o :: r => let (st1, ob) := sexec st o in
              let (st2, obs) := sexec_all st1 r in (st2, ob :: obs)
  end.
Definition final_chain (st : chain) (ops : list sop) : chain := fst (sexec_all st ops).

(** ** Concurrent model.  One atomic step per lock-protected region. *)
Inductive op :=
| ORead (j : nat) (k : N)            (* reg := scope j .Value(k)        — one step per level *)
| OWrite (j : nat) (k v : N)         (* scope j .SetValue(k, v) *)
| OWriteAdd (j : nat) (k d : N)      (* scope j .SetValue(k, reg + d)   — unlocked read-modify-write *)
| OInitPlain (j : nat) (k v : N)     (* if reg == nil { scope j .SetValue(k, v); reg := v } *)
| OLock (j : nat)                    (* locker := scope j .LockData() *)
| OLRead (k : N)                     (* reg := locker.Value(k) *)
| OLWrite (k v : N)                  (* locker.SetValue(k, v) *)
| OLAdd (k d : N)                    (* locker.SetValue(k, reg + d) *)
| OLInit (k v : N)                   (* if reg == nil { locker.SetValue(k, v); reg := v } *)
| OCommit.                           (* locker.Commit() *)

Record thread := mkThread {
  prog : list op;
  reg : N;
  held : option nat;     (* the scope whose locker this thread holds *)
  walk : option nat      (* level at which the Value call in progress continues *)
}.

Definition owners := nat -> option nat.
Definition oupd (ow : owners) (j : nat) (v : option nat) : owners :=
  fun i => if Nat.eqb i j then v else ow i.
Definition free (ow : owners) (j : nat) : bool := match ow j with None => true | Some _ => false end.

(** one level of a [Value] call at level [l]; [locked_ok] = the level's mutex can be read-locked *)
Definition read_level (st : chain) (l : nat) (k : N) (t : thread) (rest : list op) : thread :=
  match nth_error st l with
  | None => mkThread rest 0 (held t) None
  | Some m =>
      match lookup k m with
      | Some v => mkThread rest v (held t) None
      | None => mkThread (prog t) (reg t) (held t) (Some (S l))
      end
  end.

Definition tstep (me : nat) (st : chain) (ow : owners) (t : thread)
  : option (chain * owners * thread) :=
  match prog t with
  | [] => None
  | ORead j k :: rest =>
      let l := match walk t with Some l => l | None => j end in
      if free ow l then Some (st, ow, read_level st l k t rest) else None
  | OWrite j k v :: rest =>
      if free ow j then Some (set_at st j k v, ow, mkThread rest (reg t) (held t) None) else None
  | OWriteAdd j k d :: rest =>
      if free ow j then Some (set_at st j k (reg t + d), ow, mkThread rest (reg t) (held t) None)
      else None
  | OInitPlain j k v :: rest =>
      if N.eqb (reg t) 0 then
        if free ow j then Some (set_at st j k v, ow, mkThread rest v (held t) None) else None
      else Some (st, ow, mkThread rest (reg t) (held t) None)
  | OLock j :: rest =>
      match held t with
      | None => if free ow j then Some (st, oupd ow j (Some me), mkThread rest (reg t) (Some j) None)
                else None
      | Some _ => None          (* one locker per thread at a time (assumption of the model) *)
      end
  | OLRead k :: rest =>
      match held t with
      | None => None
      | Some j =>
          let l := match walk t with Some l => l | None => j end in
          if Nat.eqb l j || free ow l then Some (st, ow, read_level st l k t rest) else None
      end
  | OLWrite k v :: rest =>
      match held t with
      | None => None
      | Some j => Some (set_at st j k v, ow, mkThread rest (reg t) (held t) None)
      end
  | OLAdd k d :: rest =>
      match held t with
      | None => None
      | Some j => Some (set_at st j k (reg t + d), ow, mkThread rest (reg t) (held t) None)
      end
  | OLInit k v :: rest =>
      match held t with
      | None => None
      | Some j =>
          if N.eqb (reg t) 0 then Some (set_at st j k v, ow, mkThread rest v (held t) None)
          else Some (st, ow, mkThread rest (reg t) (held t) None)
      end
  | OCommit :: rest =>
      match held t with
      | None => None
      | Some j => Some (st, oupd ow j None, mkThread rest (reg t) None None)
      end
  end.

Record cstate := mkC { maps : chain; own : owners; ths : list thread }.

Definition step (i : nat) (s : cstate) : option cstate :=
  match nth_error (ths s) i with
  | Some t =>
      match tstep i (maps s) (own s) t with
      | Some (st', ow', t') => Some (mkC st' ow' (Model.Locks.set_nth i t' (ths s)))
      | None => None
      end
  | None => None
  end.

Fixpoint run (sched : list nat) (s : cstate) : cstate :=
  match sched with
  | [] => s
  | i :: r => run r (match step i s with Some s' => s' | None => s end)
  end.

Definition init (st : chain) (progs : list (list op)) : cstate :=
  mkC st (fun _ => None) (map (fun p => mkThread p 0 None None) progs).

Definition done (t : thread) : bool := match prog t with [] => true | _ => false end.
Definition all_done (s : cstate) : bool := forallb done (ths s).

(** The level whose mutex the next step of a thread goes through (read, write or lock). *)
Definition touches (t : thread) : option nat :=
  match prog t with
  | ORead j _ :: _ => Some (match walk t with Some l => l | None => j end)
  | OWrite j _ _ :: _ | OWriteAdd j _ _ :: _ | OLock j :: _ => Some j
  | OInitPlain j _ _ :: _ => if N.eqb (reg t) 0 then Some j else None
  | OLRead _ :: _ =>
      match held t, walk t with
      | Some j, Some l => if Nat.eqb l j then None else Some l
      | _, _ => None
      end
  | _ => None
  end.

(** The programs the theorems speak about. *)
Definition counter_prog (j : nat) (k : N) : list op := [OLock j; OLRead k; OLAdd k 1; OCommit].
Definition goc_prog (j : nat) (k v : N) : list op := [OLock j; OLRead k; OLInit k v; OCommit].
Definition counter_sys (st : chain) (j : nat) (k : N) (n : nat) : cstate :=
  init st (repeat (counter_prog j k) n).
Definition goc_sys (st : chain) (j : nat) (k : N) (vs : list N) : cstate :=
  init st (map (goc_prog j k) vs).

(** the same idioms without the lock *)
Definition unlocked_counter (j : nat) (k : N) : list op := [ORead j k; OWriteAdd j k 1].
Definition unlocked_goc (j : nat) (k v : N) : list op := [ORead j k; OInitPlain j k v].

(** ** Replay of a recorded concurrent counter run (correspondence).
    The harness records, in the order of the locked sections, which goroutine was inside and the
    value it read under the lock.  Each goroutine [t] runs [iters] locked increments. *)
Fixpoint drive (fuel : nat) (i : nat) (s : cstate) : option cstate :=
  match fuel with
  | O => None
  | S f =>
      match step i s with
      | None => None
      | Some s' =>
          match nth_error (ths s') i with
          | Some t => match held t with None => Some s' | Some _ => drive f i s' end
          | None => None
          end
      end
  end.

(** returns the final state if every recorded section replays with the recorded read value *)
Fixpoint replay_counter (depth : nat) (j : nat) (k : N) (ev : list (nat * N)) (s : cstate) : option cstate :=
  match ev with
  | [] => Some s
  | (i, v) :: r =>
      if N.eqb (value_at (maps s) j k) v then
        match drive (depth + 6) i s with
        | Some s' => replay_counter depth j k r s'
        | None => None
        end
      else None
  end.
