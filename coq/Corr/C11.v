(** Correspondence driver for C11: sequential histories over scope trees with listeners; the
    observation adds the listener event log (event code, firing scope, listener id), in order. *)
From GC Require Import Common.Base Model.Scope Corr.C12.
From Coq Require Import ZArith.

Inductive case :=
| CSeq11 (h : list hop) (obs : list stepobs) (ferrs : list (list N)) (flog : list (nat * nat * nat)).

Definition check (c : case) : bool :=
  match c with
  | CSeq11 h obs ferrs flog =>
    let (ok, st) := seq_check h obs ferrs in
    ok && list_eqb (fun (x y : nat * nat * nat) =>
                      Nat.eqb (fst (fst x)) (fst (fst y)) && Nat.eqb (snd (fst x)) (snd (fst y))
                      && Nat.eqb (snd x) (snd y))
                   (map (fun x => (event_code (fst (fst x)), snd (fst x), snd x)) (flat_log (log (sh st))))
                   flog
  end.
