(** Correspondence driver for C11: sequential histories over scope trees with listeners; the
    observation adds the listener event log (event code, firing scope, listener id), in order.

    [CRace11]: histories in which a signalling operation (Kill / Stop / AppendError on a scope or
    on its context) was issued WHILE a registration (NewChild, AddTasks) on a scope of the same
    context was in progress: the harness forces the signal in between two instructions of the
    registration ([RPair a b], one observation for the two together).  The model executes a
    registration as one step, so what the implementation showed must be what the model shows for
    one of the two orders of every such pair - the registration is atomic with respect to the end
    of the parent's context, whichever side it falls on. *)
From GC Require Import Common.Base Model.Scope Corr.C12.
From Coq Require Import ZArith.

Inductive rhop := RPlain (x : hop) | RPair (a b : hop).

(** all linearisations; the flag says "an observation was taken after this item" *)
Fixpoint lins (l : list rhop) : list (list (hop * bool)) :=
  match l with
  | [] => [[]]
  | RPlain x :: l' => map (cons (x, true)) (lins l')
  | RPair a b :: l' =>
    map (fun t => (a, false) :: (b, true) :: t) (lins l') ++
    map (fun t => (b, false) :: (a, true) :: t) (lins l')
  end.

(** the model's per-item observations folded onto the observed items: the outputs of an
    unobserved item are carried to the next observed one, its closer / context view is dropped *)
Fixpoint merge_obs (fl : list bool) (os : list stepobs) (carry : list sobs) : list stepobs :=
  match fl, os with
  | f :: fl', o :: os' =>
    if f then {| so_main := carry ++ so_main o; so_closers := so_closers o; so_ctxs := so_ctxs o |}
              :: merge_obs fl' os' []
    else merge_obs fl' os' (carry ++ so_main o)
  | _, _ => []
  end.

Definition log_eqb (st : state) (flog : list (nat * nat * nat)) : bool :=
  list_eqb (fun (x y : nat * nat * nat) =>
              Nat.eqb (fst (fst x)) (fst (fst y)) && Nat.eqb (snd (fst x)) (snd (fst y))
              && Nat.eqb (snd x) (snd y))
           (map (fun x => (event_code (fst (fst x)), snd (fst x), snd x)) (flat_log (log (sh st))))
           flog.

Definition lin_check (t : list (hop * bool)) (obs : list stepobs) (ferrs : list (list N))
           (flog : list (nat * nat * nat)) : bool :=
  let (os, st) := drive_all cfg_current (map fst t) in
  list_eqb stepobs_eqb (merge_obs (map snd t) os []) obs
  && list_eqb (list_eqb N.eqb) (map c_errors (ctxs (sh st))) ferrs
  && log_eqb st flog.

Inductive case :=
| CSeq11 (h : list hop) (obs : list stepobs) (ferrs : list (list N)) (flog : list (nat * nat * nat))
| CRace11 (h : list rhop) (obs : list stepobs) (ferrs : list (list N)) (flog : list (nat * nat * nat)).

Definition check (c : case) : bool :=
  match c with
  | CSeq11 h obs ferrs flog =>
    let (ok, st) := seq_check h obs ferrs in
    ok && list_eqb (fun (x y : nat * nat * nat) =>
                      Nat.eqb (fst (fst x)) (fst (fst y)) && Nat.eqb (snd (fst x)) (snd (fst y))
                      && Nat.eqb (snd x) (snd y))
                   (map (fun x => (event_code (fst (fst x)), snd (fst x), snd x)) (flat_log (log (sh st))))
                   flog
  | CRace11 h obs ferrs flog => existsb (fun t => lin_check t obs ferrs flog) (lins h)
  end.

(** a history without pairs has one linearisation, and [CRace11] then asks what [CSeq11] asks *)
Lemma lins_plain : forall h, lins (map RPlain h) = [map (fun x => (x, true)) h].
Proof. induction h as [|x h IH]; simpl; [reflexivity | rewrite IH; reflexivity]. Qed.

