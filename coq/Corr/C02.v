(** Correspondence driver for C02: a case is one history run on a fresh memfs AND on a fresh
    diskfs (both direct, or both behind a child view created once on an existing directory).
    Every step carries the view chain ([] or [base]), the operation, what each backend returned
    and — for mutating operations — the complete tree of each backend walked afterwards (at the
    level of the PARENT filespace).  Checked: memfs against [hist_step] (as C01), diskfs against
    [d_step]; and, whenever the two model states coincide and [pre_at] holds, that the two
    IMPLEMENTATIONS returned equivalent outputs and equal trees (the statement of C02_equiv /
    C02_view evaluated on real data). *)
From GC Require Import Common.Base Model.Paths Model.Fs Model.DiskFs Corr.FsCorr.

Record dstep := mkD { d_view : list bytes; d_op : op;
                      d_mout : out; d_mwalk : option fs;
                      d_dout : out; d_dwalk : option fs }.

Inductive case := CHist2 (steps : list dstep) (mfinal dfinal : fs).

Definition chunks_eqb (a b : list (bytes * bool)) : bool := bytes_eqb (chunks_data a) (chunks_data b).

(** boolean [out_equiv] *)
Definition out_equivb (a b : out) : bool :=
  match a, b with
  | RChunks x, RChunks y => chunks_eqb x y
  | _, _ => out_eqb a b
  end.

Definition base_of (view : list bytes) : option path :=
  match view with
  | [] => Some []
  | [bs] => reduce bs
  | _ => None
  end.

Definition walk_ok (t : fs) (w : option fs) : bool :=
  match w with Some x => tree_eqb t x | None => true end.

Definition step_ok (tm td : fs) (s : dstep) : option (fs * fs) :=
  match base_of (d_view s) with
  | None => None
  | Some b =>
    let (tm', om) := hist_step tm (d_view s, d_op s) in
    let (td', od) := d_step b td (d_op s) in
    let agree :=
      if tree_eqb tm td && is_dir_at td b && pre_at b td (d_op s)
      then out_equivb (d_mout s) (d_dout s) && tree_eqb tm' td'
      else true in
    if out_eqb om (d_mout s) && walk_ok tm' (d_mwalk s) &&
       out_eqb od (d_dout s) && walk_ok td' (d_dwalk s) && agree
    then Some (tm', td') else None
  end.

Fixpoint check_steps (tm td : fs) (l : list dstep) : option (fs * fs) :=
  match l with
  | [] => Some (tm, td)
  | s :: l' =>
    match step_ok tm td s with
    | Some (tm', td') => check_steps tm' td' l'
    | None => None
    end
  end.

Definition check (c : case) : bool :=
  match c with
  | CHist2 steps mfinal dfinal =>
    match check_steps [] [] steps with
    | Some (tm, td) => tree_eqb tm mfinal && tree_eqb td dfinal && wf tm && wf td
    | None => false
    end
  end.

(** Debugging aid: index of the first bad step with both models' answers. *)
Fixpoint first_bad (i : nat) (tm td : fs) (l : list dstep) : option (nat * out * out * fs * fs) :=
  match l with
  | [] => None
  | s :: l' =>
    match step_ok tm td s with
    | Some (tm', td') => first_bad (S i) tm' td' l'
    | None =>
      match base_of (d_view s) with
      | Some b => Some (i, snd (hist_step tm (d_view s, d_op s)), snd (d_step b td (d_op s)),
                        fst (hist_step tm (d_view s, d_op s)), fst (d_step b td (d_op s)))
      | None => Some (i, RErr, RErr, tm, td)
      end
    end
  end.
Definition debug (c : case) := match c with CHist2 steps _ _ => first_bad 0 [] [] steps end.
