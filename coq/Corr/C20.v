(** Correspondence driver for C20: cases written by the Go harness carry the input AND what the
    implementation returned; [check] evaluates the model on the input and compares the projected
    observables (Go maps as lists sorted by key; nested maps with children sorted by key; the
    emitted JSON text byte for byte; result class ok / err / panic). *)
From GC Require Import Common.Base Model.PlainMap Model.Json Model.I18n.

Inductive fobs := FOk (m : flatmap) | FErr | FPanic.      (* m sorted by key, keys unique *)
Inductive tobs := TOk (t : children) | TErr | TPanic.     (* children sorted by key at every level *)
Inductive eobs := EOk (text : bytes) | EErr | EPanic.

Inductive case :=
| CFlat (t : children) (o : fobs)                   (* RecursiveMapToPlainMap *)
| CUnflat (anyorder : bool) (m : flatmap) (o : tobs)
    (* StringMapToRecursiveMap / ToRecursiveMap; anyorder: the Go result may depend on the map
       iteration order (a key is a path-prefix of another), accept the model's result for SOME
       order of the entries *)
| CRead (data : bytes) (o : fobs)                   (* JSONToPlainStringMap *)
| CEmit (fm : bool) (m : flatmap) (o : eobs)        (* PlainStringMapTo[Formatted]JSON *)
| CLoad (files : list bytes) (o : fobs).
    (* fsi18loader.Load over the selected files (contents given), then Translate of every key *)

Definition kv_eqb (a b : bytes * bytes) : bool := bytes_eqb (fst a) (fst b) && bytes_eqb (snd a) (snd b).
Definition flat_eqb (a b : flatmap) : bool := list_eqb kv_eqb a b.

Fixpoint jt_eqb (a b : jt) : bool :=
  match a, b with
  | Leaf x, Leaf y => bytes_eqb x y
  | Obj l, Obj l' =>
    (fix go (l l' : children) : bool :=
       match l, l' with
       | [], [] => true
       | (k, c) :: r, (k', c') :: r' => bytes_eqb k k' && jt_eqb c c' && go r r'
       | _, _ => false
       end) l l'
  | _, _ => false
  end.
Definition children_eqb (a b : children) : bool := jt_eqb (Obj a) (Obj b).

Fixpoint insert_all {A} (x : A) (l : list A) : list (list A) :=
  match l with
  | [] => [[x]]
  | y :: l' => (x :: l) :: map (cons y) (insert_all x l')
  end.
Fixpoint perms {A} (l : list A) : list (list A) :=
  match l with
  | [] => [[]]
  | x :: l' => flat_map (insert_all x) (perms l')
  end.

Definition unflat_match (m : flatmap) (o : tobs) : bool :=
  match unflatten m, o with
  | Ok t, TOk t' => children_eqb (canon t) t'
  | Err, TErr => true
  | _, _ => false
  end.

(** the loader over the selected files in the given order (file names are irrelevant here) *)
Definition load_logs (files : list bytes) : option flatmap :=
  run_callbacks (map (fun c => (JSON_SUFFIX, c)) files) [].

Definition check (c : case) : bool :=
  match c with
  | CFlat t o =>
    match o with FOk m => flat_eqb (normalize (flatten t)) m | _ => false end
  | CUnflat anyorder m o =>
    if anyorder then existsb (fun p => unflat_match p o) (perms m) else unflat_match m o
  | CRead data o =>
    match read_json data, o with
    | ROk log, FOk m => flat_eqb (normalize log) m
    | RErr, FErr => true
    | _, _ => false
    end
  | CEmit fm m o =>
    match emit fm m, o with
    | Some text, EOk text' => bytes_eqb text text'
    | _, _ => false
    end
  | CLoad files o =>
    match load_logs files, o with
    | Some store, FOk m => flat_eqb (normalize store) m
    | None, FErr => true
    | _, _ => false
    end
  end.
