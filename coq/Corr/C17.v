(** Correspondence driver for C17: cases written by the Go harness carry the input AND what the
    implementation returned; [check] evaluates the model on the input and compares. *)
From GC Require Import Common.Base Model.Args.

Inductive obs :=
| OOk (args : list bytes) (eof : bool) (rest : bytes)  (* rest = bytes left unread in the reader *)
| OErr
| OPanic.

Inductive case :=
| CRead (input : bytes) (o : obs)
| CInject (args : list bytes) (sets : list (key * bytes)) (sep : list bytes).

Definition key_eqb (a b : key) : bool :=
  match a, b with
  | KPos n, KPos m => Nat.eqb n m
  | KName x, KName y => bytes_eqb x y
  | _, _ => false
  end.

Definition check (c : case) : bool :=
  match c with
  | CRead input o =>
    match read_args input, o with
    | ROk a e r, OOk a' e' r' => list_eqb bytes_eqb a a' && Bool.eqb e e' && bytes_eqb r r'
    | RErr, OErr => true
    | RPanic, OPanic => true
    | _, _ => false
    end
  | CInject args sets sep =>
    let (s, p) := inject_args args in
    list_eqb (fun x y => key_eqb (fst x) (fst y) && bytes_eqb (snd x) (snd y)) s sets
    && list_eqb bytes_eqb p sep
  end.
