(** Correspondence driver for C08.  Cases are written by harness/c08.go and carry the input AND what
    the real fsloop did.

    CSel  : a run without error.  The callback arguments observed on the implementation must be a
            permutation of the model's selected set [sel_list] for the same tree and filter tables
            (this ties the model's path spelling and filter/descend rules to the code; by
            C08_exactly_once every terminated model run has exactly this multiset of callbacks).
    CSub  : a run with an injected error: observed callbacks are a sub-multiset of the selected set
            (C08_at_most_once).
    CSelAt, CSubAt: the same two relations for a walk started below the root, Run(base) with
            [base] a directory path ending in "/" and [root] the entries of that directory (the
            model's selected set is parametric in the base path; the code concatenates base and
            names in the same way).
    CRep  : every run, whatever was done to it (nothing, an injected callback / listing error, a
            Kill or Error event of the scope the loop is attached to, raised from a callback or from
            outside the walk at any point of it).  Carries what the caller holds after Wait():
            the callbacks made, the LENGTH of Loop.Errors() read right after Wait() (capped at 9),
            and whether a callback / listing failure was returned to the loop.  The relation is
            [Model.LoopRep.rep_ok]: an empty error list => callbacks = selected set and nothing
            failed; otherwise callbacks within the selected set.  [Proofs/LoopRep.v] shows that the
            model's own (length (reported s), log s) satisfies it on every schedule once Wait has
            returned, Kill events of the environment included (C08_reported_decides).  This is the
            tie of [reported] (= Loop.Errors()) to the code.
    CSched: schedule replay.  The model is run on the given schedule; whether all consumers exited
            and the multiset of callbacks must equal what the implementation did when the same
            interleaving was forced through the gated source and the verif hook points. *)
From GC Require Import Common.Base Model.Loop Model.LoopRep.

Inductive case :=
| CSel (root : list tree) (hasdf hasff ondir onfile : bool) (facc dacc : list path) (obs : list item)
| CSub (root : list tree) (hasdf hasff ondir onfile : bool) (facc dacc : list path) (obs : list item)
| CSelAt (base : path) (root : list tree) (hasdf hasff ondir onfile : bool) (facc dacc : list path) (obs : list item)
| CSubAt (base : path) (root : list tree) (hasdf hasff ondir onfile : bool) (facc dacc : list path) (obs : list item)
| CRep (base : path) (root : list tree) (hasdf hasff ondir onfile : bool) (facc dacc : list path)
       (nrep : nat) (failed : bool) (obs : list item)
| CSched (cte : bool) (root : list tree) (cm pm : nat) (sched : list tid) (exited : bool) (obs : list item).

Definition ROOT : path := [46; 47].   (* Run("") walks "./" *)

Definition cfg_of (hasdf hasff ondir onfile : bool) (facc dacc : list path) : config :=
  mkCfg (fun p => negb hasff || mem_path p facc) (fun p => mem_path p dacc) hasdf ondir onfile
        (fun _ => false) (fun _ => false) 1%nat 1%nat 1000%nat 1000%nat ClosedThenEmpty.

(** a within b, as multisets *)
Fixpoint sub_b (a b : list item) : bool :=
  match a with
  | [] => true
  | x :: a' => match remove1 x b with Some b' => sub_b a' b' | None => false end
  end.

Definition check (c : case) : bool :=
  match c with
  | CSel root hasdf hasff ondir onfile facc dacc obs =>
    let sel0 := sel_list (cfg_of hasdf hasff ondir onfile facc dacc) ROOT root in
    perm_b obs sel0 && wf_list root   (* hypothesis of C08_no_duplicates holds on the generated tree *)
  | CSub root hasdf hasff ondir onfile facc dacc obs =>
    sub_b obs (sel_list (cfg_of hasdf hasff ondir onfile facc dacc) ROOT root)
  | CSelAt base root hasdf hasff ondir onfile facc dacc obs =>
    perm_b obs (sel_list (cfg_of hasdf hasff ondir onfile facc dacc) base root) && wf_list root
  | CSubAt base root hasdf hasff ondir onfile facc dacc obs =>
    sub_b obs (sel_list (cfg_of hasdf hasff ondir onfile facc dacc) base root)
  | CRep base root hasdf hasff ondir onfile facc dacc nrep failed obs =>
    rep_ok nrep failed obs (sel_list (cfg_of hasdf hasff ondir onfile facc dacc) base root)
    && match nrep with O => wf_list root | S _ => true end
  | CSched cte root cm pm sched exited obs =>
    let cfg := mkCfg (fun _ => true) (fun _ => true) false true true (fun _ => false) (fun _ => false)
                     pm cm 1000%nat 1000%nat (if cte then ClosedThenEmpty else EmptyThenClosed) in
    let s := run cfg sched (init cfg ROOT root) in
    Bool.eqb (all_exited s && waited s) exited && perm_b (log s) obs && negb (killed s)
  end.
