(** Correspondence driver for C05.  The Go harness runs the real EncryptFS / ciphers; from every stored
    value it parses (nonce, sealed part), re-computes the sealed part independently with
    crypto/aes + cipher.NewGCM under SHA3-256(key material), and records the oracle table
    (key material, nonce, plaintext, sealed).  Here the section of Model/Enc.v is instantiated with
    that table: seal = lookup, open = reverse lookup (None when the string was never sealed = the
    ideal AEAD), hash = identity (the table is keyed by key material).  [check] runs the model's
    framing / Decrypt / DecryptReader on the same bytes and compares outcome class and data. *)
From GC Require Import Common.Base Model.Enc.

Record entry := { e_km : bytes; e_nonce : bytes; e_pt : bytes; e_ct : bytes }.
Definition tbl := list entry.

Definition t_seal (t : tbl) (k : bytes) (n : nonce) (p : bytes) : bytes :=
  match find (fun e => bytes_eqb (e_km e) k && bytes_eqb (e_nonce e) n && bytes_eqb (e_pt e) p) t with
  | Some e => e_ct e
  | None => []
  end.
Definition t_open (t : tbl) (k : bytes) (n : nonce) (c : bytes) : option bytes :=
  match find (fun e => bytes_eqb (e_km e) k && bytes_eqb (e_nonce e) n && bytes_eqb (e_ct e) c) t with
  | Some e => Some (e_pt e)
  | None => None
  end.
Definition t_hash (m : bytes) : bytes := m.

Inductive robs := OOk (d : bytes) | OErr | OPanic | OHang.

Definition res_matches (r : res bytes) (o : robs) : bool :=
  match r, o with
  | Ok d, OOk d' => bytes_eqb d d'
  | Err, OErr => true
  | Panic, OPanic => true
  | _, _ => false
  end.

Inductive case :=
(* a write through EncryptFS: request, the nonce found in the stored bytes, table, raw bytes found in the base *)
| CWrite (c : cipher) (hostid : bytes) (s : settings) (w : wreq) (n : nonce) (t : tbl) (stored : bytes)
(* a read through EncryptFS of the raw bytes [stored] in the base *)
| CRead (c : cipher) (hostid : bytes) (s : settings) (t : tbl) (stored : bytes) (rp : rpath) (o : robs)
(* Cipher.DecryptReader on a counting reader (optionally failing at the end / on Close) *)
| CStream (c : cipher) (km : bytes) (t : tbl) (data : bytes) (fail closeerr : bool) (o : robs) (closes : nat).

Definition table_ok (t : tbl) : bool :=
  forallb (fun e => Nat.eqb (length (e_ct e)) (length (e_pt e) + OVERHEAD) && Nat.eqb (length (e_nonce e)) NONCE_SIZE) t.

Definition check (c : case) : bool :=
  match c with
  | CWrite c hostid s w n t stored =>
    table_ok t && Nat.eqb (length n) NONCE_SIZE
    && bytes_eqb (store bytes (t_seal t) t_hash c (keymat hostid s) n w) stored
    && bytes_eqb (header c ++ n ++ t_seal t (keymat hostid s) n (wreq_data w)) stored
  | CRead c hostid s t stored rp o =>
    table_ok t && res_matches (read_stored bytes (t_open t) t_hash rp c (keymat hostid s) stored) o
  | CStream c km t data fail closeerr o closes =>
    let (r, st) := decrypt_reader bytes (t_open t) t_hash c km
                     {| s_data := data; s_fail := fail; s_close_err := closeerr; s_closes := 0 |} in
    table_ok t && res_matches r o && Nat.eqb (s_closes st) closes
  end.
