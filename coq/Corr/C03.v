(** Correspondence driver for C03: a filespace is built from the memfs root by a list of
    constructors (Filespace(p), NewSubFS, NewReadonlyFS, NewEncryptFS); operations with raw path
    arguments are issued through it; compared: each result class/answer and the ROOT tree. *)
From GC Require Import Common.Base Model.Paths Model.Fs Model.Views Model.Cache Model.ViewsCache Corr.FsCorr.

Inductive case :=
| CView (init : fs) (ks : list ctor) (steps : list (op * out)) (final : fs)
  (** resolve probe: through the stack built by [ks] (caches allowed) a WriteFile with raw
      argument [s] succeeded and the one file it changed in the root backend is [p] *)
| CRes (ks : list cctor) (s : bytes) (p : path)
  (** child view of a cache: [ks] = NewMemCache on the memfs root [init], then Filespace(..)
      one or more times; one operation through the view, then Commit; compared: what the
      operation returned and the ROOT (= remote) tree after the Commit *)
| CSub (init : fs) (ks : list cctor) (o : op) (expect : out) (final : fs).

Fixpoint run_steps (c : chain) (t : fs) (l : list (op * out)) : option fs :=
  match l with
  | [] => Some t
  | (o, expect) :: l' =>
    let (t', r) := chain_step c t o in
    if out_eqb r expect then run_steps c t' l' else None
  end.

Definition check (c : case) : bool :=
  match c with
  | CView init ks steps final =>
    match build [] ks with
    | Some ch =>
      match run_steps ch init steps with
      | Some t => tree_eqb t final
      | None => false
      end
    | None =>
      (* the view could not be created: every step is reported as an error, nothing changes *)
      forallb (fun so => out_eqb (snd so) RErr) steps && tree_eqb init final
    end
  | CRes ks s p =>
    match cbuild [] ks with
    | Some ch =>
      negb (has_ro ch) &&
      match resolve true ch s with Some q => path_eqb q p | None => false end
    | None => false
    end
  | CSub init ks o expect final =>
    match cbuild [] ks with
    | Some [LSub base; LCache] =>
      let (c', r) := sub_cache_step base (new_cache init) o in
      out_eqb r expect && tree_eqb (cR (fst (cache_step c' CCommit))) final
    | _ => false
    end
  end.

Definition debug (c : case) :=
  match c with
  | CView init ks steps final =>
    match build [] ks with
    | Some ch => (Some ch, map (fun so => snd (chain_step ch init (fst so))) (firstn 1 steps))
    | None => (None, [])
    end
  | CRes ks s p => (cbuild [] ks, [])
  | CSub init ks o expect final =>
    match cbuild [] ks with
    | Some [LSub base; LCache] => (cbuild [] ks, [snd (sub_cache_step base (new_cache init) o)])
    | _ => (cbuild [] ks, [])
    end
  end.
