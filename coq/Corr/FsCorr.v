(** Shared comparison functions for the filespace correspondence checks. *)
From GC Require Import Common.Base Model.Paths Model.Fs.

Definition entry_eqb (a b : entry) : bool :=
  match a, b with
  | D, D => true
  | F x, F y => bytes_eqb x y
  | _, _ => false
  end.

Definition pe_eqb (a b : path * entry) : bool := path_eqb (fst a) (fst b) && entry_eqb (snd a) (snd b).

Fixpoint count_occ_b {A} (eqb : A -> A -> bool) (l : list A) (x : A) : nat :=
  match l with
  | [] => O
  | y :: l' => (if eqb x y then 1 else 0) + count_occ_b eqb l' x
  end.

(** Multiset equality (listings and whole trees are compared as sets-with-multiplicity: a
    duplicated name is a difference; order is not). *)
Definition multiset_eqb {A} (eqb : A -> A -> bool) (a b : list A) : bool :=
  Nat.eqb (length a) (length b) &&
  forallb (fun x => Nat.eqb (count_occ_b eqb a x) (count_occ_b eqb b x)) a.

Definition tree_eqb (a b : fs) : bool := multiset_eqb pe_eqb a b.

Definition nb_eqb (a b : name * bool) : bool := bytes_eqb (fst a) (fst b) && Bool.eqb (snd a) (snd b).
Definition chunk_eqb (a b : bytes * bool) : bool := bytes_eqb (fst a) (fst b) && Bool.eqb (snd a) (snd b).

Definition out_eqb (a b : out) : bool :=
  match a, b with
  | RUnit, RUnit => true
  | RErr, RErr => true
  | RBool x, RBool y => Bool.eqb x y
  | RData x, RData y => bytes_eqb x y
  | RList x, RList y => multiset_eqb nb_eqb x y
  | RStat d1 s1, RStat d2 s2 => Bool.eqb d1 d2 && (d1 || N.eqb s1 s2)
  | RChunks x, RChunks y => list_eqb chunk_eqb x y
  | _, _ => false
  end.
