(** Correspondence driver for C07: the history relation of Corr/C06.v (answers of every operation,
    walks of the remote and of the tree seen through the cache) plus what the ENTRIES of the
    listings taken by the harness said.  After a step the harness lists directories of the view -
    on the cache itself and through child views, by component path ([LDir]), and wherever the
    history itself calls ReadDir on the cache, by the raw argument ([LRaw]) - and records for each
    entry its name and [None] (IsDir) or [Some (Size())].  The model's described listing
    [v_read_dir_info] (Model/CacheList.v) in the state after the step must be that multiset:
    a listing entry describes the node as pending, not as the remote still has it. *)
From GC Require Import Common.Base Model.Paths Model.Fs Model.Cache Model.CacheList Corr.FsCorr Corr.C06.

Inductive lobs :=
| LDir (p : path) (l : list (name * info))
| LRaw (s : bytes) (l : list (name * info)).

Definition info_eqb (a b : info) : bool :=
  match a, b with
  | None, None => true
  | Some x, Some y => N.eqb x y
  | _, _ => false
  end.

Definition ni_eqb (a b : name * info) : bool := bytes_eqb (fst a) (fst b) && info_eqb (snd a) (snd b).

Definition listing_is (c : cache) (p : path) (l : list (name * info)) : bool :=
  match v_read_dir_info c p with
  | Some m => multiset_eqb ni_eqb m l
  | None => false
  end.

Definition obs_ok (c : cache) (o : lobs) : bool :=
  match o with
  | LDir p l => listing_is c p l
  | LRaw s l => match cnorm s with Some p => listing_is c p l | None => false end
  end.

Record lstep := mkLStep { l_step : cstep; l_obs : list lobs }.

(** [obs0]: listings taken before the first recorded step (reads through child views are not
    steps of the model's history: they change nothing). *)
Inductive case := CList (init : fs) (obs0 : list lobs) (steps : list lstep).

Fixpoint check_obs (c : cache) (l : list lstep) : bool :=
  match l with
  | [] => true
  | s :: l' =>
    let c' := fst (cache_step c (s_op (l_step s))) in
    forallb (obs_ok c') (l_obs s) && check_obs c' l'
  end.

Definition check (x : case) : bool :=
  match x with
  | CList init obs0 steps =>
    C06.check (CCache init (map l_step steps)) &&
    forallb (obs_ok (new_cache init)) obs0 && check_obs (new_cache init) steps
  end.

(** For diagnosis: index of the first step one of whose listings disagrees, with the model's
    listing for it. *)
Definition obs_model (c : cache) (o : lobs) : option (list (name * info)) :=
  match o with
  | LDir p _ => v_read_dir_info c p
  | LRaw s _ => match cnorm s with Some p => v_read_dir_info c p | None => None end
  end.

Fixpoint first_bad_obs (i : nat) (c : cache) (l : list lstep) : option (nat * lobs * option (list (name * info))) :=
  match l with
  | [] => None
  | s :: l' =>
    let c' := fst (cache_step c (s_op (l_step s))) in
    match filter (fun o => negb (obs_ok c' o)) (l_obs s) with
    | o :: _ => Some (i, o, obs_model c' o)
    | [] => first_bad_obs (S i) c' l'
    end
  end.

Definition debug (x : case) :=
  match x with
  | CList init obs0 steps =>
    (C06.debug (CCache init (map l_step steps)),
     filter (fun o => negb (obs_ok (new_cache init) o)) obs0,
     first_bad_obs 0 (new_cache init) steps)
  end.
