(** Correspondence driver for C06 and C07: a history of cache operations, Commits and faulty
    Commits on a cache over a given initial remote tree.  Each step carries what the cache
    returned and, where the harness took them, the walk of the REMOTE filespace and the walk
    of the tree as seen THROUGH the cache. *)
From GC Require Import Common.Base Model.Paths Model.Fs Model.Cache Model.CacheDirect Corr.FsCorr.

Record cstep := mkCStep { s_op : cop; s_out : out; s_remote : option fs; s_view : option fs }.

Inductive case := CCache (init : fs) (steps : list cstep).

(** After a faulty Commit the remote is in an intermediate state the model does not predict
    (it depends on map iteration order); the remote comparison is suspended until the next
    successful Commit, which must reach the model's tree again. *)
Fixpoint check_steps (c : cache) (dirty : bool) (l : list cstep) : bool :=
  match l with
  | [] => true
  | s :: l' =>
    let (c', o) := cache_step c (s_op s) in
    let dirty' := match s_op s with
                  | CCommitFault => true
                  | CCommit => match o with RUnit => false | _ => true end
                  | _ => dirty
                  end in
    out_eqb o (s_out s) &&
    match s_remote s with Some w => dirty' || tree_eqb (cR c') w | None => true end &&
    (* the remote observed after a FAILED Commit is one from which the model proves convergence *)
    match s_op s, s_remote s with CCommitFault, Some w => partial_ok c w | _, _ => true end &&
    match s_view s with Some w => tree_eqb (cview c') w | None => true end &&
    check_steps c' dirty' l'
  end.

(** Second relation (the C06_history theorems): the same history with the OBSERVED remote swapped in after
    every failed Commit ([HFault]), next to a plain tree to which the successful operations are
    applied directly ([direct_step]).  Every observed failure must be accepted by [partial_ok] in
    the state it happened in (the hypothesis [hist_valid] of the history theorems, also for a
    second failure before any successful retry), and every walk through the cache, and of the
    remote after a successful Commit, must be that plain tree. *)
Definition view_is (t : fs) (s : cstep) : bool :=
  match s_view s with Some w => tree_eqb t w | None => true end.

Fixpoint check_direct (c : cache) (t : fs) (l : list cstep) : bool :=
  match l with
  | [] => true
  | s :: l' =>
    let h := match s_op s, s_remote s with
             | CCommitFault, Some w => HFault w
             | CCommitFault, None => HFault (cR c)
             | CCommit, _ => HCommit
             | COp o, _ => HOp o
             end in
    let c' := hev_step c h in
    match h with
    | HOp o =>
      if hev_ok c h then
        let t' := if is_unit (snd (cache_step c (COp o))) then direct_step t o else t in
        view_is t' s && check_direct c' t' l'
      else true      (* a directory copy that stopped half way: the harness ends the history here *)
    | HCommit =>
      match s_remote s with Some w => tree_eqb t w | None => true end && view_is t s && check_direct c' t l'
    | HFault _ => hev_ok c h && view_is t s && check_direct c' t l'
    end
  end.

Definition check (c : case) : bool :=
  match c with
  | CCache init steps => check_steps (new_cache init) false steps && check_direct (new_cache init) init steps
  end.

Fixpoint first_bad (i : nat) (c : cache) (l : list cstep) : option (nat * out * cache) :=
  match l with
  | [] => None
  | s :: l' =>
    let (c', o) := cache_step c (s_op s) in
    if out_eqb o (s_out s) &&
       match s_remote s with Some w => tree_eqb (cR c') w | None => true end &&
       match s_view s with Some w => tree_eqb (cview c') w | None => true end
    then first_bad (S i) c' l' else Some (i, o, c')
  end.
Definition debug (c : case) := match c with CCache init steps => first_bad 0 (new_cache init) steps end.
