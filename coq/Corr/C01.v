(** Correspondence driver for C01: a case is a whole history on one fresh in-memory filespace;
    each step carries the view chain, the operation, what memfs returned and (after every
    successful mutation, and at the end) the complete tree walked through ReadDir/ReadFile. *)
From GC Require Import Common.Base Model.Paths Model.Fs Corr.FsCorr.

Record hstep := mkStep { h_view : list bytes; h_op : op; h_out : out; h_walk : option fs }.

Inductive case := CHist (steps : list hstep) (final : fs).

Fixpoint check_steps (t : fs) (l : list hstep) : option fs :=
  match l with
  | [] => Some t
  | s :: l' =>
    let (t', o) := hist_step t (h_view s, h_op s) in
    if out_eqb o (h_out s) &&
       match h_walk s with Some w => tree_eqb t' w | None => true end
    then check_steps t' l' else None
  end.

Definition check (c : case) : bool :=
  match c with
  | CHist steps final =>
    match check_steps [] steps with
    | Some t => tree_eqb t final && wf t
    | None => false
    end
  end.

(** Debugging aid: index of the first step on which model and implementation differ, with the
    model's answer and tree. *)
Fixpoint first_bad (i : nat) (t : fs) (l : list hstep) : option (nat * out * fs) :=
  match l with
  | [] => None
  | s :: l' =>
    let (t', o) := hist_step t (h_view s, h_op s) in
    if out_eqb o (h_out s) &&
       match h_walk s with Some w => tree_eqb t' w | None => true end
    then first_bad (S i) t' l' else Some (i, o, t')
  end.
Definition debug (c : case) := match c with CHist steps _ => first_bad 0 [] steps end.
