(** Correspondence driver for C04: cases written by the Go harness carry the inputs AND what the
    implementation returned / left behind; [check] evaluates the model and compares. *)
From GC Require Import Common.Base Model.Paths Model.Fs Model.Stream Model.Copy Corr.FsCorr.

Inductive ckind :=
| KStreamCopy (p : bytes)                 (* fshelper.StreamCopy(src, dst, p) *)
| KCopierFile (s d : bytes)               (* Copier{src, s, dst, d}.Do() with s a file *)
| KCopierDir (s d : path) (cbs : list cb) (* Copier.Do() with s not a file; callbacks as the walk made them *)
| KCopy (cbs : list cb).                  (* fshelper.Copy(src, dst, nil) *)

Inductive case :=
(* Writer session through the filespace step function (memfs, cache view, disk with parents) *)
| CWriter (pre : fs) (s : bytes) (chunks : list bytes) (o : out) (post : fs)
(* Writer session, policy model: old content (None = absent), chunks, content read back *)
| CWriterPol (old : option bytes) (chunks : list bytes) (final : bytes)
(* Reader session *)
| CReader (st : eof_style) (data : bytes) (bufs : list nat) (obs : list (bytes * bool))
(* a copy helper: backend parameters, io.Copy buffer size, source tree, destination tree before,
   the helper, the injected fault, result class (true = nil error), destination tree after
   (given when the result was Ok) *)
| CCopy (st : eof_style) (mkpar : bool) (B : N) (src dst : fs) (kd : ckind)
        (flt : option fault) (ok : bool) (post : option fs).

Definition run_kind (k : copy_cfg) (src dst : fs) (kd : ckind) : cres * fs :=
  match kd with
  | KStreamCopy p => let '(r, t, _) := stream_copy (cc_plan k) (cc_eof k) (cc_mkpar k) (cc_buf k) src dst p ctr0 in (r, t)
  | KCopierFile s d => let '(r, t, _) := copier_file (cc_plan k) (cc_eof k) (cc_mkpar k) (cc_buf k) src dst s d ctr0 in (r, t)
  | KCopierDir s d cbs => copier_dir k src s d dst cbs
  | KCopy cbs => tree_copy k src [] [] dst cbs
  end.

Definition check (c : case) : bool :=
  match c with
  | CWriter pre s chunks o post =>
    let (t', o') := mem_step pre (OWriter s chunks) in out_eqb o' o && tree_eqb t' post
  | CWriterPol old chunks final => bytes_eqb (writer_result Truncate old chunks) final
  | CReader st data bufs obs => list_eqb chunk_eqb (read_calls st data bufs) obs
  | CCopy st mkpar B src dst kd flt ok post =>
    let k := mkCopyCfg (plan_of flt) st mkpar (N.to_nat B) true in
    let (r, t) := run_kind k src dst kd in
    match r, ok with
    | COk, true => match post with Some w => tree_eqb t w | None => true end
    | CErr, false => true
    | _, _ => false
    end
  end.

Definition debug (c : case) :=
  match c with
  | CCopy st mkpar B src dst kd flt ok post =>
    let k := mkCopyCfg (plan_of flt) st mkpar (N.to_nat B) true in Some (run_kind k src dst kd)
  | _ => None
  end.
