(** Correspondence driver for C16: a case is one real run of a generated pip:try block: the block,
    the observable trace ([TExt] = pip:try is called, then probe events of the body, of the tasks it
    spawned and of the handlers), and the final observations: registered tasks with "has errors",
    whether the surrounding scope has an error.  [check] replays the trace on the model of
    Model/Try.v (the goroutine's steps are hidden steps of the acceptor) and compares. *)
From GC Require Import Common.Base Model.Runner Model.Try Corr.RunnerAcc.
Local Open Scope nat_scope.

Record case := {
  c_tb : tryblock;
  c_trace : list tev;
  c_final : list (name * bool);
  c_sur_failed : bool }.              (* len(surroundingScope.Errors()) != 0 after everything finished *)

Definition tx := (tpc * bool * option bool * list (name * ctxid) * list name * bool)%type.

Definition of_t (t : tstate) : state * tx := (rs t, (pc t, hold t, catched t, subd t, coll t, pend t)).
Definition to_t (s : state) (x : tx) : tstate :=
  match x with (p, h, c, l, g, pd) => mk s p h c l g pd end.
Definition tx_pc (x : tx) : tpc := match x with (p, _, _, _, _, _) => p end.

Definition try_extra (tb : tryblock) (s : state) (x : tx) : option (state * tx) :=
  match tx_pc x with
  | TStart => None                     (* started only by the TExt event *)
  | _ => match try_step MFixed tb (to_t s x) with Some t => Some (of_t t) | None => None end
  end.

Definition try_start (tb : tryblock) (s : state) (x : tx) : option (state * tx) :=
  match tx_pc x with
  | TStart => match try_step MFixed tb (to_t s x) with Some t => Some (of_t t) | None => None end
  | _ => None
  end.

Definition check (c : case) : bool :=
  let tb := c_tb c in
  match replay tx (try_extra tb) (try_start tb) (c_trace c)
               {| a_s := init (tb_par tb); a_x := (TStart, false, None, [], [], false); a_ended := []; a_sres := [] |} with
  | Some a =>
    let s := a_s a in
    final_ok s (c_final c)
    && Bool.eqb (ctx_failed (tb_par tb) s) (c_sur_failed c)
    && match a_x a with (TDone, false, _, _, _, _) => true | _ => false end
  | None => false
  end.
