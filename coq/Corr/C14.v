(** Correspondence driver for C14: a case is the observable trace of one real run of a generated
    task graph (submissions with their results, probe events in global order) plus the final
    observations (registered names with "has errors", result of TasksManager.Wait).  [check] replays
    the trace on the model ([RunnerAcc.replay]) and compares the final observations. *)
From GC Require Import Common.Base Model.Runner Corr.RunnerAcc.
Local Open Scope nat_scope.

Inductive mgr_obs := MOk | MErr | MHang.

Record case := {
  c_root : ctxid;
  c_trace : list tev;
  c_final : list (name * bool);     (* every registered task: name, len(Errors()) != 0 *)
  c_mgr : mgr_obs }.

Definition no_extra (s : state) (x : unit) : option (state * unit) := None.

Definition accepts (c : case) : option state :=
  match replay unit no_extra no_extra (c_trace c)
               {| a_s := init (c_root c); a_x := tt; a_ended := []; a_sres := [] |} with
  | Some a => Some (a_s a)
  | None => None
  end.

Definition check (c : case) : bool :=
  match accepts c with
  | Some s =>
    final_ok s (c_final c)
    && match mgr_wait s, c_mgr c with
       | Some false, MOk => true
       | Some true, MErr => true
       | None, MHang => true
       | _, _ => false
       end
  | None => false
  end.
