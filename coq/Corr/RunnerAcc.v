(** Executable trace acceptor for the runner model (used by Corr/C14.v and Corr/C16.v).
    A recorded trace holds the OBSERVABLE events of a real run (probe command entry / exit, the
    results of submissions) in global order; every other model step is hidden.  The acceptor replays
    the trace as a schedule of model steps ([Runner.step false]); hidden steps are fired by
    saturation before each observable event: steps that do not put a new error into a context
    eagerly, steps that do as late as possible (an error reaches the context after the probe logged
    its exit, so the model may only be later, never earlier, than the implementation).
    The acceptor is generic in an extra thread (pip:try goroutine) given by [A], [extra], [on_ext]. *)
From GC Require Import Common.Base Model.Runner.
Local Open Scope nat_scope.

Inductive tev :=
| TSubmit (sb : subm) (c : ctxid) (acc : bool)   (* harness calls Runner.Run; acc = it returned nil *)
| TB (n : name) (i : nat)                         (* probe command i of task n entered *)
| TE (n : name) (i : nat) (ok : bool)             (* it is about to return nil / an error *)
| TSR (n : name) (i : nat) (acc : bool)           (* pip:run inside command i of n returned nil / error *)
| TExt.                                           (* the extra thread is started (pip:try is called) *)

Section Acc.
Variable A : Type.
Variable extra : state -> A -> option (state * A).    (* hidden step of the extra thread *)
Variable on_ext : state -> A -> option (state * A).   (* effect of TExt *)

Record acc := { a_s : state; a_x : A; a_ended : list name; a_sres : list (name * nat * bool) }.

Definition mem (n : name) (l : list name) : bool := existsb (N.eqb n) l.
Definition remove_name (n : name) (l : list name) : list name := filter (fun x => negb (N.eqb x n)) l.

Definition has_tb (n : name) (i : nat) (rest : list tev) : bool :=
  existsb (fun e => match e with TB m j => N.eqb m n && Nat.eqb i j | _ => false end) rest.

(** Candidate hidden step of task [t]. *)
Definition hidden (rest : list tev) (a : acc) (t : task) : option acc :=
  let s := a_s a in
  let n := t_name t in
  let plain := match task_step false t s with
               | Some s' => Some {| a_s := s'; a_x := a_x a; a_ended := a_ended a; a_sres := a_sres a |}
               | None => None end in
  match t_st t with
  | Waiting _ => plain
  | Running pc PBefore =>
    match nth_error (t_body t) pc with
    | None => plain
    | Some _ => if ctx_failed (t_ctx t) s && negb (has_tb n pc rest)
                then match step false (LAbort n) s with
                     | Some s' => Some {| a_s := s'; a_x := a_x a; a_ended := a_ended a; a_sres := a_sres a |}
                     | None => None end
                else None
    end
  | Running pc PIn =>
    match nth_error (t_body t) pc with
    | Some (CSpawn nm ws b) => None     (* the creation is fired by [do_spawn] (TSR, or the child's first event) *)
    | Some _ => if mem n (a_ended a)
                then match task_step false t s with
                     | Some s' => Some {| a_s := s'; a_x := a_x a; a_ended := remove_name n (a_ended a); a_sres := a_sres a |}
                     | None => None end
                else None
    | None => None
    end
  | Running _ _ => plain
  | Closing => plain
  | _ => None
  end.

(** TaskManager.Create of the pip:run in the current command of task [n]; records the result. *)
Definition do_spawn (n : name) (a : acc) : option acc :=
  let s := a_s a in
  match find_task n (tasks s) with
  | Some t =>
    match t_st t with
    | Running pc PIn =>
      match nth_error (t_body t) pc with
      | Some (CSpawn _ _ _) =>
        match task_step false t s with
        | Some s' =>
          let r := match find_task n (tasks s') with
                   | Some t' => match t_st t' with Running _ (PSpawned _) => true | _ => false end
                   | None => false end in
          Some {| a_s := s'; a_x := a_x a; a_ended := a_ended a; a_sres := (n, pc, r) :: a_sres a |}
        | None => None
        end
      | _ => None
      end
    | _ => None
    end
  | None => None
  end.

(** The task that is inside a pip:run command creating [child]. *)
Definition spawner_of (child : name) (s : state) : option name :=
  match find (fun t => match t_st t with
                       | Running pc PIn => match nth_error (t_body t) pc with
                                           | Some (CSpawn nm _ _) => N.eqb nm child | _ => false end
                       | _ => false end) (tasks s) with
  | Some t => Some (t_name t)
  | None => None
  end.

Definition same_failed (a b : acc) : bool := Nat.eqb (length (failed (a_s a))) (length (failed (a_s b))).

(** One round: every task (by name, in creation order) gets the chance of one hidden step. *)
Fixpoint round (allow_fail : bool) (rest : list tev) (names : list name) (a : acc) (changed : bool) : acc * bool :=
  match names with
  | [] => (a, changed)
  | n :: r =>
    match find_task n (tasks (a_s a)) with
    | Some t =>
      match hidden rest a t with
      | Some a' => if allow_fail || same_failed a a' then round allow_fail rest r a' true
                   else round allow_fail rest r a changed
      | None => round allow_fail rest r a changed
      end
    | None => round allow_fail rest r a changed
    end
  end.

Definition extra_round (allow_fail : bool) (a : acc) (changed : bool) : acc * bool :=
  match extra (a_s a) (a_x a) with
  | Some (s', x') =>
    let a' := {| a_s := s'; a_x := x'; a_ended := a_ended a; a_sres := a_sres a |} in
    if allow_fail || same_failed a a' then (a', true) else (a, changed)
  | None => (a, changed)
  end.

Fixpoint sat (fuel : nat) (allow_fail : bool) (rest : list tev) (a : acc) : acc :=
  match fuel with
  | 0 => a
  | S f =>
    let (a1, ch1) := round allow_fail rest (map t_name (tasks (a_s a))) a false in
    let (a2, ch2) := extra_round allow_fail a1 ch1 in
    if ch2 then sat f allow_fail rest a2 else a2
  end.

Definition FUEL := 120.

Definition ready_tb (n : name) (i : nat) (a : acc) : bool :=
  match find_task n (tasks (a_s a)) with
  | Some t => match t_st t with
              | Running pc PBefore => Nat.eqb pc i && match nth_error (t_body t) pc with Some _ => true | None => false end
              | _ => false end
  | None => false
  end.

Definition with_s (a : acc) (s : state) : acc :=
  {| a_s := s; a_x := a_x a; a_ended := a_ended a; a_sres := a_sres a |}.

Definition on_event (e : tev) (rest : list tev) (a : acc) : option acc :=
  match e with
  | TSubmit sb c r =>
    let (s', r') := create false sb c None (a_s a) in
    if Bool.eqb r r' then Some (with_s a s') else None
  | TExt =>
    match on_ext (a_s a) (a_x a) with
    | Some (s', x') => Some {| a_s := s'; a_x := x'; a_ended := a_ended a; a_sres := a_sres a |}
    | None => None
    end
  | TB n i =>
    let a1 := sat FUEL false rest a in
    let a1' := if ready_tb n i a1 then a1 else
                 match spawner_of n (a_s a1) with
                 | Some p => match do_spawn p a1 with Some a' => sat FUEL false rest a' | None => a1 end
                 | None => a1
                 end in
    let a2 := if ready_tb n i a1' then a1' else sat FUEL true rest a1' in
    if ready_tb n i a2 then
      match step false (LTask n) (a_s a2) with Some s' => Some (with_s a2 s') | None => None end
    else None
  | TE n i ok =>
    match find_task n (tasks (a_s a)) with
    | Some t =>
      match t_st t, nth_error (t_body t) i with
      | Running pc PIn, Some c =>
        if Nat.eqb pc i && negb (mem n (a_ended a))
           && match c with COk => ok | CFail => negb ok | CSpawn _ _ _ => false end
        then Some {| a_s := a_s a; a_x := a_x a; a_ended := n :: a_ended a; a_sres := a_sres a |}
        else None
      | _, _ => None
      end
    | None => None
    end
  | TSR n i r =>
    let has (x : acc) := existsb (fun y => match y with (m, j, r') => N.eqb m n && Nat.eqb i j && Bool.eqb r r' end) (a_sres x) in
    let a1 := sat FUEL false rest a in
    if has a1 then Some a1 else
    match do_spawn n a1 with
    | Some a2 => if has a2 then Some a2 else
                 (* the implementation rejected it: an error may have reached a context first *)
                 let a3 := sat FUEL true rest a1 in
                 match do_spawn n a3 with
                 | Some a4 => if has a4 then Some a4 else None
                 | None => None
                 end
    | None => None
    end
  end.

Fixpoint replay (tr : list tev) (a : acc) : option acc :=
  match tr with
  | [] => Some (sat FUEL true [] (sat FUEL false [] a))
  | e :: rest => match on_event e rest a with Some a' => replay rest a' | None => None end
  end.

End Acc.

Arguments a_s {A}. Arguments a_x {A}. Arguments a_ended {A}. Arguments a_sres {A}.

(** Final observations: which names are registered, and whether each task has errors. *)
Definition final_ok (s : state) (fin : list (name * bool)) : bool :=
  Nat.eqb (length fin) (length (tasks s))
  && forallb (fun p => match find_task (fst p) (tasks s) with
                       | Some t => is_finished (t_st t) && Bool.eqb (task_has_errors s t) (snd p)
                       | None => false end) fin.
