(** Correspondence driver for C13.
    [CSeq st0 ops obs]   a sequential history on a chain (innermost child first; [st0] = the
                         initial maps), with what the implementation returned for every op
                         (Keys sorted ascending by the harness; compared as a set).
    [CCounter st0 j k nthreads iters ev final]  a real concurrent run of [nthreads] goroutines each
                         doing [iters] locked increments of key [k] on scope [j]: [ev] = the order
                         in which the locked sections happened, each with the goroutine and the
                         value it read under the lock; [final] = the value at the end.  The model
                         must replay the sections in that order reading the same values, end with
                         everybody done and the same final value. *)
From GC Require Import Common.Base Model.Data.

Inductive case :=
| CSeq (st0 : chain) (ops : list sop) (obs : list sobs)
| CCounter (st0 : chain) (j : nat) (k : N) (nthreads iters : nat) (ev : list (nat * N)) (final : N).

Fixpoint ins_sorted (x : N) (l : list N) : list N :=
  match l with
  | [] => [x]
  | y :: r => if N.leb x y then x :: l else y :: ins_sorted x r
  end.
Definition sortN (l : list N) : list N := fold_right ins_sorted [] l.

Definition sobs_eqb (a b : sobs) : bool :=
  match a, b with
  | SNone, SNone => true
  | SVal x, SVal y => N.eqb x y
  | SKeyset x, SKeyset y => list_eqb N.eqb (sortN x) (sortN y)
  | _, _ => false
  end.

Definition check (c : case) : bool :=
  match c with
  | CSeq st0 ops obs => list_eqb sobs_eqb (snd (sexec_all st0 ops)) obs
  | CCounter st0 j k nthreads iters ev final =>
      let p := concat (repeat (counter_prog j k) iters) in
      match replay_counter (length st0) j k ev (init st0 (repeat p nthreads)) with
      | Some s => all_done s && N.eqb (value_at (maps s) j k) final
                  && Nat.eqb (length ev) (nthreads * iters)
      | None => false
      end
  end.
