(** Correspondence driver for C12 (and the sequential part shared with C11): cases written by the
    Go harness carry the operation history AND what the implementation showed; [check] runs the
    model (Model/Scope.v, the sequential driver = one particular schedule of [step]) and compares. *)
From GC Require Import Common.Base Model.Scope.
From Coq Require Import ZArith.

Definition sobs_eqb (a b : sobs) : bool :=
  match a, b with
  | SPanic, SPanic => true
  | SAdd x, SAdd y => Bool.eqb x y
  | SBool x, SBool y => Bool.eqb x y
  | _, _ => false
  end.
Definition stepobs_eqb (a b : stepobs) : bool :=
  list_eqb sobs_eqb (so_main a) (so_main b) &&
  list_eqb N.eqb (so_closers a) (so_closers b) &&
  list_eqb (fun x y => Bool.eqb (fst x) (fst y) && Nat.eqb (snd x) (snd y)) (so_ctxs a) (so_ctxs b).

Definition seq_check (h : list hop) (obs : list stepobs) (ferrs : list (list N)) : bool * state :=
  let (os, st) := drive_all cfg_current h in
  (list_eqb stepobs_eqb os obs && list_eqb (list_eqb N.eqb) (map c_errors (ctxs (sh st))) ferrs, st).

Fixpoint insertN (x : N) (l : list N) : list N :=
  match l with [] => [x] | y :: l' => if N.leb x y then x :: l else y :: insertN x l' end.
Definition sortN (l : list N) : list N := fold_right insertN [] l.

Inductive case :=
| CSeq (h : list hop) (obs : list stepobs) (ferrs : list (list N))
    (* sequential history: per-step observations and the final error lists, exactly *)
| CLin (h : list hop) (final : list (bool * list N)) (panics : nat).
    (* concurrent run replayed in completion order: final done flags, error multisets, panic count *)

Definition check (c : case) : bool :=
  match c with
  | CSeq h obs ferrs => fst (seq_check h obs ferrs)
  | CLin h final panics =>
    let (_, st) := drive_all cfg_current h in
    list_eqb (fun x y => Bool.eqb (fst x) (fst y) && list_eqb N.eqb (snd x) (snd y))
             (map (fun c => (c_done c, sortN (c_errors c))) (ctxs (sh st))) final
    && Nat.eqb (length (all_panics st)) panics
  end.
