(** Correspondence driver for C18.  Cases are written by harness/c18.go and carry the inputs AND
    what the implementation (goatcore, or the real /bin/sh for the model-validation cases) did.
      CKey(s) / CSetAll  envs.Environments.Set / SetAll         vs  env_set / env_set_all
      CHist            Set / SetAll calls on ONE object, what each returned, All() afterwards
                                                                   vs  env_run (Proofs/C18More.v: the history of the C18_history_* theorems);
                       between the calls the harness writes to every map it passed in or got back
      CSsh / CDcmd*    the bytes of the generated start-up script vs  ssh_script / dcmd_script
                       (the environment order - and for dcmd's certificate block the random tag - are parsed out of the script by
                        the harness and handed to the model; the WHOLE script is compared)
      CSh / CShCanary  what the real /bin/sh did with a script    vs  the mini-sh [sh_run]. *)
From GC Require Import Common.Base Model.Shell Proofs.C18More.

(** What the real /bin/sh did with a script: [NotRun], or its environment at start, whether the last
    probe ran, the probed variables (name, value printed by printf %s) and whether a file named
    canary appeared. *)
Inductive shres :=
| NotRun
| Ran (init : env) (complete : bool) (probes : env) (canary : bool).

Inductive case :=
| CKey (k : bytes) (accepted : bool)
    (* Set(k, "x") on a fresh Environments returned nil *)
| CKeys (l : list (bytes * bool))
    (* many CKey observations in one case (the name sweep over every byte value) *)
| CSetAll (pre kvs : env) (ok : bool) (all : env)
    (* after Set of every pair of [pre] (all valid): SetAll(kvs) returned nil = [ok]; All() afterwards *)
| CHist (h : list env_op) (oks : list bool) (all : env)
    (* the calls [h] made on one fresh Environments object (an OSetAll carries what the CALLER knows its
       map to hold at the time of the call), [oks]: which of them returned nil, [all]: All() afterwards.
       Between the calls the harness, as the caller, wrote to every map it had passed to SetAll or got
       from All() and configured a second object from the same maps: none of that is in [h]. *)
| CSsh (e : env) (entry script : bytes) (r : shres)
    (* [script] = what sshsb produced for [e] (in script order) and [entry]; [r] = what /bin/sh did with it *)
| CDcmd (e : env) (tag pub sec : bytes) (ok : bool) (script probes : bytes) (r : shres)
    (* [r] = what /bin/sh did with [script ++ probes] *)
| CDcmdNil (script : bytes)
| CSh (init : env) (script : bytes) (supported complete : bool) (probes : env) (canary : bool)
    (* [script] fed to /bin/sh whose environment is [init]; [complete]: the last probe ran;
       [probes]: variable name, value printed by printf %s; [canary]: a file named canary appeared;
       [supported]: the harness' own prediction whether the mini-sh models this script *)
| CShCanary (init : env) (script : bytes) (canary : bool).
    (* break-out scripts on which /bin/sh stops with an error after the damage: canary only *)

Definition same_map (m all : env) : bool :=
  Nat.eqb (length m) (length all) &&
  forallb (fun kv => match lookup (fst kv) m with Some v => bytes_eqb v (snd kv) | None => false end) all.

Definition mentions_canary (e : effect) : bool :=
  match e with Exec c => contains c CANARY | Cmd _ => false end.

(** mini-sh vs /bin/sh on a script the mini-sh claims to model completely *)
Definition check_sh (script : bytes) (r : shres) : bool :=
  match r with
  | NotRun => true
  | Ran init complete probes canary =>
    match sh_run (mkSh init [] []) script with
    | Done s =>
      complete &&
      forallb (fun kv => bytes_eqb (lookup_or_empty (fst kv) (sh_store s)) (snd kv)) probes &&
      Bool.eqb canary (existsb mentions_canary (sh_effects s))
    | Unsup => false
    | Abort => negb complete
    end
  end.

Definition check_key (k : bytes) (accepted : bool) : bool :=
  Bool.eqb (valid_key k) accepted &&
  match env_set [] k [120] with
  | Ok m => accepted && same_map m [(k, [120])]
  | _ => negb accepted
  end.

Fixpoint bools_eqb (a b : list bool) : bool :=
  match a, b with
  | [], [] => true
  | x :: a', y :: b' => Bool.eqb x y && bools_eqb a' b'
  | _, _ => false
  end.

Definition check (c : case) : bool :=
  match c with
  | CKey k accepted => check_key k accepted
  | CKeys l => forallb (fun kb => check_key (fst kb) (snd kb)) l
  | CSetAll pre kvs ok all =>
    let m0 := put_all pre [] in
    match env_set_all m0 kvs with
    | Ok m => ok && same_map m all
    | Err => negb ok && same_map m0 all
    | Panic => false
    end
  | CHist h oks all =>
    bools_eqb (map op_accepted h) oks && same_map (env_run h []) all
  | CSsh e entry script r =>
    bytes_eqb (ssh_script e entry) script && check_sh script r
  | CDcmd e tag pub sec ok script probes r =>
    match dcmd_script e tag pub sec with
    | Ok s => ok && bytes_eqb s script && go_tag tag && check_sh (script ++ probes) r
    | Err => negb ok
    | Panic => false
    end
  | CDcmdNil script => bytes_eqb dcmd_script_nil script
  | CSh init script supported complete probes canary =>
    match sh_run (mkSh init [] []) script with
    | Done s =>
      supported && complete &&
      forallb (fun kv => bytes_eqb (lookup_or_empty (fst kv) (sh_store s)) (snd kv)) probes &&
      Bool.eqb canary (existsb mentions_canary (sh_effects s))
    | Unsup => negb supported
    | Abort => supported && negb complete
    end
  | CShCanary init script canary =>
    match sh_run (mkSh init [] []) script with
    | Done s => Bool.eqb canary (existsb mentions_canary (sh_effects s))
    | Unsup => true      (* an unquoted body the mini-sh does not model precedes the tag line: no claim *)
    | Abort => false
    end
  end.
