(** Correspondence driver for C15.  Cases written by the Go harness carry the input AND what the
    implementation did; [check] evaluates the model on the input and compares.

    [COrder m obs]   acquisition-order probe on the real SharedMutex: [m] = the lock map (rows in
                     Go's map iteration order), [obs] = the order in which the real [Lock]
                     acquired the names (decided black-box, see harness/c15.go).  The model's
                     order is [sort_rows m].
    [CTrace pool maps tr]  one stress run: [pool] = the resource names (ascending), [maps] = the
                     lock maps of the holders, [tr] = the recorded global sequence of
                     Lock-returned / about-to-Unlock events.  The names are ranked in the pool,
                     the byte-wise sort is checked to commute with the numeric sort of the model
                     ([lock_prog]), and the trace must be accepted by the model ([accepts]).
    [CParse rl wl ns res]  pip:run lock-list parsing: rlock / wlock argument strings, lock
                     namespace, and the lock map handed to the runner (rows sorted by name;
                     [None] = the command failed). *)
From GC Require Import Common.Base Model.Locks.

Inductive case :=
| COrder (m : list row) (obs : list bytes)
| CTrace (pool : list bytes) (maps : list (list row)) (tr : list event)
| CParse (rl wl ns : bytes) (res : option (list row)).

Definition req_eqb (a b : req) : bool := Nat.eqb (fst a) (fst b) && mode_eqb (snd a) (snd b).
Definition row_eqb (a b : row) : bool := bytes_eqb (fst a) (fst b) && Bool.eqb (snd a) (snd b).

Fixpoint all_some {A} (l : list (option A)) : option (list A) :=
  match l with
  | [] => Some []
  | Some a :: r => match all_some r with Some l' => Some (a :: l') | None => None end
  | None :: _ => None
  end.

Definition parse_model (rl wl ns : bytes) : option (list row) :=
  let m1 := match rl with [] => Some [] | _ => mark_bool_map rl ns false [] end in
  match m1 with
  | None => None
  | Some m =>
      match wl with
      | [] => Some (sort_rows m)
      | _ => match mark_bool_map wl ns true m with Some m' => Some (sort_rows m') | None => None end
      end
  end.

Definition check (c : case) : bool :=
  match c with
  | COrder m obs => list_eqb bytes_eqb (map fst (sort_rows m)) obs
  | CTrace pool maps tr =>
      lex_ascb pool &&
      match all_some (map (rank_rows pool) maps),
            all_some (map (fun m => rank_rows pool (sort_rows m)) maps) with
      | Some ranked, Some sorted_ranked =>
          list_eqb (list_eqb req_eqb) (map lock_prog ranked) sorted_ranked
          && forallb (fun p => ascb (map fst p)) sorted_ranked
          && accepts ranked tr
      | _, _ => false
      end
  | CParse rl wl ns res =>
      match parse_model rl wl ns, res with
      | Some a, Some b => list_eqb row_eqb a b
      | None, None => true
      | _, _ => false
      end
  end.
