(** Correspondence driver for C10: a case is a whole program (definition calls and requests,
    freely mixed) together with what the implementation answered to every call, the factory
    invocation counters after every call and Keys() after every call. *)
From GC Require Import Common.Base Model.Di.

Inductive iout :=
| IDef (ok : bool)
| IGetOk (t : token)
| IGetErr
| IInject (filled : list (option token)) (ok : bool)
| IPanic
| IHang.

(** [wiring]: for a successful Get, what the dependencies of the returned instance had resolved to
    when it was built (the instance's own record of its fields); [[]] otherwise. *)
Inductive case := Case (pool : list name) (ops : list op)
                       (obs : list (iout * list N * list name * list (option token))).

Definition kind_eqb (a b : kind) : bool :=
  match a, b with KInst, KInst | KFac, KFac | KDef, KDef | KDFac, KDFac => true | _, _ => false end.

Definition tok_eqb (a b : token) : bool :=
  N.eqb (t_name a) (t_name b) && kind_eqb (t_kind a) (t_kind b) && N.eqb (t_id a) (t_id b)
  && N.eqb (t_num a) (t_num b).

Definition otok_eqb (a b : option token) : bool :=
  match a, b with Some x, Some y => tok_eqb x y | None, None => true | _, _ => false end.

(** the model lists what the processed fields got; fields after a required failure are untouched *)
Fixpoint pad (n : nat) (l : list (option token)) : list (option token) :=
  match n with
  | O => []
  | S n' => match l with [] => None :: pad n' [] | x :: l' => x :: pad n' l' end
  end.

Definition out_eqb (nfields : nat) (m : out) (i : iout) : bool :=
  match m, i with
  | UDef a, IDef b => Bool.eqb a b
  | UGet (GOk t), IGetOk t' => tok_eqb t t'
  | UGet GErr, IGetErr => true
  | UInject l ROk, IInject l' true => list_eqb otok_eqb (pad nfields l) l'
  | UInject l RErr, IInject l' false => list_eqb otok_eqb (pad nfields l) l'
  | _, _ => false
  end.

Definition nfields (o : op) : nat := match o with OInject fs => length fs | _ => O end.

Fixpoint obs_eqb (ops : list op) (m : list (out * list N * list name)) (w : list (list (option token)))
         (i : list (iout * list N * list name * list (option token))) : bool :=
  match ops, m, w, i with
  | [], [], [], [] => true
  | o :: ops', (mo, mc, mk) :: m', mw :: w', (io, ic, ik, iw) :: i' =>
    out_eqb (nfields o) mo io && list_eqb N.eqb mc ic && list_eqb N.eqb mk ik
    && list_eqb otok_eqb mw iw && obs_eqb ops' m' w' i'
  | _, _, _, _ => false
  end.

Definition check (c : case) : bool :=
  match c with Case pool ops obs => obs_eqb ops (run_obs pool ops init) (run_wire ops init) obs end.
