(** Correspondence driver for C19.  A case is one generated file set together with the request
    sequences that were run on the real providers (html/text, cached/uncached) and what they
    returned: per request the result class and, for a template, the map definition name -> body
    marker read off the returned *template.Template.  [check] runs the model and compares. *)
From GC Require Import Common.Base Model.Tmpl.

Inductive iobs :=
| ITmpl (m : list (bytes * N))     (* defined name -> marker id, names unique *)
| IErr
| IPanic
| ISkip.

(** one run: html?, cached?, the requests, the observed answers *)
Definition irun := (bool * bool * list req * list iobs)%type.

Inductive case :=
| CSet (fs : tfs) (runs : list irun)
(** concurrent first use on a cached provider: the requests of the goroutines and what each got *)
| CConc (is_html : bool) (fs : tfs) (qs : list creq) (o : list iobs).

Definition map_eqb (d : defs) (m : list (bytes * N)) : bool :=
  forallb (fun e : bytes * N => match lookup (fst e) d with Some b => N.eqb b (snd e) | None => false end) m
  && forallb (fun e : bytes * N => mem (fst e) (map fst m)) d.

Definition obs_eqb (a : obs) (b : iobs) : bool :=
  match a, b with
  | OTmpl d, ITmpl m => map_eqb d m
  | OErr, IErr => true
  | OPanic, IPanic => true
  | OSkip, ISkip => true
  | _, _ => false
  end.

Fixpoint all2 {A B} (f : A -> B -> bool) (a : list A) (b : list B) : bool :=
  match a, b with
  | [], [] => true
  | x :: a', y :: b' => f x y && all2 f a' b'
  | _, _ => false
  end.

Definition flavour_of (is_html : bool) : flavour := if is_html then html_now else text_now.

Definition check_run (fs : tfs) (r : irun) : bool :=
  match r with
  | (is_html, cached, qs, o) => all2 obs_eqb (run_obs (flavour_of is_html) cached fs qs) o
  end.

Definition check (c : case) : bool :=
  match c with
  | CSet fs runs => forallb (check_run fs) runs
  | CConc is_html fs qs o => all2 obs_eqb (map (creq_spec fs) qs) o
  end.
