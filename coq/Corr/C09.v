(** Correspondence driver for C09.  Cases are written by harness/c09.go and carry the input AND
    what the real memfs did.

    CSched: schedule replay.  A fresh memfs is populated by [setup] (sequentially); thread i runs
            [progs]_i; the interleaving is forced through the verif yield points
            (memfs.remove.gap / memfs.create.gap / memfs.mkdir.gap): "run thread t until it is
            parked at gap g" and "let thread t run to the end".  The model (atomic_remove = true)
            is run on the same schedule; every thread's results (class; data of reads; listings)
            and the final tree must equal what the implementation did.
    CHist : a recorded small concurrent history (no forced schedule): the operations that
            succeeded, with begin/end sequence numbers, and the final tree; the executable
            acceptor [final_serialisable] over Model/Fs.v must find a sequential order respecting
            real-time precedence that produces the observed tree. *)
From GC Require Import Common.Base Model.Paths Model.Fs Model.MemConc.

Inductive sitem :=
| SGapRemove (t : nat)
| SGapCreate (t : nat)
| SGapMkdir (t : nat) (remaining : nat)
| SFinish (t : nat).

Inductive case :=
| CSched (setup : list cop) (progs : list (list cop)) (sched : list sitem)
         (results : list (list cres)) (final : fs)
| CHist (init : fs) (succ : list hop) (final : fs).

Fixpoint run_until (n : nat) (t : nat) (P : pcs -> bool) (st : state) : state :=
  match n with
  | O => st
  | S n' =>
    match nth_error (ths st) t with
    | Some l => if P (pc l) then st
                else match step cur t st with Some st' => run_until n' t P st' | None => st end
    | None => st
    end
  end.

Definition at_gap (i : sitem) (p : pcs) : bool :=
  match i, p with
  | SGapRemove _, PRemGap _ _ _ => true
  | SGapCreate _, PLockL _ _ _ _ => true
  | SGapCreate _, PAdd _ _ _ _ => true
  | SGapMkdir _ k, PMk _ _ rest false _ => Nat.eqb (length rest) k
  | _, _ => false
  end.

Definition run_item (st : state) (i : sitem) : state :=
  match i with
  | SGapRemove t | SGapCreate t | SGapMkdir t _ => run_until 400 t (at_gap i) st
  | SFinish t => run_until 400 t (fun _ => false) st
  end.

Definition nb_same (a b : name * bool) : bool := bytes_eqb (fst a) (fst b) && Bool.eqb (snd a) (snd b).
Definition list_sub {A} (eqb : A -> A -> bool) (a b : list A) : bool := forallb (fun x => existsb (eqb x) b) a.

Definition cres_same (a b : cres) : bool :=
  match a, b with
  | QOk, QOk => true
  | QErr, QErr => true
  | QData x, QData y => bytes_eqb x y
  | QBool x, QBool y => Bool.eqb x y
  | QList x, QList y => Nat.eqb (length x) (length y) && list_sub nb_same x y && list_sub nb_same y x
  | _, _ => false
  end.

Definition check (c : case) : bool :=
  match c with
  | CSched su progs sched results final =>
    let st := fold_left run_item sched (boot (setup su) progs) in
    MemConc.final st &&
    list_eqb (list_eqb cres_same) (map (fun l => map snd (log l)) (ths st)) results &&
    same_tree (abs (sh st)) final
  | CHist init succ final => final_serialisable init succ final
  end.

(** debugging aid *)
Definition debug (c : case) :=
  match c with
  | CSched su progs sched results final =>
    let st := fold_left run_item sched (boot (setup su) progs) in
    Some (map (fun l => (pc l, log l)) (ths st), abs (sh st))
  | _ => None
  end.
