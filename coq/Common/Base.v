(** Shared definitions: bytes, outcomes, list helpers, case-checking driver. *)
From Coq Require Export List NArith Bool Arith Lia.
Export ListNotations.
Open Scope N_scope.

Definition byte := N.
Definition bytes := list byte.

(** Outcome of a modelled Go call.  [Panic] marks the exact guard the Go code lacks. *)
Inductive res (A : Type) : Type :=
| Ok (a : A)
| Err
| Panic.
Arguments Ok {A} a.
Arguments Err {A}.
Arguments Panic {A}.

Fixpoint bytes_eqb (a b : bytes) : bool :=
  match a, b with
  | [], [] => true
  | x :: a', y :: b' => N.eqb x y && bytes_eqb a' b'
  | _, _ => false
  end.

Lemma bytes_eqb_spec a b : bytes_eqb a b = true <-> a = b.
Proof.
  revert b; induction a as [|x a IH]; intros [|y b]; simpl; split; intro H;
    try reflexivity; try discriminate.
  - apply andb_true_iff in H as [H1 H2]. apply N.eqb_eq in H1. apply IH in H2. congruence.
  - inversion H; subst. rewrite N.eqb_refl. simpl. apply IH. reflexivity.
Qed.

Lemma bytes_eqb_refl a : bytes_eqb a a = true.
Proof. apply bytes_eqb_spec. reflexivity. Qed.

Fixpoint list_eqb {A} (eqb : A -> A -> bool) (a b : list A) : bool :=
  match a, b with
  | [], [] => true
  | x :: a', y :: b' => eqb x y && list_eqb eqb a' b'
  | _, _ => false
  end.

(** [has_suffix l s]: Go's strings.HasSuffix on byte lists. *)
Definition has_suffix (l s : bytes) : bool :=
  let n := length l in let m := length s in
  if Nat.ltb n m then false else bytes_eqb (skipn (n - m) l) s.

Fixpoint has_prefix (l p : bytes) : bool :=
  match p, l with
  | [], _ => true
  | x :: p', y :: l' => N.eqb x y && has_prefix l' p'
  | _ :: _, [] => false
  end.

(** Driver used by the correspondence files written by the harness:
    indices (0-based) of the cases on which [chk] is false. *)
Fixpoint mismatches_from {A} (chk : A -> bool) (i : N) (l : list A) : list N :=
  match l with
  | [] => []
  | c :: l' => if chk c then mismatches_from chk (N.succ i) l'
               else i :: mismatches_from chk (N.succ i) l'
  end.
Definition mismatches {A} (chk : A -> bool) (l : list A) : list N := mismatches_from chk 0 l.
