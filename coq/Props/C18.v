(** C18 — Environment values reach sandbox shells verbatim, with no shell interpretation.
    Statements only; every proof is [exact <lemma of Proofs/Shell.v>].

    The shell is the mini-sh of Model/Shell.v ([sh_run]); /bin/sh is modelled, not verified — the
    mini-sh is validated against the real /bin/sh on every run of the correspondence check.
    [after_env e s] is the shell state [s] in which every key of [e] is bound to its value minus
    trailing newlines and exported, and nothing else is changed. *)
From GC Require Import Common.Base Model.Shell Proofs.Shell Proofs.C18More.
From Coq Require Import Permutation.

(** * Current builders: every value is emitted as a single-quoted assignment word *)

(** sshsb (SSH sandbox).  For EVERY environment with valid, pairwise distinct keys and EVERY value
    (validity domain of the mini-sh: no NUL byte), every entrypoint and every initial shell state:
    feeding the generated script to the shell is the same as feeding the entrypoint alone to the
    shell in state [after_env_exact e s]; the environment section produces no effect at all (in
    particular no Exec); each key is bound to EXACTLY its value (trailing newlines included) and
    exported; every other variable is untouched.  No terminator tag, no hypothesis on the values. *)
Theorem C18_verbatim_ssh : forall (e : env) (entry : bytes) (s : shst),
  Forall (fun kv => valid_key (fst kv) = true) e ->
  NoDup (map fst e) ->
  Forall (fun kv => no_nul (snd kv) = true) e ->
  sh_run s (ssh_script e entry) = sh_run (after_env_exact e s) (entry ++ [NL]) /\
  sh_effects (after_env_exact e s) = sh_effects s /\
  (forall k v, In (k, v) e -> lookup k (sh_store (after_env_exact e s)) = Some v /\ In k (sh_exported (after_env_exact e s))) /\
  (forall k, ~ In k (map fst e) ->
             lookup k (sh_store (after_env_exact e s)) = lookup k (sh_store s) /\
             (In k (sh_exported (after_env_exact e s)) <-> In k (sh_exported s))).
Proof. exact verbatim_ssh. Qed.
Print Assumptions C18_verbatim_ssh.

(** dcmd (container sandbox): the same; the script continues with the SSH-certificate block
    [cert_tail] (the only place where the random tag still occurs; empty without a certificate). *)
Theorem C18_verbatim_dcmd : forall (e : env) (tag pub sec script : bytes) (s : shst),
  Forall (fun kv => valid_key (fst kv) = true) e ->
  NoDup (map fst e) ->
  Forall (fun kv => no_nul (snd kv) = true) e ->
  dcmd_script e tag pub sec = Ok script ->
  (exists tail, cert_tail tag pub sec = Ok tail /\ sh_run s script = sh_run (after_env_exact e s) tail) /\
  (is_nil pub && is_nil sec = true -> sh_run s script = Done (after_env_exact e s)) /\
  sh_effects (after_env_exact e s) = sh_effects s /\
  (forall k v, In (k, v) e -> lookup k (sh_store (after_env_exact e s)) = Some v /\ In k (sh_exported (after_env_exact e s))) /\
  (forall k, ~ In k (map fst e) ->
             lookup k (sh_store (after_env_exact e s)) = lookup k (sh_store s) /\
             (In k (sh_exported (after_env_exact e s)) <-> In k (sh_exported s))).
Proof. exact verbatim_dcmd. Qed.
Print Assumptions C18_verbatim_dcmd.

(** The quoting function: sh-unquoting the emitted word gives back the value, for all byte strings. *)
Theorem C18_quote_roundtrip : forall v, sh_unquote (sq_word v) = Some v.
Proof. exact quote_roundtrip. Qed.
Print Assumptions C18_quote_roundtrip.

(** A valid key followed by =' is read as the start of an assignment word in single quotes. *)
Theorem C18_names_assignment : forall k X s,
  is_name k = true ->
  run_lines (split_lines (k ++ EQS :: SQ :: X)) (Top, s) = run_lines (split_lines X) (InSQ k [], s).
Proof. exact top_sq_open. Qed.
Print Assumptions C18_names_assignment.

(** * The here-document flavours the builders used before (kept: regression witnesses) *)

(** sshsb with a quoted here-document delimiter.  For every environment with valid, pairwise distinct keys, every
    sequence of tag draws of the form EOF+10 upper-case letters on which the redraw loop of
    newEOFTag exits with [tag], every entrypoint and every initial shell state: the tag is not
    contained in any value; feeding the generated script to the shell is the same as feeding the
    entrypoint alone to the shell in state [after_env e s]; the environment section produces no
    effect at all (in particular no Exec); each key is bound to its value minus trailing newlines
    and exported; every other variable is untouched.  No hypothesis on the values other than the
    validity domain of the mini-sh (no NUL byte). *)
Theorem C18_verbatim_heredoc_ssh : forall (e : env) (draws : list bytes) (tag entry : bytes) (s : shst),
  Forall (fun kv => valid_key (fst kv) = true) e ->
  NoDup (map fst e) ->
  Forall (fun kv => no_nul (snd kv) = true) e ->
  Forall (fun t => go_tag t = true) draws ->
  new_eof_tag draws e = Some tag ->
  tag_fresh tag e = true /\
  sh_run s (ssh_script_heredoc e tag entry) = sh_run (after_env e s) (entry ++ [NL]) /\
  sh_effects (after_env e s) = sh_effects s /\
  (forall k v, In (k, v) e -> lookup k (sh_store (after_env e s)) = Some (strip_nl v) /\ In k (sh_exported (after_env e s))) /\
  (forall k, ~ In k (map fst e) ->
             lookup k (sh_store (after_env e s)) = lookup k (sh_store s) /\
             (In k (sh_exported (after_env e s)) <-> In k (sh_exported s))).
Proof. exact verbatim_heredoc_ssh. Qed.
Print Assumptions C18_verbatim_heredoc_ssh.

(** dcmd with a quoted here-document delimiter.  Same conclusion, but the tag was NOT compared
    with the values, so the theorem carries the hypothesis "no line of any value equals the tag"
    (residual risk: the tag is EOF + 10 random upper-case letters, 26^-10 per value line for a
    value chosen independently of the tag; see [C18_collision_refuted]).  The script continues with
    the SSH-certificate block [cert_tail] (empty when no certificate is configured). *)
Theorem C18_verbatim_heredoc_dcmd : forall (e : env) (tag pub sec script : bytes) (s : shst),
  Forall (fun kv => valid_key (fst kv) = true) e ->
  NoDup (map fst e) ->
  Forall (fun kv => no_nul (snd kv) = true) e ->
  go_tag tag = true ->
  Forall (fun kv => no_tag_line tag (snd kv) = true) e ->
  dcmd_script_heredoc e tag pub sec = Ok script ->
  (exists tail, cert_tail tag pub sec = Ok tail /\ sh_run s script = sh_run (after_env e s) tail) /\
  (is_nil pub && is_nil sec = true -> sh_run s script = Done (after_env e s)) /\
  sh_effects (after_env e s) = sh_effects s /\
  (forall k v, In (k, v) e -> lookup k (sh_store (after_env e s)) = Some (strip_nl v) /\ In k (sh_exported (after_env e s))) /\
  (forall k, ~ In k (map fst e) ->
             lookup k (sh_store (after_env e s)) = lookup k (sh_store s) /\
             (In k (sh_exported (after_env e s)) <-> In k (sh_exported s))).
Proof. exact verbatim_heredoc_dcmd. Qed.
Print Assumptions C18_verbatim_heredoc_dcmd.

(** The guard of newEOFTag: when the redraw loop exits with [tag], the tag is one of the draws and
    no value contains it; and "no value contains the tag" implies "no line of a value equals it". *)
Theorem C18_heredoc_tag_loop : forall draws e tag,
  new_eof_tag draws e = Some tag -> In tag draws /\ tag_fresh tag e = true.
Proof. exact new_eof_tag_fresh. Qed.
Print Assumptions C18_heredoc_tag_loop.

Theorem C18_heredoc_tag_fresh_lines : forall tag e,
  tag_fresh tag e = true -> Forall (fun kv => no_tag_line tag (snd kv) = true) e.
Proof. exact tag_fresh_no_tag_line. Qed.
Print Assumptions C18_heredoc_tag_fresh_lines.

(** Names.  A key accepted by the pattern is a non-empty string of ASCII letters and underscores
    starting with a letter, and a shell Name ... *)
Theorem C18_names : forall k,
  valid_key k = true ->
  k <> [] /\ (exists c r, k = c :: r /\ is_letter c = true) /\ forallb is_letter_us k = true /\ is_name k = true.
Proof. exact valid_key_plain. Qed.
Print Assumptions C18_names.

(** ... [valid_key] decides exactly the language of ^[a-zA-Z]+([_a-zA-Z]+)?$ ... *)
Theorem C18_names_regex : forall k,
  valid_key k = true <->
  exists p q, k = p ++ q /\ p <> [] /\ forallb is_letter p = true /\ forallb is_letter_us q = true.
Proof. exact valid_key_regex. Qed.
Print Assumptions C18_names_regex.

(** ... so the first line of its block is read by the shell as an assignment word opening a
    here-document with a quoted delimiter ... *)
Theorem C18_heredoc_assignment_word : forall k tag s,
  valid_key k = true -> tag_ok tag = true ->
  step_top s (k ++ EQS :: CAT_OPEN ++ delim_word true tag) = (InHere k tag true [], s).
Proof. exact assignment_word. Qed.
Print Assumptions C18_heredoc_assignment_word.

(** ... and Set / SetAll reject every other key; SetAll is all-or-nothing. *)
Theorem C18_names_set : forall m k v,
  (valid_key k = true -> env_set m k v = Ok (put k v m)) /\
  (valid_key k = false -> env_set m k v = Err).
Proof. exact env_set_spec. Qed.
Print Assumptions C18_names_set.

Theorem C18_names_setall : forall m kvs,
  (forallb (fun kv => valid_key (fst kv)) kvs = true -> env_set_all m kvs = Ok (put_all kvs m)) /\
  ((exists kv, In kv kvs /\ valid_key (fst kv) = false) <-> env_set_all m kvs = Err).
Proof. exact env_set_all_spec. Qed.
Print Assumptions C18_names_setall.

Theorem C18_setall_stores : forall k v kvs m,
  NoDup (map fst kvs) -> In (k, v) kvs -> lookup k (put_all kvs m) = Some v.
Proof. exact lookup_put_all_in. Qed.
Print Assumptions C18_setall_stores.

Theorem C18_setall_keeps : forall k kvs m,
  ~ In k (map fst kvs) -> lookup k (put_all kvs m) = lookup k m.
Proof. exact lookup_put_all_other. Qed.
Print Assumptions C18_setall_keeps.

(** The tag.  With a quoted delimiter the body of the here-document ends at the FIRST line equal
    to the tag and nowhere else: if no line of the value equals the tag, the body is the value
    (plus the newline the builder adds) ... *)
Theorem C18_heredoc_tag : forall k tag v rest s,
  tag_ok tag = true -> no_tag_line tag v = true ->
  run_lines (split_lines (v ++ NL :: tag ++ NL :: rest)) (InHere k tag true [], s)
  = run_lines (split_lines rest) (AfterHere k (v ++ [NL]), s).
Proof. exact tag_roundtrip. Qed.
Print Assumptions C18_heredoc_tag.

(** ... and if the value is [pre], a line equal to the tag, [post], then the body is [pre] and
    [post] is processed as commands inside the substitution (each line an [Exec] effect). *)
Theorem C18_heredoc_tag_breakout : forall k tag pre post rest s,
  tag_ok tag = true -> no_tag_line tag pre = true ->
  run_lines (split_lines ((pre ++ NL :: tag ++ NL :: post) ++ NL :: tag ++ NL :: rest)) (InHere k tag true [], s)
  = run_lines (split_lines (post ++ NL :: tag ++ NL :: rest)) (AfterHere k (pre ++ [NL]), s).
Proof. exact tag_breakout. Qed.
Print Assumptions C18_heredoc_tag_breakout.

(** Why dcmd no longer uses a here-document, machine-checked: if the random tag happens to equal a line
    of a value, the rest of the value is executed and the variable is not set to its value. *)
Theorem C18_collision_refuted :
  let e := [(KEY_A, TAGA ++ NL :: V_PWN)] in
  go_tag TAGA = true /\
  Forall (fun kv => valid_key (fst kv) = true) e /\ NoDup (map fst e) /\
  Forall (fun kv => no_nul (snd kv) = true) e /\
  no_tag_line TAGA (TAGA ++ NL :: V_PWN) = false /\
  exists script s,
    dcmd_script_heredoc e TAGA [] [] = Ok script /\ sh_run sh0 script = Done s /\
    In (Exec V_PWN) (sh_effects s) /\
    lookup KEY_A (sh_store s) = Some [] /\ strip_nl (TAGA ++ NL :: V_PWN) <> [].
Proof. exact collision_witness. Qed.
Print Assumptions C18_collision_refuted.

(** Regression witness for the sshsb builder before the repair F24 (delimiter not quoted):
    A=$HOME is bound to the value of HOME, B=$(: > canary) runs the command. *)
Theorem C18_unquoted_refuted :
  let e := [(KEY_A, V_DHOME); (KEY_B, V_SUBST)] in
  Forall (fun kv => valid_key (fst kv) = true) e /\ NoDup (map fst e) /\
  Forall (fun kv => no_nul (snd kv) = true) e /\
  new_eof_tag [TAGA] e = Some TAGA /\
  exists s,
    sh_run sh0 (ssh_script_old e TAGA []) = Done s /\
    lookup KEY_A (sh_store s) = Some HOME_V /\ strip_nl V_DHOME <> HOME_V /\
    In (Exec V_PWN) (sh_effects s) /\
    lookup KEY_B (sh_store s) = Some [] /\ strip_nl V_SUBST <> [].
Proof. exact unquoted_witness. Qed.
Print Assumptions C18_unquoted_refuted.

(** Non-vacuity: the hypotheses are met by concrete, non-trivial values. *)
Example C18_ex_single_quote :
  let e := [(KEY_A, V_DHOME ++ [NL; NL]); (KEY_B, V_SUBST ++ SQ :: TAGA ++ NL :: V_PWN); ([67], V_EACUTE)] in
  exists s, sh_run sh0 (ssh_script e []) = Done s /\
            lookup KEY_A (sh_store s) = Some (V_DHOME ++ [NL; NL]) /\
            lookup KEY_B (sh_store s) = Some (V_SUBST ++ SQ :: TAGA ++ NL :: V_PWN) /\
            lookup [67] (sh_store s) = Some V_EACUTE /\
            existsb is_exec (sh_effects s) = false.
Proof. exact sq_example. Qed.
Example C18_ex_word : sq_word [97;39;10;36;39;39] = [39; 97; 39;92;39;39; 10; 36; 39;92;39;39; 39;92;39;39; 39].
Proof. vm_compute. reflexivity. Qed.
Example C18_ex_heredoc_quoted :
  let e := [(KEY_A, V_DHOME); (KEY_B, V_SUBST)] in
  exists s, sh_run sh0 (ssh_script_heredoc e TAGA []) = Done s /\
            lookup KEY_A (sh_store s) = Some V_DHOME /\ lookup KEY_B (sh_store s) = Some V_SUBST /\
            existsb is_exec (sh_effects s) = false.
Proof. exact quoted_example. Qed.

(** two draws: the first collides with a value (it is a substring), the second is taken *)
Example C18_ex_redraw :
  let t2 := [69;79;70;66;66;66;66;66;66;66;66;66;66] in
  let e := [([75;95;97], [120] ++ TAGA ++ [10;36;96;39;34;92;10;10]); ([90], [])] in
  forallb (fun kv => valid_key (fst kv)) e = true /\
  forallb (fun kv => no_nul (snd kv)) e = true /\
  forallb go_tag [TAGA; t2] = true /\
  new_eof_tag [TAGA; t2] e = Some t2 /\
  forallb (fun kv => no_tag_line t2 (snd kv)) e = true /\
  (exists s, sh_run sh0 (ssh_script_heredoc e t2 [115;104]) = Done s /\
             lookup [75;95;97] (sh_store s) = Some ([120] ++ TAGA ++ [10;36;96;39;34;92]) /\
             sh_effects s = [Cmd [115;104]]).
Proof. vm_compute. repeat split. eexists. repeat split. Qed.

Example C18_ex_keys :
  map valid_key [[65]; [97]; [65;95]; [65;95;95;66]; []; [95;65]; [65;49]; [65;45;66]; [65;32;66]; [65;61;66]; [65;10]; [195;137]]
  = [true; true; true; true; false; false; false; false; false; false; false; false].
Proof. vm_compute. reflexivity. Qed.

Example C18_ex_setall :
  env_set_all [([65], [49])] [([66], [50]); ([66;45], [51])] = Err /\
  env_set_all [([65], [49])] [([66], [50]); ([65], [51])] = Ok [([65], [51]); ([66], [50])].
Proof. vm_compute. split; reflexivity. Qed.

(** * Proof audit: histories, iteration order, names (lemmas in Proofs/C18More.v) *)

(** END TO END.  [env_run h []] is the Environments object after the calls [h] (Set / SetAll,
    accepted or refused: a refused call leaves the object as it was); [ref_lookup h k] is the value
    of the last accepted write to [k] in [h], computed from the history alone.  For EVERY history,
    EVERY order [e] in which the Go map iteration hands the store to the builder, every entrypoint
    and every initial shell state, the sshsb script is the entrypoint run in a state that differs
    from [s] exactly by: every name with a last accepted write [v] is bound to [v] and exported.
    The hypotheses "valid keys" and "distinct keys" of [C18_verbatim_ssh] are DISCHARGED here from
    the API (they hold on every reachable object); what is left is the validity domain of the
    shell model (no NUL byte). *)
Theorem C18_history_ssh : forall (h : list env_op) (e : env) (entry : bytes) (s : shst),
  Permutation e (env_run h []) ->
  Forall (fun kv => no_nul (snd kv) = true) e ->
  exists s',
    sh_run s (ssh_script e entry) = sh_run s' (entry ++ [NL]) /\
    sh_effects s' = sh_effects s /\
    (forall k, lookup k (sh_store s') = or_else (ref_lookup h k) (lookup k (sh_store s))) /\
    (forall k, In k (sh_exported s') <-> ref_lookup h k <> None \/ In k (sh_exported s)).
Proof. exact history_ssh. Qed.
Print Assumptions C18_history_ssh.

Theorem C18_history_dcmd : forall (h : list env_op) (e : env) (tag pub sec script : bytes) (s : shst),
  Permutation e (env_run h []) ->
  Forall (fun kv => no_nul (snd kv) = true) e ->
  dcmd_script e tag pub sec = Ok script ->
  exists s',
    (exists tail, cert_tail tag pub sec = Ok tail /\ sh_run s script = sh_run s' tail) /\
    (is_nil pub && is_nil sec = true -> sh_run s script = Done s') /\
    sh_effects s' = sh_effects s /\
    (forall k, lookup k (sh_store s') = or_else (ref_lookup h k) (lookup k (sh_store s))) /\
    (forall k, In k (sh_exported s') <-> ref_lookup h k <> None \/ In k (sh_exported s)).
Proof. exact history_dcmd. Qed.
Print Assumptions C18_history_dcmd.

(** The object over ALL histories: only names that match the pattern, no name twice; it IS the
    reference map; a refused call (any name of it outside the pattern) changes nothing. *)
Theorem C18_history_store : forall (h : list env_op),
  store_ok (env_run h []) /\
  (forall k, lookup k (env_run h []) = ref_lookup h k) /\
  (forall k v, In (k, v) (env_run h []) <-> ref_lookup h k = Some v) /\
  (forall o, op_accepted o = false -> env_run (h ++ [o]) [] = env_run h []).
Proof. exact history_store. Qed.
Print Assumptions C18_history_store.

(** The reference is "the last accepted write wins": one more call / one more Set. *)
Theorem C18_history_last_write : forall h o k,
  ref_lookup (h ++ [o]) k = or_else (op_write o k) (ref_lookup h k).
Proof. exact ref_lookup_last. Qed.
Print Assumptions C18_history_last_write.

Theorem C18_history_set : forall h k v k',
  ref_lookup (h ++ [OSet k v]) k' = if valid_key k && bytes_eqb k' k then Some v else ref_lookup h k'.
Proof. exact ref_lookup_set. Qed.
Print Assumptions C18_history_set.

(** The iteration order of the Go map (not deterministic) is irrelevant: two orders of one map
    give shell states with the same effects, the same value for EVERY variable and the same
    exported names. *)
Theorem C18_order_irrelevant : forall (e e' : env) (s : shst),
  Permutation e e' -> NoDup (map fst e) ->
  sh_effects (after_env_exact e s) = sh_effects (after_env_exact e' s) /\
  (forall k, lookup k (sh_store (after_env_exact e s)) = lookup k (sh_store (after_env_exact e' s))) /\
  (forall k, In k (sh_exported (after_env_exact e s)) <-> In k (sh_exported (after_env_exact e' s))).
Proof. exact order_irrelevant. Qed.
Print Assumptions C18_order_irrelevant.

(** Names.  The verbatim theorems hold for EVERY shell Name as key (digits, leading underscore
    too): these two supersede [C18_verbatim_ssh] / [C18_verbatim_dcmd] (weaker hypothesis by
    [C18_names], same conclusion) ... *)
Theorem C18_verbatim_names_ssh : forall (e : env) (entry : bytes) (s : shst),
  Forall (fun kv => is_name (fst kv) = true) e ->
  NoDup (map fst e) ->
  Forall (fun kv => no_nul (snd kv) = true) e ->
  sh_run s (ssh_script e entry) = sh_run (after_env_exact e s) (entry ++ [NL]) /\
  sh_effects (after_env_exact e s) = sh_effects s /\
  (forall k v, In (k, v) e -> lookup k (sh_store (after_env_exact e s)) = Some v /\ In k (sh_exported (after_env_exact e s))) /\
  (forall k, ~ In k (map fst e) ->
             lookup k (sh_store (after_env_exact e s)) = lookup k (sh_store s) /\
             (In k (sh_exported (after_env_exact e s)) <-> In k (sh_exported s))).
Proof. exact verbatim_names_ssh. Qed.
Print Assumptions C18_verbatim_names_ssh.

Theorem C18_verbatim_names_dcmd : forall (e : env) (tag pub sec script : bytes) (s : shst),
  Forall (fun kv => is_name (fst kv) = true) e ->
  NoDup (map fst e) ->
  Forall (fun kv => no_nul (snd kv) = true) e ->
  dcmd_script e tag pub sec = Ok script ->
  (exists tail, cert_tail tag pub sec = Ok tail /\ sh_run s script = sh_run (after_env_exact e s) tail) /\
  (is_nil pub && is_nil sec = true -> sh_run s script = Done (after_env_exact e s)) /\
  sh_effects (after_env_exact e s) = sh_effects s /\
  (forall k v, In (k, v) e -> lookup k (sh_store (after_env_exact e s)) = Some v /\ In k (sh_exported (after_env_exact e s))) /\
  (forall k, ~ In k (map fst e) ->
             lookup k (sh_store (after_env_exact e s)) = lookup k (sh_store s) /\
             (In k (sh_exported (after_env_exact e s)) <-> In k (sh_exported s))).
Proof. exact verbatim_names_dcmd. Qed.
Print Assumptions C18_verbatim_names_dcmd.

(** ... the accepted pattern lies strictly inside the shell Names ... *)
Theorem C18_names_strictly_inside :
  (forall k, valid_key k = true -> is_name k = true) /\
  (exists k, is_name k = true /\ valid_key k = false).
Proof. exact valid_key_strictly_inside. Qed.
Print Assumptions C18_names_strictly_inside.

(** ... and the check at Set / SetAll is NECESSARY: the builders do not look at the names, so
    "verbatim for every key" is false.  Two names that Set and SetAll refuse; had they reached a
    builder, the first rebinds B (a variable that is not configured), the second runs a command.
    (The same two scripts on the real /bin/sh: B=pwn, file canary created.) *)
Theorem C18_unchecked_name_refuted :
  valid_key BADK_ASSIGN = false /\ valid_key BADK_SUBST = false /\
  env_set [] BADK_ASSIGN [118] = Err /\ env_set_all [] [(KEY_A, [118]); (BADK_SUBST, [118])] = Err /\
  (exists s', sh_run sh_b (ssh_script [(BADK_ASSIGN, [118])] []) = Done s' /\
              ~ In KEY_B (map fst [(BADK_ASSIGN, [118])]) /\
              lookup KEY_B (sh_store sh_b) = Some V_OLD /\ lookup KEY_B (sh_store s') = Some V_PWNED) /\
  (exists script s', dcmd_script [(BADK_SUBST, [118])] TAGA [] [] = Ok script /\
              sh_run sh_b script = Done s' /\ In (Exec V_PWN) (sh_effects s')).
Proof. exact bad_name_witness. Qed.
Print Assumptions C18_unchecked_name_refuted.

(** dcmd.InitSequence never panics and fails exactly when one half of the certificate is missing,
    whatever the environment is: the hypothesis [dcmd_script .. = Ok script] of the dcmd theorems
    is met by every environment. *)
Theorem C18_dcmd_total : forall (e : env) (tag pub sec : bytes),
  dcmd_script e tag pub sec <> Panic /\
  (dcmd_script e tag pub sec = Err <-> is_nil pub <> is_nil sec) /\
  (is_nil pub = is_nil sec ->
   exists tail, cert_tail tag pub sec = Ok tail /\
                dcmd_script e tag pub sec = Ok (HEADER ++ env_section_sq e ++ tail)).
Proof. exact dcmd_total. Qed.
Print Assumptions C18_dcmd_total.

(** Non-vacuity of the additions. *)
(** one object: accepted Set (hostile value), refused Set, refused SetAll, accepted SetAll that
    overwrites, another Set; then an iteration order different from the store's, both builders
    (dcmd with a certificate) *)
Example C18_ex_history :
  env_run H_EX [] = [([67;95;100], []); (KEY_A, V_EACUTE); (KEY_B, SQ :: V_DHOME ++ [BQ; BSL; NL; NL])] /\
  map op_accepted H_EX = [true; false; false; true; true] /\
  ref_lookup H_EX KEY_A = Some V_EACUTE /\
  ref_lookup H_EX KEY_B = Some (SQ :: V_DHOME ++ [BQ; BSL; NL; NL]) /\
  ref_lookup H_EX [65;49] = None /\ ref_lookup H_EX [66;45] = None /\
  let e := [(KEY_B, SQ :: V_DHOME ++ [BQ; BSL; NL; NL]); ([67;95;100], []); (KEY_A, V_EACUTE)] in
  Permutation e (env_run H_EX []) /\
  Forall (fun kv => no_nul (snd kv) = true) e /\
  (exists s', sh_run sh0 (ssh_script e [115;104]) = Done s' /\
              lookup KEY_B (sh_store s') = Some (SQ :: V_DHOME ++ [BQ; BSL; NL; NL]) /\
              lookup KEY_A (sh_store s') = Some V_EACUTE /\
              lookup HOME_K (sh_store s') = Some HOME_V /\
              sh_effects s' = [Cmd [115;104]]) /\
  (exists script s', dcmd_script e TAGA [112] [115] = Ok script /\
              sh_run sh0 script = Done s' /\
              lookup KEY_B (sh_store s') = Some (SQ :: V_DHOME ++ [BQ; BSL; NL; NL]) /\
              existsb is_exec (sh_effects s') = false).
Proof. exact history_example. Qed.

Example C18_ex_names_beyond_pattern :
  let e := [([95;65;49], V_DHOME); ([120;50], V_SUBST)] in
  Forall (fun kv => is_name (fst kv) = true) e /\ NoDup (map fst e) /\
  Forall (fun kv => no_nul (snd kv) = true) e /\
  map valid_key (map fst e) = [false; false] /\
  exists s', sh_run sh0 (ssh_script e []) = Done s' /\
             lookup [95;65;49] (sh_store s') = Some V_DHOME /\ lookup [120;50] (sh_store s') = Some V_SUBST /\
             existsb is_exec (sh_effects s') = false.
Proof. exact names_example. Qed.

(** two orders of one map: the stores differ as lists, every lookup agrees *)
Example C18_ex_order :
  let e := [(KEY_A, V_DHOME); (KEY_B, V_SUBST)] in
  let e' := [(KEY_B, V_SUBST); (KEY_A, V_DHOME)] in
  Permutation e e' /\ NoDup (map fst e) /\
  sh_store (after_env_exact e sh0) <> sh_store (after_env_exact e' sh0) /\
  map (fun k => lookup k (sh_store (after_env_exact e sh0))) [KEY_A; KEY_B; HOME_K]
  = map (fun k => lookup k (sh_store (after_env_exact e' sh0))) [KEY_A; KEY_B; HOME_K].
Proof. exact order_example. Qed.

(** names the shells reserve (OPTIND RANDOM SRANDOM HISTCMD SECONDS LINENO UID PPID SHELLOPTS IFS
    PATH) are plain identifiers and ARE accepted: limit of the names clause, open finding K-C18b;
    the mini-sh treats every name alike *)
Example C18_ex_reserved_names_accepted : forallb valid_key RESERVED_NAMES = true.
Proof. exact reserved_names_accepted. Qed.

Example C18_ex_dcmd_total :
  dcmd_script [(KEY_A, V_SUBST)] TAGA [112] [] = Err /\ dcmd_script [(KEY_A, V_SUBST)] TAGA [] [115] = Err /\
  (exists sc, dcmd_script [(KEY_A, V_SUBST)] TAGA [112] [115] = Ok sc) /\
  (exists sc, dcmd_script [(KEY_A, V_SUBST)] TAGA [] [] = Ok sc).
Proof. exact dcmd_total_example. Qed.
