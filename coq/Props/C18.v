(** C18 — Environment values reach sandbox shells verbatim, with no shell interpretation.
    Statements only; every proof is [exact <lemma of Proofs/Shell.v>].

    The shell is the mini-sh of Model/Shell.v ([sh_run]); /bin/sh is modelled, not verified — the
    mini-sh is validated against the real /bin/sh on every run of the correspondence check.
    [after_env e s] is the shell state [s] in which every key of [e] is bound to its value minus
    trailing newlines and exported, and nothing else is changed. *)
From GC Require Import Common.Base Model.Shell Proofs.Shell.

(** sshsb (SSH sandbox).  For every environment with valid, pairwise distinct keys, every
    sequence of tag draws of the form EOF+10 upper-case letters on which the redraw loop of
    newEOFTag exits with [tag], every entrypoint and every initial shell state: the tag is not
    contained in any value; feeding the generated script to the shell is the same as feeding the
    entrypoint alone to the shell in state [after_env e s]; the environment section produces no
    effect at all (in particular no Exec); each key is bound to its value minus trailing newlines
    and exported; every other variable is untouched.  No hypothesis on the values other than the
    validity domain of the mini-sh (no NUL byte). *)
Theorem C18_verbatim_ssh : forall (e : env) (draws : list bytes) (tag entry : bytes) (s : shst),
  Forall (fun kv => valid_key (fst kv) = true) e ->
  NoDup (map fst e) ->
  Forall (fun kv => no_nul (snd kv) = true) e ->
  Forall (fun t => go_tag t = true) draws ->
  new_eof_tag draws e = Some tag ->
  tag_fresh tag e = true /\
  sh_run s (ssh_script e tag entry) = sh_run (after_env e s) (entry ++ [NL]) /\
  sh_effects (after_env e s) = sh_effects s /\
  (forall k v, In (k, v) e -> lookup k (sh_store (after_env e s)) = Some (strip_nl v) /\ In k (sh_exported (after_env e s))) /\
  (forall k, ~ In k (map fst e) ->
             lookup k (sh_store (after_env e s)) = lookup k (sh_store s) /\
             (In k (sh_exported (after_env e s)) <-> In k (sh_exported s))).
Proof. exact verbatim_ssh. Qed.
Print Assumptions C18_verbatim_ssh.

(** dcmd (container sandbox).  Same conclusion, but the tag of dcmd.InitSequence is NOT compared
    with the values, so the theorem carries the hypothesis "no line of any value equals the tag"
    (residual risk: the tag is EOF + 10 random upper-case letters, 26^-10 per value line for a
    value chosen independently of the tag; see [C18_collision_refuted]).  The script continues with
    the SSH-certificate block [cert_tail] (empty when no certificate is configured). *)
Theorem C18_verbatim_dcmd : forall (e : env) (tag pub sec script : bytes) (s : shst),
  Forall (fun kv => valid_key (fst kv) = true) e ->
  NoDup (map fst e) ->
  Forall (fun kv => no_nul (snd kv) = true) e ->
  go_tag tag = true ->
  Forall (fun kv => no_tag_line tag (snd kv) = true) e ->
  dcmd_script e tag pub sec = Ok script ->
  (exists tail, cert_tail tag pub sec = Ok tail /\ sh_run s script = sh_run (after_env e s) tail) /\
  (is_nil pub && is_nil sec = true -> sh_run s script = Done (after_env e s)) /\
  sh_effects (after_env e s) = sh_effects s /\
  (forall k v, In (k, v) e -> lookup k (sh_store (after_env e s)) = Some (strip_nl v) /\ In k (sh_exported (after_env e s))) /\
  (forall k, ~ In k (map fst e) ->
             lookup k (sh_store (after_env e s)) = lookup k (sh_store s) /\
             (In k (sh_exported (after_env e s)) <-> In k (sh_exported s))).
Proof. exact verbatim_dcmd. Qed.
Print Assumptions C18_verbatim_dcmd.

(** The guard of newEOFTag: when the redraw loop exits with [tag], the tag is one of the draws and
    no value contains it; and "no value contains the tag" implies "no line of a value equals it". *)
Theorem C18_tag_loop : forall draws e tag,
  new_eof_tag draws e = Some tag -> In tag draws /\ tag_fresh tag e = true.
Proof. exact new_eof_tag_fresh. Qed.
Print Assumptions C18_tag_loop.

Theorem C18_tag_fresh_lines : forall tag e,
  tag_fresh tag e = true -> Forall (fun kv => no_tag_line tag (snd kv) = true) e.
Proof. exact tag_fresh_no_tag_line. Qed.
Print Assumptions C18_tag_fresh_lines.

(** Names.  A key accepted by the pattern is a non-empty string of ASCII letters and underscores
    starting with a letter, and a shell Name ... *)
Theorem C18_names : forall k,
  valid_key k = true ->
  k <> [] /\ (exists c r, k = c :: r /\ is_letter c = true) /\ forallb is_letter_us k = true /\ is_name k = true.
Proof. exact valid_key_plain. Qed.
Print Assumptions C18_names.

(** ... [valid_key] decides exactly the language of ^[a-zA-Z]+([_a-zA-Z]+)?$ ... *)
Theorem C18_names_regex : forall k,
  valid_key k = true <->
  exists p q, k = p ++ q /\ p <> [] /\ forallb is_letter p = true /\ forallb is_letter_us q = true.
Proof. exact valid_key_regex. Qed.
Print Assumptions C18_names_regex.

(** ... so the first line of its block is read by the shell as an assignment word opening a
    here-document with a quoted delimiter ... *)
Theorem C18_names_assignment : forall k tag s,
  valid_key k = true -> tag_ok tag = true ->
  step_top s (k ++ EQS :: CAT_OPEN ++ delim_word true tag) = (InHere k tag true [], s).
Proof. exact assignment_word. Qed.
Print Assumptions C18_names_assignment.

(** ... and Set / SetAll reject every other key; SetAll is all-or-nothing. *)
Theorem C18_names_set : forall m k v,
  (valid_key k = true -> env_set m k v = Ok (put k v m)) /\
  (valid_key k = false -> env_set m k v = Err).
Proof. exact env_set_spec. Qed.
Print Assumptions C18_names_set.

Theorem C18_names_setall : forall m kvs,
  (forallb (fun kv => valid_key (fst kv)) kvs = true -> env_set_all m kvs = Ok (put_all kvs m)) /\
  ((exists kv, In kv kvs /\ valid_key (fst kv) = false) <-> env_set_all m kvs = Err).
Proof. exact env_set_all_spec. Qed.
Print Assumptions C18_names_setall.

Theorem C18_setall_stores : forall k v kvs m,
  NoDup (map fst kvs) -> In (k, v) kvs -> lookup k (put_all kvs m) = Some v.
Proof. exact lookup_put_all_in. Qed.
Print Assumptions C18_setall_stores.

Theorem C18_setall_keeps : forall k kvs m,
  ~ In k (map fst kvs) -> lookup k (put_all kvs m) = lookup k m.
Proof. exact lookup_put_all_other. Qed.
Print Assumptions C18_setall_keeps.

(** The tag.  With a quoted delimiter the body of the here-document ends at the FIRST line equal
    to the tag and nowhere else: if no line of the value equals the tag, the body is the value
    (plus the newline the builder adds) ... *)
Theorem C18_tag : forall k tag v rest s,
  tag_ok tag = true -> no_tag_line tag v = true ->
  run_lines (split_lines (v ++ NL :: tag ++ NL :: rest)) (InHere k tag true [], s)
  = run_lines (split_lines rest) (AfterHere k (v ++ [NL]), s).
Proof. exact tag_roundtrip. Qed.
Print Assumptions C18_tag.

(** ... and if the value is [pre], a line equal to the tag, [post], then the body is [pre] and
    [post] is processed as commands inside the substitution (each line an [Exec] effect). *)
Theorem C18_tag_breakout : forall k tag pre post rest s,
  tag_ok tag = true -> no_tag_line tag pre = true ->
  run_lines (split_lines ((pre ++ NL :: tag ++ NL :: post) ++ NL :: tag ++ NL :: rest)) (InHere k tag true [], s)
  = run_lines (split_lines (post ++ NL :: tag ++ NL :: rest)) (AfterHere k (pre ++ [NL]), s).
Proof. exact tag_breakout. Qed.
Print Assumptions C18_tag_breakout.

(** Residual risk of dcmd.InitSequence, machine-checked: if the random tag happens to equal a line
    of a value, the rest of the value is executed and the variable is not set to its value. *)
Theorem C18_collision_refuted :
  let e := [(KEY_A, TAGA ++ NL :: V_PWN)] in
  go_tag TAGA = true /\
  Forall (fun kv => valid_key (fst kv) = true) e /\ NoDup (map fst e) /\
  Forall (fun kv => no_nul (snd kv) = true) e /\
  no_tag_line TAGA (TAGA ++ NL :: V_PWN) = false /\
  exists script s,
    dcmd_script e TAGA [] [] = Ok script /\ sh_run sh0 script = Done s /\
    In (Exec V_PWN) (sh_effects s) /\
    lookup KEY_A (sh_store s) = Some [] /\ strip_nl (TAGA ++ NL :: V_PWN) <> [].
Proof. exact collision_witness. Qed.
Print Assumptions C18_collision_refuted.

(** Regression witness for the sshsb builder before the repair F24 (delimiter not quoted):
    A=$HOME is bound to the value of HOME, B=$(: > canary) runs the command. *)
Theorem C18_unquoted_refuted :
  let e := [(KEY_A, V_DHOME); (KEY_B, V_SUBST)] in
  Forall (fun kv => valid_key (fst kv) = true) e /\ NoDup (map fst e) /\
  Forall (fun kv => no_nul (snd kv) = true) e /\
  new_eof_tag [TAGA] e = Some TAGA /\
  exists s,
    sh_run sh0 (ssh_script_old e TAGA []) = Done s /\
    lookup KEY_A (sh_store s) = Some HOME_V /\ strip_nl V_DHOME <> HOME_V /\
    In (Exec V_PWN) (sh_effects s) /\
    lookup KEY_B (sh_store s) = Some [] /\ strip_nl V_SUBST <> [].
Proof. exact unquoted_witness. Qed.
Print Assumptions C18_unquoted_refuted.

(** Non-vacuity: the hypotheses are met by concrete, non-trivial values. *)
Example C18_ex_quoted :
  let e := [(KEY_A, V_DHOME); (KEY_B, V_SUBST)] in
  exists s, sh_run sh0 (ssh_script e TAGA []) = Done s /\
            lookup KEY_A (sh_store s) = Some V_DHOME /\ lookup KEY_B (sh_store s) = Some V_SUBST /\
            existsb is_exec (sh_effects s) = false.
Proof. exact quoted_example. Qed.

(** two draws: the first collides with a value (it is a substring), the second is taken *)
Example C18_ex_redraw :
  let t2 := [69;79;70;66;66;66;66;66;66;66;66;66;66] in
  let e := [([75;95;97], [120] ++ TAGA ++ [10;36;96;39;34;92;10;10]); ([90], [])] in
  forallb (fun kv => valid_key (fst kv)) e = true /\
  forallb (fun kv => no_nul (snd kv)) e = true /\
  forallb go_tag [TAGA; t2] = true /\
  new_eof_tag [TAGA; t2] e = Some t2 /\
  forallb (fun kv => no_tag_line t2 (snd kv)) e = true /\
  (exists s, sh_run sh0 (ssh_script e t2 [115;104]) = Done s /\
             lookup [75;95;97] (sh_store s) = Some ([120] ++ TAGA ++ [10;36;96;39;34;92]) /\
             sh_effects s = [Cmd [115;104]]).
Proof. vm_compute. repeat split. eexists. repeat split. Qed.

Example C18_ex_keys :
  map valid_key [[65]; [97]; [65;95]; [65;95;95;66]; []; [95;65]; [65;49]; [65;45;66]; [65;32;66]; [65;61;66]; [65;10]; [195;137]]
  = [true; true; true; true; false; false; false; false; false; false; false; false].
Proof. vm_compute. reflexivity. Qed.

Example C18_ex_setall :
  env_set_all [([65], [49])] [([66], [50]); ([66;45], [51])] = Err /\
  env_set_all [([65], [49])] [([66], [50]); ([65], [51])] = Ok [([65], [51]); ([66], [50])].
Proof. vm_compute. split; reflexivity. Qed.
