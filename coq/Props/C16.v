(** C16 — pip:try runs exactly the matching handler and contains the body's failure.
    Statements only; proofs are [exact <lemma of Proofs/Try.v>].
    [trun MFixed tb sched (tinit tb)] is the state of the closed try system (Model/Try.v: the pip:try
    goroutine + the runner goroutines of the body, of everything it spawns and of the handlers) after
    an arbitrary schedule, for the current code (mode [MFixed]: every handler on a scope of its own,
    errors reported to the surrounding scope in one final step; [MEarly] = b825941, [MShared] = before it).
    [wf tb]: the four names "…:body|finally|fail|success" are distinct and differ from every name
    spawned inside the bodies (guaranteed by the namespaces), handlers have no wait list, the
    separated/handler contexts are not the surrounding one.  [catched t = Some e]: the goroutine
    read the separated scope after the body task finished; e = it had an error.  "begins" is the
    model event [EBodyBegin].  [rejected_any]: some handler submission was rejected. *)
From GC Require Import Common.Base Model.Runner Model.Try Proofs.Runner Proofs.Runner2 Proofs.Try.
Local Open Scope nat_scope.

(** The try system does nothing the open runner system cannot do: the body task, the tasks it
    spawns and the handlers are ordinary tasks and every C14 theorem applies to them. *)
Theorem C16_handlers_are_tasks : forall mode tb tsched,
  exists sched, rs (trun mode tb tsched (tinit tb)) = run false sched (init (tb_par tb)).
Proof. exact try_sim. Qed.
Print Assumptions C16_handlers_are_tasks.

(** success: begins only if the body's scope had no error; in a final state without rejected
    handler submission it has begun if it is defined and the body's scope had no error. *)
Theorem C16_success_iff : forall tb tsched h, wf tb -> tb_success tb = Some h ->
  let t := trun MFixed tb tsched (tinit tb) in
  (forall ws, In (EBodyBegin (s_name h) ws) (log (rs t)) -> catched t = Some false) /\
  (tfinal t = true -> ~ rejected_any tb (rs t) -> catched t = Some false ->
   In (EBodyBegin (s_name h) []) (log (rs t))).
Proof.
  intros tb tsched h W E. split.
  - intros ws. exact (success_only_if tb tsched W h ws E).
  - exact (success_if tb tsched W h E).
Qed.
Print Assumptions C16_success_iff.

Theorem C16_fail_iff : forall tb tsched h, wf tb -> tb_fail tb = Some h ->
  let t := trun MFixed tb tsched (tinit tb) in
  (forall ws, In (EBodyBegin (s_name h) ws) (log (rs t)) -> catched t = Some true) /\
  (tfinal t = true -> ~ rejected_any tb (rs t) -> catched t = Some true ->
   In (EBodyBegin (s_name h) []) (log (rs t))).
Proof.
  intros tb tsched h W E. split.
  - intros ws. exact (fail_only_if tb tsched W h ws E).
  - exact (fail_if tb tsched W h E).
Qed.
Print Assumptions C16_fail_iff.

Theorem C16_finally_always : forall tb tsched h e, wf tb -> tb_finally tb = Some h ->
  let t := trun MFixed tb tsched (tinit tb) in
  tfinal t = true -> ~ rejected_any tb (rs t) -> catched t = Some e ->
  In (EBodyBegin (s_name h) []) (log (rs t)).
Proof. intros tb tsched h e W E. exact (finally_always tb tsched W h e E). Qed.
Print Assumptions C16_finally_always.

(** Every handler's body begins after the body task finished (position in the log; the log is
    newest-first).  PARTIAL with respect to "and of every task the body spawned": the model makes
    pip:run synchronous (the spawner's command ends only after the spawned task finished, phase
    PSpawned) unless the spawned task is an orphan (created when its context was already done);
    that no orphan arises in the fresh separated context needs a one-active-task-per-context
    invariant that is not proved here.  The harness checks the full statement on every run. *)
Theorem C16_after_body_partial : forall tb tsched a h c ws b, wf tb ->
  In (h, c) (hpairs tb) ->
  log (rs (trun MFixed tb tsched (tinit tb))) = a ++ EBodyBegin (s_name h) ws :: b ->
  exists ok, In (EFinished (nb tb) ok) b.
Proof. intros tb tsched a h c ws b W. exact (after_body tb tsched W a h c ws b). Qed.
Print Assumptions C16_after_body_partial.

(** Containment.  In a final state the surrounding context has an error only if a handler
    submission was rejected or a task finished failed in the scope of a registered handler; the
    body task runs in the separated context and no task at all runs in the surrounding context,
    so the body's failure never reaches it; a rejected handler submission does mark it.
    PARTIAL: the converse "a handler that finished failed marks the surrounding scope" is checked
    by the harness only (the model forwards the handler scope's error in [TCollect]; the invariant
    tying the final report to the handlers' own outcome is not proved). *)
Theorem C16_containment_partial : forall tb tsched, wf tb ->
  let t := trun MFixed tb tsched (tinit tb) in
  (tfinal t = true -> ctx_failed (tb_par tb) (rs t) = true ->
   rejected_any tb (rs t) \/
   exists h c x, In (h, c) (hpairs tb) /\ registered (s_name h) (tasks (rs t)) = true
                 /\ In x (tasks (rs t)) /\ t_ctx x = c /\ t_st x = Finished false)
  /\ (tfinal t = true -> rejected_any tb (rs t) -> ctx_failed (tb_par tb) (rs t) = true)
  /\ (forall x, In x (tasks (rs t)) ->
        t_ctx x <> tb_par tb /\ (t_name x = nb tb -> t_ctx x = tb_sep tb)).
Proof.
  intros tb tsched W. split; [|split].
  - exact (containment_only_if tb tsched W).
  - exact (containment_rejected tb tsched W).
  - exact (body_separated tb tsched W).
Qed.
Print Assumptions C16_containment_partial.

(** Before b825941 (mode [MShared]: handlers directly on the surrounding scope) a failing success
    handler cancelled the finally handler: it was started but executed none of its commands. *)
Theorem C16_handler_cancel_refuted :
  let t := trun MShared cancel_tb cancel_sched (tinit cancel_tb) in
  tfinal t = true
  /\ In (EBodyBegin 2%N []) (log (rs t))
  /\ (forall i, ~ In (ECmdBegin 2%N i) (log (rs t)))
  /\ map (fun x => (t_name x, t_st x)) (tasks (rs t))
     = [(1%N, Finished true); (2%N, Finished false); (3%N, Finished false)].
Proof. exact handler_cancel_refuted. Qed.
Print Assumptions C16_handler_cancel_refuted.

Theorem C16_handler_cancel_fixed :
  let t := trun MFixed cancel_tb cancel_sched (tinit cancel_tb) in
  tfinal t = true
  /\ In (ECmdEnd 2%N 1 true) (log (rs t))
  /\ map (fun x => (t_name x, t_st x)) (tasks (rs t))
     = [(1%N, Finished true); (2%N, Finished true); (3%N, Finished false)]
  /\ ctx_failed 1%N (rs t) = true.
Proof. exact handler_cancel_fixed. Qed.
Print Assumptions C16_handler_cancel_fixed.

(** 3f81e38: the try block fails the surrounding context only in its last step: whenever the
    surrounding context has an error the goroutine is done and every started handler has finished ... *)
Theorem C16_surrounding_fails_last : forall tb tsched, wf tb ->
  let t := trun MFixed tb tsched (tinit tb) in
  ctx_failed (tb_par tb) (rs t) = true ->
  pc t = TDone /\
  forall h c, In (h, c) (hpairs tb) -> registered (s_name h) (tasks (rs t)) = true ->
              exists x ok, find_task (s_name h) (tasks (rs t)) = Some x /\ t_st x = Finished ok.
Proof. intros tb tsched W. exact (surrounding_fails_last tb tsched W). Qed.
Print Assumptions C16_surrounding_fails_last.

(** ... so while a handler is still running the task manager's root context is healthy: no nested
    submission of a handler is refused because of a sibling handler. *)
Theorem C16_no_refusal_while_running : forall tb tsched h c x, wf tb ->
  let t := trun MFixed tb tsched (tinit tb) in
  In (h, c) (hpairs tb) -> find_task (s_name h) (tasks (rs t)) = Some x -> is_finished (t_st x) = false ->
  ctx_failed (mroot (rs t)) (rs t) = false.
Proof. intros tb tsched h c x W. exact (handler_running_root_healthy tb tsched W h c x). Qed.
Print Assumptions C16_no_refusal_while_running.

(** On b825941 (mode [MEarly]) the error of the failed finally handler was appended right after
    its Wait: the still-running success handler's pip:run was then refused and its last command
    never ran; the same schedule on the current model accepts it. *)
Theorem C16_early_report_refuted :
  let t := trun MEarly early_tb early_sched (tinit early_tb) in
  tfinal t = true
  /\ In (ESubmitted 4%N false) (log (rs t))
  /\ ~ In (ECmdBegin 3%N 2) (log (rs t))
  /\ map (fun x => (t_name x, t_st x)) (tasks (rs t))
     = [(1%N, Finished true); (2%N, Finished false); (3%N, Finished false)].
Proof. exact early_report_refuted. Qed.
Print Assumptions C16_early_report_refuted.

Theorem C16_early_report_fixed :
  let t := trun MFixed early_tb early_sched (tinit early_tb) in
  tfinal t = true
  /\ In (ESubmitted 4%N true) (log (rs t)) /\ In (ECmdEnd 3%N 2 true) (log (rs t))
  /\ map (fun x => (t_name x, t_st x)) (tasks (rs t))
     = [(1%N, Finished true); (2%N, Finished false); (3%N, Finished true); (4%N, Finished true)]
  /\ ctx_failed 1%N (rs t) = true.
Proof. exact early_report_fixed. Qed.
Print Assumptions C16_early_report_fixed.

(** * Non-vacuity: the premises are met by a concrete run (body ok, finally + success defined,
    success fails: final, nothing rejected, catched = Some false, surrounding context failed) *)
Example C16_premises :
  wf cancel_tb /\
  let t := trun MFixed cancel_tb cancel_sched (tinit cancel_tb) in
  tfinal t = true /\ catched t = Some false /\ pc t = TDone /\ hold t = false
  /\ In (EBodyBegin 3%N []) (log (rs t)) /\ ctx_failed (tb_par cancel_tb) (rs t) = true.
Proof.
  split; [exact cancel_wf|]. vm_compute. repeat split; try reflexivity.
  repeat (first [left; reflexivity | right]).
Qed.

(** ... and no submission at all was rejected in that run (so [~ rejected_any] holds). *)
Example C16_not_rejected :
  forallb (fun e => match e with ESubmitted _ false => false | _ => true end)
          (log (rs (trun MFixed cancel_tb cancel_sched (tinit cancel_tb)))) = true.
Proof. vm_compute. reflexivity. Qed.
