(** C16 — pip:try runs exactly the matching handler and contains the body's failure.
    Statements only; proofs are [exact <lemma of Proofs/Try.v>].
    [trun MFixed tb sched (tinit tb)] is the state of the closed try system (Model/Try.v: the pip:try
    goroutine + the runner goroutines of the body, of everything it spawns and of the handlers) after
    an arbitrary schedule, for the current code (mode [MFixed]: every handler on a scope of its own,
    errors reported to the surrounding scope in one final step; [MEarly] = b825941, [MShared] = before it).
    [wf tb]: the four names "…:body|finally|fail|success" are distinct and differ from every name
    spawned inside the bodies (guaranteed by the namespaces), handlers have no wait list, the
    separated/handler contexts are not the surrounding one.  [catched t = Some e]: the goroutine
    read the separated scope after the body task finished; e = it had an error.  "begins" is the
    model event [EBodyBegin].  [rejected_any]: some handler submission was rejected. *)
From GC Require Import Common.Base Model.Runner Model.Try Proofs.Runner Proofs.Runner2 Proofs.Try Proofs.C16More.
Local Open Scope nat_scope.

(** The try system does nothing the open runner system cannot do: the body task, the tasks it
    spawns and the handlers are ordinary tasks and every C14 theorem applies to them. *)
Theorem C16_handlers_are_tasks : forall mode tb tsched,
  exists sched, rs (trun mode tb tsched (tinit tb)) = run false sched (init (tb_par tb)).
Proof. exact try_sim. Qed.
Print Assumptions C16_handlers_are_tasks.

(** success: begins only if the body's scope had no error; in a final state without rejected
    handler submission it has begun if it is defined and the body's scope had no error. *)
Theorem C16_success_iff : forall tb tsched h, wf tb -> tb_success tb = Some h ->
  let t := trun MFixed tb tsched (tinit tb) in
  (forall ws, In (EBodyBegin (s_name h) ws) (log (rs t)) -> catched t = Some false) /\
  (tfinal t = true -> ~ rejected_any tb (rs t) -> catched t = Some false ->
   In (EBodyBegin (s_name h) []) (log (rs t))).
Proof.
  intros tb tsched h W E. split.
  - intros ws. exact (success_only_if tb tsched W h ws E).
  - exact (success_if tb tsched W h E).
Qed.
Print Assumptions C16_success_iff.

Theorem C16_fail_iff : forall tb tsched h, wf tb -> tb_fail tb = Some h ->
  let t := trun MFixed tb tsched (tinit tb) in
  (forall ws, In (EBodyBegin (s_name h) ws) (log (rs t)) -> catched t = Some true) /\
  (tfinal t = true -> ~ rejected_any tb (rs t) -> catched t = Some true ->
   In (EBodyBegin (s_name h) []) (log (rs t))).
Proof.
  intros tb tsched h W E. split.
  - intros ws. exact (fail_only_if tb tsched W h ws E).
  - exact (fail_if tb tsched W h E).
Qed.
Print Assumptions C16_fail_iff.

Theorem C16_finally_always : forall tb tsched h e, wf tb -> tb_finally tb = Some h ->
  let t := trun MFixed tb tsched (tinit tb) in
  tfinal t = true -> ~ rejected_any tb (rs t) -> catched t = Some e ->
  In (EBodyBegin (s_name h) []) (log (rs t)).
Proof. intros tb tsched h e W E. exact (finally_always tb tsched W h e E). Qed.
Print Assumptions C16_finally_always.

(** Every handler's body begins after the body task finished (position in the log; the log is
    newest-first).  PARTIAL with respect to "and of every task the body spawned": the model makes
    pip:run synchronous (the spawner's command ends only after the spawned task finished, phase
    PSpawned) unless the spawned task is an orphan (created when its context was already done);
    that no orphan arises in the fresh separated context needs a one-active-task-per-context
    invariant that is not proved here.  The harness checks the full statement on every run. *)
Theorem C16_after_body_partial : forall tb tsched a h c ws b, wf tb ->
  In (h, c) (hpairs tb) ->
  log (rs (trun MFixed tb tsched (tinit tb))) = a ++ EBodyBegin (s_name h) ws :: b ->
  exists ok, In (EFinished (nb tb) ok) b.
Proof. intros tb tsched a h c ws b W. exact (after_body tb tsched W a h c ws b). Qed.
Print Assumptions C16_after_body_partial.

(** Containment.  In a final state the surrounding context has an error only if a handler
    submission was rejected or a task finished failed in the scope of a registered handler; the
    body task runs in the separated context and no task at all runs in the surrounding context,
    so the body's failure never reaches it; a rejected handler submission does mark it.
    PARTIAL: the converse "a handler that finished failed marks the surrounding scope" is checked
    by the harness only (the model forwards the handler scope's error in [TCollect]; the invariant
    tying the final report to the handlers' own outcome is not proved). *)
Theorem C16_containment_partial : forall tb tsched, wf tb ->
  let t := trun MFixed tb tsched (tinit tb) in
  (tfinal t = true -> ctx_failed (tb_par tb) (rs t) = true ->
   rejected_any tb (rs t) \/
   exists h c x, In (h, c) (hpairs tb) /\ registered (s_name h) (tasks (rs t)) = true
                 /\ In x (tasks (rs t)) /\ t_ctx x = c /\ t_st x = Finished false)
  /\ (tfinal t = true -> rejected_any tb (rs t) -> ctx_failed (tb_par tb) (rs t) = true)
  /\ (forall x, In x (tasks (rs t)) ->
        t_ctx x <> tb_par tb /\ (t_name x = nb tb -> t_ctx x = tb_sep tb)).
Proof.
  intros tb tsched W. split; [|split].
  - exact (containment_only_if tb tsched W).
  - exact (containment_rejected tb tsched W).
  - exact (body_separated tb tsched W).
Qed.
Print Assumptions C16_containment_partial.

(** Before b825941 (mode [MShared]: handlers directly on the surrounding scope) a failing success
    handler cancelled the finally handler: it was started but executed none of its commands. *)
Theorem C16_handler_cancel_refuted :
  let t := trun MShared cancel_tb cancel_sched (tinit cancel_tb) in
  tfinal t = true
  /\ In (EBodyBegin 2%N []) (log (rs t))
  /\ (forall i, ~ In (ECmdBegin 2%N i) (log (rs t)))
  /\ map (fun x => (t_name x, t_st x)) (tasks (rs t))
     = [(1%N, Finished true); (2%N, Finished false); (3%N, Finished false)].
Proof. exact handler_cancel_refuted. Qed.
Print Assumptions C16_handler_cancel_refuted.

Theorem C16_handler_cancel_fixed :
  let t := trun MFixed cancel_tb cancel_sched (tinit cancel_tb) in
  tfinal t = true
  /\ In (ECmdEnd 2%N 1 true) (log (rs t))
  /\ map (fun x => (t_name x, t_st x)) (tasks (rs t))
     = [(1%N, Finished true); (2%N, Finished true); (3%N, Finished false)]
  /\ ctx_failed 1%N (rs t) = true.
Proof. exact handler_cancel_fixed. Qed.
Print Assumptions C16_handler_cancel_fixed.

(** 3f81e38: the try block fails the surrounding context only in its last step: whenever the
    surrounding context has an error the goroutine is done and every started handler has finished ... *)
Theorem C16_surrounding_fails_last : forall tb tsched, wf tb ->
  let t := trun MFixed tb tsched (tinit tb) in
  ctx_failed (tb_par tb) (rs t) = true ->
  pc t = TDone /\
  forall h c, In (h, c) (hpairs tb) -> registered (s_name h) (tasks (rs t)) = true ->
              exists x ok, find_task (s_name h) (tasks (rs t)) = Some x /\ t_st x = Finished ok.
Proof. intros tb tsched W. exact (surrounding_fails_last tb tsched W). Qed.
Print Assumptions C16_surrounding_fails_last.

(** ... so while a handler is still running the task manager's root context is healthy: no nested
    submission of a handler is refused because of a sibling handler. *)
Theorem C16_no_refusal_while_running : forall tb tsched h c x, wf tb ->
  let t := trun MFixed tb tsched (tinit tb) in
  In (h, c) (hpairs tb) -> find_task (s_name h) (tasks (rs t)) = Some x -> is_finished (t_st x) = false ->
  ctx_failed (mroot (rs t)) (rs t) = false.
Proof. intros tb tsched h c x W. exact (handler_running_root_healthy tb tsched W h c x). Qed.
Print Assumptions C16_no_refusal_while_running.

(** On b825941 (mode [MEarly]) the error of the failed finally handler was appended right after
    its Wait: the still-running success handler's pip:run was then refused and its last command
    never ran; the same schedule on the current model accepts it. *)
Theorem C16_early_report_refuted :
  let t := trun MEarly early_tb early_sched (tinit early_tb) in
  tfinal t = true
  /\ In (ESubmitted 4%N false) (log (rs t))
  /\ ~ In (ECmdBegin 3%N 2) (log (rs t))
  /\ map (fun x => (t_name x, t_st x)) (tasks (rs t))
     = [(1%N, Finished true); (2%N, Finished false); (3%N, Finished false)].
Proof. exact early_report_refuted. Qed.
Print Assumptions C16_early_report_refuted.

Theorem C16_early_report_fixed :
  let t := trun MFixed early_tb early_sched (tinit early_tb) in
  tfinal t = true
  /\ In (ESubmitted 4%N true) (log (rs t)) /\ In (ECmdEnd 3%N 2 true) (log (rs t))
  /\ map (fun x => (t_name x, t_st x)) (tasks (rs t))
     = [(1%N, Finished true); (2%N, Finished false); (3%N, Finished true); (4%N, Finished true)]
  /\ ctx_failed 1%N (rs t) = true.
Proof. exact early_report_fixed. Qed.
Print Assumptions C16_early_report_fixed.

(** * Non-vacuity: the premises are met by a concrete run (body ok, finally + success defined,
    success fails: final, nothing rejected, catched = Some false, surrounding context failed) *)
Example C16_premises :
  wf cancel_tb /\
  let t := trun MFixed cancel_tb cancel_sched (tinit cancel_tb) in
  tfinal t = true /\ catched t = Some false /\ pc t = TDone /\ hold t = false
  /\ In (EBodyBegin 3%N []) (log (rs t)) /\ ctx_failed (tb_par cancel_tb) (rs t) = true.
Proof.
  split; [exact cancel_wf|]. vm_compute. repeat split; try reflexivity.
  repeat (first [left; reflexivity | right]).
Qed.

(** ... and no submission at all was rejected in that run (so [~ rejected_any] holds). *)
Example C16_not_rejected :
  forallb (fun e => match e with ESubmitted _ false => false | _ => true end)
          (log (rs (trun MFixed cancel_tb cancel_sched (tinit cancel_tb)))) = true.
Proof. vm_compute. reflexivity. Qed.


(** * Proof audit (Proofs/C16More.v).  The theorems below close the gaps named above.  Besides
    [wf tb] they assume [fresh tb]: the separated context and the contexts of the defined handlers
    are pairwise distinct and differ from the surrounding one (scope.New; all recorded cases use
    1, 50, 51, 52, 53).  Their core is the call-stack discipline of the synchronous pip:run: in a
    fresh context at most one task is live, so a context is failed only by its own live task, no
    orphan (task created in a context that is already done) arises, and nothing is cancelled from
    outside.  [desc s r x]: task [x] is [r] or was spawned, transitively, by [r]. *)

(** A handler submission is never rejected: the premise [~ rejected_any] of C16_success_iff,
    C16_fail_iff, C16_finally_always is void and the first disjunct of C16_containment_partial
    never applies. *)
Theorem C16_never_rejected : forall tb tsched, wf tb -> fresh tb ->
  ~ rejected_any tb (rs (trun MFixed tb tsched (tinit tb))).
Proof. exact never_rejected. Qed.
Print Assumptions C16_never_rejected.

(** What the goroutine read from the separated scope IS the outcome of the body task; in a final
    state in which the body was accepted it has been read. *)
Theorem C16_body_outcome : forall tb tsched, wf tb -> fresh tb ->
  let t := trun MFixed tb tsched (tinit tb) in
  (forall e, catched t = Some e -> exists x, T (rs t) (nb tb) x /\ t_st x = Finished (negb e))
  /\ (forall x ok, tfinal t = true -> T (rs t) (nb tb) x -> t_st x = Finished ok -> catched t = Some (negb ok)).
Proof.
  intros tb tsched W F. split.
  - exact (catched_outcome tb tsched W F).
  - intros x ok. exact (final_catched tb tsched W F x ok).
Qed.
Print Assumptions C16_body_outcome.

(** Supersedes C16_success_iff / C16_fail_iff / C16_finally_always in final states: no premise about
    rejected submissions, and the guard is the outcome of the body TASK: finally has begun; success
    has begun iff the body finished without error; fail has begun iff it finished with an error. *)
Theorem C16_handlers_final : forall tb tsched x ok, wf tb -> fresh tb ->
  let t := trun MFixed tb tsched (tinit tb) in
  tfinal t = true -> T (rs t) (nb tb) x -> t_st x = Finished ok ->
  (forall h, tb_finally tb = Some h -> In (EBodyBegin (s_name h) []) (log (rs t)))
  /\ (forall h, tb_success tb = Some h -> (In (EBodyBegin (s_name h) []) (log (rs t)) <-> ok = true))
  /\ (forall h, tb_fail tb = Some h -> (In (EBodyBegin (s_name h) []) (log (rs t)) <-> ok = false)).
Proof. intros tb tsched x ok W F. exact (handlers_final tb tsched W F x ok). Qed.
Print Assumptions C16_handlers_final.

(** Supersedes C16_after_body_partial: every handler's body begins after the body task AND every
    task it spawned, transitively, have finished (position in the newest-first log). *)
Theorem C16_after_body_spawned : forall tb tsched a h c ws b, wf tb -> fresh tb ->
  let t := trun MFixed tb tsched (tinit tb) in
  In (h, c) (hpairs tb) -> log (rs t) = a ++ EBodyBegin (s_name h) ws :: b ->
  forall x, desc (rs t) (nb tb) x -> exists ok, In (EFinished (t_name x) ok) b.
Proof. intros tb tsched a h c ws b W F. exact (after_body_spawned tb tsched W F a h c ws b). Qed.
Print Assumptions C16_after_body_spawned.

(** The tasks of the separated context are exactly the body task and its descendants, and no task
    of the try system is an orphan. *)
Theorem C16_separated_is_spawned : forall tb tsched x, wf tb -> fresh tb ->
  let t := trun MFixed tb tsched (tinit tb) in
  In x (tasks (rs t)) -> (t_ctx x = tb_sep tb <-> desc (rs t) (nb tb) x) /\ t_orphan x = false.
Proof.
  intros tb tsched x W F t Hx. split; [exact (sep_is_spawned tb tsched W F x Hx) | exact (no_orphan tb tsched W F x Hx)].
Qed.
Print Assumptions C16_separated_is_spawned.

(** Supersedes the first two parts of C16_containment_partial, with the converse: in a final state
    the surrounding context is failed iff some handler task finished failed (iff the scope of a
    started handler has an error) - whatever the body did. *)
Theorem C16_containment_iff : forall tb tsched, wf tb -> fresh tb ->
  let t := trun MFixed tb tsched (tinit tb) in
  tfinal t = true ->
  (ctx_failed (tb_par tb) (rs t) = true <->
   exists h c x, In (h, c) (hpairs tb) /\ T (rs t) (s_name h) x /\ t_st x = Finished false)
  /\ (ctx_failed (tb_par tb) (rs t) = true <->
      exists h c, In (h, c) (hpairs tb) /\ registered (s_name h) (tasks (rs t)) = true /\ ctx_failed c (rs t) = true).
Proof.
  intros tb tsched W F t Hfin. split; [exact (containment_iff tb tsched W F Hfin) | exact (containment_scope_iff tb tsched W F Hfin)].
Qed.
Print Assumptions C16_containment_iff.

(** begins => runs.  A handler task that closes carries the submitted script and has executed ALL
    its commands, unless one of its own commands failed: a failing command, or a pip:run whose
    submission was rejected or whose task finished failed ([OwnFail]: the commands before it ended
    well).  It is never cut short by the body, by the other handler or by the surrounding scope. *)
Theorem C16_handler_runs : forall tb tsched h c x, wf tb -> fresh tb ->
  let t := trun MFixed tb tsched (tinit tb) in
  In (h, c) (hpairs tb) -> T (rs t) (s_name h) x -> (t_st x = Closing \/ exists ok, t_st x = Finished ok) ->
  t_body x = s_body h /\ (Completed (rs t) (s_name h) x \/ OwnFail (rs t) (s_name h) x).
Proof. intros tb tsched h c x W F. exact (handler_runs tb tsched W F h c x). Qed.
Print Assumptions C16_handler_runs.

(** The same for every task of the try system (body, nested tasks, handlers), and in the log: a
    command that ended with an error is never a plain succeeding command, and the read-execute loop
    of no task ever sees its context done (the abort step is never enabled). *)
Theorem C16_nothing_cancelled : forall tb tsched, wf tb -> fresh tb ->
  let t := trun MFixed tb tsched (tinit tb) in
  (forall n x, T (rs t) n x -> (t_st x = Closing \/ exists ok, t_st x = Finished ok) -> outcome (rs t) n x)
  /\ (forall n x i, T (rs t) n x -> In (ECmdEnd n i false) (log (rs t)) -> nth_error (t_body x) i <> Some COk)
  /\ (forall n, step false (LAbort n) (rs t) = None).
Proof.
  intros tb tsched W F. split; [|split].
  - exact (task_runs tb tsched W F).
  - exact (no_cancel tb tsched W F).
  - exact (no_abort tb tsched W F).
Qed.
Print Assumptions C16_nothing_cancelled.

(** Progress and termination (bodies whose nested submissions have no wait lists, cf.
    C14_nested_wait_deadlock): a reachable state that is not final has an enabled step, and every
    executed step decreases [tmeasure]; so every maximal run ends in a final state after at most
    [tmeasure tb (tinit tb)] steps - the states the handler theorems talk about are reached. *)
Theorem C16_progress : forall tb tsched, wf tb -> fresh tb -> flat_tb tb ->
  let t := trun MFixed tb tsched (tinit tb) in
  tfinal t = false -> exists l, tstep MFixed tb l t <> None.
Proof. exact try_progress. Qed.
Print Assumptions C16_progress.

Theorem C16_steps_bounded : forall tb tsched,
  teffective tb tsched (tinit tb) + tmeasure tb (trun MFixed tb tsched (tinit tb)) <= tmeasure tb (tinit tb).
Proof. exact try_steps_bounded. Qed.
Print Assumptions C16_steps_bounded.

(** The hypothesis [fresh] carries weight: a well-formed block whose two handlers share one context
    (not the surrounding one) violates C16_handler_runs and the third part of C16_nothing_cancelled -
    the failing success handler cuts the finally handler short (it begins, executes none of its two
    commands, finishes failed; its abort step is enabled).  This is what one scope for all handlers
    would do (F37); the real handlers get a scope each. *)
Theorem C16_shared_scope_refuted :
  let t := trun MFixed shared_tb cancel_sched (tinit shared_tb) in
  wf shared_tb /\ ~ fresh shared_tb
  /\ tfinal t = true
  /\ In (EBodyBegin 2%N []) (log (rs t))
  /\ (forall i, ~ In (ECmdBegin 2%N i) (log (rs t)))
  /\ (exists x, T (rs t) 2%N x /\ t_st x = Finished false /\ length (t_body x) = 2)
  /\ step false (LAbort 2%N) (rs (trun MFixed shared_tb (firstn 15 cancel_sched) (tinit shared_tb))) <> None.
Proof. exact shared_scope_refuted. Qed.
Print Assumptions C16_shared_scope_refuted.

(** * Non-vacuity of the new theorems.  [nest_tb]: the body's nested task 10 fails, so the body
    fails; finally (2) and fail (3, which spawns 11) run, success (4) does not; the surrounding
    context stays healthy.  [cancel_tb] (above): the body succeeds, the success handler fails. *)
Example C16_audit_premises :
  wf nest_tb /\ fresh nest_tb /\ flat_tb nest_tb /\ wf cancel_tb /\ fresh cancel_tb.
Proof. exact (conj nest_wf (conj nest_fresh (conj nest_flat (conj cancel_wf cancel_fresh)))). Qed.

Example C16_nest_run :
  let t := trun MFixed nest_tb nest_sched (tinit nest_tb) in
  tfinal t = true /\ catched t = Some true /\ ctx_failed (tb_par nest_tb) (rs t) = false
  /\ map (fun x => (t_name x, t_st x, t_ctx x, t_parent x)) (tasks (rs t))
     = [(1%N, Finished false, 50%N, None); (10%N, Finished false, 50%N, Some 1%N);
        (2%N, Finished true, 51%N, None); (3%N, Finished true, 52%N, None); (11%N, Finished true, 52%N, Some 3%N)]
  /\ In (EBodyBegin 2%N []) (log (rs t)) /\ In (EBodyBegin 3%N []) (log (rs t)) /\ ~ In (EBodyBegin 4%N []) (log (rs t))
  /\ teffective nest_tb nest_sched (tinit nest_tb) = 39 /\ tmeasure nest_tb (tinit nest_tb) = 58.
Proof.
  vm_compute. repeat split; try reflexivity; try (repeat (first [left; reflexivity | right])).
  intro H. repeat (destruct H as [H|H]; [discriminate|]). exact H.
Qed.

(** The nested task 10 is a descendant of the body in that run (premise of C16_after_body_spawned). *)
Example C16_nest_desc :
  exists x, desc (rs (trun MFixed nest_tb nest_sched (tinit nest_tb))) (nb nest_tb) x /\ t_name x = 10%N.
Proof.
  eexists. split.
  - eapply (desc_child _ _ 10%N _ 1%N); [vm_compute; reflexivity | reflexivity | vm_compute; reflexivity |].
    apply desc_root. vm_compute. reflexivity.
  - reflexivity.
Qed.

(** A handler that finished failed, surrounding context failed (right-hand side of C16_containment_iff
    and the [OwnFail] case of C16_handler_runs): the success handler 3 of [cancel_tb]. *)
Example C16_cancel_run :
  let t := trun MFixed cancel_tb cancel_sched (tinit cancel_tb) in
  tfinal t = true /\ ctx_failed (tb_par cancel_tb) (rs t) = true
  /\ (exists x, T (rs t) 3%N x /\ t_st x = Finished false /\ nth_error (t_body x) 0 = Some CFail)
  /\ In (ECmdEnd 3%N 0 false) (log (rs t))
  /\ (exists x, T (rs t) 1%N x /\ t_st x = Finished true).
Proof.
  vm_compute. repeat split; try reflexivity.
  - eexists. repeat split; reflexivity.
  - repeat (first [left; reflexivity | right]).
  - eexists. repeat split; reflexivity.
Qed.

(** A reachable state that is not final (premise of C16_progress). *)
Example C16_not_final : tfinal (trun MFixed nest_tb [TLTry; TLTask 1%N] (tinit nest_tb)) = false.
Proof. vm_compute. reflexivity. Qed.
